#![feature(allocator_api)]
#![allow(unused)]
use vstd::prelude::*;
use std::sync::Arc;
verus! {

// ---------- std model (trusted contracts) ----------
pub assume_specification<T, E, U, D: FnOnce(E) -> U, F: FnOnce(T) -> U>[ std::result::Result::<T, E>::map_or_else ](self_: std::result::Result<T, E>, default: D, f: F) -> (r: U)
    requires match self_ { Ok(t) => f.requires((t,)), Err(e) => default.requires((e,)) }
    ensures match self_ { Ok(t) => f.ensures((t,), r), Err(e) => default.ensures((e,), r) };
pub assume_specification<T, E, F: FnOnce(E) -> T>[ std::result::Result::<T, E>::unwrap_or_else ](self_: std::result::Result<T, E>, f: F) -> (r: T)
    requires self_ is Err ==> f.requires((self_->Err_0,))
    ensures match self_ { Ok(t) => r == t, Err(e) => f.ensures((e,), r) };
pub assume_specification<T, E, U, F: FnOnce(T) -> std::result::Result<U, E>>[ std::result::Result::<T, E>::and_then ](self_: std::result::Result<T, E>, f: F) -> (r: std::result::Result<U, E>)
    requires self_ is Ok ==> f.requires((self_->Ok_0,))
    ensures match self_ { Ok(t) => f.ensures((t,), r), Err(e) => r == Err::<U, E>(e) };
pub assume_specification<T: Clone, E>[ std::result::Result::<&T, E>::cloned ](self_: std::result::Result<&T, E>) -> (r: std::result::Result<T, E>)
    ensures match self_ { Ok(t) => r is Ok, Err(e) => r == Err::<T, E>(e) };
pub assume_specification<T: ?Sized, A: core::alloc::Allocator>[ <Arc<T, A> as AsRef<T>>::as_ref ](a: &Arc<T, A>) -> (r: &T);

#[verifier::external_body] pub struct SmolStr { _p: u8 }
#[verifier::external_body] #[verifier::reject_recursive_types(K)] #[verifier::accept_recursive_types(V)]
pub struct BTreeMap<K, V> { _k: std::marker::PhantomData<K>, _v: std::marker::PhantomData<V> }
#[verifier::external_body] #[verifier::reject_recursive_types(K)] #[verifier::accept_recursive_types(V)]
pub struct HashMap<K, V> { _k: std::marker::PhantomData<K>, _v: std::marker::PhantomData<V> }
impl<K, V> BTreeMap<K, V> {
    pub uninterp spec fn view(&self) -> Map<K, V>;
    #[verifier::external_body] pub fn get(&self, k: &K) -> (r: Option<&V>) ensures r == (if self.view().contains_key(*k) { Some(&self.view()[*k]) } else { None }) { unimplemented!() }
    #[verifier::external_body] pub fn contains_key(&self, k: &K) -> (r: bool) ensures r == self.view().contains_key(*k) { unimplemented!() }
    #[verifier::external_body] pub fn len(&self) -> usize { unimplemented!() }
    #[verifier::external_body] pub fn keys(&self) -> std::vec::IntoIter<&K> { unimplemented!() }
    #[verifier::external_body] pub fn iter(&self) -> VxIter<(&K, &V)> { unimplemented!() }
}
#[verifier::external_body] #[verifier::reject_recursive_types(K)] pub struct Keys<K> { _k: std::marker::PhantomData<K> }
#[verifier::external_body] #[verifier::reject_recursive_types(K)] #[verifier::reject_recursive_types(V)] pub struct MapIter<K, V> { _k: std::marker::PhantomData<K>, _v: std::marker::PhantomData<V> }
impl<K, V> HashMap<K, V> {
    pub uninterp spec fn view(&self) -> Map<K, V>;
    #[verifier::external_body] pub fn get(&self, k: &K) -> (r: Option<&V>) ensures r == (if self.view().contains_key(*k) { Some(&self.view()[*k]) } else { None }) { unimplemented!() }
}
impl Clone for SmolStr { #[verifier::external_body] fn clone(&self) -> (r: Self) ensures r == *self { unimplemented!() } }

// ---------- opaque cedar types ----------
#[verifier::external_body] pub struct Loc { _p: u8 }
impl Clone for Loc { #[verifier::external_body] fn clone(&self) -> (r: Self) ensures r == *self { unimplemented!() } }
#[verifier::external_body] pub struct EntityUID { _p: u8 }
#[verifier::external_body] pub struct EntityType { _p: u8 }
#[verifier::external_body] pub struct Name { _p: u8 }
#[verifier::external_body] pub struct Pattern { _p: u8 }
#[verifier::external_body] pub struct Entity { _p: u8 }
#[verifier::external_body] pub struct Entities { _p: u8 }
#[verifier::external_body] pub struct Extensions { _p: u8 }
#[verifier::external_body] pub struct ExtRepr { _p: u8 }
#[verifier::external_body] pub struct Set { _p: u8 }
#[verifier::external_body] pub struct SlotId { _p: u8 }
pub struct TypeError { pub advice: Option<String>, pub rest: u8 }
pub type Integer = i64;
pub type SlotEnv = HashMap<SlotId, EntityUID>;

#[derive(Clone, Copy, PartialEq, Eq)] pub enum UnaryOp { Not, Neg, IsEmpty }
#[derive(Clone, Copy, PartialEq, Eq)] pub enum BinaryOp { Eq, Less, LessEq, Add, Sub, Mul, In, Contains, ContainsAll, ContainsAny, GetTag, HasTag }
#[derive(Clone, Copy, PartialEq, Eq)] pub enum Var { Principal, Action, Resource, Context }
pub enum Type { Bool, Long, String, Set, Record, Entity { ty: EntityType }, Extension { name: Name } }
pub struct Unknown { pub name: SmolStr, pub type_annotation: Option<Type> }

pub enum Literal { Bool(bool), Long(Integer), String(SmolStr), EntityUID(Arc<EntityUID>) }
pub enum ValueKind { Lit(Literal), Set(Set), Record(Arc<BTreeMap<SmolStr, Value>>), ExtensionValue(Arc<ExtRepr>) }
pub struct Value { pub value: ValueKind, pub loc: Option<Loc> }
pub struct Expr { pub expr_kind: ExprKind, pub source_loc: Option<Loc>, pub data: () }
pub enum ExprKind {
    Lit(Literal), Var(Var), Slot(SlotId), Unknown(Unknown),
    If { test_expr: Arc<Expr>, then_expr: Arc<Expr>, else_expr: Arc<Expr> },
    And { left: Arc<Expr>, right: Arc<Expr> },
    Or { left: Arc<Expr>, right: Arc<Expr> },
    UnaryApp { op: UnaryOp, arg: Arc<Expr> },
    BinaryApp { op: BinaryOp, arg1: Arc<Expr>, arg2: Arc<Expr> },
    ExtensionFunctionApp { fn_name: Name, args: Arc<Vec<Expr>> },
    GetAttr { expr: Arc<Expr>, attr: SmolStr },
    HasAttr { expr: Arc<Expr>, attr: SmolStr },
    Like { expr: Arc<Expr>, pattern: Pattern },
    Is { expr: Arc<Expr>, entity_type: EntityType },
    Set(Arc<Vec<Expr>>),
    Record(Arc<BTreeMap<SmolStr, Expr>>),
}
pub enum PartialValue { Value(Value), Residual(Expr) }
pub enum Dereference<'a, T> { NoSuchEntity, Residual(Expr), Data(&'a T) }
pub enum EntityUIDEntry { Known { euid: Arc<EntityUID>, loc: Option<Loc> }, Unknown { ty: Option<EntityType>, loc: Option<Loc> } }

pub enum EvaluationError { TypeError(TypeError), Other }
pub type Result<T> = std::result::Result<T, EvaluationError>;

pub struct Evaluator<'e> {
    principal: EntityUIDEntry, action: EntityUIDEntry, resource: EntityUIDEntry,
    context: PartialValue, entities: &'e Entities, extensions: &'e Extensions,
}
impl<'e> Evaluator<'e> {

    #[verifier::external_body]
    fn unknown_to_partialvalue(&self, u: &Unknown) -> Result<PartialValue> { unimplemented!() }
}
pub enum Either<L, R> { Left(L), Right(R) }
#[verifier::external_body] #[verifier::reject_recursive_types(T)] pub struct VxIter<T> { _t: std::marker::PhantomData<T> }
impl<T> VxIter<T> {
    pub uninterp spec fn items(&self) -> Seq<T>;
    #[verifier::external_body] pub fn map<U, F: FnMut(T) -> U>(self, f: F) -> (r: VxIter<U>) { unimplemented!() }
    #[verifier::external_body] pub fn filter_map<U, F: FnMut(T) -> Option<U>>(self, f: F) -> (r: VxIter<U>) { unimplemented!() }
    #[verifier::external_body] pub fn next(&mut self) -> (r: Option<T>) { unimplemented!() }
}
pub trait VxFromIter<U>: Sized {}
impl<T, E> VxFromIter<std::result::Result<T, E>> for std::result::Result<Vec<T>, E> {}
impl<T> VxIter<T> {
    #[verifier::external_body] pub fn collect<B: VxFromIter<T>>(self) -> (r: B) { unimplemented!() }
}
#[verifier::external_body] pub fn vx_unzip<A, B>(v: Vec<(A, B)>) -> (r: (Vec<A>, Vec<B>)) { unimplemented!() }

#[verifier::external_body]
pub fn split(i: Vec<PartialValue>) -> Either<std::vec::IntoIter<Value>, std::vec::IntoIter<Expr>> { unimplemented!() }
#[verifier::external_body] pub struct NonEmptyTypes { _p: u8 }
#[verifier::external_body] pub fn nonempty2(a: Type, b: Type) -> NonEmptyTypes { unimplemented!() }
#[verifier::external_body] pub fn unary_app(op: UnaryOp, arg: Value, loc: Option<&Loc>) -> Result<Value> { unimplemented!() }
#[verifier::external_body] pub fn binary_relation(op: BinaryOp, arg1: &Value, arg2: &Value, extensions: &Extensions) -> Result<Value> { unimplemented!() }
#[verifier::external_body] pub fn binary_arith(op: BinaryOp, arg1: Value, arg2: Value, loc: Option<&Loc>) -> Result<Value> { unimplemented!() }
pub mod names {
    use super::*;
    pub struct LazyName { pub _p: u8 }
    impl LazyName { #[verifier::external_body] pub fn clone(&self) -> Name { unimplemented!() } }
    pub exec static ANY_ENTITY_TYPE: LazyName ensures true { LazyName { _p: 0 } }
}
impl Expr {
    pub fn source_loc(&self) -> (r: Option<&Loc>) ensures r == (match self.source_loc { Some(l) => Some(&l), None => None }) { self.source_loc.as_ref() }
    pub fn expr_kind(&self) -> (r: &ExprKind) ensures *r == self.expr_kind { &self.expr_kind }
    #[verifier::external_body] pub fn and(e1: Expr, e2: Expr) -> Expr { unimplemented!() }
    #[verifier::external_body] pub fn or(e1: Expr, e2: Expr) -> Expr { unimplemented!() }
    #[verifier::external_body] pub fn val(v: impl Into<Literal>) -> Expr { unimplemented!() }
    #[verifier::external_body] pub fn val_str(v: SmolStr) -> Expr { unimplemented!() }
    #[verifier::external_body] pub fn unary_app(op: UnaryOp, e: Expr) -> Expr { unimplemented!() }
    #[verifier::external_body] pub fn binary_app(op: BinaryOp, e1: Expr, e2: Expr) -> Expr { unimplemented!() }
    #[verifier::external_body] pub fn get_tag(e1: Expr, e2: Expr) -> Expr { unimplemented!() }
    #[verifier::external_body] pub fn has_tag(e1: Expr, e2: Expr) -> Expr { unimplemented!() }
    #[verifier::external_body] pub fn call_extension_fn(n: Name, args: Vec<Expr>) -> Expr { unimplemented!() }
    #[verifier::external_body] pub fn has_attr(e: Expr, a: SmolStr) -> Expr { unimplemented!() }
    #[verifier::external_body] pub fn get_attr(e: Expr, a: SmolStr) -> Expr { unimplemented!() }
    #[verifier::external_body] pub fn like(e: Expr, p: Pattern) -> Expr { unimplemented!() }
    #[verifier::external_body] pub fn is_entity_type(e: Expr, t: EntityType) -> Expr { unimplemented!() }
    #[verifier::external_body] pub fn set(es: impl IntoIterator<Item = Expr>) -> Expr { unimplemented!() }
    #[verifier::external_body] pub fn record(es: impl IntoIterator<Item = (SmolStr, Expr)>) -> std::result::Result<Expr, DupKey> { unimplemented!() }
    #[verifier::external_body] pub fn record_arc(m: Arc<BTreeMap<SmolStr, Expr>>) -> Expr { unimplemented!() }
    #[verifier::external_body] pub fn ite_arc(a: Arc<Expr>, b: Arc<Expr>, c: Arc<Expr>) -> Expr { unimplemented!() }
    #[verifier::external_body] pub fn unknown(u: Unknown) -> Expr { unimplemented!() }
    #[verifier::external_body] pub fn is_projectable(&self) -> bool { unimplemented!() }
}
#[verifier::external_body] #[derive(Debug)] pub struct DupKey { _p: u8 }
#[verifier::external_body] #[verifier::reject_recursive_types(A)] #[verifier::reject_recursive_types(B)] pub struct VxZip<A, B> { _a: std::marker::PhantomData<A>, _b: std::marker::PhantomData<B> }
impl Clone for Expr { #[verifier::external_body] fn clone(&self) -> (r: Self) ensures r == *self { unimplemented!() } }
impl Clone for Literal { #[verifier::external_body] fn clone(&self) -> (r: Self) ensures r == *self { unimplemented!() } }
impl Clone for Name { #[verifier::external_body] fn clone(&self) -> (r: Self) ensures r == *self { unimplemented!() } }
impl Clone for Pattern { #[verifier::external_body] fn clone(&self) -> (r: Self) ensures r == *self { unimplemented!() } }
impl Clone for EntityType { #[verifier::external_body] fn clone(&self) -> (r: Self) ensures r == *self { unimplemented!() } }
impl Clone for EntityUID { #[verifier::external_body] fn clone(&self) -> (r: Self) ensures r == *self { unimplemented!() } }
impl Clone for Unknown { #[verifier::external_body] fn clone(&self) -> (r: Self) ensures r == *self { unimplemented!() } }
impl Clone for PartialValue { #[verifier::external_body] fn clone(&self) -> (r: Self) ensures r == *self { unimplemented!() } }
impl Clone for Value { #[verifier::external_body] fn clone(&self) -> (r: Self) ensures r == *self { unimplemented!() } }
impl Clone for SlotId { #[verifier::external_body] fn clone(&self) -> (r: Self) ensures r == *self { unimplemented!() } }
impl Copy for SlotId {}
impl PartialEq for EntityType { #[verifier::external_body] fn eq(&self, o: &Self) -> bool { unimplemented!() } }
impl PartialEq for EntityUID { #[verifier::external_body] fn eq(&self, o: &Self) -> bool { unimplemented!() } }
impl PartialEq for SmolStr { #[verifier::external_body] fn eq(&self, o: &Self) -> bool { unimplemented!() } }
impl PartialEq for Type { #[verifier::external_body] fn eq(&self, o: &Self) -> bool { unimplemented!() } }
impl vstd::std_specs::convert::FromSpecImpl<bool> for PartialValue {
    open spec fn obeys_from_spec() -> bool { true }
    open spec fn from_spec(v: bool) -> PartialValue { PartialValue::Value(Value { value: ValueKind::Lit(Literal::Bool(v)), loc: None }) }
}
impl From<bool> for PartialValue { #[verifier::external_body] fn from(v: bool) -> Self { unimplemented!() } }
impl From<Value> for PartialValue { #[verifier::external_body] fn from(v: Value) -> Self { unimplemented!() } }
impl From<Expr> for PartialValue { #[verifier::external_body] fn from(v: Expr) -> Self { unimplemented!() } }
impl From<Literal> for PartialValue { #[verifier::external_body] fn from(v: Literal) -> Self { unimplemented!() } }
impl From<EntityUID> for PartialValue { #[verifier::external_body] fn from(v: EntityUID) -> Self { unimplemented!() } }
impl From<PartialValue> for Expr { #[verifier::external_body] fn from(v: PartialValue) -> Self { unimplemented!() } }
impl From<Value> for Expr { #[verifier::external_body] fn from(v: Value) -> Self { unimplemented!() } }
impl Value {
    #[verifier::external_body] pub fn get_as_bool(&self) -> (r: Result<bool>)
        ensures match as_bool(self.value) { Some(b) => r == Ok::<bool, EvaluationError>(b), None => r is Err && err_class(r->Err_0) is Type }
    { unimplemented!() }
    #[verifier::external_body] pub fn get_as_set(&self) -> Result<&Set> { unimplemented!() }
    #[verifier::external_body] pub fn get_as_entity(&self) -> Result<&EntityUID> { unimplemented!() }
    #[verifier::external_body] pub fn get_as_string(&self) -> Result<&SmolStr> { unimplemented!() }
    #[verifier::external_body] pub fn get_as_entity_set(&self) -> Result<Vec<&EntityUID>> { unimplemented!() }
    pub fn value_kind(&self) -> &ValueKind { &self.value }
    #[verifier::external_body] pub fn type_of(&self) -> Type { unimplemented!() }
    pub fn source_loc(&self) -> Option<&Loc> { self.loc.as_ref() }
    #[verifier::external_body] pub fn set(vals: impl IntoIterator<Item = Value>, loc: Option<Loc>) -> Value { unimplemented!() }
    #[verifier::external_body] pub fn record(pairs: impl IntoIterator<Item = (SmolStr, Value)>, loc: Option<Loc>) -> Value { unimplemented!() }
}
impl Set {
    #[verifier::external_body] pub fn contains(&self, v: &Value) -> bool { unimplemented!() }
    #[verifier::external_body] pub fn is_subset(&self, o: &Set) -> bool { unimplemented!() }
    #[verifier::external_body] pub fn is_disjoint(&self, o: &Set) -> bool { unimplemented!() }
}
impl Entities { #[verifier::external_body] pub fn entity(&self, uid: &EntityUID) -> Dereference<'_, Entity> { unimplemented!() } }
impl Entity {
    #[verifier::external_body] pub fn is_descendant_of(&self, u: &EntityUID) -> bool { unimplemented!() }
    #[verifier::external_body] pub fn get_tag(&self, t: &SmolStr) -> Option<&PartialValue> { unimplemented!() }
    #[verifier::external_body] pub fn get(&self, t: &SmolStr) -> Option<&PartialValue> { unimplemented!() }
    #[verifier::external_body] pub fn tag_keys(&self) -> std::vec::IntoIter<&SmolStr> { unimplemented!() }
    #[verifier::external_body] pub fn keys(&self) -> std::vec::IntoIter<&SmolStr> { unimplemented!() }
    #[verifier::external_body] pub fn tags_len(&self) -> usize { unimplemented!() }
    #[verifier::external_body] pub fn attrs_len(&self) -> usize { unimplemented!() }
}
impl EntityUID { #[verifier::external_body] pub fn entity_type(&self) -> &EntityType { unimplemented!() } }
impl EntityUIDEntry { #[verifier::external_body] pub fn evaluate(&self, v: Var) -> PartialValue { unimplemented!() } }
impl Type { #[verifier::external_body] pub fn entity_type(n: Name) -> Type { unimplemented!() } }
impl Pattern { #[verifier::external_body] pub fn wildcard_match(&self, t: &SmolStr) -> bool { unimplemented!() } }
#[verifier::external_body] pub struct ExtFunc { _p: u8 }
impl ExtFunc { #[verifier::external_body] pub fn call(&self, args: &Vec<Value>) -> Result<PartialValue> { unimplemented!() } }
impl Extensions { #[verifier::external_body] pub fn func(&self, n: &Name) -> Result<&ExtFunc> { unimplemented!() } }
impl EvaluationError {
    #[verifier::external_body] pub fn unlinked_slot(s: SlotId, l: Option<Loc>) -> Self { unimplemented!() }
    #[verifier::external_body] pub fn type_error(t: NonEmptyTypes, v: &Value) -> Self { unimplemented!() }
    #[verifier::external_body] pub fn type_error_single(t: Type, v: &Value) -> Self { unimplemented!() }
    #[verifier::external_body] pub fn record_attr_does_not_exist(a: SmolStr, k: std::vec::IntoIter<&SmolStr>, n: usize, l: Option<Loc>) -> Self { unimplemented!() }
    #[verifier::external_body] pub fn entity_does_not_exist(u: Arc<EntityUID>, l: Option<Loc>) -> Self { unimplemented!() }
    #[verifier::external_body] pub fn entity_tag_does_not_exist(u: Arc<EntityUID>, t: SmolStr, k: std::vec::IntoIter<&SmolStr>, b: bool, n: usize, l: Option<Loc>) -> Self { unimplemented!() }
    #[verifier::external_body] pub fn entity_attr_does_not_exist(u: Arc<EntityUID>, t: SmolStr, k: std::vec::IntoIter<&SmolStr>, b: bool, n: usize, l: Option<Loc>) -> Self { unimplemented!() }
}

impl From<bool> for Literal { #[verifier::external_body] fn from(v: bool) -> Self { unimplemented!() } }
impl From<SmolStr> for Literal { #[verifier::external_body] fn from(v: SmolStr) -> Self { unimplemented!() } }
// ---------- spec: expression semantics (prototype: And / Or / If only) ----------
pub enum ErrClass { Type, NoEntity, NoAttr, Overflow, Ext, Other }
pub enum Res { Unk, Err(ErrClass), Ok(ValueKind) }
pub uninterp spec fn err_class(e: EvaluationError) -> ErrClass;
pub uninterp spec fn sem_other(ev: Evaluator, slots: SlotEnv, e: Expr) -> Res;
pub open spec fn as_bool(v: ValueKind) -> Option<bool> { match v { ValueKind::Lit(Literal::Bool(b)) => Some(b), _ => None } }
pub open spec fn bool_v(b: bool) -> ValueKind { ValueKind::Lit(Literal::Bool(b)) }
pub open spec fn want_bool(r: Res) -> Res {
    match r { Res::Ok(v) => match as_bool(v) { Some(b) => Res::Ok(bool_v(b)), None => Res::Err(ErrClass::Type) }, _ => r }
}
pub open spec fn sem(ev: Evaluator, slots: SlotEnv, e: Expr) -> Res
    decreases e
{
    match e.expr_kind {
        ExprKind::And { left, right } => match want_bool(sem(ev, slots, *left)) {
            Res::Ok(v) => if as_bool(v) == Some(false) { Res::Ok(bool_v(false)) } else { want_bool(sem(ev, slots, *right)) },
            r => r,
        },
        ExprKind::Or { left, right } => match want_bool(sem(ev, slots, *left)) {
            Res::Ok(v) => if as_bool(v) == Some(true) { Res::Ok(bool_v(true)) } else { want_bool(sem(ev, slots, *right)) },
            r => r,
        },
        ExprKind::If { test_expr, then_expr, else_expr } => match want_bool(sem(ev, slots, *test_expr)) {
            Res::Ok(v) => if as_bool(v) == Some(true) { sem(ev, slots, *then_expr) } else { sem(ev, slots, *else_expr) },
            r => r,
        },
        _ => Res::Unk,
    }
}
pub uninterp spec fn is_limit(e: EvaluationError) -> bool;
pub open spec fn agrees(r: Result<PartialValue>, s: Res) -> bool {
    (r is Err && is_limit(r->Err_0)) || match s {
        Res::Unk => true,
        Res::Err(c) => r is Err && err_class(r->Err_0) == c,
        Res::Ok(v) => r is Ok && r->Ok_0 is Value && r->Ok_0->Value_0.value == v,
    }
}

#[verifier::external_body] pub fn stack_size_check() -> (r: Result<()>) ensures r is Err ==> is_limit(r->Err_0) { unimplemented!() }
impl PartialValue {
    #[verifier::external_body] pub fn with_maybe_source_loc(self, l: Option<Loc>) -> (r: PartialValue)
        ensures self is Value <==> r is Value, self is Value ==> r->Value_0.value == self->Value_0.value { unimplemented!() }
}
impl EvaluationError {
    #[verifier::external_body] pub fn with_maybe_source_loc(self, l: Option<Loc>) -> (r: EvaluationError)
        ensures err_class(r) == err_class(self), is_limit(r) == is_limit(self) { unimplemented!() }
    #[verifier::external_body] pub fn source_loc(&self) -> Option<&Loc> { unimplemented!() }
}
impl<'e> Evaluator<'e> {
    #[verifier::exec_allows_no_decreases_clause]
    pub fn partial_interpret(&self, expr: &Expr, slots: &SlotEnv) -> (r: Result<PartialValue>)
        ensures agrees(r, sem(*self, *slots, *expr))
    {
        stack_size_check()?;

        let res = self.partial_interpret_internal(expr, slots);
        res.map(|pval: PartialValue| -> (r: PartialValue) ensures pval is Value <==> r is Value, pval is Value ==> r->Value_0.value == pval->Value_0.value { pval.with_maybe_source_loc(expr.source_loc().cloned()) })
            .map_err(|err: EvaluationError| -> (r: EvaluationError) ensures err_class(r) == err_class(err), is_limit(r) == is_limit(err) {
                if err.source_loc().is_none() {
                    err.with_maybe_source_loc(expr.source_loc().cloned())
                } else {
                    err
                }
            })
    }
}

impl<'e> Evaluator<'e> {
    #[verifier::exec_allows_no_decreases_clause]
    fn partial_interpret_internal(&self, expr: &Expr, slots: &SlotEnv) -> (r: Result<PartialValue>)
    ensures agrees(r, sem(*self, *slots, *expr))
{
        let loc = expr.source_loc(); // the `loc` describing the location of the entire expression
        match expr.expr_kind() {
            ExprKind::Lit(lit) => Ok(lit.clone().into()),
            ExprKind::Slot(id) => slots
                .get(id)
                .ok_or_else(|| EvaluationError::unlinked_slot(*id, loc.cloned()))
                .map(|euid| PartialValue::from(euid.clone())),
            ExprKind::Var(v) => match v {
                Var::Principal => Ok(self.principal.evaluate(*v)),
                Var::Action => Ok(self.action.evaluate(*v)),
                Var::Resource => Ok(self.resource.evaluate(*v)),
                Var::Context => Ok(self.context.clone()),
            },
            ExprKind::Unknown(u) => self.unknown_to_partialvalue(u),
            ExprKind::If {
                test_expr,
                then_expr,
                else_expr,
            } => self.eval_if(test_expr, then_expr, else_expr, slots),
            ExprKind::And { left, right } => {
                match self.partial_interpret(left, slots)? {
                    PartialValue::Residual(e) => Ok(PartialValue::Residual(Expr::and(
                        e,
                        self.partial_interpret(right, slots)
                            .map_or_else(|_vx| right.as_ref().clone(), Into::into),
                    ))),
                    PartialValue::Value(v) => {
                        if v.get_as_bool()? {
                            match self.partial_interpret(right, slots)? {
                                PartialValue::Residual(right) => {
                                    Ok(PartialValue::Residual(Expr::and(Expr::val(true), right)))
                                }
                                PartialValue::Value(v) => Ok(v.get_as_bool()?.into()),
                            }
                        } else {
                            Ok(false.into())
                        }
                    }
                }
            }
            ExprKind::Or { left, right } => {
                match self.partial_interpret(left, slots)? {
                    PartialValue::Residual(r) => Ok(PartialValue::Residual(Expr::or(
                        r,
                        self.partial_interpret(right, slots)
                            .map_or_else(|_vx| right.as_ref().clone(), Into::into),
                    ))),
                    PartialValue::Value(lhs) => {
                        if lhs.get_as_bool()? {
                            Ok(true.into())
                        } else {
                            match self.partial_interpret(right, slots)? {
                                PartialValue::Residual(rhs) =>
                                {
                                    Ok(PartialValue::Residual(Expr::or(Expr::val(false), rhs)))
                                }
                                PartialValue::Value(v) => Ok(v.get_as_bool()?.into()),
                            }
                        }
                    }
                }
            }
            ExprKind::UnaryApp { op, arg } => match self.partial_interpret(arg, slots)? {
                PartialValue::Value(arg) => unary_app(*op, arg, loc).map(Into::into),
                PartialValue::Residual(r) => Ok(PartialValue::Residual(Expr::unary_app(*op, r))),
            },
            ExprKind::BinaryApp { op, arg1, arg2 } => {
                let (arg1, arg2) = match (
                    self.partial_interpret(arg1, slots)?,
                    self.partial_interpret(arg2, slots)?,
                ) {
                    (PartialValue::Value(v1), PartialValue::Value(v2)) => (v1, v2),
                    (PartialValue::Value(v1), PartialValue::Residual(e2)) => {
                        if let Some(val) = self.short_circuit_value_and_residual(&v1, &e2, *op) {
                            return Ok(val);
                        }
                        return Ok(PartialValue::Residual(Expr::binary_app(*op, v1.into(), e2)));
                    }
                    (PartialValue::Residual(e1), PartialValue::Value(v2)) => {
                        if let Some(val) = self.short_circuit_residual_and_value(&e1, &v2, *op) {
                            return Ok(val);
                        }
                        return Ok(PartialValue::Residual(Expr::binary_app(*op, e1, v2.into())));
                    }
                    (PartialValue::Residual(e1), PartialValue::Residual(e2)) => {
                        if let Some(val) = self.short_circuit_two_typed_residuals(&e1, &e2, *op) {
                            return Ok(val);
                        }
                        return Ok(PartialValue::Residual(Expr::binary_app(*op, e1, e2)));
                    }
                };
                match op {
                    BinaryOp::Eq | BinaryOp::Less | BinaryOp::LessEq => {
                        binary_relation(*op, &arg1, &arg2, self.extensions).map(Into::into)
                    }
                    BinaryOp::Add | BinaryOp::Sub | BinaryOp::Mul => {
                        binary_arith(*op, arg1, arg2, loc).map(Into::into)
                    }
                    BinaryOp::In => {
                        let uid1 = arg1.get_as_entity().map_err(|mut e|
                            {
                                if let EvaluationError::TypeError(TypeError { advice, .. }) = &mut e {
                                    match arg2.type_of() {
                                        Type::Set => *advice = Some("`in` is for checking the entity hierarchy; use `.contains()` to test set membership".into()),
                                        Type::Record => *advice = Some("`in` is for checking the entity hierarchy; use `has` to test if a record has a key".into()),
                                        _ => {}
                                    }
                                };
                                e
                            })?;
                        match self.entities.entity(uid1) {
                            Dereference::Residual(r) => Ok(PartialValue::Residual(
                                Expr::binary_app(BinaryOp::In, r, arg2.into()),
                            )),
                            Dereference::NoSuchEntity => self.eval_in(uid1, None, &arg2),
                            Dereference::Data(entity1) => self.eval_in(uid1, Some(entity1), &arg2),
                        }
                    }
                    BinaryOp::Contains => {
                        if let Ok(s) = arg1.get_as_set() {
                            Ok(s.contains(&arg2).into())
                        } else {
                            Err(EvaluationError::type_error_single(Type::Set, &arg1))
                        }
                    }
                    BinaryOp::ContainsAll => {
                        let arg1_set = arg1.get_as_set()?;
                        let arg2_set = arg2.get_as_set()?;

                        Ok((arg2_set.is_subset(arg1_set)).into())
                    }
                    BinaryOp::ContainsAny => {
                        let arg1_set = arg1.get_as_set()?;
                        let arg2_set = arg2.get_as_set()?;
                        Ok((!arg1_set.is_disjoint(arg2_set)).into())
                    }
                    BinaryOp::GetTag | BinaryOp::HasTag => {
                        let uid = arg1.get_as_entity()?;
                        let tag = arg2.get_as_string()?;
                        match op {
                            BinaryOp::GetTag => {
                                match self.entities.entity(uid) {
                                    Dereference::NoSuchEntity => {
                                        Err(EvaluationError::entity_does_not_exist(
                                            Arc::new(uid.clone()),
                                            arg1.source_loc().cloned(),
                                        ))
                                    }
                                    Dereference::Residual(r) => Ok(PartialValue::Residual(
                                        Expr::get_tag(r, Expr::val(tag.clone())),
                                    )),
                                    Dereference::Data(entity) => entity
                                        .get_tag(tag)
                                        .ok_or_else(|| {
                                            EvaluationError::entity_tag_does_not_exist(
                                                Arc::new(uid.clone()),
                                                tag.clone(),
                                                entity.tag_keys(),
                                                entity.get(tag).is_some(),
                                                entity.tags_len(),
                                                loc.cloned(), // intentionally using the location of the entire `GetTag` expression
                                            )
                                        })
                                        .cloned(),
                                }
                            }
                            BinaryOp::HasTag => match self.entities.entity(uid) {
                                Dereference::NoSuchEntity => Ok(false.into()),
                                Dereference::Residual(r) => Ok(PartialValue::Residual(
                                    Expr::has_tag(r, Expr::val(tag.clone())),
                                )),
                                Dereference::Data(entity) => {
                                    Ok(entity.get_tag(tag).is_some().into())
                                }
                            },
                            _ => {
                                unreachable!("Should have already checked that op was one of these")
                            }
                        }
                    }
                }
            }
            ExprKind::ExtensionFunctionApp { fn_name, args } => {
                let args = args
                    .iter()
                    .map(|arg| self.partial_interpret(arg, slots))
                    .collect::<Result<Vec<_>>>()?;
                match split(args) {
                    Either::Left(vals) => {
                        let vals: Vec<_> = vals.collect();
                        let efunc = self.extensions.func(fn_name)?;
                        efunc.call(&vals)
                    }
                    Either::Right(residuals) => Ok(PartialValue::Residual(
                        Expr::call_extension_fn(fn_name.clone(), residuals.collect()),
                    )),
                }
            }
            ExprKind::GetAttr { expr, attr } => self.get_attr(expr.as_ref(), attr, slots, loc),
            ExprKind::HasAttr { expr, attr } => match self.partial_interpret(expr, slots)? {
                PartialValue::Value(Value {
                    value: ValueKind::Record(record),
                    ..
                }) => Ok(record.get(attr).is_some().into()),
                PartialValue::Value(Value {
                    value: ValueKind::Lit(Literal::EntityUID(uid)),
                    ..
                }) => match self.entities.entity(&uid) {
                    Dereference::NoSuchEntity => Ok(false.into()),
                    Dereference::Residual(r) => {
                        Ok(PartialValue::Residual(Expr::has_attr(r, attr.clone())))
                    }
                    Dereference::Data(e) => Ok(e.get(attr).is_some().into()),
                },
                PartialValue::Value(val) => Err(EvaluationError::type_error(
                    nonempty2(Type::Record,
                        Type::entity_type(names::ANY_ENTITY_TYPE.clone())),
                    &val,
                )),
                PartialValue::Residual(r) => match r.expr_kind() {
                    ExprKind::Record(rec) if r.is_projectable() => {
                        Ok(rec.contains_key(attr).into())
                    }
                    _ => Ok(Expr::has_attr(r, attr.clone()).into()),
                },
            },
            ExprKind::Like { expr, pattern } => {
                let v = self.partial_interpret(expr, slots)?;
                match v {
                    PartialValue::Value(v) => {
                        Ok((pattern.wildcard_match(v.get_as_string()?)).into())
                    }
                    PartialValue::Residual(r) => Ok(Expr::like(r, pattern.clone()).into()),
                }
            }
            ExprKind::Is { expr, entity_type } => {
                let v = self.partial_interpret(expr, slots)?;
                match v {
                    PartialValue::Value(v) => {
                        Ok((v.get_as_entity()?.entity_type() == entity_type).into())
                    }
                    PartialValue::Residual(r) => {
                        if let ExprKind::Unknown(Unknown {
                            type_annotation:
                                Some(Type::Entity {
                                    ty: type_of_unknown,
                                }),
                            ..
                        }) = r.expr_kind()
                        {
                            return Ok((type_of_unknown == entity_type).into());
                        }
                        Ok(Expr::is_entity_type(r, entity_type.clone()).into())
                    }
                }
            }
            ExprKind::Set(items) => {
                let vals = items
                    .iter()
                    .map(|item| self.partial_interpret(item, slots))
                    .collect::<Result<Vec<_>>>()?;
                match split(vals) {
                    Either::Left(vals) => Ok(Value::set(vals, loc.cloned()).into()),
                    Either::Right(r) => Ok(Expr::set(r).into()),
                }
            }
            ExprKind::Record(map) => {
                let map = map
                    .iter()
                    .map(|_vxp: (&SmolStr, &Expr)| { let (k, v) = _vxp; Ok((k.clone(), self.partial_interpret(v, slots)?)) })
                    .collect::<Result<Vec<_>>>()?;
                let (names, evalled): (Vec<SmolStr>, Vec<PartialValue>) = vx_unzip(map);
                match split(evalled) {
                    Either::Left(vals) => {
                        Ok(Value::record(names.into_iter().zip(vals), loc.cloned()).into())
                    }
                    Either::Right(rs) => {
                        Ok(
                            Expr::record(names.into_iter().zip(rs))
                                .expect("can't have a duplicate key here because `names` is the set of keys of the input `BTreeMap`")
                                .into()
                        )
                    }
                }
            }
            
        }
    }

    fn eval_in(
        &self,
        uid1: &EntityUID,
        entity1: Option<&Entity>,
        arg2: &Value,
    ) -> Result<PartialValue> {
        let rhs = match &arg2.value {
            ValueKind::Lit(Literal::EntityUID(uid)) => vec![uid.as_ref()],
            ValueKind::Set(_) => arg2.get_as_entity_set()?,
            _ => {
                return Err(EvaluationError::type_error(
                    nonempty2(Type::Set, Type::entity_type(names::ANY_ENTITY_TYPE.clone())),
                    arg2,
                ))
            }
        };
        for uid2 in rhs {
            if uid1 == uid2 || entity1.map(|e1| e1.is_descendant_of(uid2)).unwrap_or(false) {
                return Ok(true.into());
            }
        }
        Ok(false.into())
    }

    #[verifier::exec_allows_no_decreases_clause]
    fn eval_if(
        &self,
        guard: &Expr,
        consequent: &Arc<Expr>,
        alternative: &Arc<Expr>,
        slots: &SlotEnv,
    ) -> (r: Result<PartialValue>)
    ensures agrees(r, sem(*self, *slots, Expr { expr_kind: ExprKind::If { test_expr: Arc::new(*guard), then_expr: *consequent, else_expr: *alternative }, source_loc: None, data: () }))
{
        match self.partial_interpret(guard, slots)? {
            PartialValue::Value(v) => {
                if v.get_as_bool()? {
                    self.partial_interpret(consequent, slots)
                } else {
                    self.partial_interpret(alternative, slots)
                }
            }
            PartialValue::Residual(guard) => {
                let consequent = self
                    .partial_interpret(consequent, slots)
                    .map(|r| Arc::new(r.into()))
                    .unwrap_or_else(|_vx| consequent.clone());
                let alternative = self
                    .partial_interpret(alternative, slots)
                    .map(|r| Arc::new(r.into()))
                    .unwrap_or_else(|_vx| alternative.clone());
                Ok(Expr::ite_arc(Arc::new(guard), consequent, alternative).into())
            }
        }
    }

    #[verifier::exec_allows_no_decreases_clause]
    fn get_attr(
        &self,
        expr: &Expr,
        attr: &SmolStr,
        slots: &SlotEnv,
        source_loc: Option<&Loc>,
    ) -> Result<PartialValue> {
        match self.partial_interpret(expr, slots)? {
            PartialValue::Residual(res) => {
                match res.expr_kind() {
                    ExprKind::Record(map) => {
                        if res.is_projectable() {
                            map.as_ref()
                                .iter()
                                .filter_map(|_vxp: (&SmolStr, &Expr)| { let (k, v) = _vxp; if k == attr { Some(v) } else { None } })
                                .next()
                                .ok_or_else(|| {
                                    EvaluationError::record_attr_does_not_exist(
                                        attr.clone(),
                                        map.keys(),
                                        map.len(),
                                        source_loc.cloned(),
                                    )
                                })
                                .and_then(|e| self.partial_interpret(e, slots))
                        } else if map.keys().any(|k| k == attr) {
                            Ok(PartialValue::Residual(Expr::get_attr(
                                Expr::record_arc(Arc::clone(map)),
                                attr.clone(),
                            )))
                        } else {
                            Err(EvaluationError::record_attr_does_not_exist(
                                attr.clone(),
                                map.keys(),
                                map.len(),
                                source_loc.cloned(),
                            ))
                        }
                    }
                    _ => Ok(PartialValue::Residual(Expr::get_attr(res, attr.clone()))),
                }
            }
            PartialValue::Value(Value {
                value: ValueKind::Record(record),
                ..
            }) => record
                .as_ref()
                .get(attr)
                .ok_or_else(|| {
                    EvaluationError::record_attr_does_not_exist(
                        attr.clone(),
                        record.keys(),
                        record.len(),
                        source_loc.cloned(),
                    )
                })
                .map(|v| PartialValue::Value(v.clone())),
            PartialValue::Value(Value {
                value: ValueKind::Lit(Literal::EntityUID(uid)),
                loc,
            }) => match self.entities.entity(uid.as_ref()) {
                Dereference::NoSuchEntity => {
                    Err(EvaluationError::entity_does_not_exist(uid.clone(), loc))
                }
                Dereference::Residual(r) => {
                    Ok(PartialValue::Residual(Expr::get_attr(r, attr.clone())))
                }
                Dereference::Data(entity) => entity
                    .get(attr)
                    .map(|pv| match pv {
                        PartialValue::Value(_) => Ok(pv.clone()),
                        PartialValue::Residual(e) => match e.expr_kind() {
                            ExprKind::Unknown(u) => self.unknown_to_partialvalue(u),
                            _ => Ok(pv.clone()),
                        },
                    })
                    .ok_or_else(|| {
                        EvaluationError::entity_attr_does_not_exist(
                            uid,
                            attr.clone(),
                            entity.keys(),
                            entity.get_tag(attr).is_some(),
                            entity.attrs_len(),
                            source_loc.cloned(),
                        )
                    })?,
            },
            PartialValue::Value(v) => Err(EvaluationError::type_error(
                nonempty2(Type::Record,
                    Type::entity_type(names::ANY_ENTITY_TYPE.clone())),
                &v,
            )),
        }
    }

    fn short_circuit_residual_and_value(
        &self,
        e1: &Expr,
        v2: &Value,
        op: BinaryOp,
    ) -> Option<PartialValue> {
        match op {
            BinaryOp::Add | BinaryOp::Eq | BinaryOp::Mul | BinaryOp::ContainsAny => {
                self.short_circuit_value_and_residual(v2, e1, op)
            }
            _ => None,
        }
    }

    fn short_circuit_value_and_residual(
        &self,
        v1: &Value,
        e2: &Expr,
        op: BinaryOp,
    ) -> Option<PartialValue> {
        match (op, v1.value_kind(), e2.expr_kind()) {
            (
                BinaryOp::Eq,
                ValueKind::Lit(Literal::EntityUID(uid1)),
                ExprKind::Unknown(Unknown {
                    type_annotation:
                        Some(Type::Entity {
                            ty: type_of_unknown,
                        }),
                    ..
                }),
            ) => {
                if uid1.entity_type() != type_of_unknown {
                    Some(false.into())
                } else {
                    None
                }
            }
            _ => None,
        }
    }

    fn short_circuit_two_typed_residuals(
        &self,
        e1: &Expr,
        e2: &Expr,
        op: BinaryOp,
    ) -> Option<PartialValue> {
        match (op, e1.expr_kind(), e2.expr_kind()) {
            (
                BinaryOp::Eq,
                ExprKind::Unknown(Unknown {
                    type_annotation: Some(Type::Entity { ty: t1 }),
                    ..
                }),
                ExprKind::Unknown(Unknown {
                    type_annotation: Some(Type::Entity { ty: t2 }),
                    ..
                }),
            ) => {
                if t1 != t2 {
                    Some(false.into())
                } else {
                    None
                }
            }
            _ => None,
        }
    }
}
} // verus!
fn main() {}
