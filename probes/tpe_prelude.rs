#![allow(unused)]
use vstd::prelude::*;
use vstd::std_specs::iter::IteratorSpec;
use std::sync::Arc;
verus! {
// ---------- std model ----------
#[verifier::external_body] #[verifier::reject_recursive_types(T)]
pub struct VxIter<T> { _t: std::marker::PhantomData<T> }
impl<T> VxIter<T> {
    pub uninterp spec fn items(&self) -> Seq<T>;
    #[verifier::external_body]
    pub fn vx_for(self) -> (r: std::vec::IntoIter<T>)
        ensures r.remaining() == self.items(), r.obeys_prophetic_iter_laws(), r.decrease() is Some,
    { unimplemented!() }
    #[verifier::external_body]
    pub fn map<U, F: Fn(T) -> U>(self, f: F) -> (r: VxIter<U>)
        requires forall|i: int| 0 <= i < self.items().len() ==> f.requires((#[trigger] self.items()[i],))
        ensures r.items().len() == self.items().len(),
            forall|i: int| 0 <= i < self.items().len() ==> f.ensures((self.items()[i],), #[trigger] r.items()[i]),
    { unimplemented!() }
}
#[verifier::external_body] #[verifier::reject_recursive_types(T)]
pub struct HashSet<T> { _p: std::marker::PhantomData<T> }
impl<T> HashSet<T> {
    pub uninterp spec fn view(&self) -> Set<T>;
    #[verifier::external_body] pub fn new() -> (r: Self) ensures r.view() == Set::<T>::empty() { unimplemented!() }
    #[verifier::external_body] pub fn insert(&mut self, t: T) -> (b: bool) ensures final(self).view() == old(self).view().insert(t) { unimplemented!() }
    #[verifier::external_body] pub fn is_empty(&self) -> (b: bool) ensures b == (self.view() =~= Set::<T>::empty()) { unimplemented!() }
    #[verifier::external_body] pub fn iter(&self) -> (r: VxIter<&T>)
        ensures forall|i: int| 0 <= i < r.items().len() ==> self.view().contains(*(#[trigger] r.items()[i])),
            forall|t: T| self.view().contains(t) ==> exists|i: int| 0 <= i < r.items().len() && *(#[trigger] r.items()[i]) == t,
    { unimplemented!() }
}
#[verifier::external_body] #[verifier::reject_recursive_types(K)] #[verifier::reject_recursive_types(V)]
pub struct HashMap<K, V> { _k: std::marker::PhantomData<K>, _v: std::marker::PhantomData<V> }
impl<K, V> HashMap<K, V> {
    pub uninterp spec fn view(&self) -> Map<K, V>;
    #[verifier::external_body] pub fn new() -> (r: Self) ensures r.view() == Map::<K, V>::empty() { unimplemented!() }
    #[verifier::external_body] pub fn insert(&mut self, k: K, v: V) -> (o: Option<V>) ensures final(self).view() == old(self).view().insert(k, v) { unimplemented!() }
    #[verifier::external_body] pub fn get(&self, k: &K) -> (r: Option<&V>) ensures r == (if self.view().contains_key(*k) { Some(&self.view()[*k]) } else { None }) { unimplemented!() }
    /// some duplicate-free enumeration of the keys (arbitrary but fixed per map value)
    pub uninterp spec fn key_order(&self) -> Seq<K>;
    #[verifier::external_body] pub fn values(&self) -> (r: VxIter<&V>)
        ensures r.items().len() == self.key_order().len(), self.key_order().no_duplicates(),
            forall|i: int| 0 <= i < r.items().len() ==> self.view().contains_key(#[trigger] self.key_order()[i]) && *r.items()[i] == self.view()[self.key_order()[i]],
            forall|k: K| self.view().contains_key(k) ==> exists|i: int| 0 <= i < self.key_order().len() && #[trigger] self.key_order()[i] == k,
    { unimplemented!() }
}
// ---------- opaque cedar types ----------
#[verifier::external_body] pub struct PolicyID { _p: u8 }
impl Clone for PolicyID { #[verifier::external_body] fn clone(&self) -> (r: Self) ensures r == *self { unimplemented!() } }
#[verifier::external_body] pub struct Loc { _p: u8 }
#[verifier::external_body] pub struct SmolStr { _p: u8 }
#[verifier::external_body] pub struct EntityUID { _p: u8 }
#[verifier::external_body] pub struct SetRepr { _p: u8 }
#[verifier::external_body] pub struct RecordRepr { _p: u8 }
#[verifier::external_body] pub struct ExtRepr { _p: u8 }
#[verifier::external_body] pub struct Type { _p: u8 }
#[verifier::external_body] pub struct ResidualKind { _p: u8 }
#[verifier::external_body] pub struct PartialRequest { _p: u8 }
#[verifier::external_body] pub struct PartialEntities { _p: u8 }
#[verifier::external_body] pub struct ValidatorSchema { _p: u8 }
#[verifier::external_body] pub struct Policy { _p: u8 }
#[verifier::external_body] pub struct PolicySet { _p: u8 }
#[verifier::external_body] pub struct PolicySetError { _p: u8 }
impl std::fmt::Debug for PolicySetError { #[verifier::external_body] fn fmt(&self, f: &mut std::fmt::Formatter<'_>) -> std::fmt::Result { unimplemented!() } }
#[derive(Clone, Copy, PartialEq, Eq)] pub enum Effect { Permit, Forbid }
#[derive(Clone, Copy, PartialEq, Eq)] pub enum Decision { Allow, Deny }
pub type Integer = i64;
pub enum Literal { Bool(bool), Long(Integer), String(SmolStr), EntityUID(Arc<EntityUID>) }
pub enum ValueKind { Lit(Literal), Set(SetRepr), Record(Arc<RecordRepr>), ExtensionValue(Arc<ExtRepr>) }
pub struct Value { pub value: ValueKind, pub loc: Option<Loc> }
pub enum Residual { Partial { kind: ResidualKind, ty: Type }, Concrete { value: Value, ty: Type }, Error(Type) }

impl Policy {
    pub uninterp spec fn spec_id(&self) -> PolicyID;
    pub uninterp spec fn spec_effect(&self) -> Effect;
    #[verifier::external_body] pub fn id(&self) -> (r: &PolicyID) ensures *r == self.spec_id() { unimplemented!() }
    #[verifier::external_body] pub fn effect(&self) -> (r: Effect) ensures r == self.spec_effect() { unimplemented!() }
}
impl Clone for Policy { #[verifier::external_body] fn clone(&self) -> (r: Self) ensures r == *self { unimplemented!() } }
/// spec of `impl From<ResidualPolicy> for Policy` (condition = the residual; id/effect/annotations of the original)
pub uninterp spec fn residual_as_policy(rp: ResidualPolicy) -> Policy;
impl PolicySet {
    pub uninterp spec fn links(&self) -> Map<PolicyID, Policy>;
    #[verifier::external_body] pub fn new() -> (r: Self) ensures r.links() == Map::<PolicyID, Policy>::empty() { unimplemented!() }
    #[verifier::external_body] pub fn add(&mut self, p: Policy) -> (r: std::result::Result<(), PolicySetError>)
        ensures r is Ok <==> !old(self).links().contains_key(p.spec_id()),
            r is Ok ==> final(self).links() == old(self).links().insert(p.spec_id(), p),
            r is Err ==> final(self).links() == old(self).links(),
    { unimplemented!() }
}
