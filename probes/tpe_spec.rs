// ---------- spec ----------
pub open spec fn class(r: Residual) -> int {
    match r {
        Residual::Concrete { value: Value { value: ValueKind::Lit(Literal::Bool(true)), .. }, .. } => 0,
        Residual::Concrete { value: Value { value: ValueKind::Lit(Literal::Bool(false)), .. }, .. } => 1,
        Residual::Error(_) => 2,
        _ => 3,
    }
}
pub open spec fn rp_id(rp: ResidualPolicy) -> PolicyID { rp.policy.spec_id() }
pub open spec fn rp_eff(rp: ResidualPolicy) -> Effect { rp.policy.spec_effect() }
pub open spec fn picks(rs: Seq<ResidualPolicy>, n: int, id: PolicyID, eff: Effect, c: int) -> bool {
    exists|i: int| 0 <= i < n && rp_id(#[trigger] rs[i]) == id && rp_eff(rs[i]) == eff && class(*rs[i].residual) == c
}
pub open spec fn bucket_ok(s: Set<PolicyID>, rs: Seq<ResidualPolicy>, n: int, eff: Effect, c: int) -> bool {
    forall|id: PolicyID| s.contains(id) <==> picks(rs, n, id, eff, c)
}
pub open spec fn map_ok(m: Map<PolicyID, ResidualPolicy>, rs: Seq<ResidualPolicy>, n: int) -> bool {
    (forall|i: int| 0 <= i < n ==> m.contains_key(rp_id(#[trigger] rs[i])) && m[rp_id(rs[i])] == rs[i])
    && (forall|id: PolicyID| m.contains_key(id) ==> exists|i: int| 0 <= i < n && rp_id(#[trigger] rs[i]) == id)
}
pub open spec fn distinct_ids(rs: Seq<ResidualPolicy>) -> bool {
    forall|i: int, j: int| 0 <= i < j < rs.len() ==> rp_id(#[trigger] rs[i]) != rp_id(#[trigger] rs[j])
}
pub open spec fn table(tf: bool, tp: bool, rp: bool, rf: bool) -> Option<Decision> {
    if tf { Some(Decision::Deny) } else if !tp && !rp { Some(Decision::Deny) } else if rf { None } else if !tp { None } else { Some(Decision::Allow) }
}
pub open spec fn all_ok(r: Response, rs: Seq<ResidualPolicy>, n: int) -> bool {
    map_ok(r.residuals@, rs, n)
    && bucket_ok(r.true_permits@, rs, n, Effect::Permit, 0) && bucket_ok(r.false_permits@, rs, n, Effect::Permit, 1)
    && bucket_ok(r.error_permits@, rs, n, Effect::Permit, 2) && bucket_ok(r.residual_permits@, rs, n, Effect::Permit, 3)
    && bucket_ok(r.true_forbids@, rs, n, Effect::Forbid, 0) && bucket_ok(r.false_forbids@, rs, n, Effect::Forbid, 1)
    && bucket_ok(r.error_forbids@, rs, n, Effect::Forbid, 2) && bucket_ok(r.residual_forbids@, rs, n, Effect::Forbid, 3)
}
/// representation invariant of Response: every classified id has its residual policy
pub open spec fn wf(r: Response) -> bool {
    forall|id: PolicyID| (r.true_permits@.contains(id) || r.false_permits@.contains(id) || r.error_permits@.contains(id) || r.residual_permits@.contains(id)
        || r.true_forbids@.contains(id) || r.false_forbids@.contains(id) || r.error_forbids@.contains(id) || r.residual_forbids@.contains(id))
        ==> r.residuals@.contains_key(id)
}
