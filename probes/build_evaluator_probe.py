import re
from extract import find_fn
src=open('/repo/cedar-policy-core/src/evaluator.rs').read()
fns=[]
for n in ['partial_interpret_internal','eval_in','eval_if','get_attr','short_circuit_residual_and_value','short_circuit_value_and_residual','short_circuit_two_typed_residuals']:
    # take the one inside `impl<'e> Evaluator<'e>`
    start=src.index("impl<'e> Evaluator<'e> {")
    t,_=find_fn(src,n,start)
    fns.append(t)
body="\n\n".join(fns)
# mechanical drops / rewrites
body=re.sub(r'(?m)^\s*#\[(expect|cfg|inline)[^\]]*\]\s*\n','',body)          # single-line attrs
body=re.sub(r'#\[expect\([^\]]*?\)\]','',body,flags=re.S)                    # multi-line expect attrs
body=re.sub(r'(?m)^\s*//.*\n','',body)
body=body.replace('|_|','|_vx|')
# cfg(feature="tolerant-ast") arm: drop (feature off in baseline)
body=re.sub(r'ExprKind::Error \{ \.\. \} => Err\(ASTErrorExpr\(ASTErrorExprError \{\s*source_loc: loc\.cloned\(\),\s*\}\)\),','',body)
body=body.replace('err::EvaluationError','EvaluationError')
body=re.sub(r'nonempty!\[\s*([^\]]*?),?\s*\]', lambda m: 'nonempty2('+m.group(1).rstrip(', \n')+')', body, flags=re.S)
body=body.replace(".map(|(k, v)| Ok((k.clone(), self.partial_interpret(v, slots)?)))", ".map(|_vxp: (&SmolStr, &Expr)| { let (k, v) = _vxp; Ok((k.clone(), self.partial_interpret(v, slots)?)) })")
body=body.replace(".filter_map(|(k, v)| if k == attr { Some(v) } else { None })", ".filter_map(|_vxp: (&SmolStr, &Expr)| { let (k, v) = _vxp; if k == attr { Some(v) } else { None } })")
body=body.replace("map.into_iter().unzip()","vx_unzip(map)")
pre=open('prelude.rs').read()
stubs=open('stubs.rs').read()+open('spec.rs').read()+open('contracts_pre.rs').read()
body=body.replace("fn partial_interpret_internal(&self, expr: &Expr, slots: &SlotEnv) -> Result<PartialValue> {","fn partial_interpret_internal(&self, expr: &Expr, slots: &SlotEnv) -> (r: Result<PartialValue>)\n    requires expr.expr_kind is And || expr.expr_kind is Or || expr.expr_kind is If\n    ensures agrees(r, sem(*self, *slots, *expr))\n{")
body=re.sub(r"(fn eval_if\([^)]*\)) -> Result<PartialValue> \{", r"\1 -> (r: Result<PartialValue>)\n    ensures agrees(r, sem(*self, *slots, Expr { expr_kind: ExprKind::If { test_expr: Arc::new(*guard), then_expr: *consequent, else_expr: *alternative }, source_loc: None, data: () }))\n{", body, flags=re.S)
open('ev.rs','w').write(pre+stubs+"\nimpl<'e> Evaluator<'e> {\n"+body+"\n}\n} // verus!\nfn main() {}\n")
