use vstd::prelude::*;
use vstd::std_specs::iter::IteratorSpec;
verus! {
#[verifier::external_body]
#[verifier::reject_recursive_types(T)]
pub struct HashSet<T> { _p: std::marker::PhantomData<T> }
impl<T> HashSet<T> {
    pub uninterp spec fn view(&self) -> Set<T>;
    pub uninterp spec fn order(&self) -> Seq<&T>;
    #[verifier::external_body]
    pub fn iter(&self) -> (r: std::slice::Iter<'_, T>)
        ensures r.remaining() == self.order(), r.obeys_prophetic_iter_laws(), r.decrease() is Some,
            self.order().no_duplicates(),
            forall|t: T| self.view().contains(t) <==> self.order().contains(&t),
    { unimplemented!() }
}
// does the set contain a value > 5 ?
fn any_big(s: &HashSet<u64>) -> (b: bool)
    ensures b == (exists|t: u64| s.view().contains(t) && t > 5)
{
    for x in it: s.iter()
        invariant
            it.snapshot@.remaining() == s.order(),
            forall|i: int| 0 <= i < it.index@ ==> *s.order()[i] <= 5,
            forall|t: u64| s.view().contains(t) <==> s.order().contains(&t),
    {
        if *x > 5 {
            assert(s.order().contains(x));
            return true;
        }
    }
    assert forall|t: u64| s.view().contains(t) implies t <= 5 by {
        assert(s.order().contains(&t));
        let i = choose|i: int| 0 <= i < s.order().len() && s.order()[i] == &t;
        assert(*s.order()[i] <= 5);
    }
    false
}
}
fn main() {}
