impl<'e> Evaluator<'e> {
    #[verifier::external_body]
    pub fn partial_interpret(&self, expr: &Expr, slots: &SlotEnv) -> (r: Result<PartialValue>)
        ensures agrees(r, sem(*self, *slots, *expr))
    { unimplemented!() }
    #[verifier::external_body]
    fn unknown_to_partialvalue(&self, u: &Unknown) -> Result<PartialValue> { unimplemented!() }
}
pub enum Either<L, R> { Left(L), Right(R) }
#[verifier::external_body] #[verifier::reject_recursive_types(T)] pub struct VxIter<T> { _t: std::marker::PhantomData<T> }
impl<T> VxIter<T> {
    pub uninterp spec fn items(&self) -> Seq<T>;
    #[verifier::external_body] pub fn map<U, F: FnMut(T) -> U>(self, f: F) -> (r: VxIter<U>) { unimplemented!() }
    #[verifier::external_body] pub fn filter_map<U, F: FnMut(T) -> Option<U>>(self, f: F) -> (r: VxIter<U>) { unimplemented!() }
    #[verifier::external_body] pub fn next(&mut self) -> (r: Option<T>) { unimplemented!() }
}
pub trait VxFromIter<U>: Sized {}
impl<T, E> VxFromIter<std::result::Result<T, E>> for std::result::Result<Vec<T>, E> {}
impl<T> VxIter<T> {
    #[verifier::external_body] pub fn collect<B: VxFromIter<T>>(self) -> (r: B) { unimplemented!() }
}
#[verifier::external_body] pub fn vx_unzip<A, B>(v: Vec<(A, B)>) -> (r: (Vec<A>, Vec<B>)) { unimplemented!() }

#[verifier::external_body]
pub fn split(i: Vec<PartialValue>) -> Either<std::vec::IntoIter<Value>, std::vec::IntoIter<Expr>> { unimplemented!() }
#[verifier::external_body] pub struct NonEmptyTypes { _p: u8 }
#[verifier::external_body] pub fn nonempty2(a: Type, b: Type) -> NonEmptyTypes { unimplemented!() }
#[verifier::external_body] pub fn unary_app(op: UnaryOp, arg: Value, loc: Option<&Loc>) -> Result<Value> { unimplemented!() }
#[verifier::external_body] pub fn binary_relation(op: BinaryOp, arg1: &Value, arg2: &Value, extensions: &Extensions) -> Result<Value> { unimplemented!() }
#[verifier::external_body] pub fn binary_arith(op: BinaryOp, arg1: Value, arg2: Value, loc: Option<&Loc>) -> Result<Value> { unimplemented!() }
pub mod names {
    use super::*;
    pub struct LazyName { pub _p: u8 }
    impl LazyName { #[verifier::external_body] pub fn clone(&self) -> Name { unimplemented!() } }
    pub exec static ANY_ENTITY_TYPE: LazyName ensures true { LazyName { _p: 0 } }
}
impl Expr {
    pub fn source_loc(&self) -> (r: Option<&Loc>) ensures r == (match self.source_loc { Some(l) => Some(&l), None => None }) { self.source_loc.as_ref() }
    pub fn expr_kind(&self) -> (r: &ExprKind) ensures *r == self.expr_kind { &self.expr_kind }
    #[verifier::external_body] pub fn and(e1: Expr, e2: Expr) -> Expr { unimplemented!() }
    #[verifier::external_body] pub fn or(e1: Expr, e2: Expr) -> Expr { unimplemented!() }
    #[verifier::external_body] pub fn val(v: impl Into<Literal>) -> Expr { unimplemented!() }
    #[verifier::external_body] pub fn val_str(v: SmolStr) -> Expr { unimplemented!() }
    #[verifier::external_body] pub fn unary_app(op: UnaryOp, e: Expr) -> Expr { unimplemented!() }
    #[verifier::external_body] pub fn binary_app(op: BinaryOp, e1: Expr, e2: Expr) -> Expr { unimplemented!() }
    #[verifier::external_body] pub fn get_tag(e1: Expr, e2: Expr) -> Expr { unimplemented!() }
    #[verifier::external_body] pub fn has_tag(e1: Expr, e2: Expr) -> Expr { unimplemented!() }
    #[verifier::external_body] pub fn call_extension_fn(n: Name, args: Vec<Expr>) -> Expr { unimplemented!() }
    #[verifier::external_body] pub fn has_attr(e: Expr, a: SmolStr) -> Expr { unimplemented!() }
    #[verifier::external_body] pub fn get_attr(e: Expr, a: SmolStr) -> Expr { unimplemented!() }
    #[verifier::external_body] pub fn like(e: Expr, p: Pattern) -> Expr { unimplemented!() }
    #[verifier::external_body] pub fn is_entity_type(e: Expr, t: EntityType) -> Expr { unimplemented!() }
    #[verifier::external_body] pub fn set(es: impl IntoIterator<Item = Expr>) -> Expr { unimplemented!() }
    #[verifier::external_body] pub fn record(es: impl IntoIterator<Item = (SmolStr, Expr)>) -> std::result::Result<Expr, DupKey> { unimplemented!() }
    #[verifier::external_body] pub fn record_arc(m: Arc<BTreeMap<SmolStr, Expr>>) -> Expr { unimplemented!() }
    #[verifier::external_body] pub fn ite_arc(a: Arc<Expr>, b: Arc<Expr>, c: Arc<Expr>) -> Expr { unimplemented!() }
    #[verifier::external_body] pub fn unknown(u: Unknown) -> Expr { unimplemented!() }
    #[verifier::external_body] pub fn is_projectable(&self) -> bool { unimplemented!() }
}
#[verifier::external_body] #[derive(Debug)] pub struct DupKey { _p: u8 }
#[verifier::external_body] #[verifier::reject_recursive_types(A)] #[verifier::reject_recursive_types(B)] pub struct VxZip<A, B> { _a: std::marker::PhantomData<A>, _b: std::marker::PhantomData<B> }
impl Clone for Expr { #[verifier::external_body] fn clone(&self) -> (r: Self) ensures r == *self { unimplemented!() } }
impl Clone for Literal { #[verifier::external_body] fn clone(&self) -> (r: Self) ensures r == *self { unimplemented!() } }
impl Clone for Name { #[verifier::external_body] fn clone(&self) -> (r: Self) ensures r == *self { unimplemented!() } }
impl Clone for Pattern { #[verifier::external_body] fn clone(&self) -> (r: Self) ensures r == *self { unimplemented!() } }
impl Clone for EntityType { #[verifier::external_body] fn clone(&self) -> (r: Self) ensures r == *self { unimplemented!() } }
impl Clone for EntityUID { #[verifier::external_body] fn clone(&self) -> (r: Self) ensures r == *self { unimplemented!() } }
impl Clone for Unknown { #[verifier::external_body] fn clone(&self) -> (r: Self) ensures r == *self { unimplemented!() } }
impl Clone for PartialValue { #[verifier::external_body] fn clone(&self) -> (r: Self) ensures r == *self { unimplemented!() } }
impl Clone for Value { #[verifier::external_body] fn clone(&self) -> (r: Self) ensures r == *self { unimplemented!() } }
impl Clone for SlotId { #[verifier::external_body] fn clone(&self) -> (r: Self) ensures r == *self { unimplemented!() } }
impl Copy for SlotId {}
impl PartialEq for EntityType { #[verifier::external_body] fn eq(&self, o: &Self) -> bool { unimplemented!() } }
impl PartialEq for EntityUID { #[verifier::external_body] fn eq(&self, o: &Self) -> bool { unimplemented!() } }
impl PartialEq for SmolStr { #[verifier::external_body] fn eq(&self, o: &Self) -> bool { unimplemented!() } }
impl PartialEq for Type { #[verifier::external_body] fn eq(&self, o: &Self) -> bool { unimplemented!() } }
impl vstd::std_specs::convert::FromSpecImpl<bool> for PartialValue {
    open spec fn obeys_from_spec() -> bool { true }
    open spec fn from_spec(v: bool) -> PartialValue { PartialValue::Value(Value { value: ValueKind::Lit(Literal::Bool(v)), loc: None }) }
}
impl From<bool> for PartialValue { #[verifier::external_body] fn from(v: bool) -> Self { unimplemented!() } }
impl From<Value> for PartialValue { #[verifier::external_body] fn from(v: Value) -> Self { unimplemented!() } }
impl From<Expr> for PartialValue { #[verifier::external_body] fn from(v: Expr) -> Self { unimplemented!() } }
impl From<Literal> for PartialValue { #[verifier::external_body] fn from(v: Literal) -> Self { unimplemented!() } }
impl From<EntityUID> for PartialValue { #[verifier::external_body] fn from(v: EntityUID) -> Self { unimplemented!() } }
impl From<PartialValue> for Expr { #[verifier::external_body] fn from(v: PartialValue) -> Self { unimplemented!() } }
impl From<Value> for Expr { #[verifier::external_body] fn from(v: Value) -> Self { unimplemented!() } }
impl Value {
    #[verifier::external_body] pub fn get_as_bool(&self) -> (r: Result<bool>)
        ensures match as_bool(self.value) { Some(b) => r == Ok::<bool, EvaluationError>(b), None => r is Err && err_class(r->Err_0) is Type }
    { unimplemented!() }
    #[verifier::external_body] pub fn get_as_set(&self) -> Result<&Set> { unimplemented!() }
    #[verifier::external_body] pub fn get_as_entity(&self) -> Result<&EntityUID> { unimplemented!() }
    #[verifier::external_body] pub fn get_as_string(&self) -> Result<&SmolStr> { unimplemented!() }
    #[verifier::external_body] pub fn get_as_entity_set(&self) -> Result<Vec<&EntityUID>> { unimplemented!() }
    pub fn value_kind(&self) -> &ValueKind { &self.value }
    #[verifier::external_body] pub fn type_of(&self) -> Type { unimplemented!() }
    pub fn source_loc(&self) -> Option<&Loc> { self.loc.as_ref() }
    #[verifier::external_body] pub fn set(vals: impl IntoIterator<Item = Value>, loc: Option<Loc>) -> Value { unimplemented!() }
    #[verifier::external_body] pub fn record(pairs: impl IntoIterator<Item = (SmolStr, Value)>, loc: Option<Loc>) -> Value { unimplemented!() }
}
impl Set {
    #[verifier::external_body] pub fn contains(&self, v: &Value) -> bool { unimplemented!() }
    #[verifier::external_body] pub fn is_subset(&self, o: &Set) -> bool { unimplemented!() }
    #[verifier::external_body] pub fn is_disjoint(&self, o: &Set) -> bool { unimplemented!() }
}
impl Entities { #[verifier::external_body] pub fn entity(&self, uid: &EntityUID) -> Dereference<'_, Entity> { unimplemented!() } }
impl Entity {
    #[verifier::external_body] pub fn is_descendant_of(&self, u: &EntityUID) -> bool { unimplemented!() }
    #[verifier::external_body] pub fn get_tag(&self, t: &SmolStr) -> Option<&PartialValue> { unimplemented!() }
    #[verifier::external_body] pub fn get(&self, t: &SmolStr) -> Option<&PartialValue> { unimplemented!() }
    #[verifier::external_body] pub fn tag_keys(&self) -> std::vec::IntoIter<&SmolStr> { unimplemented!() }
    #[verifier::external_body] pub fn keys(&self) -> std::vec::IntoIter<&SmolStr> { unimplemented!() }
    #[verifier::external_body] pub fn tags_len(&self) -> usize { unimplemented!() }
    #[verifier::external_body] pub fn attrs_len(&self) -> usize { unimplemented!() }
}
impl EntityUID { #[verifier::external_body] pub fn entity_type(&self) -> &EntityType { unimplemented!() } }
impl EntityUIDEntry { #[verifier::external_body] pub fn evaluate(&self, v: Var) -> PartialValue { unimplemented!() } }
impl Type { #[verifier::external_body] pub fn entity_type(n: Name) -> Type { unimplemented!() } }
impl Pattern { #[verifier::external_body] pub fn wildcard_match(&self, t: &SmolStr) -> bool { unimplemented!() } }
#[verifier::external_body] pub struct ExtFunc { _p: u8 }
impl ExtFunc { #[verifier::external_body] pub fn call(&self, args: &Vec<Value>) -> Result<PartialValue> { unimplemented!() } }
impl Extensions { #[verifier::external_body] pub fn func(&self, n: &Name) -> Result<&ExtFunc> { unimplemented!() } }
impl EvaluationError {
    #[verifier::external_body] pub fn unlinked_slot(s: SlotId, l: Option<Loc>) -> Self { unimplemented!() }
    #[verifier::external_body] pub fn type_error(t: NonEmptyTypes, v: &Value) -> Self { unimplemented!() }
    #[verifier::external_body] pub fn type_error_single(t: Type, v: &Value) -> Self { unimplemented!() }
    #[verifier::external_body] pub fn record_attr_does_not_exist(a: SmolStr, k: std::vec::IntoIter<&SmolStr>, n: usize, l: Option<Loc>) -> Self { unimplemented!() }
    #[verifier::external_body] pub fn entity_does_not_exist(u: Arc<EntityUID>, l: Option<Loc>) -> Self { unimplemented!() }
    #[verifier::external_body] pub fn entity_tag_does_not_exist(u: Arc<EntityUID>, t: SmolStr, k: std::vec::IntoIter<&SmolStr>, b: bool, n: usize, l: Option<Loc>) -> Self { unimplemented!() }
    #[verifier::external_body] pub fn entity_attr_does_not_exist(u: Arc<EntityUID>, t: SmolStr, k: std::vec::IntoIter<&SmolStr>, b: bool, n: usize, l: Option<Loc>) -> Self { unimplemented!() }
}

impl From<bool> for Literal { #[verifier::external_body] fn from(v: bool) -> Self { unimplemented!() } }
impl From<SmolStr> for Literal { #[verifier::external_body] fn from(v: SmolStr) -> Self { unimplemented!() } }
