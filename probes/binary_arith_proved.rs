use vstd::prelude::*;
use std::sync::Arc;
verus! {

#[verifier::external_body] pub struct Loc { _p: u8 }
#[verifier::external_body] pub struct SmolStr { _p: u8 }
#[verifier::external_body] pub struct EntityUID { _p: u8 }
#[verifier::external_body] pub struct Name { _p: u8 }
#[verifier::external_body] pub struct SetRepr { _p: u8 }
#[verifier::external_body] pub struct RecordRepr { _p: u8 }
#[verifier::external_body] pub struct ExtRepr { _p: u8 }
pub type Integer = i64;

#[derive(Clone, Copy, PartialEq, Eq)]
pub enum UnaryOp { Not, Neg, IsEmpty }
#[derive(Clone, Copy, PartialEq, Eq)]
pub enum BinaryOp { Eq, Less, LessEq, Add, Sub, Mul, In, Contains, ContainsAll, ContainsAny, GetTag, HasTag }

pub enum Literal { Bool(bool), Long(Integer), String(SmolStr), EntityUID(Arc<EntityUID>) }
pub enum ValueKind { Lit(Literal), Set(SetRepr), Record(Arc<RecordRepr>), ExtensionValue(Arc<ExtRepr>) }
pub struct Value { pub value: ValueKind, pub loc: Option<Loc> }

pub enum ErrClass { TypeError, Overflow, Other }
pub open spec fn err_class(e: EvaluationError) -> ErrClass { match e { EvaluationError::TypeError(_) => ErrClass::TypeError, EvaluationError::IntegerOverflow(_) => ErrClass::Overflow, _ => ErrClass::Other } }

pub struct UnaryOpOverflowError { pub op: UnaryOp, pub arg: Value, pub source_loc: Option<Loc> }
pub struct BinaryOpOverflowError { pub op: BinaryOp, pub arg1: Value, pub arg2: Value, pub source_loc: Option<Loc> }
pub enum IntegerOverflowError { BinaryOp(BinaryOpOverflowError), UnaryOp(UnaryOpOverflowError) }

#[verifier::external_body] pub struct TypeErrorS { _p: u8 }
pub enum EvaluationError { TypeError(TypeErrorS), IntegerOverflow(IntegerOverflowError), Other }
pub type Result<T> = std::result::Result<T, EvaluationError>;

#[verifier::external_body]
pub fn overflow_into(e: IntegerOverflowError) -> (r: EvaluationError) ensures err_class(r) is Overflow { unimplemented!() }

pub enum Type { Bool, Long, String, Set, Record }
impl EvaluationError {
    #[verifier::external_body]
    pub fn type_error_single(t: Type, v: &Value) -> (r: EvaluationError) ensures err_class(r) is TypeError { unimplemented!() }
}

impl Value {
    pub fn get_as_long(&self) -> (r: Result<Integer>)
        ensures match self.value { ValueKind::Lit(Literal::Long(i)) => r == Ok::<Integer, EvaluationError>(i), _ => r is Err && err_class(r->Err_0) is TypeError }
    {
        match &self.value {
            ValueKind::Lit(Literal::Long(i)) => Ok(*i),
            _ => Err(EvaluationError::type_error_single(Type::Long, self)),
        }
    }
}
impl vstd::std_specs::convert::FromSpecImpl<i64> for Value {
    open spec fn obeys_from_spec() -> bool { true }
    open spec fn from_spec(v: i64) -> Value { Value { value: ValueKind::Lit(Literal::Long(v)), loc: None } }
}
impl From<i64> for Value {
    #[verifier::external_body]
    fn from(v: i64) -> (r: Value) { unimplemented!() }
}
impl vstd::std_specs::convert::FromSpecImpl<IntegerOverflowError> for EvaluationError {
    open spec fn obeys_from_spec() -> bool { true }
    open spec fn from_spec(v: IntegerOverflowError) -> EvaluationError { EvaluationError::IntegerOverflow(v) }
}
impl From<IntegerOverflowError> for EvaluationError {
    #[verifier::external_body]
    fn from(v: IntegerOverflowError) -> (r: EvaluationError) { unimplemented!() }
}

#[verifier::external_body]
pub fn loc_cloned(l: Option<&Loc>) -> Option<Loc> { unimplemented!() }

impl Clone for Loc { #[verifier::external_body] fn clone(&self) -> Self { unimplemented!() } }
pub fn binary_arith(op: BinaryOp, arg1: Value, arg2: Value, loc: Option<&Loc>) -> (r: Result<Value>)
    requires op == BinaryOp::Add || op == BinaryOp::Sub || op == BinaryOp::Mul
    ensures
        
        match (arg1.value, arg2.value) {
            (ValueKind::Lit(Literal::Long(a)), ValueKind::Lit(Literal::Long(b))) => {
                let m: int = if op == BinaryOp::Add { a + b } else if op == BinaryOp::Sub { a - b } else { a * b };
                if i64::MIN <= m <= i64::MAX { r is Ok && r->Ok_0.value == ValueKind::Lit(Literal::Long(m as i64)) }
                else { r is Err && err_class(r->Err_0) is Overflow }
            },
            _ => r is Err && err_class(r->Err_0) is TypeError,
        }
{
    let i1 = arg1.get_as_long()?;
    let i2 = arg2.get_as_long()?;
    match op {
        BinaryOp::Add => match i1.checked_add(i2) {
            Some(sum) => Ok(sum.into()),
            None => Err(IntegerOverflowError::BinaryOp(BinaryOpOverflowError {
                op,
                arg1,
                arg2,
                source_loc: loc.cloned(),
            })
            .into()),
        },
        BinaryOp::Sub => match i1.checked_sub(i2) {
            Some(diff) => Ok(diff.into()),
            None => Err(IntegerOverflowError::BinaryOp(BinaryOpOverflowError {
                op,
                arg1,
                arg2,
                source_loc: loc.cloned(),
            })
            .into()),
        },
        BinaryOp::Mul => match i1.checked_mul(i2) {
            Some(prod) => Ok(prod.into()),
            None => Err(IntegerOverflowError::BinaryOp(BinaryOpOverflowError {
                op,
                arg1,
                arg2,
                source_loc: loc.cloned(),
            })
            .into()),
        },
        _ => {
            unreachable!("Should have already checked that op was one of these")
        }
    }
}

} // verus!
fn main() {}
