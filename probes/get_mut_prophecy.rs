use vstd::prelude::*;
verus! {
#[verifier::external_body] #[verifier::reject_recursive_types(K)] #[verifier::reject_recursive_types(V)]
pub struct LMap<K, V> { _k: std::marker::PhantomData<K>, _v: std::marker::PhantomData<V> }
impl<K, V> LMap<K, V> {
    pub uninterp spec fn view(&self) -> Map<K, V>;
    #[verifier::external_body]
    pub fn get_mut(&mut self, k: &K) -> (r: Option<&mut V>)
        ensures
            old(self).view().contains_key(*k) ==> r is Some && *r->Some_0 == old(self).view()[*k] && final(self).view() == old(self).view().insert(*k, *final(r->Some_0)),
            !old(self).view().contains_key(*k) ==> r is None && final(self).view() == old(self).view(),
    { unimplemented!() }
}
fn bump(m: &mut LMap<u64, u64>, k: u64)
    ensures old(m).view().contains_key(k) && old(m).view()[k] < 100 ==> final(m).view() == old(m).view().insert(k, (old(m).view()[k] + 1) as u64)
{
    match m.get_mut(&k) {
        Some(v) => { if *v < 100 { *v = *v + 1; } }
        None => {}
    }
}
}
fn main() {}
