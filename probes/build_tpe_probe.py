import re
P=eval(open('parts.py').read())
def pubfields(s):
    return re.sub(r'(?m)^(\s+)([a-z_]+): ', r'\1pub \2: ', s)
out=open('prelude.rs').read()
out+=pubfields(P['rp_struct'])+"\n"+pubfields(P['resp_struct'])+"\n"+open('spec.rs').read()
# From<ResidualPolicy> for Policy: spec only (its body builds a Policy via from_when_clause_annos; separate unit)
out+='''
impl vstd::std_specs::convert::FromSpecImpl<ResidualPolicy> for Policy {
    open spec fn obeys_from_spec() -> bool { true }
    open spec fn from_spec(v: ResidualPolicy) -> Policy { residual_as_policy(v) }
}
impl From<ResidualPolicy> for Policy { #[verifier::external_body] fn from(v: ResidualPolicy) -> Self { unimplemented!() } }
impl Clone for ResidualPolicy { #[verifier::external_body] fn clone(&self) -> (r: Self) ensures r == *self { unimplemented!() } }
pub broadcast axiom fn ax_residual_as_policy_id(rp: ResidualPolicy)
    ensures (#[trigger] residual_as_policy(rp)).spec_id() == rp_id(rp), residual_as_policy(rp).spec_effect() == rp_eff(rp);
pub assume_specification<T: ?Sized, A: core::alloc::Allocator>[ <Arc<T, A> as AsRef<T>>::as_ref ](a: &Arc<T, A>) -> (r: &T);
'''
# Residual predicates
res='\n'.join(P['res_fns'])
res=res.replace("pub fn is_true(&self) -> bool {","pub fn is_true(&self) -> (r: bool) ensures r == (class(*self) == 0) {")
res=res.replace("pub fn is_false(&self) -> bool {","pub fn is_false(&self) -> (r: bool) ensures r == (class(*self) == 1) {")
res=res.replace("pub fn is_error(&self) -> bool {","pub fn is_error(&self) -> (r: bool) ensures r == (class(*self) == 2) {")
out+="impl Residual {\n"+res+"\n}\n"
rp='\n'.join(P['rp_fns'])
rp=rp.replace("pub fn get_effect(&self) -> Effect {","pub fn get_effect(&self) -> (r: Effect) ensures r == rp_eff(*self) {")
rp=rp.replace("pub fn get_residual(&self) -> Arc<Residual> {","pub fn get_residual(&self) -> (r: Arc<Residual>) ensures r == self.residual {")
rp=rp.replace("pub fn get_policy_id(&self) -> &PolicyID {","pub fn get_policy_id(&self) -> (r: &PolicyID) ensures *r == rp_id(*self) {")
out+="impl ResidualPolicy {\n"+rp+"\n}\n"
F=P['resp_fns']
new=F['new']
new=new.replace("residuals: impl Iterator<Item = ResidualPolicy>,","residuals: VxIter<ResidualPolicy>,")
new=new.replace(") -> Self {",""") -> (r: Self)
        requires distinct_ids(residuals.items())
        ensures all_ok(r, residuals.items(), residuals.items().len() as int), wf(r),
            r.decision == table(!(r.true_forbids@ =~= Set::empty()), !(r.true_permits@ =~= Set::empty()), !(r.residual_permits@ =~= Set::empty()), !(r.residual_forbids@ =~= Set::empty())),
    {
        let ghost rs = residuals.items();""",1)
inv='''
            invariant
                it_1.snapshot@.remaining() == rs, distinct_ids(rs),
                map_ok(residual_map@, rs, it_1.index@),
                bucket_ok(true_permits@, rs, it_1.index@, Effect::Permit, 0), bucket_ok(false_permits@, rs, it_1.index@, Effect::Permit, 1),
                bucket_ok(error_permits@, rs, it_1.index@, Effect::Permit, 2), bucket_ok(residual_permits@, rs, it_1.index@, Effect::Permit, 3),
                bucket_ok(true_forbids@, rs, it_1.index@, Effect::Forbid, 0), bucket_ok(false_forbids@, rs, it_1.index@, Effect::Forbid, 1),
                bucket_ok(error_forbids@, rs, it_1.index@, Effect::Forbid, 2), bucket_ok(residual_forbids@, rs, it_1.index@, Effect::Forbid, 3),
        {'''
new=new.replace("for rp in residuals {","for rp in it_1: residuals.vx_for()"+inv,1)
tp=F['true_permits'].replace("-> impl Iterator<Item = &ResidualPolicy> {","-> (r: VxIter<&ResidualPolicy>)\n        requires wf(*self)\n    {")
tp=tp.replace(".map(|id| self.residuals.get(id).unwrap())",".map(|id: &PolicyID| -> (r: &ResidualPolicy) requires self.residuals@.contains_key(*id) ensures *r == self.residuals@[*id] { self.residuals.get(id).unwrap() })")
grp=F['get_residual_policy'].replace("-> Option<&ResidualPolicy> {","-> (r: Option<&ResidualPolicy>)\n        ensures r == (if self.residuals@.contains_key(*id) { Some(&self.residuals@[*id]) } else { None })\n    {")
dec=F['decision'].replace("-> Option<Decision> {","-> (r: Option<Decision>) ensures r == self.decision {")
rea=F['reason'].replace("-> Option<impl Iterator<Item = &PolicyID>> {","-> (r: Option<VxIter<&PolicyID>>)\n        ensures r is Some <==> self.decision is Some\n    {")
pol=F['policies'].replace("-> impl Iterator<Item = &ResidualPolicy> {","-> (r: VxIter<&ResidualPolicy>)\n        ensures r.items().len() == self.residuals.key_order().len(), self.residuals.key_order().no_duplicates(),\n            forall|i: int| 0 <= i < r.items().len() ==> self.residuals@.contains_key(#[trigger] self.residuals.key_order()[i]) && *r.items()[i] == self.residuals@[self.residuals.key_order()[i]],\n            forall|k: PolicyID| self.residuals@.contains_key(k) ==> exists|i: int| 0 <= i < self.residuals.key_order().len() && #[trigger] self.residuals.key_order()[i] == k,\n    {")
ps=F['policy_set'].replace("-> PolicySet {","""-> (r: PolicySet)
        requires forall|k: PolicyID| self.residuals@.contains_key(k) ==> rp_id(#[trigger] self.residuals@[k]) == k
        ensures forall|k: PolicyID| self.residuals@.contains_key(k) ==> r.links().contains_key(k) && r.links()[k] == residual_as_policy(self.residuals@[k]),
            forall|k: PolicyID| r.links().contains_key(k) ==> self.residuals@.contains_key(k),
    {""")
import sys
if len(sys.argv)>1 and sys.argv[1]=='fixed':
    ps=ps.replace("ps.add(p.policy.as_ref().clone()).unwrap()","ps.add(p.clone().into()).unwrap()")
ps=ps.replace("for p in self.policies() {","""for p in it_1: self.policies().vx_for()
            invariant
                it_1.snapshot@.remaining().len() == self.residuals.key_order().len(), self.residuals.key_order().no_duplicates(),
                forall|k: PolicyID| self.residuals@.contains_key(k) ==> rp_id(#[trigger] self.residuals@[k]) == k,
                forall|i: int| 0 <= i < self.residuals.key_order().len() ==> self.residuals@.contains_key(#[trigger] self.residuals.key_order()[i]) && *it_1.snapshot@.remaining()[i] == self.residuals@[self.residuals.key_order()[i]],
                forall|k: PolicyID| self.residuals@.contains_key(k) ==> exists|i: int| 0 <= i < self.residuals.key_order().len() && #[trigger] self.residuals.key_order()[i] == k,
                forall|i: int| 0 <= i < it_1.index@ ==> ps.links().contains_key(#[trigger] self.residuals.key_order()[i]) && ps.links()[self.residuals.key_order()[i]] == residual_as_policy(self.residuals@[self.residuals.key_order()[i]]),
                forall|k: PolicyID| ps.links().contains_key(k) ==> exists|i: int| 0 <= i < it_1.index@ && #[trigger] self.residuals.key_order()[i] == k,
        {
            broadcast use ax_residual_as_policy_id;
            proof {
                let k = it_1.index@; let ks = self.residuals.key_order();
                assert(self.residuals@.contains_key(ks[k]));
                assert(*p == self.residuals@[ks[k]]);
                assert(rp_id(*p) == ks[k]);
                if ps.links().contains_key(ks[k]) {
                    let i = choose|i: int| 0 <= i < k && #[trigger] ks[i] == ks[k];
                    assert(false);
                }
            }""")
out+="impl<'a> Response<'a> {\n"+new+"\n"+tp+"\n"+grp+"\n"+dec+"\n"+rea+"\n"+pol+"\n"+ps+"\n}\n} // verus!\nfn main() {}\n"
out="#![feature(allocator_api)]\n"+out
open('tpe.rs','w').write(out)
