#![allow(unused)]
use vstd::prelude::*;
use std::sync::Arc;
verus! {
// ---- iterator / collection model ----
#[verifier::external_body] #[verifier::reject_recursive_types(T)]
pub struct VxIter<T> { _t: std::marker::PhantomData<T> }
pub trait VxIntoIter<T>: Sized { spec fn vx_items(&self) -> Seq<T>; }
pub trait VxFromIter<T>: Sized { spec fn vx_built_from(&self, items: Seq<T>) -> bool; }
impl<T> VxIntoIter<T> for VxIter<T> { open spec fn vx_items(&self) -> Seq<T> { self.items() } }
impl<T> VxIntoIter<T> for Vec<T> { open spec fn vx_items(&self) -> Seq<T> { self@ } }
impl<T> VxFromIter<T> for Vec<T> { open spec fn vx_built_from(&self, items: Seq<T>) -> bool { self@ == items } }
impl<T> VxFromIter<T> for HashSet<T> { open spec fn vx_built_from(&self, items: Seq<T>) -> bool { forall|t: T| self.view().contains(t) <==> exists|i: int| 0 <= i < items.len() && #[trigger] items[i] == t } }
impl<T> VxIter<T> {
    pub uninterp spec fn items(&self) -> Seq<T>;
    #[verifier::external_body]
    pub fn map<U, F: Fn(T) -> U>(self, f: F) -> (r: VxIter<U>)
        requires forall|i: int| 0 <= i < self.items().len() ==> f.requires((#[trigger] self.items()[i],))
        ensures r.items().len() == self.items().len(),
            forall|i: int| #![trigger r.items()[i]] #![trigger self.items()[i]] 0 <= i < self.items().len() ==> f.ensures((self.items()[i],), r.items()[i]),
    { unimplemented!() }
    #[verifier::external_body]
    pub fn chain<I: VxIntoIter<T>>(self, o: I) -> (r: VxIter<T>) ensures r.items() == self.items() + o.vx_items() { unimplemented!() }
    #[verifier::external_body]
    pub fn collect<B: VxFromIter<T>>(self) -> (r: B) ensures r.vx_built_from(self.items()) { unimplemented!() }
}
#[verifier::external_body] #[verifier::reject_recursive_types(T)]
pub struct HashSet<T> { _p: std::marker::PhantomData<T> }
impl<T> HashSet<T> { pub uninterp spec fn view(&self) -> Set<T>; }
#[verifier::external_body] #[verifier::reject_recursive_types(K)] #[verifier::reject_recursive_types(V)]
pub struct HashMap<K, V> { _k: std::marker::PhantomData<K>, _v: std::marker::PhantomData<V> }
impl<K, V> HashMap<K, V> {
    pub uninterp spec fn view(&self) -> Map<K, V>;
    pub uninterp spec fn key_order(&self) -> Seq<K>;
    pub open spec fn pairs(&self) -> Seq<(K, V)> { Seq::new(self.key_order().len(), |i: int| (self.key_order()[i], self.view()[self.key_order()[i]])) }
    pub open spec fn order_ok(&self) -> bool {
        self.key_order().no_duplicates() && (forall|k: K| self.view().contains_key(k) <==> self.key_order().contains(k))
    }
    #[verifier::external_body] pub fn is_empty(&self) -> (b: bool) ensures b == (self.view().dom() =~= Set::<K>::empty()) { unimplemented!() }
    #[verifier::external_body] pub fn into_iter(self) -> (r: VxIter<(K, V)>) ensures r.items() == self.pairs(), self.order_ok() { unimplemented!() }
}
impl<K, V> VxIntoIter<(K, V)> for HashMap<K, V> { open spec fn vx_items(&self) -> Seq<(K, V)> { self.pairs() } }

#[verifier::external_body] pub struct PolicyID { _p: u8 }
impl Clone for PolicyID { #[verifier::external_body] fn clone(&self) -> (r: Self) ensures r == *self { unimplemented!() } }
#[verifier::external_body] pub struct Annotations { _p: u8 }
#[verifier::external_body] pub struct Expr { _p: u8 }
impl Clone for Expr { #[verifier::external_body] fn clone(&self) -> (r: Self) ensures r == *self { unimplemented!() } }
#[verifier::external_body] pub struct EvaluationError { _p: u8 }
impl EvaluationError { #[verifier::external_body] pub fn non_value(e: Expr) -> Self { unimplemented!() } }
#[derive(Clone, Copy, PartialEq, Eq)] pub enum Effect { Permit, Forbid }
#[derive(Clone, Copy, PartialEq, Eq)] pub enum Decision { Allow, Deny }
#[derive(Clone, Copy, PartialEq, Eq)] pub enum ErrorState { NoError, Error }
pub struct Policy { pub effect: Effect, pub pid: PolicyID }
impl Policy { pub fn id(&self) -> (r: &PolicyID) ensures *r == self.pid { &self.pid } }
pub enum AuthorizationError { PolicyEvaluationError { id: PolicyID, error: EvaluationError } }
pub struct Diagnostics { pub reason: HashSet<PolicyID>, pub errors: Vec<AuthorizationError> }
pub struct Response { pub decision: Decision, pub diagnostics: Diagnostics }
impl Response {
    pub fn new(decision: Decision, reason: HashSet<PolicyID>, errors: Vec<AuthorizationError>) -> (r: Self)
        ensures r.decision == decision, r.diagnostics.reason == reason, r.diagnostics.errors == errors
    { Response { decision, diagnostics: Diagnostics { reason, errors } } }
}
pub struct PartialResponse {
    pub satisfied_permits: HashMap<PolicyID, Arc<Annotations>>,
    pub false_permits: HashMap<PolicyID, (ErrorState, Arc<Annotations>)>,
    pub residual_permits: HashMap<PolicyID, (Arc<Expr>, Arc<Annotations>)>,
    pub satisfied_forbids: HashMap<PolicyID, Arc<Annotations>>,
    pub false_forbids: HashMap<PolicyID, (ErrorState, Arc<Annotations>)>,
    pub residual_forbids: HashMap<PolicyID, (Arc<Expr>, Arc<Annotations>)>,
    pub errors: Vec<AuthorizationError>,
    pub true_expr: Arc<Expr>,
    pub false_expr: Arc<Expr>,
}
pub open spec fn yields(s: Seq<Policy>, d: Set<PolicyID>, e: Effect) -> bool {
    (forall|i: int| 0 <= i < s.len() ==> d.contains((#[trigger] s[i]).pid) && s[i].effect == e)
    && (forall|k: PolicyID| d.contains(k) ==> exists|i: int| 0 <= i < s.len() && (#[trigger] s[i]).pid == k)
}
// ---- spec from the property statement ----
pub open spec fn sp(p: PartialResponse) -> Set<PolicyID> { p.satisfied_permits.view().dom() }
pub open spec fn sf(p: PartialResponse) -> Set<PolicyID> { p.satisfied_forbids.view().dom() }
pub open spec fn spec_decision(p: PartialResponse) -> Decision { if !(sp(p) =~= Set::empty()) && sf(p) =~= Set::empty() { Decision::Allow } else { Decision::Deny } }
pub open spec fn spec_reasons(p: PartialResponse) -> Set<PolicyID> { if !(sf(p) =~= Set::empty()) { sf(p) } else { sp(p) } }

impl PartialResponse {
    #[verifier::external_body]
    pub fn must_be_determining(&self) -> (r: VxIter<Policy>)
        ensures yields(r.items(),
            (if self.satisfied_forbids.view().dom() =~= Set::<PolicyID>::empty() && self.residual_forbids.view().dom() =~= Set::<PolicyID>::empty() { self.satisfied_permits.view().dom() } else { self.satisfied_forbids.view().dom() }),
            (if self.satisfied_forbids.view().dom() =~= Set::<PolicyID>::empty() && self.residual_forbids.view().dom() =~= Set::<PolicyID>::empty() { Effect::Permit } else { Effect::Forbid }))
    { unimplemented!() }
    #[verifier::external_body]
    pub fn definitely_satisfied_permits(&self) -> (r: VxIter<Policy>) ensures yields(r.items(), self.satisfied_permits.view().dom(), Effect::Permit) { unimplemented!() }
    #[verifier::external_body]
    pub fn definitely_satisfied_forbids(&self) -> (r: VxIter<Policy>) ensures yields(r.items(), self.satisfied_forbids.view().dom(), Effect::Forbid) { unimplemented!() }
    #[verifier::external_body]
    fn errors(self) -> (r: VxIter<AuthorizationError>) { unimplemented!() }
}
// verbatim body of `impl From<PartialResponse> for Response` (closure annotated by R3, tail bound by R10)
fn from(p: PartialResponse) -> (r: Response)
    ensures r.decision == spec_decision(p),
        r.diagnostics.reason.view() =~= spec_reasons(p),
{
        let decision = if !p.satisfied_permits.is_empty() && p.satisfied_forbids.is_empty() {
            Decision::Allow
        } else {
            Decision::Deny
        };
        let reason = if p.satisfied_forbids.is_empty() {
            p.definitely_satisfied_permits().map(|p: Policy| -> (r: PolicyID) ensures r == p.pid { p.id().clone() }).collect()
        } else {
            p.definitely_satisfied_forbids().map(|p: Policy| -> (r: PolicyID) ensures r == p.pid { p.id().clone() }).collect()
        };
        Response::new(
            decision,
            reason,
            p.errors().collect(),
        )
}
}
fn main() {}
