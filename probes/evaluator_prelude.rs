#![feature(allocator_api)]
#![allow(unused)]
use vstd::prelude::*;
use std::sync::Arc;
verus! {

// ---------- std model (trusted contracts) ----------
pub assume_specification<T, E, U, D: FnOnce(E) -> U, F: FnOnce(T) -> U>[ std::result::Result::<T, E>::map_or_else ](self_: std::result::Result<T, E>, default: D, f: F) -> (r: U)
    requires match self_ { Ok(t) => f.requires((t,)), Err(e) => default.requires((e,)) }
    ensures match self_ { Ok(t) => f.ensures((t,), r), Err(e) => default.ensures((e,), r) };
pub assume_specification<T, E, F: FnOnce(E) -> T>[ std::result::Result::<T, E>::unwrap_or_else ](self_: std::result::Result<T, E>, f: F) -> (r: T)
    requires self_ is Err ==> f.requires((self_->Err_0,))
    ensures match self_ { Ok(t) => r == t, Err(e) => f.ensures((e,), r) };
pub assume_specification<T, E, U, F: FnOnce(T) -> std::result::Result<U, E>>[ std::result::Result::<T, E>::and_then ](self_: std::result::Result<T, E>, f: F) -> (r: std::result::Result<U, E>)
    requires self_ is Ok ==> f.requires((self_->Ok_0,))
    ensures match self_ { Ok(t) => f.ensures((t,), r), Err(e) => r == Err::<U, E>(e) };
pub assume_specification<T: Clone, E>[ std::result::Result::<&T, E>::cloned ](self_: std::result::Result<&T, E>) -> (r: std::result::Result<T, E>)
    ensures match self_ { Ok(t) => r is Ok, Err(e) => r == Err::<T, E>(e) };
pub assume_specification<T: ?Sized, A: core::alloc::Allocator>[ <Arc<T, A> as AsRef<T>>::as_ref ](a: &Arc<T, A>) -> (r: &T);

#[verifier::external_body] pub struct SmolStr { _p: u8 }
#[verifier::external_body] #[verifier::reject_recursive_types(K)] #[verifier::accept_recursive_types(V)]
pub struct BTreeMap<K, V> { _k: std::marker::PhantomData<K>, _v: std::marker::PhantomData<V> }
#[verifier::external_body] #[verifier::reject_recursive_types(K)] #[verifier::accept_recursive_types(V)]
pub struct HashMap<K, V> { _k: std::marker::PhantomData<K>, _v: std::marker::PhantomData<V> }
impl<K, V> BTreeMap<K, V> {
    pub uninterp spec fn view(&self) -> Map<K, V>;
    #[verifier::external_body] pub fn get(&self, k: &K) -> (r: Option<&V>) ensures r == (if self.view().contains_key(*k) { Some(&self.view()[*k]) } else { None }) { unimplemented!() }
    #[verifier::external_body] pub fn contains_key(&self, k: &K) -> (r: bool) ensures r == self.view().contains_key(*k) { unimplemented!() }
    #[verifier::external_body] pub fn len(&self) -> usize { unimplemented!() }
    #[verifier::external_body] pub fn keys(&self) -> std::vec::IntoIter<&K> { unimplemented!() }
    #[verifier::external_body] pub fn iter(&self) -> VxIter<(&K, &V)> { unimplemented!() }
}
#[verifier::external_body] #[verifier::reject_recursive_types(K)] pub struct Keys<K> { _k: std::marker::PhantomData<K> }
#[verifier::external_body] #[verifier::reject_recursive_types(K)] #[verifier::reject_recursive_types(V)] pub struct MapIter<K, V> { _k: std::marker::PhantomData<K>, _v: std::marker::PhantomData<V> }
impl<K, V> HashMap<K, V> {
    pub uninterp spec fn view(&self) -> Map<K, V>;
    #[verifier::external_body] pub fn get(&self, k: &K) -> (r: Option<&V>) ensures r == (if self.view().contains_key(*k) { Some(&self.view()[*k]) } else { None }) { unimplemented!() }
}
impl Clone for SmolStr { #[verifier::external_body] fn clone(&self) -> (r: Self) ensures r == *self { unimplemented!() } }

// ---------- opaque cedar types ----------
#[verifier::external_body] pub struct Loc { _p: u8 }
impl Clone for Loc { #[verifier::external_body] fn clone(&self) -> (r: Self) ensures r == *self { unimplemented!() } }
#[verifier::external_body] pub struct EntityUID { _p: u8 }
#[verifier::external_body] pub struct EntityType { _p: u8 }
#[verifier::external_body] pub struct Name { _p: u8 }
#[verifier::external_body] pub struct Pattern { _p: u8 }
#[verifier::external_body] pub struct Entity { _p: u8 }
#[verifier::external_body] pub struct Entities { _p: u8 }
#[verifier::external_body] pub struct Extensions { _p: u8 }
#[verifier::external_body] pub struct ExtRepr { _p: u8 }
#[verifier::external_body] pub struct Set { _p: u8 }
#[verifier::external_body] pub struct SlotId { _p: u8 }
pub struct TypeError { pub advice: Option<String>, pub rest: u8 }
pub type Integer = i64;
pub type SlotEnv = HashMap<SlotId, EntityUID>;

#[derive(Clone, Copy, PartialEq, Eq)] pub enum UnaryOp { Not, Neg, IsEmpty }
#[derive(Clone, Copy, PartialEq, Eq)] pub enum BinaryOp { Eq, Less, LessEq, Add, Sub, Mul, In, Contains, ContainsAll, ContainsAny, GetTag, HasTag }
#[derive(Clone, Copy, PartialEq, Eq)] pub enum Var { Principal, Action, Resource, Context }
pub enum Type { Bool, Long, String, Set, Record, Entity { ty: EntityType }, Extension { name: Name } }
pub struct Unknown { pub name: SmolStr, pub type_annotation: Option<Type> }

pub enum Literal { Bool(bool), Long(Integer), String(SmolStr), EntityUID(Arc<EntityUID>) }
pub enum ValueKind { Lit(Literal), Set(Set), Record(Arc<BTreeMap<SmolStr, Value>>), ExtensionValue(Arc<ExtRepr>) }
pub struct Value { pub value: ValueKind, pub loc: Option<Loc> }
pub struct Expr { pub expr_kind: ExprKind, pub source_loc: Option<Loc>, pub data: () }
pub enum ExprKind {
    Lit(Literal), Var(Var), Slot(SlotId), Unknown(Unknown),
    If { test_expr: Arc<Expr>, then_expr: Arc<Expr>, else_expr: Arc<Expr> },
    And { left: Arc<Expr>, right: Arc<Expr> },
    Or { left: Arc<Expr>, right: Arc<Expr> },
    UnaryApp { op: UnaryOp, arg: Arc<Expr> },
    BinaryApp { op: BinaryOp, arg1: Arc<Expr>, arg2: Arc<Expr> },
    ExtensionFunctionApp { fn_name: Name, args: Arc<Vec<Expr>> },
    GetAttr { expr: Arc<Expr>, attr: SmolStr },
    HasAttr { expr: Arc<Expr>, attr: SmolStr },
    Like { expr: Arc<Expr>, pattern: Pattern },
    Is { expr: Arc<Expr>, entity_type: EntityType },
    Set(Arc<Vec<Expr>>),
    Record(Arc<BTreeMap<SmolStr, Expr>>),
}
pub enum PartialValue { Value(Value), Residual(Expr) }
pub enum Dereference<'a, T> { NoSuchEntity, Residual(Expr), Data(&'a T) }
pub enum EntityUIDEntry { Known { euid: Arc<EntityUID>, loc: Option<Loc> }, Unknown { ty: Option<EntityType>, loc: Option<Loc> } }

pub enum EvaluationError { TypeError(TypeError), Other }
pub type Result<T> = std::result::Result<T, EvaluationError>;

pub struct Evaluator<'e> {
    principal: EntityUIDEntry, action: EntityUIDEntry, resource: EntityUIDEntry,
    context: PartialValue, entities: &'e Entities, extensions: &'e Extensions,
}
