#![allow(unused)]
use vstd::prelude::*;
use std::sync::Arc;
verus! {
// ---------- std / linked-hash-map model (trusted) ----------
#[verifier::external_body] #[verifier::reject_recursive_types(K)] #[verifier::reject_recursive_types(V)]
pub struct LinkedHashMap<K, V> { _k: std::marker::PhantomData<K>, _v: std::marker::PhantomData<V> }
#[verifier::external_body] #[verifier::reject_recursive_types(T)]
pub struct LinkedHashSet<T> { _t: std::marker::PhantomData<T> }
#[verifier::reject_recursive_types(K)] #[verifier::reject_recursive_types(V)]
pub struct VacantEntry<'a, K, V> { pub map: &'a mut LinkedHashMap<K, V>, pub key: K }
#[verifier::reject_recursive_types(K)] #[verifier::reject_recursive_types(V)]
pub struct OccupiedEntry<'a, K, V> { pub map: &'a mut LinkedHashMap<K, V>, pub key: K }
#[verifier::reject_recursive_types(K)] #[verifier::reject_recursive_types(V)]
pub enum Entry<'a, K, V> { Vacant(VacantEntry<'a, K, V>), Occupied(OccupiedEntry<'a, K, V>) }
impl<'a, K, V> VacantEntry<'a, K, V> {
    #[verifier::external_body]
    pub fn insert(self, v: V) -> (r: &'a mut V)
        ensures final(self.map).view() == old(self.map).view().insert(self.key, *final(r)), *r == v
    { unimplemented!() }
}
impl<'a, K, V> OccupiedEntry<'a, K, V> {
    #[verifier::external_body]
    pub fn key(&self) -> (r: &K) ensures *r == self.key { unimplemented!() }
    #[verifier::external_body]
    pub fn get(&self) -> (r: &V) ensures old(self.map).view().contains_key(self.key) && *r == old(self.map).view()[self.key] { unimplemented!() }
    #[verifier::external_body]
    pub fn into_mut(self) -> (r: &'a mut V)
        ensures old(self.map).view().contains_key(self.key), *r == old(self.map).view()[self.key],
            final(self.map).view() == old(self.map).view().insert(self.key, *final(r))
    { unimplemented!() }
}
pub trait VxDefault: Sized { spec fn dflt() -> Self; }
impl<T> VxDefault for LinkedHashSet<T> { uninterp spec fn dflt() -> Self; }
pub broadcast axiom fn ax_dflt_set<T>() ensures #[trigger] <LinkedHashSet<T> as VxDefault>::dflt().view() == Set::<T>::empty();
impl<'a, K, V: VxDefault> Entry<'a, K, V> {
    #[verifier::external_body]
    pub fn or_default(self) -> (r: &'a mut V)
        ensures match self {
            Entry::Vacant(_) => *r == V::dflt() && final(self->Vacant_0.map).view() == old(self->Vacant_0.map).view().insert(self->Vacant_0.key, *final(r)),
            Entry::Occupied(_) => old(self->Occupied_0.map).view().contains_key(self->Occupied_0.key) && *r == old(self->Occupied_0.map).view()[self->Occupied_0.key] && final(self->Occupied_0.map).view() == old(self->Occupied_0.map).view().insert(self->Occupied_0.key, *final(r)),
        }
    { unimplemented!() }
}
impl<K, V> LinkedHashMap<K, V> {
    pub uninterp spec fn view(&self) -> Map<K, V>;
    #[verifier::external_body] pub fn new() -> (r: Self) ensures r.view() == Map::<K, V>::empty() { unimplemented!() }
    #[verifier::external_body]
    pub fn entry<'a>(&'a mut self, k: K) -> (e: Entry<'a, K, V>)
        ensures match e {
            Entry::Vacant(v) => !old(self).view().contains_key(k) && v.key == k && *v.map == *old(self) && *final(self) == *final(v.map),
            Entry::Occupied(o) => old(self).view().contains_key(k) && o.key == k && *o.map == *old(self) && *final(self) == *final(o.map),
        }
    { unimplemented!() }
    #[verifier::external_body] pub fn contains_key(&self, k: &K) -> (b: bool) ensures b == self.view().contains_key(*k) { unimplemented!() }
    #[verifier::external_body] pub fn get(&self, k: &K) -> (r: Option<&V>) ensures r == (if self.view().contains_key(*k) { Some(&self.view()[*k]) } else { None }) { unimplemented!() }
    #[verifier::external_body] pub fn insert(&mut self, k: K, v: V) -> (o: Option<V>) ensures final(self).view() == old(self).view().insert(k, v) { unimplemented!() }
    #[verifier::external_body] pub fn remove(&mut self, k: &K) -> (o: Option<V>)
        ensures final(self).view() == old(self).view().remove(*k),
            o == (if old(self).view().contains_key(*k) { Some(old(self).view()[*k]) } else { None })
    { unimplemented!() }
}
impl<T> LinkedHashSet<T> {
    pub uninterp spec fn view(&self) -> Set<T>;
    #[verifier::external_body] pub fn new() -> (r: Self) ensures r.view() == Set::<T>::empty() { unimplemented!() }
    #[verifier::external_body] pub fn insert(&mut self, t: T) -> (b: bool) ensures final(self).view() == old(self).view().insert(t) { unimplemented!() }
    #[verifier::external_body] pub fn remove(&mut self, t: &T) -> (b: bool) ensures final(self).view() == old(self).view().remove(*t) { unimplemented!() }
    #[verifier::external_body] pub fn is_empty(&self) -> (b: bool) ensures b == (self.view() =~= Set::<T>::empty()) { unimplemented!() }
}
// ---------- opaque cedar types ----------
#[verifier::external_body] pub struct PolicyID { _p: u8 }
impl Clone for PolicyID { #[verifier::external_body] fn clone(&self) -> (r: Self) ensures r == *self { unimplemented!() } }
#[verifier::external_body] pub struct Template { _p: u8 }
#[verifier::external_body] pub struct Policy { _p: u8 }
impl Template {
    pub uninterp spec fn spec_id(&self) -> PolicyID;
    #[verifier::external_body] pub fn id(&self) -> (r: &PolicyID) ensures *r == self.spec_id() { unimplemented!() }
}
impl Policy {
    pub uninterp spec fn spec_id(&self) -> PolicyID;
    pub uninterp spec fn spec_template(&self) -> Template;
    #[verifier::external_body] pub fn id(&self) -> (r: &PolicyID) ensures *r == self.spec_id() { unimplemented!() }
    #[verifier::external_body] pub fn template(&self) -> (r: &Template) ensures *r == self.spec_template() { unimplemented!() }
    #[verifier::external_body] pub fn template_arc(&self) -> (r: Arc<Template>) ensures *r == self.spec_template() { unimplemented!() }
}
impl PartialEq for Template { #[verifier::external_body] fn eq(&self, o: &Self) -> (b: bool) ensures b == (*self == *o) { unimplemented!() } }
pub enum PolicySetError { Occupied { id: PolicyID } }
pub enum PolicySetUnlinkError { UnlinkingError(PolicyID), NotLinkError(PolicyID) }
pub enum PolicySetTemplateRemovalError { RemovePolicyNoTemplateError(PolicyID), RemoveTemplateWithLinksError(PolicyID), NotTemplateError(PolicyID) }
pub enum PolicySetPolicyRemovalError { RemovePolicyNoLinkError(PolicyID), RemovePolicyNoTemplateError(PolicyID) }
#[verifier::external_body]
pub fn arc_unwrap_or_clone(t: Arc<Template>) -> (r: Template) ensures r == *t { unimplemented!() }

#[verifier::external_body]
pub fn vx_singleton(p: PolicyID) -> (r: LinkedHashSet<PolicyID>) ensures r.view() == Set::<PolicyID>::empty().insert(p) { unimplemented!() }
pub struct PolicySet {
    pub templates: LinkedHashMap<PolicyID, Arc<Template>>,
    pub links: LinkedHashMap<PolicyID, Policy>,
    pub template_to_links_map: LinkedHashMap<PolicyID, LinkedHashSet<PolicyID>>,
}

pub open spec fn tid(p: Policy) -> PolicyID { p.spec_template().spec_id() }
pub open spec fn inv(ps: PolicySet) -> bool {
    let T = ps.templates.view(); let L = ps.links.view(); let M = ps.template_to_links_map.view();
    &&& M.dom() =~= T.dom()
    &&& forall|t: PolicyID| T.contains_key(t) ==> (#[trigger] T[t]).spec_id() == t
    &&& forall|l: PolicyID| L.contains_key(l) ==> (#[trigger] L[l]).spec_id() == l && T.contains_key(tid(L[l])) && M[tid(L[l])].view().contains(l)
    &&& forall|t: PolicyID, l: PolicyID| M.contains_key(t) && (#[trigger] M[t].view().contains(l)) ==> L.contains_key(l) && tid(L[l]) == t
}
pub open spec fn same(a: PolicySet, b: PolicySet) -> bool {
    a.templates.view() =~= b.templates.view() && a.links.view() =~= b.links.view() && a.template_to_links_map.view() =~= b.template_to_links_map.view()
}
impl PolicySet {
    pub fn add(&mut self, policy: Policy) -> Result<(), PolicySetError> {
        let t = policy.template_arc();
        let template_ventry = match self.templates.entry(t.id().clone()) {
            Entry::Vacant(ventry) => Some(ventry),
            Entry::Occupied(oentry) => {
                if oentry.get() != &t {
                    return Err(PolicySetError::Occupied {
                        id: oentry.key().clone(),
                    });
                }
                None
            }
        };

        let link_ventry = match self.links.entry(policy.id().clone()) {
            Entry::Vacant(ventry) => Some(ventry),
            Entry::Occupied(oentry) => {
                return Err(PolicySetError::Occupied {
                    id: oentry.key().clone(),
                });
            }
        };
        if let Some(ventry) = template_ventry {
            self.template_to_links_map.insert(
                t.id().clone(),
                vx_singleton(policy.id().clone()),
            );
            ventry.insert(t);
        } else {
            self.template_to_links_map
                .entry(t.id().clone())
                .or_default()
                .insert(policy.id().clone());
        }
        if let Some(ventry) = link_ventry {
            ventry.insert(policy);
        }

        Ok(())
    }
    fn policy_id_is_bound(&self, pid: &PolicyID) -> bool {
        self.templates.contains_key(pid) || self.links.contains_key(pid)
    }
    pub fn remove_static(
        &mut self,
        policy_id: &PolicyID,
    ) -> Result<Policy, PolicySetPolicyRemovalError> {
        let policy = match self.links.remove(policy_id) {
            Some(p) => p,
            None => {
                return Err(PolicySetPolicyRemovalError::RemovePolicyNoLinkError(
                    policy_id.clone(),
                ))
            }
        };
        match self.templates.remove(policy_id) {
            Some(_) => {
                self.template_to_links_map.remove(policy_id);
                Ok(policy)
            }
            None => {
                self.links.insert(policy_id.clone(), policy);
                Err(PolicySetPolicyRemovalError::RemovePolicyNoTemplateError(
                    policy_id.clone(),
                ))
            }
        }
    }
    pub fn add_template(&mut self, t: Template) -> (r: Result<(), PolicySetError>)
        requires inv(*old(self))
        ensures inv(*final(self)),
            r is Ok <==> !old(self).links.view().contains_key(t.spec_id()) && !old(self).templates.view().contains_key(t.spec_id()),
            r is Ok ==> final(self).templates.view() == old(self).templates.view().insert(t.spec_id(), Arc::new(t))
                && final(self).links.view() == old(self).links.view()
                && final(self).template_to_links_map.view().dom() == old(self).template_to_links_map.view().dom().insert(t.spec_id())
                && final(self).template_to_links_map.view()[t.spec_id()].view() == Set::<PolicyID>::empty(),
            r is Err ==> same(*final(self), *old(self)),
    {
        if self.links.contains_key(t.id()) {
            return Err(PolicySetError::Occupied { id: t.id().clone() });
        }

        match self.templates.entry(t.id().clone()) {
            Entry::Occupied(oentry) => Err(PolicySetError::Occupied {
                id: oentry.key().clone(),
            }),
            Entry::Vacant(ventry) => {
                self.template_to_links_map
                    .insert(t.id().clone(), LinkedHashSet::new());
                ventry.insert(Arc::new(t));
                Ok(())
            }
        }
    }
    pub fn remove_template(
        &mut self,
        policy_id: &PolicyID,
    ) -> (r: Result<Template, PolicySetTemplateRemovalError>)
        requires inv(*old(self))
        ensures inv(*final(self)),
            r is Ok <==> !old(self).links.view().contains_key(*policy_id) && old(self).template_to_links_map.view().contains_key(*policy_id)
                && old(self).template_to_links_map.view()[*policy_id].view() =~= Set::<PolicyID>::empty(),
            r is Ok ==> final(self).templates.view() == old(self).templates.view().remove(*policy_id)
                && final(self).links.view() == old(self).links.view()
                && final(self).template_to_links_map.view() == old(self).template_to_links_map.view().remove(*policy_id)
                && r->Ok_0 == *old(self).templates.view()[*policy_id],
            r is Err ==> same(*final(self), *old(self)),
    {
        if self.links.contains_key(policy_id) {
            return Err(PolicySetTemplateRemovalError::NotTemplateError(
                policy_id.clone(),
            ));
        }

        match self.template_to_links_map.get(policy_id) {
            Some(map) => {
                if !map.is_empty() {
                    return Err(PolicySetTemplateRemovalError::RemoveTemplateWithLinksError(
                        policy_id.clone(),
                    ));
                }
            }
            None => {
                return Err(PolicySetTemplateRemovalError::RemovePolicyNoTemplateError(
                    policy_id.clone(),
                ))
            }
        };

        
        match self.templates.remove(policy_id) {
            Some(t) => {
                self.template_to_links_map.remove(policy_id);
                Ok(arc_unwrap_or_clone(t))
            }
            None => panic!("Found in template_to_links_map but not in templates"),
        }
    }
    pub fn unlink(&mut self, policy_id: &PolicyID) -> (r: Result<Policy, PolicySetUnlinkError>)
        requires inv(*old(self))
        ensures inv(*final(self)),
            r is Ok <==> !old(self).templates.view().contains_key(*policy_id) && old(self).links.view().contains_key(*policy_id),
            r is Ok ==> final(self).templates.view() == old(self).templates.view()
                && final(self).links.view() == old(self).links.view().remove(*policy_id)
                && r->Ok_0 == old(self).links.view()[*policy_id],
            r is Err ==> same(*final(self), *old(self)),
    {
        if self.templates.contains_key(policy_id) {
            return Err(PolicySetUnlinkError::NotLinkError(policy_id.clone()));
        }
        match self.links.remove(policy_id) {
            Some(p) => {
                
                match self.template_to_links_map.entry(p.template().id().clone()) {
                    Entry::Occupied(t) => t.into_mut().remove(policy_id),
                    Entry::Vacant(_) => {
                        panic!("No template found for linked policy")
                    }
                };
                Ok(p)
            }
            None => Err(PolicySetUnlinkError::UnlinkingError(policy_id.clone())),
        }
    }
}
} // verus!
fn main() {}
