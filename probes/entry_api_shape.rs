use vstd::prelude::*;
verus! {
#[verifier::external_body] #[verifier::reject_recursive_types(K)] #[verifier::reject_recursive_types(V)]
pub struct LMap<K, V> { _k: std::marker::PhantomData<K>, _v: std::marker::PhantomData<V> }
#[verifier::external_body] #[verifier::reject_recursive_types(K)] #[verifier::reject_recursive_types(V)]
pub struct VacantEntry<'a, K, V> { _k: std::marker::PhantomData<&'a mut K>, _v: std::marker::PhantomData<V> }
#[verifier::reject_recursive_types(K)] #[verifier::reject_recursive_types(V)]
pub enum Entry<'a, K, V> { Vacant(VacantEntry<'a, K, V>), Occupied(u8) }
impl<K, V> LMap<K, V> {
    pub uninterp spec fn view(&self) -> Map<K, V>;
    #[verifier::external_body]
    pub fn entry<'a>(&'a mut self, k: K) -> (e: Entry<'a, K, V>) { unimplemented!() }
    #[verifier::external_body]
    pub fn remove(&mut self, k: &K) -> (r: Option<V>)
        ensures final(self).view() == old(self).view().remove(*k), r == (if old(self).view().contains_key(*k) { Some(old(self).view()[*k]) } else { None })
    { unimplemented!() }
    #[verifier::external_body]
    pub fn values(&self) -> (r: std::slice::Iter<'_, V>) { unimplemented!() }
}
impl<'a, K, V> VacantEntry<'a, K, V> {
    #[verifier::external_body]
    pub fn insert(self, v: V) { unimplemented!() }
}
pub struct PS { links: LMap<u64, u64>, templates: LMap<u64, u64> }
impl PS {
    fn add_t(&mut self, id: u64, t: u64) -> bool {
        match self.templates.entry(id) {
            Entry::Vacant(v) => { v.insert(t); true }
            Entry::Occupied(_) => false,
        }
    }
    pub fn policies(&self) -> impl Iterator<Item = &u64> {
        self.links.values()
    }
}
}
fn main() {}
