// ---------- spec: expression semantics (prototype: And / Or / If only) ----------
pub enum ErrClass { Type, NoEntity, NoAttr, Overflow, Ext, Other }
pub enum Res { Unk, Err(ErrClass), Ok(ValueKind) }
pub uninterp spec fn err_class(e: EvaluationError) -> ErrClass;
pub uninterp spec fn sem_other(ev: Evaluator, slots: SlotEnv, e: Expr) -> Res;
pub open spec fn as_bool(v: ValueKind) -> Option<bool> { match v { ValueKind::Lit(Literal::Bool(b)) => Some(b), _ => None } }
pub open spec fn bool_v(b: bool) -> ValueKind { ValueKind::Lit(Literal::Bool(b)) }
pub open spec fn want_bool(r: Res) -> Res {
    match r { Res::Ok(v) => match as_bool(v) { Some(b) => Res::Ok(bool_v(b)), None => Res::Err(ErrClass::Type) }, _ => r }
}
pub open spec fn sem(ev: Evaluator, slots: SlotEnv, e: Expr) -> Res
    decreases e
{
    match e.expr_kind {
        ExprKind::And { left, right } => match want_bool(sem(ev, slots, *left)) {
            Res::Ok(v) => if as_bool(v) == Some(false) { Res::Ok(bool_v(false)) } else { want_bool(sem(ev, slots, *right)) },
            r => r,
        },
        ExprKind::Or { left, right } => match want_bool(sem(ev, slots, *left)) {
            Res::Ok(v) => if as_bool(v) == Some(true) { Res::Ok(bool_v(true)) } else { want_bool(sem(ev, slots, *right)) },
            r => r,
        },
        ExprKind::If { test_expr, then_expr, else_expr } => match want_bool(sem(ev, slots, *test_expr)) {
            Res::Ok(v) => if as_bool(v) == Some(true) { sem(ev, slots, *then_expr) } else { sem(ev, slots, *else_expr) },
            r => r,
        },
        _ => sem_other(ev, slots, e),
    }
}
pub open spec fn agrees(r: Result<PartialValue>, s: Res) -> bool {
    match s {
        Res::Unk => true,
        Res::Err(c) => r is Err && err_class(r->Err_0) == c,
        Res::Ok(v) => r is Ok && r->Ok_0 is Value && r->Ok_0->Value_0.value == v,
    }
}
