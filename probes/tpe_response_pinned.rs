#![feature(allocator_api)]
#![allow(unused)]
use vstd::prelude::*;
use vstd::std_specs::iter::IteratorSpec;
use std::sync::Arc;
verus! {
// ---------- std model ----------
#[verifier::external_body] #[verifier::reject_recursive_types(T)]
pub struct VxIter<T> { _t: std::marker::PhantomData<T> }
impl<T> VxIter<T> {
    pub uninterp spec fn items(&self) -> Seq<T>;
    #[verifier::external_body]
    pub fn vx_for(self) -> (r: std::vec::IntoIter<T>)
        ensures r.remaining() == self.items(), r.obeys_prophetic_iter_laws(), r.decrease() is Some,
    { unimplemented!() }
    #[verifier::external_body]
    pub fn map<U, F: Fn(T) -> U>(self, f: F) -> (r: VxIter<U>)
        requires forall|i: int| 0 <= i < self.items().len() ==> f.requires((#[trigger] self.items()[i],))
        ensures r.items().len() == self.items().len(),
            forall|i: int| 0 <= i < self.items().len() ==> f.ensures((self.items()[i],), #[trigger] r.items()[i]),
    { unimplemented!() }
}
#[verifier::external_body] #[verifier::reject_recursive_types(T)]
pub struct HashSet<T> { _p: std::marker::PhantomData<T> }
impl<T> HashSet<T> {
    pub uninterp spec fn view(&self) -> Set<T>;
    #[verifier::external_body] pub fn new() -> (r: Self) ensures r.view() == Set::<T>::empty() { unimplemented!() }
    #[verifier::external_body] pub fn insert(&mut self, t: T) -> (b: bool) ensures final(self).view() == old(self).view().insert(t) { unimplemented!() }
    #[verifier::external_body] pub fn is_empty(&self) -> (b: bool) ensures b == (self.view() =~= Set::<T>::empty()) { unimplemented!() }
    #[verifier::external_body] pub fn iter(&self) -> (r: VxIter<&T>)
        ensures forall|i: int| 0 <= i < r.items().len() ==> self.view().contains(*(#[trigger] r.items()[i])),
            forall|t: T| self.view().contains(t) ==> exists|i: int| 0 <= i < r.items().len() && *(#[trigger] r.items()[i]) == t,
    { unimplemented!() }
}
#[verifier::external_body] #[verifier::reject_recursive_types(K)] #[verifier::reject_recursive_types(V)]
pub struct HashMap<K, V> { _k: std::marker::PhantomData<K>, _v: std::marker::PhantomData<V> }
impl<K, V> HashMap<K, V> {
    pub uninterp spec fn view(&self) -> Map<K, V>;
    #[verifier::external_body] pub fn new() -> (r: Self) ensures r.view() == Map::<K, V>::empty() { unimplemented!() }
    #[verifier::external_body] pub fn insert(&mut self, k: K, v: V) -> (o: Option<V>) ensures final(self).view() == old(self).view().insert(k, v) { unimplemented!() }
    #[verifier::external_body] pub fn get(&self, k: &K) -> (r: Option<&V>) ensures r == (if self.view().contains_key(*k) { Some(&self.view()[*k]) } else { None }) { unimplemented!() }
    /// some duplicate-free enumeration of the keys (arbitrary but fixed per map value)
    pub uninterp spec fn key_order(&self) -> Seq<K>;
    #[verifier::external_body] pub fn values(&self) -> (r: VxIter<&V>)
        ensures r.items().len() == self.key_order().len(), self.key_order().no_duplicates(),
            forall|i: int| 0 <= i < r.items().len() ==> self.view().contains_key(#[trigger] self.key_order()[i]) && *r.items()[i] == self.view()[self.key_order()[i]],
            forall|k: K| self.view().contains_key(k) ==> exists|i: int| 0 <= i < self.key_order().len() && #[trigger] self.key_order()[i] == k,
    { unimplemented!() }
}
// ---------- opaque cedar types ----------
#[verifier::external_body] pub struct PolicyID { _p: u8 }
impl Clone for PolicyID { #[verifier::external_body] fn clone(&self) -> (r: Self) ensures r == *self { unimplemented!() } }
#[verifier::external_body] pub struct Loc { _p: u8 }
#[verifier::external_body] pub struct SmolStr { _p: u8 }
#[verifier::external_body] pub struct EntityUID { _p: u8 }
#[verifier::external_body] pub struct SetRepr { _p: u8 }
#[verifier::external_body] pub struct RecordRepr { _p: u8 }
#[verifier::external_body] pub struct ExtRepr { _p: u8 }
#[verifier::external_body] pub struct Type { _p: u8 }
#[verifier::external_body] pub struct ResidualKind { _p: u8 }
#[verifier::external_body] pub struct PartialRequest { _p: u8 }
#[verifier::external_body] pub struct PartialEntities { _p: u8 }
#[verifier::external_body] pub struct ValidatorSchema { _p: u8 }
#[verifier::external_body] pub struct Policy { _p: u8 }
#[verifier::external_body] pub struct PolicySet { _p: u8 }
#[verifier::external_body] pub struct PolicySetError { _p: u8 }
impl std::fmt::Debug for PolicySetError { #[verifier::external_body] fn fmt(&self, f: &mut std::fmt::Formatter<'_>) -> std::fmt::Result { unimplemented!() } }
#[derive(Clone, Copy, PartialEq, Eq)] pub enum Effect { Permit, Forbid }
#[derive(Clone, Copy, PartialEq, Eq)] pub enum Decision { Allow, Deny }
pub type Integer = i64;
pub enum Literal { Bool(bool), Long(Integer), String(SmolStr), EntityUID(Arc<EntityUID>) }
pub enum ValueKind { Lit(Literal), Set(SetRepr), Record(Arc<RecordRepr>), ExtensionValue(Arc<ExtRepr>) }
pub struct Value { pub value: ValueKind, pub loc: Option<Loc> }
pub enum Residual { Partial { kind: ResidualKind, ty: Type }, Concrete { value: Value, ty: Type }, Error(Type) }

impl Policy {
    pub uninterp spec fn spec_id(&self) -> PolicyID;
    pub uninterp spec fn spec_effect(&self) -> Effect;
    #[verifier::external_body] pub fn id(&self) -> (r: &PolicyID) ensures *r == self.spec_id() { unimplemented!() }
    #[verifier::external_body] pub fn effect(&self) -> (r: Effect) ensures r == self.spec_effect() { unimplemented!() }
}
impl Clone for Policy { #[verifier::external_body] fn clone(&self) -> (r: Self) ensures r == *self { unimplemented!() } }
/// spec of `impl From<ResidualPolicy> for Policy` (condition = the residual; id/effect/annotations of the original)
pub uninterp spec fn residual_as_policy(rp: ResidualPolicy) -> Policy;
impl PolicySet {
    pub uninterp spec fn links(&self) -> Map<PolicyID, Policy>;
    #[verifier::external_body] pub fn new() -> (r: Self) ensures r.links() == Map::<PolicyID, Policy>::empty() { unimplemented!() }
    #[verifier::external_body] pub fn add(&mut self, p: Policy) -> (r: std::result::Result<(), PolicySetError>)
        ensures r is Ok <==> !old(self).links().contains_key(p.spec_id()),
            r is Ok ==> final(self).links() == old(self).links().insert(p.spec_id(), p),
            r is Err ==> final(self).links() == old(self).links(),
    { unimplemented!() }
}
pub struct ResidualPolicy {
    pub residual: Arc<Residual>,
    pub policy: Arc<Policy>,
}
pub struct Response<'a> {
    pub decision: Option<Decision>,
    pub residuals: HashMap<PolicyID, ResidualPolicy>,
    pub true_permits: HashSet<PolicyID>,
    pub false_permits: HashSet<PolicyID>,
    pub error_permits: HashSet<PolicyID>,
    pub residual_permits: HashSet<PolicyID>,
    pub true_forbids: HashSet<PolicyID>,
    pub false_forbids: HashSet<PolicyID>,
    pub error_forbids: HashSet<PolicyID>,
    pub residual_forbids: HashSet<PolicyID>,
    pub request: &'a PartialRequest,
    pub entities: &'a PartialEntities,
    pub schema: &'a ValidatorSchema,
}
// ---------- spec ----------
pub open spec fn class(r: Residual) -> int {
    match r {
        Residual::Concrete { value: Value { value: ValueKind::Lit(Literal::Bool(true)), .. }, .. } => 0,
        Residual::Concrete { value: Value { value: ValueKind::Lit(Literal::Bool(false)), .. }, .. } => 1,
        Residual::Error(_) => 2,
        _ => 3,
    }
}
pub open spec fn rp_id(rp: ResidualPolicy) -> PolicyID { rp.policy.spec_id() }
pub open spec fn rp_eff(rp: ResidualPolicy) -> Effect { rp.policy.spec_effect() }
pub open spec fn picks(rs: Seq<ResidualPolicy>, n: int, id: PolicyID, eff: Effect, c: int) -> bool {
    exists|i: int| 0 <= i < n && rp_id(#[trigger] rs[i]) == id && rp_eff(rs[i]) == eff && class(*rs[i].residual) == c
}
pub open spec fn bucket_ok(s: Set<PolicyID>, rs: Seq<ResidualPolicy>, n: int, eff: Effect, c: int) -> bool {
    forall|id: PolicyID| s.contains(id) <==> picks(rs, n, id, eff, c)
}
pub open spec fn map_ok(m: Map<PolicyID, ResidualPolicy>, rs: Seq<ResidualPolicy>, n: int) -> bool {
    (forall|i: int| 0 <= i < n ==> m.contains_key(rp_id(#[trigger] rs[i])) && m[rp_id(rs[i])] == rs[i])
    && (forall|id: PolicyID| m.contains_key(id) ==> exists|i: int| 0 <= i < n && rp_id(#[trigger] rs[i]) == id)
}
pub open spec fn distinct_ids(rs: Seq<ResidualPolicy>) -> bool {
    forall|i: int, j: int| 0 <= i < j < rs.len() ==> rp_id(#[trigger] rs[i]) != rp_id(#[trigger] rs[j])
}
pub open spec fn table(tf: bool, tp: bool, rp: bool, rf: bool) -> Option<Decision> {
    if tf { Some(Decision::Deny) } else if !tp && !rp { Some(Decision::Deny) } else if rf { None } else if !tp { None } else { Some(Decision::Allow) }
}
pub open spec fn all_ok(r: Response, rs: Seq<ResidualPolicy>, n: int) -> bool {
    map_ok(r.residuals@, rs, n)
    && bucket_ok(r.true_permits@, rs, n, Effect::Permit, 0) && bucket_ok(r.false_permits@, rs, n, Effect::Permit, 1)
    && bucket_ok(r.error_permits@, rs, n, Effect::Permit, 2) && bucket_ok(r.residual_permits@, rs, n, Effect::Permit, 3)
    && bucket_ok(r.true_forbids@, rs, n, Effect::Forbid, 0) && bucket_ok(r.false_forbids@, rs, n, Effect::Forbid, 1)
    && bucket_ok(r.error_forbids@, rs, n, Effect::Forbid, 2) && bucket_ok(r.residual_forbids@, rs, n, Effect::Forbid, 3)
}
/// representation invariant of Response: every classified id has its residual policy
pub open spec fn wf(r: Response) -> bool {
    forall|id: PolicyID| (r.true_permits@.contains(id) || r.false_permits@.contains(id) || r.error_permits@.contains(id) || r.residual_permits@.contains(id)
        || r.true_forbids@.contains(id) || r.false_forbids@.contains(id) || r.error_forbids@.contains(id) || r.residual_forbids@.contains(id))
        ==> r.residuals@.contains_key(id)
}

impl vstd::std_specs::convert::FromSpecImpl<ResidualPolicy> for Policy {
    open spec fn obeys_from_spec() -> bool { true }
    open spec fn from_spec(v: ResidualPolicy) -> Policy { residual_as_policy(v) }
}
impl From<ResidualPolicy> for Policy { #[verifier::external_body] fn from(v: ResidualPolicy) -> Self { unimplemented!() } }
impl Clone for ResidualPolicy { #[verifier::external_body] fn clone(&self) -> (r: Self) ensures r == *self { unimplemented!() } }
pub broadcast axiom fn ax_residual_as_policy_id(rp: ResidualPolicy)
    ensures (#[trigger] residual_as_policy(rp)).spec_id() == rp_id(rp), residual_as_policy(rp).spec_effect() == rp_eff(rp);
pub assume_specification<T: ?Sized, A: core::alloc::Allocator>[ <Arc<T, A> as AsRef<T>>::as_ref ](a: &Arc<T, A>) -> (r: &T);
impl Residual {
    pub fn is_true(&self) -> (r: bool) ensures r == (class(*self) == 0) {
        matches!(
            self,
            Residual::Concrete {
                value: Value {
                    value: ValueKind::Lit(Literal::Bool(true)),
                    ..
                },
                ..
            }
        )
    }
    pub fn is_false(&self) -> (r: bool) ensures r == (class(*self) == 1) {
        matches!(
            self,
            Residual::Concrete {
                value: Value {
                    value: ValueKind::Lit(Literal::Bool(false)),
                    ..
                },
                ..
            }
        )
    }
    pub fn is_error(&self) -> (r: bool) ensures r == (class(*self) == 2) {
        matches!(self, Residual::Error { .. })
    }
}
impl ResidualPolicy {
    pub fn new(residual: Arc<Residual>, policy: Arc<Policy>) -> Self {
        Self { residual, policy }
    }
    pub fn get_effect(&self) -> (r: Effect) ensures r == rp_eff(*self) {
        self.policy.effect()
    }
    pub fn get_residual(&self) -> (r: Arc<Residual>) ensures r == self.residual {
        self.residual.clone()
    }
    pub fn get_policy_id(&self) -> (r: &PolicyID) ensures *r == rp_id(*self) {
        self.policy.id()
    }
}
impl<'a> Response<'a> {
    pub fn new(
        residuals: VxIter<ResidualPolicy>,
        request: &'a PartialRequest,
        entities: &'a PartialEntities,
        schema: &'a ValidatorSchema,
    ) -> (r: Self)
        requires distinct_ids(residuals.items())
        ensures all_ok(r, residuals.items(), residuals.items().len() as int), wf(r),
            r.decision == table(!(r.true_forbids@ =~= Set::empty()), !(r.true_permits@ =~= Set::empty()), !(r.residual_permits@ =~= Set::empty()), !(r.residual_forbids@ =~= Set::empty())),
    {
        let ghost rs = residuals.items();
        let mut residual_map = HashMap::new();
        let mut true_permits = HashSet::new();
        let mut false_permits = HashSet::new();
        let mut error_permits = HashSet::new();
        let mut residual_permits = HashSet::new();
        let mut true_forbids = HashSet::new();
        let mut false_forbids = HashSet::new();
        let mut error_forbids = HashSet::new();
        let mut residual_forbids = HashSet::new();
        for rp in it_1: residuals.vx_for()
            invariant
                it_1.snapshot@.remaining() == rs, distinct_ids(rs),
                map_ok(residual_map@, rs, it_1.index@),
                bucket_ok(true_permits@, rs, it_1.index@, Effect::Permit, 0), bucket_ok(false_permits@, rs, it_1.index@, Effect::Permit, 1),
                bucket_ok(error_permits@, rs, it_1.index@, Effect::Permit, 2), bucket_ok(residual_permits@, rs, it_1.index@, Effect::Permit, 3),
                bucket_ok(true_forbids@, rs, it_1.index@, Effect::Forbid, 0), bucket_ok(false_forbids@, rs, it_1.index@, Effect::Forbid, 1),
                bucket_ok(error_forbids@, rs, it_1.index@, Effect::Forbid, 2), bucket_ok(residual_forbids@, rs, it_1.index@, Effect::Forbid, 3),
        {
            let r = rp.get_residual();
            let id = rp.get_policy_id();
            residual_map.insert(id.clone(), rp.clone());
            match rp.get_effect() {
                Effect::Forbid => {
                    if r.is_true() {
                        true_forbids.insert(id.clone());
                    } else if r.is_false() {
                        false_forbids.insert(id.clone());
                    } else if r.is_error() {
                        error_forbids.insert(id.clone());
                    } else {
                        residual_forbids.insert(id.clone());
                    }
                }
                Effect::Permit => {
                    if r.is_true() {
                        true_permits.insert(id.clone());
                    } else if r.is_false() {
                        false_permits.insert(id.clone());
                    } else if r.is_error() {
                        error_permits.insert(id.clone());
                    } else {
                        residual_permits.insert(id.clone());
                    }
                }
            }
        }

        let decision = match (
            !true_forbids.is_empty(),
            !true_permits.is_empty(),
            !residual_permits.is_empty(),
            !residual_forbids.is_empty(),
        ) {
            (true, _, _, _) => Some(Decision::Deny),
            (_, false, false, _) => Some(Decision::Deny),
            (false, _, _, true) => None,
            (false, false, true, false) => None,
            (false, true, _, false) => Some(Decision::Allow),
        };

        Self {
            decision,
            residuals: residual_map,
            true_permits,
            false_permits,
            error_permits,
            residual_permits,
            true_forbids,
            false_forbids,
            error_forbids,
            residual_forbids,
            request,
            entities,
            schema,
        }
    }
    pub fn true_permits(&self) -> (r: VxIter<&ResidualPolicy>)
        requires wf(*self)
    {
        
        self.true_permits
            .iter()
            .map(|id: &PolicyID| -> (r: &ResidualPolicy) requires self.residuals@.contains_key(*id) ensures *r == self.residuals@[*id] { self.residuals.get(id).unwrap() })
    }
    pub fn get_residual_policy(&self, id: &PolicyID) -> (r: Option<&ResidualPolicy>)
        ensures r == (if self.residuals@.contains_key(*id) { Some(&self.residuals@[*id]) } else { None })
    {
        self.residuals.get(id)
    }
    pub fn decision(&self) -> (r: Option<Decision>) ensures r == self.decision {
        self.decision
    }
    pub fn reason(&self) -> (r: Option<VxIter<&PolicyID>>)
        ensures r is Some <==> self.decision is Some
    {
        match self.decision? {
            Decision::Allow => Some(self.true_permits.iter()),
            Decision::Deny => Some(self.true_forbids.iter()),
        }
    }
    pub fn policies(&self) -> (r: VxIter<&ResidualPolicy>)
        ensures r.items().len() == self.residuals.key_order().len(), self.residuals.key_order().no_duplicates(),
            forall|i: int| 0 <= i < r.items().len() ==> self.residuals@.contains_key(#[trigger] self.residuals.key_order()[i]) && *r.items()[i] == self.residuals@[self.residuals.key_order()[i]],
            forall|k: PolicyID| self.residuals@.contains_key(k) ==> exists|i: int| 0 <= i < self.residuals.key_order().len() && #[trigger] self.residuals.key_order()[i] == k,
    {
        self.residuals.values()
    }
    pub fn policy_set(&self) -> (r: PolicySet)
        requires forall|k: PolicyID| self.residuals@.contains_key(k) ==> rp_id(#[trigger] self.residuals@[k]) == k
        ensures forall|k: PolicyID| self.residuals@.contains_key(k) ==> r.links().contains_key(k) && r.links()[k] == residual_as_policy(self.residuals@[k]),
            forall|k: PolicyID| r.links().contains_key(k) ==> self.residuals@.contains_key(k),
    {
        let mut ps = PolicySet::new();
        for p in it_1: self.policies().vx_for()
            invariant
                it_1.snapshot@.remaining().len() == self.residuals.key_order().len(), self.residuals.key_order().no_duplicates(),
                forall|k: PolicyID| self.residuals@.contains_key(k) ==> rp_id(#[trigger] self.residuals@[k]) == k,
                forall|i: int| 0 <= i < self.residuals.key_order().len() ==> self.residuals@.contains_key(#[trigger] self.residuals.key_order()[i]) && *it_1.snapshot@.remaining()[i] == self.residuals@[self.residuals.key_order()[i]],
                forall|k: PolicyID| self.residuals@.contains_key(k) ==> exists|i: int| 0 <= i < self.residuals.key_order().len() && #[trigger] self.residuals.key_order()[i] == k,
                forall|i: int| 0 <= i < it_1.index@ ==> ps.links().contains_key(#[trigger] self.residuals.key_order()[i]) && ps.links()[self.residuals.key_order()[i]] == residual_as_policy(self.residuals@[self.residuals.key_order()[i]]),
                forall|k: PolicyID| ps.links().contains_key(k) ==> exists|i: int| 0 <= i < it_1.index@ && #[trigger] self.residuals.key_order()[i] == k,
        {
            broadcast use ax_residual_as_policy_id;
            proof {
                let k = it_1.index@; let ks = self.residuals.key_order();
                assert(self.residuals@.contains_key(ks[k]));
                assert(*p == self.residuals@[ks[k]]);
                assert(rp_id(*p) == ks[k]);
                if ps.links().contains_key(ks[k]) {
                    let i = choose|i: int| 0 <= i < k && #[trigger] ks[i] == ks[k];
                    assert(false);
                }
            }
            
            ps.add(p.policy.as_ref().clone()).unwrap()
        }
        ps
    }
}
} // verus!
fn main() {}
