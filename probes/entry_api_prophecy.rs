use vstd::prelude::*;
verus! {
#[verifier::external_body] #[verifier::reject_recursive_types(K)] #[verifier::reject_recursive_types(V)]
pub struct LMap<K, V> { _k: std::marker::PhantomData<K>, _v: std::marker::PhantomData<V> }
#[verifier::reject_recursive_types(K)] #[verifier::reject_recursive_types(V)]
pub struct VacantEntry<'a, K, V> { pub map: &'a mut LMap<K, V>, pub key: K }
#[verifier::reject_recursive_types(K)] #[verifier::reject_recursive_types(V)]
pub struct OccupiedEntry<'a, K, V> { pub map: &'a mut LMap<K, V>, pub key: K }
#[verifier::reject_recursive_types(K)] #[verifier::reject_recursive_types(V)]
pub enum Entry<'a, K, V> { Vacant(VacantEntry<'a, K, V>), Occupied(OccupiedEntry<'a, K, V>) }
impl<'a, K, V> VacantEntry<'a, K, V> {
    #[verifier::external_body]
    pub fn insert(self, v: V) ensures final(self.map).view() == old(self.map).view().insert(self.key, v) { unimplemented!() }
}
impl<'a, K, V> OccupiedEntry<'a, K, V> {
    #[verifier::external_body]
    pub fn key(&self) -> (r: &K) ensures *r == self.key { unimplemented!() }
    #[verifier::external_body]
    pub fn get(&self) -> (r: &V) ensures old(self.map).view().contains_key(self.key) && *r == old(self.map).view()[self.key] { unimplemented!() }
}
impl<K, V> LMap<K, V> {
    pub uninterp spec fn view(&self) -> Map<K, V>;
    #[verifier::external_body]
    pub fn entry<'a>(&'a mut self, k: K) -> (e: Entry<'a, K, V>)
        ensures match e {
            Entry::Vacant(v) => !old(self).view().contains_key(k) && v.key == k && *v.map == *old(self) && *final(self) == *final(v.map),
            Entry::Occupied(o) => old(self).view().contains_key(k) && o.key == k && *o.map == *old(self) && *final(self) == *final(o.map),
        }
    { unimplemented!() }
}
pub struct PS { pub templates: LMap<u64, u64> }
impl PS {
    fn add_t(&mut self, id: u64, t: u64) -> (ok: bool)
        ensures ok <==> !old(self).templates.view().contains_key(id),
            ok ==> final(self).templates.view() == old(self).templates.view().insert(id, t),
            !ok ==> final(self).templates.view() == old(self).templates.view(),
    {
        match self.templates.entry(id) {
            Entry::Vacant(v) => { v.insert(t); true }
            Entry::Occupied(_) => false,
        }
    }
}
}
fn main() {}
