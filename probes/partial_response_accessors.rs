use vstd::prelude::*;
use std::sync::Arc;
verus! {
// ---- iterator model ----
#[verifier::external_body] #[verifier::reject_recursive_types(T)]
pub struct VxIter<T> { _t: std::marker::PhantomData<T> }
impl<T> VxIter<T> {
    pub uninterp spec fn items(&self) -> Seq<T>;
    #[verifier::external_body]
    pub fn map<U, F: Fn(T) -> U>(self, f: F) -> (r: VxIter<U>)
        requires forall|t: T| #[trigger] f.requires((t,))
        ensures r.items().len() == self.items().len(),
            forall|i: int| 0 <= i < self.items().len() ==> f.ensures((self.items()[i],), #[trigger] r.items()[i]),
    { unimplemented!() }
    #[verifier::external_body]
    pub fn chain(self, o: VxIter<T>) -> (r: VxIter<T>) ensures r.items() == self.items() + o.items() { unimplemented!() }
    #[verifier::external_body]
    pub fn collect_set(self) -> (r: HashSet<T>) ensures r.view() == self.items().to_set() { unimplemented!() }
}
#[verifier::external_body] #[verifier::reject_recursive_types(T)]
pub struct HashSet<T> { _p: std::marker::PhantomData<T> }
impl<T> HashSet<T> { pub uninterp spec fn view(&self) -> Set<T>; }
#[verifier::external_body] #[verifier::reject_recursive_types(K)] #[verifier::reject_recursive_types(V)]
pub struct HashMap<K, V> { _k: std::marker::PhantomData<K>, _v: std::marker::PhantomData<V> }
impl<K, V> HashMap<K, V> {
    pub uninterp spec fn view(&self) -> Map<K, V>;
    #[verifier::external_body]
    pub fn iter(&self) -> (r: VxIter<(&K, &V)>)
        ensures r.items().no_duplicates(),
            forall|k: K| self.view().contains_key(k) <==> exists|i: int| 0 <= i < r.items().len() && *(#[trigger] r.items()[i]).0 == k,
            forall|i: int| 0 <= i < r.items().len() ==> self.view().contains_key(*(#[trigger] r.items()[i]).0) && self.view()[*r.items()[i].0] == *r.items()[i].1,
    { unimplemented!() }
    #[verifier::external_body]
    pub fn is_empty(&self) -> (b: bool) ensures b == (self.view().dom() =~= Set::<K>::empty()) { unimplemented!() }
}
#[verifier::external_body] pub struct PolicyID { _p: u8 }
impl Clone for PolicyID { #[verifier::external_body] fn clone(&self) -> (r: Self) ensures r == *self { unimplemented!() } }
#[verifier::external_body] pub struct Annotations { _p: u8 }
#[verifier::external_body] pub struct Expr { _p: u8 }
#[derive(Clone, Copy, PartialEq, Eq)] pub enum Effect { Permit, Forbid }
pub struct Policy { pub effect: Effect, pub pid: PolicyID }
impl Policy { fn id(&self) -> (r: &PolicyID) ensures *r == self.pid { &self.pid } }
type PolicyComponents<'a> = (Effect, &'a PolicyID, &'a Arc<Expr>, &'a Arc<Annotations>);
#[verifier::external_body]
fn construct_policy(c: PolicyComponents<'_>) -> (p: Policy) ensures p.effect == c.0, p.pid == *c.1 { unimplemented!() }

pub struct PartialResponse {
    pub satisfied_permits: HashMap<PolicyID, Arc<Annotations>>,
    pub satisfied_forbids: HashMap<PolicyID, Arc<Annotations>>,
    pub residual_forbids: HashMap<PolicyID, (Arc<Expr>, Arc<Annotations>)>,
    pub true_expr: Arc<Expr>,
}
pub open spec fn yields(s: Seq<Policy>, d: Set<PolicyID>, e: Effect) -> bool {
    (forall|i: int| 0 <= i < s.len() ==> d.contains((#[trigger] s[i]).pid) && s[i].effect == e)
    && (forall|k: PolicyID| d.contains(k) ==> exists|i: int| 0 <= i < s.len() && (#[trigger] s[i]).pid == k)
}
pub open spec fn ids(s: Seq<Policy>) -> Set<PolicyID> { s.map_values(|p: Policy| p.pid).to_set() }
impl PartialResponse {
    fn dbg(&self) -> (r: VxIter<Policy>)
    {
        let it = self.satisfied_permits.iter();
        let ghost its = it.items();
        let r = it.map(|_vxp: (&PolicyID, &Arc<Annotations>)| -> (r: Policy) ensures r.effect == Effect::Permit, r.pid == *_vxp.0 { let (id, annotations) = _vxp; {
            construct_policy((Effect::Permit, id, &self.true_expr, annotations))
        }});
        assert(r.items().len() == its.len());
        assert(forall|i: int| 0 <= i < r.items().len() ==> (#[trigger] r.items()[i]).pid == *its[i].0);
        assert(forall|i: int| 0 <= i < r.items().len() ==> self.satisfied_permits.view().dom().contains((#[trigger] r.items()[i]).pid));
        assert forall|k: PolicyID| self.satisfied_permits.view().dom().contains(k) implies exists|i: int| 0 <= i < r.items().len() && (#[trigger] r.items()[i]).pid == k by {
            let i = choose|i: int| 0 <= i < its.len() && *(#[trigger] its[i]).0 == k;
            assert(r.items()[i].pid == k);
        }
        r
    }

    fn definitely_satisfied_permits(&self) -> (r: VxIter<Policy>)
        ensures yields(r.items(), self.satisfied_permits.view().dom(), Effect::Permit),
    {
        self.satisfied_permits.iter().map(|_vxp: (&PolicyID, &Arc<Annotations>)| -> (r: Policy) ensures r.effect == Effect::Permit, r.pid == *_vxp.0 { let (id, annotations) = _vxp; {
            construct_policy((Effect::Permit, id, &self.true_expr, annotations))
        }})
    }
    fn definitely_satisfied_forbids(&self) -> (r: VxIter<Policy>)
        ensures yields(r.items(), self.satisfied_forbids.view().dom(), Effect::Forbid),
    {
        self.satisfied_forbids.iter().map(|_vxp: (&PolicyID, &Arc<Annotations>)| -> (r: Policy) ensures r.effect == Effect::Forbid, r.pid == *_vxp.0 { let (id, annotations) = _vxp; {
            construct_policy((Effect::Forbid, id, &self.true_expr, annotations))
        }})
    }
    pub fn must_be_determining(&self) -> (r: VxIter<Policy>)
        ensures yields(r.items(), (if self.satisfied_forbids.view().dom() =~= Set::<PolicyID>::empty() && self.residual_forbids.view().dom() =~= Set::<PolicyID>::empty() { self.satisfied_permits.view().dom() } else { self.satisfied_forbids.view().dom() }), (if self.satisfied_forbids.view().dom() =~= Set::<PolicyID>::empty() && self.residual_forbids.view().dom() =~= Set::<PolicyID>::empty() { Effect::Permit } else { Effect::Forbid }))
    {
        if self.satisfied_forbids.is_empty() && self.residual_forbids.is_empty() {
            (self.definitely_satisfied_permits())
        } else {
            (self.definitely_satisfied_forbids())
        }
    }
}
}
fn main() {}
