use vstd::prelude::*;
verus! {
pub assume_specification [i64::is_negative] (x: i64) -> (r: bool) ensures r == (x < 0);
#[derive(Clone, Copy)]
pub struct Duration { pub ms: i64 }
#[derive(Clone, Copy)]
pub struct DateTime { pub epoch: i64 }
impl DateTime {
    pub const DAY_IN_MILLISECONDS: i64 = 1000 * 3600 * 24;
    fn offset(self, duration: Duration) -> (r: Option<Self>)
        ensures match r { Some(d) => d.epoch == self.epoch + duration.ms, None => !(i64::MIN <= self.epoch + duration.ms <= i64::MAX) }
    {
        self.epoch
            .checked_add(duration.ms)
            .map(|epoch| Self { epoch })
    }
    fn to_time(self) -> (r: Duration)
        ensures r.ms == self.epoch as int % 86400000
    {
        Duration {
            ms: if self.epoch.is_negative() {
                let rem = self.epoch % Self::DAY_IN_MILLISECONDS;
                if rem == 0 {
                    rem
                } else {
                    rem + Self::DAY_IN_MILLISECONDS
                }
            } else {
                self.epoch % Self::DAY_IN_MILLISECONDS
            },
        }
    }
    fn to_date(self) -> (r: Option<Self>)
        ensures match r { Some(d) => d.epoch == (self.epoch as int / 86400000) * 86400000, None => (self.epoch as int / 86400000) * 86400000 < i64::MIN }
    {
        Some(Self {
            epoch: self
                .epoch
                .checked_sub(self.epoch.checked_rem_euclid(Self::DAY_IN_MILLISECONDS)?)?,
        })
    }
}
impl Duration {
    fn to_milliseconds(self) -> (r: i64) ensures r == self.ms { self.ms }
    fn to_seconds(self) -> (r: i64) ensures r == trunc_div(self.ms as int, 1000) { self.to_milliseconds() / 1000 }
    fn to_minutes(self) -> (r: i64) ensures r == trunc_div(self.ms as int, 60000) { self.to_seconds() / 60 }
}
pub open spec fn trunc_div(a: int, b: int) -> int { if a >= 0 { a / b } else { -((-a) / b) } }
}
fn main() {}
