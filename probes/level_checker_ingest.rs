#![feature(allocator_api)]
#![allow(unused)]
use vstd::prelude::*;
use std::sync::Arc;
verus! {
pub assume_specification<T: ?Sized, A: core::alloc::Allocator>[ <Arc<T, A> as AsRef<T>>::as_ref ](a: &Arc<T, A>) -> (r: &T);
#[verifier::external_body] pub struct SmolStr { _p: u8 }
impl Clone for SmolStr { #[verifier::external_body] fn clone(&self) -> (r: Self) ensures r == *self { unimplemented!() } }
impl SmolStr { #[verifier::external_body] pub fn as_str(&self) -> (r: &str) { unimplemented!() } }
#[verifier::external_body] pub struct Loc { _p: u8 }
impl Clone for Loc { #[verifier::external_body] fn clone(&self) -> (r: Self) ensures r == *self { unimplemented!() } }
#[verifier::external_body] pub struct PolicyID { _p: u8 }
impl Clone for PolicyID { #[verifier::external_body] fn clone(&self) -> (r: Self) ensures r == *self { unimplemented!() } }
#[verifier::external_body] pub struct EntityUID { _p: u8 }
#[verifier::external_body] pub struct Name { _p: u8 }
#[verifier::external_body] pub struct Pattern { _p: u8 }
#[verifier::external_body] pub struct EntityType { _p: u8 }
#[verifier::external_body] pub struct SlotId { _p: u8 }
#[verifier::external_body] pub struct Unknown { _p: u8 }
#[verifier::external_body] pub struct UnaryOp { _p: u8 }
#[verifier::external_body] pub struct ValidationError { _p: u8 }
#[verifier::external_body] pub struct RequestEnv<'a> { _p: &'a u8 }
#[verifier::external_body] pub struct EntityLUB { _p: u8 }
#[verifier::external_body] pub struct AttrsRepr { _p: u8 }
#[derive(Clone, Copy, PartialEq, Eq)] pub enum BinaryOp { Eq, Less, LessEq, Add, Sub, Mul, In, Contains, ContainsAll, ContainsAny, GetTag, HasTag }
pub type Integer = i64;
pub enum Literal { Bool(bool), Long(Integer), String(SmolStr), EntityUID(Arc<EntityUID>) }
pub enum EntityKind { AnyEntity, Entity(EntityLUB), ActionEntity { name: EntityType, attrs: AttrsRepr } }
pub enum Type { Never, True, False, Primitive(u8), Set(u8), Entity(EntityKind), Record { attrs: AttrsRepr, open: bool }, ExtensionType(Name) }
// std model
#[verifier::external_body] #[verifier::reject_recursive_types(K)] #[verifier::accept_recursive_types(V)]
pub struct BTreeMap<K, V> { _k: std::marker::PhantomData<K>, _v: std::marker::PhantomData<V> }
#[verifier::external_body] #[verifier::reject_recursive_types(T)] pub struct VxIter<T> { _t: std::marker::PhantomData<T> }
#[verifier::external_body] #[verifier::reject_recursive_types(T)] pub struct HashSet<T> { _t: std::marker::PhantomData<T> }
impl<T> HashSet<T> {
    pub uninterp spec fn view(&self) -> Set<T>;
    #[verifier::external_body] pub fn insert(&mut self, t: T) -> (b: bool) ensures final(self).view() == old(self).view().insert(t) { unimplemented!() }
}
impl<T> VxIter<T> {
    pub uninterp spec fn items(&self) -> Seq<T>;
    #[verifier::external_body] pub fn filter<F: Fn(&T) -> bool>(self, f: F) -> (r: VxIter<T>) { unimplemented!() }
    #[verifier::external_body] pub fn vx_for(self) -> (r: std::vec::IntoIter<T>) { unimplemented!() }
}
impl<K, V> BTreeMap<K, V> {
    #[verifier::external_body] pub fn get_key_value(&self, k: &str) -> (r: Option<(&K, &V)>) { unimplemented!() }
    #[verifier::external_body] pub fn iter(&self) -> (r: VxIter<(&K, &V)>) { unimplemented!() }
}
pub struct Expr<T> { pub expr_kind: ExprKind<T>, pub source_loc: Option<Loc>, pub data: T }
pub enum ExprKind<T> {
    Lit(Literal), Var(u8), Slot(SlotId), Unknown(Unknown),
    If { test_expr: Arc<Expr<T>>, then_expr: Arc<Expr<T>>, else_expr: Arc<Expr<T>> },
    And { left: Arc<Expr<T>>, right: Arc<Expr<T>> },
    Or { left: Arc<Expr<T>>, right: Arc<Expr<T>> },
    UnaryApp { op: UnaryOp, arg: Arc<Expr<T>> },
    BinaryApp { op: BinaryOp, arg1: Arc<Expr<T>>, arg2: Arc<Expr<T>> },
    ExtensionFunctionApp { fn_name: Name, args: Arc<Vec<Expr<T>>> },
    GetAttr { expr: Arc<Expr<T>>, attr: SmolStr },
    HasAttr { expr: Arc<Expr<T>>, attr: SmolStr },
    Like { expr: Arc<Expr<T>>, pattern: Pattern },
    Is { expr: Arc<Expr<T>>, entity_type: EntityType },
    Set(Arc<Vec<Expr<T>>>),
    Record(Arc<BTreeMap<SmolStr, Expr<T>>>),
    Error { error_kind: u8 },
}
impl<T> Expr<T> {
    pub fn expr_kind(&self) -> (r: &ExprKind<T>) ensures *r == self.expr_kind { &self.expr_kind }
    pub fn source_loc(&self) -> (r: Option<&Loc>) { self.source_loc.as_ref() }
    pub fn data(&self) -> (r: &T) ensures *r == self.data { &self.data }
}
impl<'a> RequestEnv<'a> { #[verifier::external_body] pub fn action_entity_uid(&self) -> Option<&'a EntityUID> { unimplemented!() } }
impl PartialEq for EntityUID { #[verifier::external_body] fn eq(&self, o: &Self) -> bool { unimplemented!() } }
impl PartialEq for SmolStr { #[verifier::external_body] fn eq(&self, o: &Self) -> bool { unimplemented!() } }
impl ValidationError {
    #[verifier::external_body] pub fn literal_dereference_target(l: Option<Loc>, p: PolicyID) -> Self { unimplemented!() }
    #[verifier::external_body] pub fn internal_invariant_violation(l: Option<Loc>, p: PolicyID) -> Self { unimplemented!() }
    #[verifier::external_body] pub fn maximum_level_exceeded(l: Option<Loc>, p: PolicyID, m: EntityDerefLevel, a: EntityDerefLevel) -> Self { unimplemented!() }
}

#[derive(Clone, Copy, PartialEq, Eq, PartialOrd, Ord)]
pub struct EntityDerefLevel { pub level: u32 }
impl From<u32> for EntityDerefLevel { fn from(value: u32) -> (r: Self) ensures r.level == value { EntityDerefLevel { level: value } } }
impl EntityDerefLevel {
    #[verifier::external_body] pub fn max(self, o: Self) -> (r: Self) ensures r.level == (if self.level >= o.level { self.level } else { o.level }) { unimplemented!() }
    fn increment(self) -> Self {
        (self.level + 1).into()
    }
    fn zero() -> Self {
        EntityDerefLevel { level: 0 }
    }
}
pub struct LevelChecker<'a> { pub policy_id: &'a PolicyID, pub max_level: EntityDerefLevel, pub level_checking_errors: HashSet<ValidationError> }
impl LevelChecker<'_> {
    #[verifier::exec_allows_no_decreases_clause]
    fn check_entity_deref_target_level(
        &mut self,
        e: &Expr<Option<Type>>,
        mut access_path: Vec<SmolStr>,
        env: &RequestEnv<'_>,
    ) -> EntityDerefLevel {
        match e.expr_kind() {
            ExprKind::Var(_) => EntityDerefLevel::zero(),
            ExprKind::Slot(_) => {
                self.level_checking_errors
                    .insert(ValidationError::literal_dereference_target(
                        e.source_loc().cloned(),
                        self.policy_id.clone(),
                    ));
                EntityDerefLevel::zero()
            }
            ExprKind::Lit(Literal::EntityUID(euid)) => {
                if Some(euid.as_ref()) != env.action_entity_uid() {
                    self.level_checking_errors
                        .insert(ValidationError::literal_dereference_target(
                            e.source_loc().cloned(),
                            self.policy_id.clone(),
                        ));
                }
                EntityDerefLevel::zero()
            }
            ExprKind::If {
                test_expr,
                then_expr,
                else_expr,
            } => {
                self.check_expr_level(test_expr, env);
                let then_lvl =
                    self.check_entity_deref_target_level(then_expr, access_path.clone(), env);
                let else_lvl = self.check_entity_deref_target_level(else_expr, access_path, env);
                then_lvl.max(else_lvl)
            }
            ExprKind::GetAttr { expr, attr } => match expr.data() {
                Some(Type::Entity(EntityKind::Entity { .. })) => self
                    .check_entity_deref_target_level(expr, access_path, env)
                    .increment(),
                Some(Type::Record { .. }) => {
                    access_path.push(attr.clone());
                    self.check_entity_deref_target_level(expr, access_path, env)
                }
                _ => {
                    self.level_checking_errors.insert(
                        ValidationError::internal_invariant_violation(
                            e.source_loc().cloned(),
                            self.policy_id.clone(),
                        ),
                    );
                    EntityDerefLevel::zero()
                }
            },
            ExprKind::BinaryApp {
                op: BinaryOp::GetTag,
                arg1,
                arg2,
            } => {
                let deref_target_level =
                    self.check_entity_deref_target_level(arg1, access_path, env);
                self.check_expr_level(arg2, env);
                deref_target_level.increment()
            }
            ExprKind::Record(attrs) => {
                match access_path
                    .pop()
                    .and_then(|a| attrs.get_key_value(a.as_str()))
                {
                    Some((attr, accessed_e)) => {
                        for (_, e) in it_1: attrs.iter().filter(|_vxp: &(&SmolStr, &Expr<Option<Type>>)| { let (a, _) = _vxp; *a != attr }).vx_for() {
                            self.check_expr_level(e, env);
                        }
                        self.check_entity_deref_target_level(accessed_e, access_path, env)
                    }
                    None => {
                        self.level_checking_errors.insert(
                            ValidationError::internal_invariant_violation(
                                e.source_loc().cloned(),
                                self.policy_id.clone(),
                            ),
                        );
                        EntityDerefLevel::zero()
                    }
                }
            }
            _ => {
                self.level_checking_errors
                    .insert(ValidationError::internal_invariant_violation(
                        e.source_loc().cloned(),
                        self.policy_id.clone(),
                    ));
                EntityDerefLevel::zero()
            }
        }
    }
    #[verifier::exec_allows_no_decreases_clause]
    fn check_expr_level(
        &mut self,
        e: &Expr<Option<Type>>,
        env: &RequestEnv<'_>,
    ) {
        match e.expr_kind() {
            ExprKind::Lit(_) | ExprKind::Var(_) | ExprKind::Slot(_) | ExprKind::Unknown(_) => (),
            ExprKind::If {
                test_expr,
                then_expr,
                else_expr,
            } => {
                self.check_expr_level(test_expr, env);
                self.check_expr_level(then_expr, env);
                self.check_expr_level(else_expr, env);
            }
            ExprKind::Or { left, right } | ExprKind::And { left, right } => {
                self.check_expr_level(left, env);
                self.check_expr_level(right, env);
            }
            ExprKind::UnaryApp { arg, .. } => {
                self.check_expr_level(arg, env);
            }
            ExprKind::BinaryApp {
                op: BinaryOp::HasTag | BinaryOp::GetTag | BinaryOp::In,
                arg1,
                arg2,
            } => {
                let deref_target_lvl = self.check_entity_deref_target_level(arg1, Vec::new(), env);
                if deref_target_lvl >= self.max_level {
                    self.level_checking_errors
                        .insert(ValidationError::maximum_level_exceeded(
                            e.source_loc().cloned(),
                            self.policy_id.clone(),
                            self.max_level,
                            deref_target_lvl.increment(),
                        ));
                }
                self.check_expr_level(arg2, env);
            }
            ExprKind::BinaryApp { arg1, arg2, .. } => {
                self.check_expr_level(arg1, env);
                self.check_expr_level(arg2, env);
            }
            ExprKind::ExtensionFunctionApp { args, .. } => {
                for arg in args.iter() {
                    self.check_expr_level(arg, env);
                }
            }
            ExprKind::HasAttr { expr, .. } | ExprKind::GetAttr { expr, .. } => match expr.data() {
                Some(Type::Entity(EntityKind::Entity { .. })) => {
                    let deref_target_lvl =
                        self.check_entity_deref_target_level(expr, Vec::new(), env);
                    if deref_target_lvl >= self.max_level {
                        self.level_checking_errors
                            .insert(ValidationError::maximum_level_exceeded(
                                e.source_loc().cloned(),
                                self.policy_id.clone(),
                                self.max_level,
                                deref_target_lvl.increment(),
                            ));
                    }
                }
                Some(Type::Record { .. }) => {
                    self.check_expr_level(expr, env);
                }
                _ => {
                    self.level_checking_errors.insert(
                        ValidationError::internal_invariant_violation(
                            e.source_loc().cloned(),
                            self.policy_id.clone(),
                        ),
                    );
                }
            },
            ExprKind::Like { expr, .. } => {
                self.check_expr_level(expr, env);
            }
            ExprKind::Is { expr, .. } => {
                self.check_expr_level(expr, env);
            }
            ExprKind::Set(exprs) => {
                for e in exprs.iter() {
                    self.check_expr_level(e, env);
                }
            }
            ExprKind::Record(attrs) => {
                for (_, e) in it_2: attrs.iter().vx_for() {
                    self.check_expr_level(e, env);
                }
            }
            ExprKind::Error { .. } => {
                self.level_checking_errors
                    .insert(ValidationError::internal_invariant_violation(
                        e.source_loc().cloned(),
                        self.policy_id.clone(),
                    ));
            }
        }
    }
}
} // verus!
fn main() {}
