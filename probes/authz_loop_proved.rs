use vstd::prelude::*;
use std::sync::Arc;
verus! {

// ---- prelude: opaque external types (trusted declarations) ----
#[verifier::external_body]
pub struct PolicyID { _p: u8 }
#[verifier::external_body]
pub struct Annotations { _p: u8 }
#[verifier::external_body]
pub struct Expr { _p: u8 }
#[verifier::external_body]
pub struct EvaluationError { _p: u8 }
#[verifier::external_body]
pub struct Policy { _p: u8 }
#[verifier::external_body]
pub struct Evaluator { _p: u8 }

#[derive(Clone, Copy, PartialEq, Eq)]
pub enum Effect { Permit, Forbid }
#[derive(Clone, Copy, PartialEq, Eq)]
pub enum ErrorState { NoError, Error }
pub enum Either<L, R> { Left(L), Right(R) }

pub enum AuthorizationError {
    PolicyEvaluationError { id: PolicyID, error: EvaluationError },
}
enum ErrorHandling { Skip }

pub uninterp spec fn policy_id(p: &Policy) -> int;
pub uninterp spec fn policy_effect(p: &Policy) -> Effect;
pub uninterp spec fn pid_view(p: PolicyID) -> int;

impl Policy {
    #[verifier::external_body]
    pub fn id(&self) -> (r: &PolicyID) ensures pid_view(*r) == policy_id(self) { unimplemented!() }
    #[verifier::external_body]
    pub fn effect(&self) -> (r: Effect) ensures r == policy_effect(self) { unimplemented!() }
    #[verifier::external_body]
    pub fn annotations_arc(&self) -> (r: &Arc<Annotations>) { unimplemented!() }
}
impl Clone for PolicyID {
    #[verifier::external_body]
    fn clone(&self) -> (r: Self) ensures pid_view(r) == pid_view(*self) { unimplemented!() }
}

// outcome oracle
pub enum Outcome { Sat, Unsat, Resid, Errd }
pub uninterp spec fn outcome(e: &Evaluator, p: &Policy) -> Outcome;

impl Evaluator {
    #[verifier::external_body]
    pub fn partial_evaluate(&self, p: &Policy) -> (r: Result<Either<bool, Expr>, EvaluationError>)
        ensures match r {
            Ok(Either::Left(b)) => outcome(self, p) == (if b { Outcome::Sat } else { Outcome::Unsat }),
            Ok(Either::Right(_)) => outcome(self, p) == Outcome::Resid,
            Err(_) => outcome(self, p) == Outcome::Errd,
        }
    { unimplemented!() }
}

struct Authorizer { error_handling: ErrorHandling }
pub open spec fn cls(o: Outcome) -> int { match o { Outcome::Sat => 0, Outcome::Unsat => 1, Outcome::Errd => 1, Outcome::Resid => 2 } }
pub open spec fn sel(ps: Seq<&Policy>, ev: &Evaluator, eff: Effect, c: int) -> Seq<int>
    decreases ps.len()
{
    if ps.len() == 0 { Seq::empty() } else {
        let rest = sel(ps.drop_last(), ev, eff, c);
        let p = ps.last();
        if policy_effect(p) == eff && cls(outcome(ev, p)) == c { rest.push(policy_id(p)) } else { rest }
    }
}
pub open spec fn sel_err(ps: Seq<&Policy>, ev: &Evaluator) -> Seq<int>
    decreases ps.len()
{
    if ps.len() == 0 { Seq::empty() } else {
        let rest = sel_err(ps.drop_last(), ev);
        let p = ps.last();
        if outcome(ev, p) is Errd { rest.push(policy_id(p)) } else { rest }
    }
}
pub open spec fn ids1(v: Seq<(PolicyID, Arc<Annotations>)>) -> Seq<int> { v.map_values(|x: (PolicyID, Arc<Annotations>)| pid_view(x.0)) }
pub open spec fn ids2(v: Seq<(PolicyID, (ErrorState, Arc<Annotations>))>) -> Seq<int> { v.map_values(|x: (PolicyID, (ErrorState, Arc<Annotations>))| pid_view(x.0)) }
pub open spec fn ids3(v: Seq<(PolicyID, (Arc<Expr>, Arc<Annotations>))>) -> Seq<int> { v.map_values(|x: (PolicyID, (Arc<Expr>, Arc<Annotations>))| pid_view(x.0)) }
pub open spec fn ids_err(v: Seq<AuthorizationError>) -> Seq<int> { v.map_values(|x: AuthorizationError| pid_view(x->id)) }
pub open spec fn inv(b: Buckets, ps: Seq<&Policy>, ev: &Evaluator) -> bool {
    ids1(b.true_permits@) == sel(ps, ev, Effect::Permit, 0) && ids1(b.true_forbids@) == sel(ps, ev, Effect::Forbid, 0)
    && ids2(b.false_permits@) == sel(ps, ev, Effect::Permit, 1) && ids2(b.false_forbids@) == sel(ps, ev, Effect::Forbid, 1)
    && ids3(b.residual_permits@) == sel(ps, ev, Effect::Permit, 2) && ids3(b.residual_forbids@) == sel(ps, ev, Effect::Forbid, 2)
    && ids_err(b.errors@) == sel_err(ps, ev)
}


pub struct Buckets {
    pub true_permits: Vec<(PolicyID, Arc<Annotations>)>,
    pub true_forbids: Vec<(PolicyID, Arc<Annotations>)>,
    pub false_permits: Vec<(PolicyID, (ErrorState, Arc<Annotations>))>,
    pub false_forbids: Vec<(PolicyID, (ErrorState, Arc<Annotations>))>,
    pub residual_permits: Vec<(PolicyID, (Arc<Expr>, Arc<Annotations>))>,
    pub residual_forbids: Vec<(PolicyID, (Arc<Expr>, Arc<Annotations>))>,
    pub errors: Vec<AuthorizationError>,
}

impl Authorizer {
    fn core(&self, eval: &Evaluator, policies: &Vec<&Policy>) -> (r: Buckets)
        ensures inv(r, policies@, eval),
    {
        let mut true_permits = vec![];
        let mut true_forbids = vec![];
        let mut false_permits = vec![];
        let mut false_forbids = vec![];
        let mut residual_permits = vec![];
        let mut residual_forbids = vec![];
        let mut errors = vec![];

        for p in it: policies.iter()
            invariant
                ids1(true_permits@) == sel(policies@.take(it.index@), eval, Effect::Permit, 0),
                ids1(true_forbids@) == sel(policies@.take(it.index@), eval, Effect::Forbid, 0),
                ids2(false_permits@) == sel(policies@.take(it.index@), eval, Effect::Permit, 1),
                ids2(false_forbids@) == sel(policies@.take(it.index@), eval, Effect::Forbid, 1),
                ids3(residual_permits@) == sel(policies@.take(it.index@), eval, Effect::Permit, 2),
                ids3(residual_forbids@) == sel(policies@.take(it.index@), eval, Effect::Forbid, 2),
                ids_err(errors@) == sel_err(policies@.take(it.index@), eval),
        {
            proof {
                let k = it.index@;
                assert(policies@.take(k + 1).drop_last() =~= policies@.take(k));
                assert(policies@.take(k + 1).last() == policies@[k]);
            }
            let (id, annotations) = (p.id().clone(), p.annotations_arc().clone());
            match eval.partial_evaluate(p) {
                Ok(Either::Left(satisfied)) => match (satisfied, p.effect()) {
                    (true, Effect::Permit) => true_permits.push((id, annotations)),
                    (true, Effect::Forbid) => true_forbids.push((id, annotations)),
                    (false, Effect::Permit) => {
                        false_permits.push((id, (ErrorState::NoError, annotations)))
                    }
                    (false, Effect::Forbid) => {
                        false_forbids.push((id, (ErrorState::NoError, annotations)))
                    }
                },
                Ok(Either::Right(residual)) => match p.effect() {
                    Effect::Permit => {
                        residual_permits.push((id, (Arc::new(residual), annotations)))
                    }
                    Effect::Forbid => {
                        residual_forbids.push((id, (Arc::new(residual), annotations)))
                    }
                },
                Err(e) => {
                    errors.push(AuthorizationError::PolicyEvaluationError {
                        id: id.clone(),
                        error: e,
                    });
                    let satisfied = match self.error_handling {
                        ErrorHandling::Skip => false,
                    };
                    match (satisfied, p.effect()) {
                        (true, Effect::Permit) => true_permits.push((id, annotations)),
                        (true, Effect::Forbid) => true_forbids.push((id, annotations)),
                        (false, Effect::Permit) => {
                            false_permits.push((id, (ErrorState::Error, annotations)))
                        }
                        (false, Effect::Forbid) => {
                            false_forbids.push((id, (ErrorState::Error, annotations)))
                        }
                    }
                }
            };
        }
        proof { assert(policies@.take(policies@.len() as int) =~= policies@); }
        Buckets { true_permits, true_forbids, false_permits, false_forbids, residual_permits, residual_forbids, errors }
    }
}

} // verus!
fn main() {}
