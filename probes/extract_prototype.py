import re,sys
def find_fn(src, name, start=0):
    # find "fn name(" or "fn name<" at some position; return text from the line start (incl attrs/pub) to matching close brace
    m = re.search(r'^[ \t]*(pub(\([a-z]+\))? )?fn '+re.escape(name)+r'\b', src[start:], re.M)
    if not m: raise SystemExit('lost anchor '+name)
    i = start+m.start()
    j = src.index('{', i)
    # need the body-opening brace: skip braces inside signature? assume none (where clauses ok)
    depth=0; k=j
    in_str=False
    while True:
        c=src[k]
        if in_str:
            if c=='\\': k+=1
            elif c=='"': in_str=False
        else:
            if c=='"': in_str=True
            elif c=='/' and src[k+1]=='/':
                k=src.index('\n',k)
            elif c=="'" and re.match(r"'(\\.|[^\\'])'", src[k:k+4]):
                k+=len(re.match(r"'(\\.|[^\\'])'", src[k:k+4]).group(0))-1
            elif c=='{': depth+=1
            elif c=='}':
                depth-=1
                if depth==0: break
        k+=1
    return src[i:k+1], j-i
if __name__=='__main__':
    src=open(sys.argv[1]).read()
    for n in sys.argv[2:]:
        t,_=find_fn(src,n)
        print(t); print()
