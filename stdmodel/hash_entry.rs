// ---- std::collections::hash_map Entry API (trusted; same shape as the LinkedHashMap entry model) ----
pub mod hash_map {
    use vstd::prelude::*;
    use super::HashMap;
    #[verifier::reject_recursive_types(K)] #[verifier::reject_recursive_types(V)]
    pub struct VacantEntry<'a, K, V> { pub map: &'a mut HashMap<K, V>, pub key: K }
    #[verifier::reject_recursive_types(K)] #[verifier::reject_recursive_types(V)]
    pub struct OccupiedEntry<'a, K, V> { pub map: &'a mut HashMap<K, V>, pub key: K }
    #[verifier::reject_recursive_types(K)] #[verifier::reject_recursive_types(V)]
    pub enum Entry<'a, K, V> { Vacant(VacantEntry<'a, K, V>), Occupied(OccupiedEntry<'a, K, V>) }
    impl<'a, K, V> VacantEntry<'a, K, V> {
        #[verifier::external_body]
        pub fn insert(self, v: V) -> (r: &'a mut V)
            ensures final(self.map).view() == old(self.map).view().insert(self.key, *final(r)), *r == v
        { unimplemented!() }
    }
    impl<'a, K, V> OccupiedEntry<'a, K, V> {
        #[verifier::external_body]
        pub fn key(&self) -> (r: &K) ensures *r == self.key { unimplemented!() }
        #[verifier::external_body]
        pub fn get(&self) -> (r: &V) ensures old(self.map).view().contains_key(self.key) && *r == old(self.map).view()[self.key] { unimplemented!() }
        /// replaces the value, returning the old one
        #[verifier::external_body]
        pub fn insert(&mut self, v: V) -> (r: V)
            ensures (*final(self).map).view() == (*old(self).map).view().insert(old(self).key, v), *final(final(self).map) == *final(old(self).map), final(self).key == old(self).key, r == (*old(self).map).view()[old(self).key]
        { unimplemented!() }
        /// takes the entry out of the map
        #[verifier::external_body]
        pub fn remove_entry(self) -> (r: (K, V))
            ensures final(self.map).view() == old(self.map).view().remove(self.key), r.0 == self.key, r.1 == old(self.map).view()[self.key]
        { unimplemented!() }
    }
}
impl<K, V> HashMap<K, V> {
    #[verifier::external_body]
    pub fn entry<'a>(&'a mut self, k: K) -> (e: hash_map::Entry<'a, K, V>)
        ensures match e {
            hash_map::Entry::Vacant(v) => !old(self).view().contains_key(k) && v.key == k && *v.map == *old(self) && *final(self) == *final(v.map),
            hash_map::Entry::Occupied(o) => old(self).view().contains_key(k) && o.key == k && *o.map == *old(self) && *final(self) == *final(o.map),
        }
    { unimplemented!() }
}
