// ---- model of std::collections::{HashMap, HashSet} (trusted; written from the std documentation) ----
// view(): the abstract map/set.  key_order(): *some* duplicate-free enumeration of
// the keys (uninterpreted, so every proof is independent of iteration order).
// Assumes K's Eq/Hash agree with spec equality on K.
#[verifier::external_body] #[verifier::reject_recursive_types(T)]
pub struct HashSet<T> { _p: std::marker::PhantomData<T> }
impl<T> HashSet<T> {
    pub uninterp spec fn view(&self) -> SSet<T>;
    #[verifier::external_body] pub fn new() -> (r: Self) ensures r.view() == SSet::<T>::empty() { unimplemented!() }
    #[verifier::external_body] pub fn insert(&mut self, t: T) -> (b: bool) ensures final(self).view() == old(self).view().insert(t), b == !old(self).view().contains(t), final(self).view().contains(t) { unimplemented!() }
    #[verifier::external_body] pub fn contains(&self, t: &T) -> (b: bool) ensures b == self.view().contains(*t) { unimplemented!() }
    #[verifier::external_body] pub fn is_empty(&self) -> (b: bool) ensures b == (self.view() =~= SSet::<T>::empty()) { unimplemented!() }
    /// some duplicate-free enumeration of the elements (uninterpreted: proofs do not depend on the order)
    pub uninterp spec fn elem_order(&self) -> Seq<T>;
    pub open spec fn order_ok(&self) -> bool {
        self.elem_order().no_duplicates()
        && (forall|t: T| #![trigger self.view().contains(t)] #![trigger self.elem_order().contains(t)] self.view().contains(t) <==> self.elem_order().contains(t))
        && (forall|i: int| 0 <= i < self.elem_order().len() ==> self.view().contains(#[trigger] self.elem_order()[i]))
    }
    #[verifier::external_body] pub fn iter(&self) -> (r: VxIter<&T>)
        ensures self.order_ok(), r.items().len() == self.elem_order().len(),
            forall|i: int| #![trigger r.items()[i]] #![trigger self.elem_order()[i]] 0 <= i < r.items().len() ==> *r.items()[i] == self.elem_order()[i],
            forall|i: int| 0 <= i < r.items().len() ==> self.view().contains(*(#[trigger] r.items()[i])),
            forall|t: T| self.view().contains(t) ==> exists|i: int| 0 <= i < r.items().len() && *(#[trigger] r.items()[i]) == t,
            forall|i: int, j: int| 0 <= i < j < r.items().len() ==> *r.items()[i] != *r.items()[j],
    { unimplemented!() }
}
impl<T> VxFromIter<T> for HashSet<T> {
    open spec fn vx_built_from(&self, items: Seq<T>) -> bool { forall|t: T| self.view().contains(t) <==> exists|i: int| 0 <= i < items.len() && #[trigger] items[i] == t }
}
#[verifier::external_body] #[verifier::reject_recursive_types(K)] #[verifier::reject_recursive_types(V)]
pub struct HashMap<K, V> { _k: std::marker::PhantomData<K>, _v: std::marker::PhantomData<V> }
impl<K, V> HashMap<K, V> {
    pub uninterp spec fn view(&self) -> Map<K, V>;
    pub uninterp spec fn key_order(&self) -> Seq<K>;
    pub open spec fn pairs(&self) -> Seq<(K, V)> { Seq::new(self.key_order().len(), |i: int| (self.key_order()[i], self.view()[self.key_order()[i]])) }
    pub open spec fn order_ok(&self) -> bool {
        self.key_order().no_duplicates()
        && (forall|k: K| #![trigger self.view().dom().contains(k)] #![trigger self.view().contains_key(k)] #![trigger self.key_order().contains(k)] self.view().dom().contains(k) <==> self.key_order().contains(k))
        && (forall|i: int| 0 <= i < self.key_order().len() ==> self.view().dom().contains(#[trigger] self.key_order()[i]))
    }
    #[verifier::external_body] pub fn new() -> (r: Self) ensures r.view() == Map::<K, V>::empty() { unimplemented!() }
    #[verifier::external_body] pub fn insert(&mut self, k: K, v: V) -> (o: Option<V>)
        ensures final(self).view() == old(self).view().insert(k, v),
            o == (if old(self).view().contains_key(k) { Some(old(self).view()[k]) } else { None }),
    { unimplemented!() }
    #[verifier::external_body] pub fn get(&self, k: &K) -> (r: Option<&V>) ensures r == (if self.view().contains_key(*k) { Some(&self.view()[*k]) } else { None }) { unimplemented!() }
    #[verifier::external_body] pub fn contains_key(&self, k: &K) -> (b: bool) ensures b == self.view().contains_key(*k) { unimplemented!() }
    #[verifier::external_body] pub fn is_empty(&self) -> (b: bool) ensures b == (self.view().dom() =~= SSet::<K>::empty()) { unimplemented!() }
    #[verifier::external_body] pub fn into_iter(self) -> (r: VxIter<(K, V)>) ensures r.items() == self.pairs(), self.order_ok() { unimplemented!() }
    #[verifier::external_body] pub fn iter(&self) -> (r: VxIter<(&K, &V)>)
        ensures self.order_ok(), r.items().len() == self.key_order().len(),
            forall|i: int| #![trigger r.items()[i]] #![trigger self.key_order()[i]] 0 <= i < r.items().len() ==> *r.items()[i].0 == self.key_order()[i] && *r.items()[i].1 == self.view()[self.key_order()[i]],
    { unimplemented!() }
    #[verifier::external_body] pub fn keys(&self) -> (r: VxIter<&K>)
        ensures self.order_ok(), r.items().len() == self.key_order().len(),
            forall|i: int| #![trigger r.items()[i]] #![trigger self.key_order()[i]] 0 <= i < r.items().len() ==> *r.items()[i] == self.key_order()[i],
    { unimplemented!() }
    #[verifier::external_body] pub fn values(&self) -> (r: VxIter<&V>)
        ensures self.order_ok(), r.items().len() == self.key_order().len(),
            forall|i: int| #![trigger r.items()[i]] #![trigger self.key_order()[i]] 0 <= i < r.items().len() ==> *r.items()[i] == self.view()[self.key_order()[i]],
    { unimplemented!() }
}
/// key_order() is by definition a duplicate-free enumeration of exactly the keys (trusted axiom of the model)
pub broadcast axiom fn axiom_hashmap_order_ok<K, V>(m: HashMap<K, V>)
    ensures #[trigger] m.order_ok();
impl<K, V> VxIntoIter<(K, V)> for HashMap<K, V> { open spec fn vx_items(&self) -> Seq<(K, V)> { self.pairs() } }
/// the map obtained by inserting the pairs left to right (later pairs win)
pub open spec fn vx_map_of<K, V>(items: Seq<(K, V)>) -> Map<K, V>
    decreases items.len()
{
    if items.len() == 0 { Map::empty() } else { vx_map_of(items.drop_last()).insert(items.last().0, items.last().1) }
}
impl<K, V> VxFromIter<(K, V)> for HashMap<K, V> {
    open spec fn vx_built_from(&self, items: Seq<(K, V)>) -> bool { self.view() == vx_map_of(items) }
}
pub proof fn lemma_vx_map_of_dom<K, V>(items: Seq<(K, V)>)
    ensures forall|k: K| vx_map_of(items).contains_key(k) <==> exists|i: int| 0 <= i < items.len() && (#[trigger] items[i]).0 == k,
    decreases items.len()
{
    if items.len() > 0 {
        let pre = items.drop_last();
        lemma_vx_map_of_dom(pre);
        assert forall|k: K| vx_map_of(items).contains_key(k) implies exists|i: int| 0 <= i < items.len() && (#[trigger] items[i]).0 == k by {
            if k == items.last().0 { assert(items[items.len() - 1].0 == k); } else {
                assert(vx_map_of(pre).contains_key(k));
                let i = choose|i: int| 0 <= i < pre.len() && (#[trigger] pre[i]).0 == k;
                assert(items[i] == pre[i]);
            }
        }
        assert forall|k: K| (exists|i: int| 0 <= i < items.len() && (#[trigger] items[i]).0 == k) implies vx_map_of(items).contains_key(k) by {
            let i = choose|i: int| 0 <= i < items.len() && (#[trigger] items[i]).0 == k;
            if i < items.len() - 1 { assert(pre.len() == items.len() - 1); assert(pre[i] == items[i]); assert(vx_map_of(pre).contains_key(k)); } else { assert(items.last() == items[i]); }
        }
    }
}
pub proof fn lemma_vx_map_of_val<K, V>(items: Seq<(K, V)>, i: int)
    requires 0 <= i < items.len(), forall|a: int, b: int| 0 <= a < b < items.len() ==> (#[trigger] items[a]).0 != (#[trigger] items[b]).0,
    ensures vx_map_of(items).contains_key(items[i].0), vx_map_of(items)[items[i].0] == items[i].1,
    decreases items.len()
{
    if i < items.len() - 1 {
        let pre = items.drop_last();
        assert forall|a: int, b: int| 0 <= a < b < pre.len() implies (#[trigger] pre[a]).0 != (#[trigger] pre[b]).0 by { assert(pre[a] == items[a]); assert(pre[b] == items[b]); }
        lemma_vx_map_of_val(pre, i);
        assert(pre[i] == items[i]);
        assert(items[i].0 != items[items.len() - 1].0);
    }
}
impl<T> HashSet<T> {
    #[verifier::external_body] pub fn remove(&mut self, t: &T) -> (b: bool) ensures final(self).view() == old(self).view().remove(*t), b == old(self).view().contains(*t) { unimplemented!() }
    #[verifier::external_body] pub fn clear(&mut self) ensures final(self).view() == SSet::<T>::empty() { unimplemented!() }
}
impl<T> HashSet<T> {
    /// `Extend<T>::extend` with another set
    #[verifier::external_body] pub fn extend(&mut self, other: HashSet<T>) ensures final(self).view() == old(self).view() + other.view() { unimplemented!() }
}
/// elem_order() is by definition a duplicate-free enumeration of exactly the elements (trusted axiom of the model)
pub axiom fn axiom_hashset_order_ok<T>(s: HashSet<T>)
    ensures s.order_ok();

impl<K, V> HashMap<K, V> {
    /// `get_mut`: a mutable borrow of the stored value; when the borrow ends the map holds the final value under the same key
    #[verifier::external_body]
    pub fn get_mut<'a>(&'a mut self, k: &K) -> (r: Option<&'a mut V>)
        ensures match r {
            Some(v) => old(self).view().contains_key(*k) && *v == old(self).view()[*k] && final(self).view() == old(self).view().insert(*k, *final(v)),
            None => !old(self).view().contains_key(*k) && final(self).view() == old(self).view(),
        }
    { unimplemented!() }
}
impl<T> HashSet<T> {
    /// by-value iteration: every element exactly once (order unspecified)
    #[verifier::external_body] pub fn into_iter(self) -> (r: VxIter<T>)
        ensures forall|i: int| 0 <= i < r.items().len() ==> self.view().contains(#[trigger] r.items()[i]),
            forall|t: T| self.view().contains(t) ==> exists|i: int| 0 <= i < r.items().len() && #[trigger] r.items()[i] == t,
    { unimplemented!() }
}
