// ---- model iterator (trusted; see DESIGN.md §3.2) ----
// An opaque finite sequence of items.  Method names are the std ones so that
// extracted call chains are unchanged text.
#[verifier::external_body] #[verifier::reject_recursive_types(T)]
pub struct VxIter<T> { _t: std::marker::PhantomData<T> }
pub trait VxIntoIter<T>: Sized { spec fn vx_items(&self) -> Seq<T>; }
pub trait VxFromIter<T>: Sized { spec fn vx_built_from(&self, items: Seq<T>) -> bool; }
impl<T> VxIntoIter<T> for VxIter<T> { open spec fn vx_items(&self) -> Seq<T> { self.items() } }
impl<T> VxIntoIter<T> for Vec<T> { open spec fn vx_items(&self) -> Seq<T> { self@ } }
impl<T> VxFromIter<T> for Vec<T> { open spec fn vx_built_from(&self, items: Seq<T>) -> bool { self@ == items } }
impl<T> VxIter<T> {
    pub uninterp spec fn items(&self) -> Seq<T>;
    #[verifier::external_body]
    pub fn vx_for(self) -> (r: std::vec::IntoIter<T>)
        ensures r.remaining() == self.items(), r.obeys_prophetic_iter_laws(), r.decrease() is Some,
    { unimplemented!() }
    #[verifier::external_body]
    pub fn map<U, F: Fn(T) -> U>(self, f: F) -> (r: VxIter<U>)
        requires forall|i: int| 0 <= i < self.items().len() ==> f.requires((#[trigger] self.items()[i],))
        ensures r.items().len() == self.items().len(),
            forall|i: int| #![trigger r.items()[i]] #![trigger self.items()[i]] 0 <= i < self.items().len() ==> f.ensures((self.items()[i],), r.items()[i]),
    { unimplemented!() }
    #[verifier::external_body]
    pub fn chain<I: VxIntoIter<T>>(self, o: I) -> (r: VxIter<T>) ensures r.items() == self.items() + o.vx_items() { unimplemented!() }
    #[verifier::external_body]
    pub fn collect<B: VxFromIter<T>>(self) -> (r: B) ensures r.vx_built_from(self.items()) { unimplemented!() }
    #[verifier::external_body]
    pub fn into_iter(self) -> (r: VxIter<T>) ensures r.items() == self.items() { unimplemented!() }
}
impl<'a, T: Clone> VxIter<&'a T> {
    /// `Iterator::cloned` (assumes `T::clone` returns an equal value)
    #[verifier::external_body]
    pub fn cloned(self) -> (r: VxIter<T>)
        ensures r.items().len() == self.items().len(), forall|i: int| #![trigger r.items()[i]] #![trigger self.items()[i]] 0 <= i < r.items().len() ==> r.items()[i] == *self.items()[i]
    { unimplemented!() }
}
/// `Vec::into_iter()` in a position whose result flows into a model iterator
pub trait VxVecExt<T> { fn vx_into_iter(self) -> VxIter<T>; }
#[verifier::external_body]
pub fn vx_vec_into_iter<T>(v: Vec<T>) -> (r: VxIter<T>) ensures r.items() == v@ { unimplemented!() }
/// rule R6: `Either::Left(x)` / `Either::Right(x)` that only unify two iterator types become `vx_id(x)`
pub fn vx_id<T>(t: T) -> (r: T) ensures r == t { t }
/// `.iter()` on `Arc<Vec<T>>` / `Vec<T>` in a position that feeds model-iterator adaptors
#[verifier::external_body]
pub fn vx_arc_vec_iter<T>(v: &Arc<Vec<T>>) -> (r: VxIter<&T>)
    ensures r.items().len() == v@.len(), forall|i: int| #![trigger r.items()[i]] #![trigger v@[i]] 0 <= i < v@.len() ==> *r.items()[i] == v@[i]
{ unimplemented!() }
/// `a.into_iter().zip(b)`
#[verifier::external_body]
pub fn vx_zip<A, B>(a: Vec<A>, b: VxIter<B>) -> (r: VxIter<(A, B)>)
    ensures r.items().len() == (if a@.len() <= b.items().len() { a@.len() } else { b.items().len() }),
        forall|i: int| 0 <= i < r.items().len() ==> #[trigger] r.items()[i] == (a@[i], b.items()[i])
{ unimplemented!() }
/// `v.into_iter().unzip()`
#[verifier::external_body]
pub fn vx_unzip<A, B>(v: Vec<(A, B)>) -> (r: (Vec<A>, Vec<B>))
    ensures r.0@.len() == v@.len(), r.1@.len() == v@.len(), forall|i: int| 0 <= i < v@.len() ==> #[trigger] v@[i] == (r.0@[i], r.1@[i])
{ unimplemented!() }
/// first index holding an Err, if any
pub open spec fn vx_first_err<T, E>(s: Seq<std::result::Result<T, E>>) -> Option<int> {
    if exists|i: int| 0 <= i < s.len() && s[i] is Err { Some(choose|i: int| 0 <= i < s.len() && s[i] is Err && forall|j: int| 0 <= j < i ==> s[j] is Ok) } else { None }
}
/// `collect::<Result<Vec<T>, E>>()`: all the Ok values in order, or the first error
impl<T, E> VxFromIter<std::result::Result<T, E>> for std::result::Result<Vec<T>, E> {
    open spec fn vx_built_from(&self, items: Seq<std::result::Result<T, E>>) -> bool {
        if forall|i: int| 0 <= i < items.len() ==> (#[trigger] items[i]) is Ok {
            *self is Ok && self->Ok_0@.len() == items.len() && forall|i: int| 0 <= i < items.len() ==> #[trigger] items[i] == Ok::<T, E>(self->Ok_0@[i])
        } else {
            *self is Err && exists|i: int| 0 <= i < items.len() && #[trigger] items[i] == Err::<T, E>(self->Err_0) && forall|j: int| 0 <= j < i ==> (#[trigger] items[j]) is Ok
        }
    }
}
impl<T> VxIter<T> {
    #[verifier::external_body]
    pub fn any<F: Fn(T) -> bool>(self, f: F) -> (r: bool)
        requires forall|i: int| 0 <= i < self.items().len() ==> f.requires((#[trigger] self.items()[i],))
        ensures r == (exists|i: int| 0 <= i < self.items().len() && f.ensures((#[trigger] self.items()[i],), true)),
            !r ==> forall|i: int| 0 <= i < self.items().len() ==> f.ensures((#[trigger] self.items()[i],), false),
    { unimplemented!() }
    #[verifier::external_body]
    pub fn all<F: Fn(T) -> bool>(self, f: F) -> (r: bool)
        requires forall|i: int| 0 <= i < self.items().len() ==> f.requires((#[trigger] self.items()[i],))
        ensures r == (forall|i: int| 0 <= i < self.items().len() ==> f.ensures((#[trigger] self.items()[i],), true)),
            !r ==> exists|i: int| 0 <= i < self.items().len() && f.ensures((#[trigger] self.items()[i],), false),
    { unimplemented!() }
    #[verifier::external_body]
    pub fn filter_map<U, F: Fn(T) -> Option<U>>(self, f: F) -> (r: VxIter<U>)
        requires forall|i: int| 0 <= i < self.items().len() ==> f.requires((#[trigger] self.items()[i],))
        ensures
            // every yielded item comes from some source item mapped to Some, in order; the first yielded item is the image of the first such source item
            forall|j: int| 0 <= j < r.items().len() ==> exists|i: int| 0 <= i < self.items().len() && f.ensures((#[trigger] self.items()[i],), Some(#[trigger] r.items()[j])),
            (r.items().len() == 0) == (forall|i: int| 0 <= i < self.items().len() ==> f.ensures((#[trigger] self.items()[i],), None::<U>)),
    { unimplemented!() }
    #[verifier::external_body]
    pub fn next(&mut self) -> (r: Option<T>)
        ensures r == (if old(self).items().len() > 0 { Some(old(self).items()[0]) } else { None }),
            final(self).items() == (if old(self).items().len() > 0 { old(self).items().drop_first() } else { old(self).items() }),
    { unimplemented!() }
}
