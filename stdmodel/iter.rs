// ---- model iterator (trusted; see DESIGN.md §3.2) ----
// An opaque finite sequence of items.  Method names are the std ones so that
// extracted call chains are unchanged text.
#[verifier::external_body] #[verifier::reject_recursive_types(T)]
pub struct VxIter<T> { _t: std::marker::PhantomData<T> }
pub trait VxIntoIter<T>: Sized { spec fn vx_items(&self) -> Seq<T>; }
pub trait VxFromIter<T>: Sized { spec fn vx_built_from(&self, items: Seq<T>) -> bool; }
impl<T> VxIntoIter<T> for VxIter<T> { open spec fn vx_items(&self) -> Seq<T> { self.items() } }
impl<T> VxIntoIter<T> for Vec<T> { open spec fn vx_items(&self) -> Seq<T> { self@ } }
impl<T> VxFromIter<T> for Vec<T> { open spec fn vx_built_from(&self, items: Seq<T>) -> bool { self@ == items } }
impl<T> VxIter<T> {
    pub uninterp spec fn items(&self) -> Seq<T>;
    #[verifier::external_body]
    pub fn vx_for(self) -> (r: std::vec::IntoIter<T>)
        ensures r.remaining() == self.items(), r.obeys_prophetic_iter_laws(), r.decrease() is Some,
    { unimplemented!() }
    #[verifier::external_body]
    pub fn map<U, F: Fn(T) -> U>(self, f: F) -> (r: VxIter<U>)
        requires forall|i: int| 0 <= i < self.items().len() ==> f.requires((#[trigger] self.items()[i],))
        ensures r.items().len() == self.items().len(),
            forall|i: int| #![trigger r.items()[i]] #![trigger self.items()[i]] 0 <= i < self.items().len() ==> f.ensures((self.items()[i],), r.items()[i]),
    { unimplemented!() }
    #[verifier::external_body]
    pub fn chain<I: VxIntoIter<T>>(self, o: I) -> (r: VxIter<T>) ensures r.items() == self.items() + o.vx_items() { unimplemented!() }
    #[verifier::external_body]
    pub fn collect<B: VxFromIter<T>>(self) -> (r: B) ensures r.vx_built_from(self.items()) { unimplemented!() }
    #[verifier::external_body]
    pub fn into_iter(self) -> (r: VxIter<T>) ensures r.items() == self.items() { unimplemented!() }
}
impl<'a, T: Clone> VxIter<&'a T> {
    /// `Iterator::cloned` (assumes `T::clone` returns an equal value)
    #[verifier::external_body]
    pub fn cloned(self) -> (r: VxIter<T>)
        ensures r.items().len() == self.items().len(), forall|i: int| #![trigger r.items()[i]] #![trigger self.items()[i]] 0 <= i < r.items().len() ==> r.items()[i] == *self.items()[i]
    { unimplemented!() }
}
/// `Vec::into_iter()` in a position whose result flows into a model iterator
pub trait VxVecExt<T> { fn vx_into_iter(self) -> VxIter<T>; }
#[verifier::external_body]
pub fn vx_vec_into_iter<T>(v: Vec<T>) -> (r: VxIter<T>) ensures r.items() == v@ { unimplemented!() }
/// rule R6: `Either::Left(x)` / `Either::Right(x)` that only unify two iterator types become `vx_id(x)`
pub fn vx_id<T>(t: T) -> (r: T) ensures r == t { t }
