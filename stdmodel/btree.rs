// ---- model of std::collections::{BTreeMap, BTreeSet} (trusted; written from the std documentation) ----
// The model struct is transparent and holds its abstract map as a ghost field, so that values stored in the map are
// structurally smaller than the map (recursion through map-valued fields of AST types is accepted by Verus).
#[verifier::accept_recursive_types(K)] #[verifier::accept_recursive_types(V)]
pub struct BTreeMap<K, V> { pub m: Ghost<Map<K, V>> }
impl<K, V> BTreeMap<K, V> {
    pub open spec fn view(&self) -> Map<K, V> { self.m@ }
    /// the keys in ascending order of K's Ord (uninterpreted: proofs do not depend on the order)
    pub uninterp spec fn key_order(&self) -> Seq<K>;
    pub open spec fn order_ok(&self) -> bool {
        self.key_order().no_duplicates()
        && (forall|k: K| #![trigger self.view().dom().contains(k)] #![trigger self.view().contains_key(k)] #![trigger self.key_order().contains(k)] self.view().dom().contains(k) <==> self.key_order().contains(k))
        && (forall|i: int| 0 <= i < self.key_order().len() ==> self.view().dom().contains(#[trigger] self.key_order()[i]))
    }
    #[verifier::external_body] pub fn new() -> (r: Self) ensures r.view() == Map::<K, V>::empty() { unimplemented!() }
    #[verifier::external_body] pub fn get(&self, k: &K) -> (r: Option<&V>) ensures r == (if self.view().contains_key(*k) { Some(&self.view()[*k]) } else { None }) { unimplemented!() }
    #[verifier::external_body] pub fn contains_key(&self, k: &K) -> (b: bool) ensures b == self.view().contains_key(*k) { unimplemented!() }
    #[verifier::external_body] pub fn len(&self) -> (n: usize) ensures n == self.key_order().len(), self.order_ok() { unimplemented!() }
    #[verifier::external_body] pub fn is_empty(&self) -> (b: bool) ensures b == (self.view().dom() =~= SSet::<K>::empty()) { unimplemented!() }
    #[verifier::external_body] pub fn iter(&self) -> (r: VxIter<(&K, &V)>)
        ensures self.order_ok(), r.items().len() == self.key_order().len(),
            forall|i: int| #![trigger r.items()[i]] #![trigger self.key_order()[i]] 0 <= i < r.items().len() ==> *r.items()[i].0 == self.key_order()[i] && *r.items()[i].1 == self.view()[self.key_order()[i]],
    { unimplemented!() }
    #[verifier::external_body] pub fn keys(&self) -> (r: VxIter<&K>)
        ensures self.order_ok(), r.items().len() == self.key_order().len(),
            forall|i: int| #![trigger r.items()[i]] #![trigger self.key_order()[i]] 0 <= i < r.items().len() ==> *r.items()[i] == self.key_order()[i],
    { unimplemented!() }
    #[verifier::external_body] pub fn values(&self) -> (r: VxIter<&V>)
        ensures self.order_ok(), r.items().len() == self.key_order().len(),
            forall|i: int| #![trigger r.items()[i]] #![trigger self.key_order()[i]] 0 <= i < r.items().len() ==> *r.items()[i] == self.view()[self.key_order()[i]],
    { unimplemented!() }
}
#[verifier::external_body] #[verifier::accept_recursive_types(T)]
pub struct BTreeSet<T> { _p: std::marker::PhantomData<T> }
impl<T> BTreeSet<T> {
    pub uninterp spec fn view(&self) -> SSet<T>;
    /// the elements in ascending order (uninterpreted enumeration)
    pub uninterp spec fn order(&self) -> Seq<T>;
    pub open spec fn order_ok(&self) -> bool {
        self.order().no_duplicates()
        && (forall|t: T| #![trigger self.view().contains(t)] #![trigger self.order().contains(t)] self.view().contains(t) <==> self.order().contains(t))
        && (forall|i: int| 0 <= i < self.order().len() ==> self.view().contains(#[trigger] self.order()[i]))
    }
    #[verifier::external_body] pub fn new() -> (r: Self) ensures r.view() == SSet::<T>::empty() { unimplemented!() }
    #[verifier::external_body] pub fn contains(&self, t: &T) -> (b: bool) ensures b == self.view().contains(*t) { unimplemented!() }
    #[verifier::external_body] pub fn len(&self) -> (n: usize) ensures n == self.order().len(), self.order_ok() { unimplemented!() }
    #[verifier::external_body] pub fn is_empty(&self) -> (b: bool) ensures b == (self.view() =~= SSet::<T>::empty()) { unimplemented!() }
    #[verifier::external_body] pub fn iter(&self) -> (r: VxIter<&T>)
        ensures self.order_ok(), r.items().len() == self.order().len(),
            forall|i: int| #![trigger r.items()[i]] #![trigger self.order()[i]] 0 <= i < r.items().len() ==> *r.items()[i] == self.order()[i],
    { unimplemented!() }
    #[verifier::external_body] pub fn is_subset(&self, other: &BTreeSet<T>) -> (b: bool) ensures b == self.view().subset_of(other.view()) { unimplemented!() }
    #[verifier::external_body] pub fn is_disjoint(&self, other: &BTreeSet<T>) -> (b: bool) ensures b == self.view().disjoint(other.view()) { unimplemented!() }
}
pub broadcast axiom fn axiom_btreemap_order_ok<K, V>(m: BTreeMap<K, V>) ensures #[trigger] m.order_ok();
pub broadcast axiom fn axiom_btreeset_order_ok<T>(s: BTreeSet<T>) ensures #[trigger] s.order_ok();
/// the iteration order of a BTreeMap is determined by its key set (ascending order of K): two maps over the same keys enumerate them alike
pub axiom fn axiom_btreemap_key_order_dom<K, V, W>(a: &BTreeMap<K, V>, b: &BTreeMap<K, W>)
    requires a.view().dom() =~= b.view().dom()
    ensures a.key_order() == b.key_order();
