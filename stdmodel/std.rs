// ---- assumed specifications of std functions that vstd does not cover (trusted) ----
pub assume_specification<T: ?Sized, A: core::alloc::Allocator>[ <Arc<T, A> as AsRef<T>>::as_ref ](a: &Arc<T, A>) -> (r: &T)
    ensures r == &**a;
pub assume_specification[ i64::checked_neg ](x: i64) -> (r: Option<i64>)
    ensures r == (if x == i64::MIN { None::<i64> } else { Some((-x) as i64) });
/// `Option<&Arc<T>>::cloned()` (vstd's spec of `cloned` does not see through `Arc::clone`)
#[verifier::external_body]
pub fn vx_opt_arc_cloned<T>(o: Option<&Arc<T>>) -> (r: Option<Arc<T>>)
    ensures r == (match o { Some(a) => Some(*a), None => None::<Arc<T>> })
{ unimplemented!() }
pub assume_specification<T, E, U, D: FnOnce(E) -> U, F: FnOnce(T) -> U>[ std::result::Result::<T, E>::map_or_else ](self_: std::result::Result<T, E>, default: D, f: F) -> (r: U)
    requires match self_ { Ok(t) => f.requires((t,)), Err(e) => default.requires((e,)) }
    ensures match self_ { Ok(t) => f.ensures((t,), r), Err(e) => default.ensures((e,), r) };
pub assume_specification<T, E, F: FnOnce(E) -> T>[ std::result::Result::<T, E>::unwrap_or_else ](self_: std::result::Result<T, E>, f: F) -> (r: T)
    requires self_ is Err ==> f.requires((self_->Err_0,))
    ensures match self_ { Ok(t) => r == t, Err(e) => f.ensures((e,), r) };
pub assume_specification<T, E, U, F: FnOnce(T) -> std::result::Result<U, E>>[ std::result::Result::<T, E>::and_then ](self_: std::result::Result<T, E>, f: F) -> (r: std::result::Result<U, E>)
    requires self_ is Ok ==> f.requires((self_->Ok_0,))
    ensures match self_ { Ok(t) => f.ensures((t,), r), Err(e) => r == Err::<U, E>(e) };
/// `Result<&T, E>::cloned()` (assumes `T::clone` returns an equal value)
#[verifier::external_body]
pub fn vx_res_cloned<T: Clone, E>(o: std::result::Result<&T, E>) -> (r: std::result::Result<T, E>)
    ensures r == (match o { Ok(t) => Ok::<T, E>(*t), Err(e) => Err::<T, E>(e) })
{ unimplemented!() }
pub assume_specification<T>[ bool::then_some ](b: bool, t: T) -> (r: Option<T>)
    ensures r == (if b { Some(t) } else { None::<T> });
pub assume_specification<T, F: FnOnce(T) -> bool>[ Option::<T>::is_some_and ](o: Option<T>, f: F) -> (r: bool)
    requires o is Some ==> f.requires((o->Some_0,)),
    ensures o is None ==> !r, o is Some ==> f.ensures((o->Some_0,), r);
