// ---- assumed specifications of std functions that vstd does not cover (trusted) ----
pub assume_specification<T: ?Sized, A: core::alloc::Allocator>[ <Arc<T, A> as AsRef<T>>::as_ref ](a: &Arc<T, A>) -> (r: &T)
    ensures r == &**a;
pub assume_specification[ i64::checked_neg ](x: i64) -> (r: Option<i64>)
    ensures r == (if x == i64::MIN { None::<i64> } else { Some((-x) as i64) });
