// ---- assumed specifications of std functions that vstd does not cover (trusted) ----
pub assume_specification<T: ?Sized, A: core::alloc::Allocator>[ <Arc<T, A> as AsRef<T>>::as_ref ](a: &Arc<T, A>) -> (r: &T)
    ensures r == &**a;
