// ---- assumed specifications of std functions that vstd does not cover (trusted) ----
pub assume_specification<T: ?Sized, A: core::alloc::Allocator>[ <Arc<T, A> as AsRef<T>>::as_ref ](a: &Arc<T, A>) -> (r: &T)
    ensures r == &**a;
pub assume_specification[ i64::checked_neg ](x: i64) -> (r: Option<i64>)
    ensures r == (if x == i64::MIN { None::<i64> } else { Some((-x) as i64) });
/// `Option<&Arc<T>>::cloned()` (vstd's spec of `cloned` does not see through `Arc::clone`)
#[verifier::external_body]
pub fn vx_opt_arc_cloned<T>(o: Option<&Arc<T>>) -> (r: Option<Arc<T>>)
    ensures r == (match o { Some(a) => Some(*a), None => None::<Arc<T>> })
{ unimplemented!() }
