// ---- model of linked_hash_map::LinkedHashMap / linked_hash_set::LinkedHashSet incl. the Entry API (trusted) ----
// Entries are *transparent* structs holding the &mut map, so that dropping an unused entry leaves the map unchanged.
#[verifier::external_body] #[verifier::reject_recursive_types(K)] #[verifier::reject_recursive_types(V)]
pub struct LinkedHashMap<K, V> { _k: std::marker::PhantomData<K>, _v: std::marker::PhantomData<V> }
#[verifier::external_body] #[verifier::reject_recursive_types(T)]
pub struct LinkedHashSet<T> { _t: std::marker::PhantomData<T> }
#[verifier::reject_recursive_types(K)] #[verifier::reject_recursive_types(V)]
pub struct VacantEntry<'a, K, V> { pub map: &'a mut LinkedHashMap<K, V>, pub key: K }
#[verifier::reject_recursive_types(K)] #[verifier::reject_recursive_types(V)]
pub struct OccupiedEntry<'a, K, V> { pub map: &'a mut LinkedHashMap<K, V>, pub key: K }
#[verifier::reject_recursive_types(K)] #[verifier::reject_recursive_types(V)]
pub enum Entry<'a, K, V> { Vacant(VacantEntry<'a, K, V>), Occupied(OccupiedEntry<'a, K, V>) }
impl<'a, K, V> VacantEntry<'a, K, V> {
    #[verifier::external_body]
    pub fn insert(self, v: V) -> (r: &'a mut V)
        ensures final(self.map).view() == old(self.map).view().insert(self.key, *final(r)), *r == v
    { unimplemented!() }
}
impl<'a, K, V> OccupiedEntry<'a, K, V> {
    #[verifier::external_body]
    pub fn key(&self) -> (r: &K) ensures *r == self.key { unimplemented!() }
    #[verifier::external_body]
    pub fn get(&self) -> (r: &V) ensures old(self.map).view().contains_key(self.key) && *r == old(self.map).view()[self.key] { unimplemented!() }
    #[verifier::external_body]
    pub fn into_mut(self) -> (r: &'a mut V)
        ensures old(self.map).view().contains_key(self.key), *r == old(self.map).view()[self.key],
            final(self.map).view() == old(self.map).view().insert(self.key, *final(r))
    { unimplemented!() }
}
pub trait VxDefault: Sized { spec fn dflt() -> Self; }
impl<T> VxDefault for LinkedHashSet<T> { uninterp spec fn dflt() -> Self; }
pub broadcast axiom fn ax_dflt_set<T>() ensures #[trigger] <LinkedHashSet<T> as VxDefault>::dflt().view() == SSet::<T>::empty();
impl<'a, K, V: VxDefault> Entry<'a, K, V> {
    #[verifier::external_body]
    pub fn or_default(self) -> (r: &'a mut V)
        ensures match self {
            Entry::Vacant(_) => *r == V::dflt() && final(self->Vacant_0.map).view() == old(self->Vacant_0.map).view().insert(self->Vacant_0.key, *final(r)),
            Entry::Occupied(_) => old(self->Occupied_0.map).view().contains_key(self->Occupied_0.key) && *r == old(self->Occupied_0.map).view()[self->Occupied_0.key] && final(self->Occupied_0.map).view() == old(self->Occupied_0.map).view().insert(self->Occupied_0.key, *final(r)),
        }
    { unimplemented!() }
}
impl<K, V> LinkedHashMap<K, V> {
    pub uninterp spec fn view(&self) -> Map<K, V>;
    #[verifier::external_body] pub fn new() -> (r: Self) ensures r.view() == Map::<K, V>::empty() { unimplemented!() }
    #[verifier::external_body]
    pub fn entry<'a>(&'a mut self, k: K) -> (e: Entry<'a, K, V>)
        ensures match e {
            Entry::Vacant(v) => !old(self).view().contains_key(k) && v.key == k && *v.map == *old(self) && *final(self) == *final(v.map),
            Entry::Occupied(o) => old(self).view().contains_key(k) && o.key == k && *o.map == *old(self) && *final(self) == *final(o.map),
        }
    { unimplemented!() }
    #[verifier::external_body] pub fn contains_key(&self, k: &K) -> (b: bool) ensures b == self.view().contains_key(*k) { unimplemented!() }
    #[verifier::external_body] pub fn get(&self, k: &K) -> (r: Option<&V>) ensures r == (if self.view().contains_key(*k) { Some(&self.view()[*k]) } else { None }) { unimplemented!() }
    #[verifier::external_body] pub fn insert(&mut self, k: K, v: V) -> (o: Option<V>) ensures final(self).view() == old(self).view().insert(k, v), o == (if old(self).view().contains_key(k) { Some(old(self).view()[k]) } else { None }) { unimplemented!() }
    #[verifier::external_body] pub fn remove(&mut self, k: &K) -> (o: Option<V>)
        ensures final(self).view() == old(self).view().remove(*k),
            o == (if old(self).view().contains_key(*k) { Some(old(self).view()[*k]) } else { None })
    { unimplemented!() }
}
impl<K, V> LinkedHashMap<K, V> {
    /// insertion order of the keys (uninterpreted enumeration; proofs do not depend on it)
    pub uninterp spec fn key_order(&self) -> Seq<K>;
    pub open spec fn order_ok(&self) -> bool {
        self.key_order().no_duplicates()
        && (forall|k: K| #![trigger self.view().dom().contains(k)] #![trigger self.view().contains_key(k)] #![trigger self.key_order().contains(k)] self.view().dom().contains(k) <==> self.key_order().contains(k))
        && (forall|i: int| 0 <= i < self.key_order().len() ==> self.view().dom().contains(#[trigger] self.key_order()[i]))
    }
    #[verifier::external_body] pub fn is_empty(&self) -> (b: bool) ensures b == (self.view().dom() =~= SSet::<K>::empty()) { unimplemented!() }
    #[verifier::external_body] pub fn values(&self) -> (r: VxIter<&V>)
        ensures self.order_ok(), r.items().len() == self.key_order().len(),
            forall|i: int| #![trigger r.items()[i]] #![trigger self.key_order()[i]] 0 <= i < r.items().len() ==> *r.items()[i] == self.view()[self.key_order()[i]],
    { unimplemented!() }
}
pub broadcast axiom fn axiom_linkedhashmap_order_ok<K, V>(m: LinkedHashMap<K, V>) ensures #[trigger] m.order_ok();
impl<T> LinkedHashSet<T> {
    pub uninterp spec fn view(&self) -> SSet<T>;
    #[verifier::external_body] pub fn contains(&self, t: &T) -> (b: bool) ensures b == self.view().contains(*t) { unimplemented!() }
    #[verifier::external_body] pub fn iter(&self) -> (r: VxIter<&T>)
        ensures forall|i: int| 0 <= i < r.items().len() ==> self.view().contains(*(#[trigger] r.items()[i])),
            forall|t: T| self.view().contains(t) ==> exists|i: int| 0 <= i < r.items().len() && *(#[trigger] r.items()[i]) == t,
            forall|i: int, j: int| 0 <= i < j < r.items().len() ==> *r.items()[i] != *r.items()[j],
    { unimplemented!() }
    #[verifier::external_body] pub fn new() -> (r: Self) ensures r.view() == SSet::<T>::empty() { unimplemented!() }
    #[verifier::external_body] pub fn insert(&mut self, t: T) -> (b: bool) ensures final(self).view() == old(self).view().insert(t), b == !old(self).view().contains(t) { unimplemented!() }
    #[verifier::external_body] pub fn remove(&mut self, t: &T) -> (b: bool) ensures final(self).view() == old(self).view().remove(*t), b == old(self).view().contains(*t) { unimplemented!() }
    #[verifier::external_body] pub fn is_empty(&self) -> (b: bool) ensures b == (self.view() =~= SSet::<T>::empty()) { unimplemented!() }
}
