//! Demonstration of finding F1 (property C01): run as an integration test of
//! cedar-policy-core with `--features partial-eval`
//! (copy to cedar-policy-core/tests/vx_f1.rs; see /verif/findings/F1/README.md).
//! Fails on the pinned tree (reasons = {}), passes with the `fix:` commit.
use cedar_policy_core::ast::{Context, EntityUID, Request, RequestSchemaAllPass, RestrictedExpr, PolicyID};
use cedar_policy_core::authorizer::{Authorizer, Decision};
use cedar_policy_core::entities::Entities;
use cedar_policy_core::extensions::Extensions;
use cedar_policy_core::parser::parse_policyset;

#[test]
fn reasons_with_residual_forbid() {
    let pset = parse_policyset(
        r#"permit(principal, action, resource);
           forbid(principal, action, resource) when { context.test };"#,
    )
    .unwrap();
    let ctx = Context::from_pairs(
        [("test".into(), RestrictedExpr::unknown(cedar_policy_core::ast::Unknown::new_untyped("name")))],
        Extensions::all_available(),
    )
    .unwrap();
    let q = Request::new(
        (EntityUID::with_eid_and_type("T", "p").unwrap(), None),
        (EntityUID::with_eid_and_type("Action", "a").unwrap(), None),
        (EntityUID::with_eid_and_type("T", "r").unwrap(), None),
        ctx,
        None::<&RequestSchemaAllPass>,
        Extensions::all_available(),
    )
    .unwrap();
    let r = Authorizer::new().is_authorized(q, &pset, &Entities::new());
    // the forbid cannot be evaluated: it is reported as an error and skipped
    assert_eq!(r.diagnostics.errors.len(), 1);
    // so the satisfied permit decides ...
    assert_eq!(r.decision, Decision::Allow);
    // ... and C01 says the reasons are exactly the satisfied permits
    let want: std::collections::HashSet<PolicyID> = [PolicyID::from_string("policy0")].into_iter().collect();
    assert_eq!(r.diagnostics.reason, want);
}
