// F3 (C08 / C20): a policy set built from JSON may hold a slot-less entry of the `templates` section with links to it.
// `PolicySet::add` of a static policy with the same id and the same body is accepted and *shares* that template entry;
// `remove_static` then removes the template although a link still points to it, and `unlink` of that link panics
// ("No template found for linked policy").  Copy to cedar-policy/tests/ and run
//   cargo test -p cedar-policy --offline --test vx_f3
// Pinned tree: the test panics inside `unlink`.  Repaired tree: `add` reports the id conflict, nothing changes.
use cedar_policy::{Policy, PolicyId, PolicySet};

fn pset() -> PolicySet {
    let json = serde_json::json!({
        "staticPolicies": {},
        "templates": { "t0": { "effect": "permit", "principal": { "op": "All" }, "action": { "op": "All" }, "resource": { "op": "All" }, "conditions": [] } },
        "templateLinks": [ { "templateId": "t0", "newId": "l1", "values": {} } ]
    });
    PolicySet::from_json_value(json).unwrap()
}

#[test]
fn static_policy_must_not_take_over_a_template_that_has_links() {
    let mut ps = pset();
    assert_eq!(ps.num_of_policies(), 1);
    let before = ps.clone();
    let p = Policy::parse(Some(PolicyId::new("t0")), "permit(principal, action, resource);").unwrap();
    match ps.add(p) {
        // the id `t0` is taken: the add is refused and changes nothing
        Err(_) => assert!(ps == before, "a failed add must change nothing"),
        // if the add is accepted, every later operation must keep links and templates consistent
        Ok(()) => {
            let _ = ps.remove_static(PolicyId::new("t0"));
            // no link without its template: unlinking `l1` must not panic
            let _ = ps.unlink(PolicyId::new("l1"));
        }
    }
}
