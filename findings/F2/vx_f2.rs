//! Demonstration of finding F2 (property C14): run as an integration test of
//! cedar-policy with `--features tpe` (copy to cedar-policy/tests/vx_f2.rs;
//! see /verif/findings/F2/README.md).  Fails on the pinned tree, passes with the `fix:` commit.
use cedar_policy::{
    Context, EntityUid, PartialEntities, PartialEntityUid, PartialRequest, PolicySet, Schema,
};
use std::collections::BTreeMap;
use std::str::FromStr;

#[test]
fn policy_set_view_presents_the_residuals() {
    let (schema, _) = Schema::from_cedarschema_str(
        r#"entity User; entity Document = { "isPublic": Bool, "owner": User };
           action View appliesTo { principal: [User], resource: [Document], context: { "hasMFA": Bool } };
           action Delete appliesTo { principal: [User], resource: [Document], context: { "hasMFA": Bool } };"#,
    )
    .unwrap();
    let pset = PolicySet::from_str(
        r#"@id("0") permit(principal, action == Action::"View", resource) when { resource.isPublic };
           @id("2") permit(principal, action == Action::"Delete", resource) when { context.hasMFA && resource.owner == principal };"#,
    )
    .unwrap();
    let req = PartialRequest::new(
        PartialEntityUid::from_concrete(EntityUid::from_str(r#"User::"Alice""#).unwrap()),
        EntityUid::from_str(r#"Action::"View""#).unwrap(),
        PartialEntityUid::new("Document".parse().unwrap(), None),
        Some(Context::from_pairs([("hasMFA".to_string(), cedar_policy::RestrictedExpression::new_bool(true))]).unwrap()),
        &schema,
    )
    .unwrap();
    let ents = PartialEntities::empty();
    let resp = pset.tpe(&req, &ents, &schema).unwrap();
    // the documented contract: "exactly the same policies as TpeResponse::policies"
    let by_iter: BTreeMap<String, String> = resp.policies().map(|p| (p.id().to_string(), p.to_string())).collect();
    let set = resp.policy_set();
    let by_set: BTreeMap<String, String> = set.policies().map(|p| (p.id().to_string(), p.to_string())).collect();
    assert_eq!(by_iter, by_set);
}
