#!/bin/bash
# Re-run every claimed check (quick tier) on the current tree and validate the evidence files; run before committing.
cd /verif || exit 2
if [ -n "$(git -C /repo status --porcelain)" ]; then echo "/repo has uncommitted changes: refusing"; exit 2; fi
rc=0
for pid in $(python3 -c "import json; print(' '.join(c['property_id'] for c in json.load(open('MANIFEST.json'))['checks']))"); do
  out=$(./check $pid --tier quick 2>&1); r=$?
  echo "$out" | tail -2 | cut -c1-200
  [ $r -ne 0 ] && { echo "CHECK $pid EXIT $r"; rc=1; }
done
python3-vt - <<'PY' || rc=1
import json, jsonschema, glob, sys
sch = json.load(open('/root/.vp/EVIDENCE.schema.json'))
bad = 0
for c in json.load(open('/verif/MANIFEST.json'))['checks']:
    f = c['evidence_file']
    try:
        ev = json.load(open(f)); jsonschema.validate(ev, sch)
        cov = ev['coverage']
        if cov['obligations'] != cov['discharged'] or ev.get('violations'):
            print('EVIDENCE NOT CLEAN', f, cov['obligations'], cov['discharged']); bad = 1
    except Exception as e:
        print('EVIDENCE INVALID', f, e); bad = 1
sys.exit(bad)
PY
exit $rc
