#!/bin/bash
# usage: tools/seed_status.sh <seed-id>...   -- applies each seeded change to /repo, runs the property's check, reverts; writes seeded/<id>/check_result.txt
cd /verif
for s in "$@"; do
  P=${s%-*}
  if [ -n "$(git -C /repo status --porcelain)" ]; then echo "/repo not clean"; exit 3; fi
  git -C /repo apply /verif/seeded/$s/patch.diff || { echo "$s APPLYFAIL"; continue; }
  VERIF_NO_CANARY=1 ./check $P 2>&1 | grep -E "^(VIOLATION|UNDECIDED|KNOWN|property=)" | cut -c1-400 > /verif/seeded/$s/check_result.txt
  echo "exit=${PIPESTATUS[0]}" >> /verif/seeded/$s/check_result.txt
  git -C /repo checkout -- .
  echo "== $s: $(grep -c '^VIOLATION' seeded/$s/check_result.txt) violation(s), $(grep -c '^UNDECIDED' seeded/$s/check_result.txt) undecided, $(tail -1 seeded/$s/check_result.txt)"
done
git -C /verif checkout -- evidence 2>/dev/null
