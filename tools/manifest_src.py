BASELINE_CMD = "cd /repo && cargo nextest run --workspace --no-fail-fast --tool-config-file pb:/w/lib/nextest.toml --profile pb --test-threads 8 --offline"
NOTES = ("Contract-based deductive verification: every claimed check extracts the real functions from /repo on each run, "
         "splices contracts from /verif/units/<unit>/unit.py, and lets Verus discharge every obligation. Exit 0 pass / 1 VIOLATION / 2 undecided "
         "(lost anchor, tool limit; never an alarm). See DESIGN.md.")
CLAIMED = {
    'C01': dict(
        text="Every function on the path Authorizer::is_authorized -> is_authorized_core -> is_authorized_core_internal (bucket loop, unbounded in the number of policies) -> PartialResponse::new -> concretize -> From<PartialResponse> for Response (decision, must_be_determining, errors and their accessors) and Evaluator::partial_evaluate is extracted verbatim and proved by Verus against the statement of C01: decision, reasons and error ids are exactly those the property prescribes, as sets over an arbitrary enumeration of the policy set, with policy ids an uninterpreted type and the per-policy evaluation outcome an uninterpreted oracle.",
        design_ref='§5 C01', technique='Verus function contracts + loop invariant on extracted code; end-to-end lemma',
        note="Trusted: Verus/Z3; the std collection model in /verif/stdmodel; Evaluator::partial_interpret as an oracle (C02 covers it); Policy accessors and Policy::from_when_clause_annos (id/effect preserved); PolicySet::policies yields policies with pairwise distinct ids; cedar_policy::Authorizer API wrappers not covered."),
    'C13': dict(
        text="Response-level soundness of partial authorization, for every completion of the residual policies (universally quantified): PartialResponse::decision reports a decision only if every completion yields it; must_be_determining is contained in, and may_be_determining contains, the determining policies of every completion. Proved by Verus on the extracted functions.",
        design_ref='§5 C13', technique='Verus function contracts on extracted code, completion universally quantified',
        note="Trusted: as C01. Not covered: the residual-producing arms of the evaluator, reauthorize/concretize_request, Entities::partial."),
}
CLAIMED['C14'] = dict(
    text="tpe::Response is proved by Verus on the extracted code: Response::new partitions the residual policies into the eight (effect x class) buckets and an id->residual map (loop invariant, unbounded), its decision table is sound for every completion of the still-partial residuals and definite when none is partial; every view (bucket accessors, get_residual_policy, policies, policy_set, reason) presents exactly those residual policies, and From<ResidualPolicy> for Policy keeps effect, id and annotations of the original with the residual as condition; Residual::is_true/is_false/is_error/is_concrete/is_partial classify as specified.",
    design_ref='§5 C14', technique='Verus function contracts + loop invariants on extracted code; completion universally quantified',
    note="Trusted: Verus/Z3, std model, Policy::from_when_clause_annos and accessors, From<Residual> for Expr (opaque), PolicySet::{new,add} contract. Not covered: tpe::Evaluator::interpret simplification rules, consistency checks, query_* in api/tpe.rs, reauthorize's validation steps.")
CLAIMED['C02'] = dict(
    text="Per-operator semantics proved by Verus on the extracted code: unary_app, binary_relation, binary_arith and Value::get_as_* agree with the language's operator semantics for every operand value (checked i64 arithmetic exact or overflow error, type errors on non-matching operands, total ==, < / <= on longs and comparable extension values); Pattern::wildcard_match equals the recursive wildcard-matching spec for every pattern and text (loop invariants + lemmas, unbounded).",
    design_ref='§5 C02', technique='Verus function contracts + loop invariants on extracted code against a spec of the operator semantics',
    note="Trusted: Verus/Z3, std model; Value equality (educe-derived PartialEq) and extension Ord as uninterpreted spec functions; From conversions into Value/EvaluationError; str::chars/is_empty. Not covered yet: the expression-node evaluator (partial_interpret_internal), Set operations, parser/EST front ends ('same result however the expression arrives').")
CLAIMED['C07'] = dict(
    text="Operations of the extension types return the mathematically exact result or an overflow/None: Verus proves the integer kernels extracted from datetime.rs/decimal.rs (DateTime::offset, duration_since, to_date, to_time; Duration::to_*; UTCOffset::to_seconds/is_valid; checked_mul_pow) against exact integer specs for all i64 inputs; Kani proves IPAddr::is_in_range (v4, v6, mixed), is_loopback, is_multicast, is_ipv4/is_ipv6 against an interval spec of CIDR blocks for all addresses and prefix lengths with loop-free full-domain harnesses (complete, with concrete counterexamples replayed through the evaluator).",
    design_ref='§5 C07', technique='Verus contracts on extracted integer kernels + Kani full-domain loop-free harnesses on the real crate',
    note="Trusted: Verus/Z3, Kani/CBMC; std checked_* specs; IPAddr prefix-range invariant assumed in harnesses. Not covered: which strings the constructors accept (regex, chrono, std::net parsing, str::parse), the &[Value] wrappers with dyn Any downcasts, Display/canonical forms, equality by represented value.", engine='vx+kani')
CLAIMED['C08'] = dict(
    text="Every core PolicySet operation (new, add, add_static, add_template, link, unlink, remove_static, remove_template, policy_id_is_bound, get, get_template_arc, get_linked_policies, policies, is_empty) is extracted verbatim (hash-map Entry API included, through prophecy-style contracts) and proved by Verus to preserve a representation invariant over the three maps (no link without its template, exact reverse index, an id shared by a template and a link only for a static policy) with whole-view postconditions: exact success condition, exactly the stated change on success, nothing changed on failure; both panic! arms are proved unreachable. policies() yields exactly the links, with pairwise distinct ids (the precondition used by C01).",
    design_ref='§5 C08', technique='Verus data-structure invariant + whole-view function contracts on extracted code',
    note="Trusted: Verus/Z3; LinkedHashMap/LinkedHashSet/Entry model; Template::link / link_static_policy contracts (check_binding not verified); caller-established preconditions of add/link about non-static id collisions. Not covered: link == substitution at evaluation (Slot arm), merge_policyset, try_from_iter, the cedar_policy::PolicySet wrapper maps in api.rs.")
CLAIMED['C20'] = dict(
    text="Delimited by-product: for every function under contract in any unit (see coverage.functions_under_contract) Verus proves, for all inputs satisfying the stated precondition, that no index is out of bounds, no arithmetic overflows, no division by zero occurs and no unwrap/expect/unreachable!/panic! is reached (e.g. wildcard_match indexing, binary_relation/binary_arith unreachable!, remove_template/unlink panic!, tpe::Response unwraps, PolicySet::add unwrap in policy_set). A C20 violation is reported only when a function's failing obligations are exclusively of these kinds. Nothing is claimed for code outside the listed functions (parsers, JSON, protobuf, FFI, formatter, error rendering).",
    design_ref='§5 C20', technique='implicit safety obligations of Verus on the extracted functions (callee preconditions, overflow, unreachable)',
    note="Trusted: as for the units it aggregates. Termination is proved only where a decreases clause is present. The quantification of C20 over arbitrary bytes at every entry point is NOT covered: this check decides panic-freedom only for the functions under contract.")
CLAIMED['C04'] = dict(
    text="Checker and per-entity part of C04, proved by Verus on the extracted code: enforce_tc / enforce_dag_from_tc / enforce_dag_from_tc_for / enforce_tc_and_dag accept a store exactly when its stored ancestor relation is transitively closed and irreflexive (nested-loop invariants, unbounded), and for such a store every walk along edges is itself an edge and no walk returns to its start (lemmas: stored ancestors equal reachability, acyclic); Entity's ancestor bookkeeping (is_descendant_of = membership in parents+indirect ancestors, ancestors(), add/remove parent/indirect ancestor keep the two sets disjoint with exact whole-view effects) and impl TCNode for Entity is checked against the trait contract the checkers rely on. The history sentence of C04 (closure recomputation after add/upsert/remove; cycle rejection by compute_tc) is NOT decided here.",
    design_ref='§5 C04', technique='Verus loop invariants + trait contracts on extracted code; graph lemmas',
    note="Trusted: Verus/Z3, HashMap/HashSet model, nodes stored under their own key. Not covered: compute_tc, repair_tc, add_ancestors, cyclic_tc (SCC), Entities::{add,upsert,remove}_entities stale-edge stripping, impl TCNode for Arc<Entity>, eval_in (part of C02 work).")
NOT_APPLICABLE = {
    'C03': 'strict-validation soundness relates two multi-thousand-line recursive functions over all programs x environments; no function contract within reach implies it (DESIGN §6)',
    'C05': 'parser is LALRPOP-generated tables + Display through fmt::Formatter; Verus has no str/formatter reasoning (DESIGN §6)',
    'C06': 'four large structural recursions plus serde/prost-generated code; beyond reach of function contracts here (DESIGN §6)',
    'C09': 'two parsers, name resolution and a printer; same obstacles as C05/C06 (DESIGN §6)',
    'C10': 'serde-driven, expected-type directed JSON parsing; the round trip is not expressible as a contract on functions within reach (DESIGN §6)',
    'C11': 'in progress',
    'C12': 'pretty-printer combinators over rendered text; outside contract reasoning (DESIGN §6)',
    'C15': 'in progress',
    'C16': 'in progress',
    'C17': 'soundness of a static analysis for all programs x stores; slicing functions alone do not state the property (DESIGN §6)',
    'C18': 'in progress',
    'C19': 'glue over serde, thread-locals and process exit codes relating whole front ends (DESIGN §6)',
}
