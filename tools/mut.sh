#!/bin/bash
# usage: tools/mut.sh <PID> <file-rel-to-/repo> <python-regex> <replacement>   -- apply one textual mutation, run the check, revert
set -u
PID=$1; F=/repo/$2; PAT=$3; REP=$4
python3 - "$F" "$PAT" "$REP" <<'PY'
import re,sys
f,pat,rep=sys.argv[1:4]
s=open(f).read()
rep=rep.replace('\\n','\n')
n,c=re.subn(pat,lambda m: rep,s,count=1,flags=re.S)
if c!=1: print('MUTATION DID NOT APPLY'); sys.exit(3)
open(f,'w').write(n)
PY
[ $? -eq 3 ] && exit 3
cd /verif && VERIF_NO_CANARY=1 ./check $PID 2>&1 | grep -E "^(VIOLATION|UNDECIDED|KNOWN|property=)" | cut -c1-260
echo "exit=${PIPESTATUS[0]}"
git -C /repo checkout -- "$2"
# the evidence files written by a mutated run must never be committed
git -C /verif checkout -- evidence 2>/dev/null
