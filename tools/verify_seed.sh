#!/bin/bash
# usage: tools/verify_seed.sh <seed-dir> <crate> <features> [demo-file]
# Confirms a seeded change in a scratch worktree ($WT, default /tmp/wt_verify; several worktrees can run in parallel): demo must PASS on the pinned tree, then with the patch
# applied the demo must FAIL and the workspace test suite must still pass (the 3 known always-fail tests tolerated; tests
# that fail under machine load are re-run alone at low parallelism and must pass there); then the tree is reverted.
set -u
SD=$(realpath $1); CRATE=$2; FEAT=$3; DEMO=${4:-demo.rs}
WT=${WT:-/tmp/wt_verify}
export CARGO_TARGET_DIR=$WT/target
if [ ! -d $WT ]; then git -C /repo worktree add --detach $WT HEAD -q; fi
cd $WT && git checkout -q --detach $(git -C /repo rev-parse HEAD) && git checkout -- . && git clean -fdq -e target
mkdir -p $CRATE/tests && cp $SD/$DEMO $CRATE/tests/vx_seed_demo.rs
echo "### demo WITHOUT change"; cargo test -p $CRATE --offline --features "$FEAT" --test vx_seed_demo 2>&1 | grep -E "^test result|^test .* (ok|FAILED)|error(\[|:)" | head -20
git apply $SD/patch.diff || { echo "PATCH DOES NOT APPLY"; exit 3; }
echo "### demo WITH change"; cargo test -p $CRATE --offline --features "$FEAT" --test vx_seed_demo 2>&1 | grep -E "^test result|^test .* (ok|FAILED)|error(\[|:)" | head -20
rm $CRATE/tests/vx_seed_demo.rs
echo "### suite WITH change"; cargo nextest run --workspace --no-fail-fast --test-threads 8 --offline > $WT/_suite.log 2>&1
grep -E "^\s+Summary|^\s+FAIL" $WT/_suite.log | sort | uniq | head -40
EXTRA=$(grep -E "^\s+FAIL" $WT/_suite.log | awk '{print $NF}' | sort -u | grep -v -E "^(link_file_cant_read|symcc::solver::test::parse_error_test|symcc::solver_pool::test::test_failed_solver_discarded)$")
if [ -n "$EXTRA" ]; then
  echo "### re-run of load-sensitive failures alone (2 threads)"
  cargo nextest run --workspace --no-fail-fast --test-threads 2 --offline $EXTRA 2>&1 | grep -E "^\s+Summary|^\s+FAIL" | sort | uniq | head -20
fi
rm -f $WT/_suite.log
git checkout -- . && git clean -fdq -e target
echo "### done"
