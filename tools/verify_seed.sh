#!/bin/bash
# usage: tools/verify_seed.sh <seed-dir> <crate> <features> [demo-file]
# Confirms a seeded change in a scratch worktree (/tmp/wt_verify): applies patch, demo must FAIL, test suite of the
# workspace must still pass (3 known always-fail tests tolerated), then reverts: demo must PASS.
set -u
SD=$(realpath $1); CRATE=$2; FEAT=$3; DEMO=${4:-demo.rs}
WT=/tmp/wt_verify
export CARGO_TARGET_DIR=$WT/target
if [ ! -d $WT ]; then git -C /repo worktree add --detach $WT HEAD -q; fi
cd $WT && git checkout -q --detach $(git -C /repo rev-parse HEAD) && git checkout -- . && git clean -fdq -e target
mkdir -p $CRATE/tests && cp $SD/$DEMO $CRATE/tests/vx_seed_demo.rs
echo "### demo WITHOUT change"; cargo test -p $CRATE --offline --features "$FEAT" --test vx_seed_demo 2>&1 | grep -E "^test result|^test .* (ok|FAILED)|error(\[|:)" | head -20
git apply $SD/patch.diff || { echo "PATCH DOES NOT APPLY"; exit 3; }
echo "### demo WITH change"; cargo test -p $CRATE --offline --features "$FEAT" --test vx_seed_demo 2>&1 | grep -E "^test result|^test .* (ok|FAILED)|error(\[|:)" | head -20
rm $CRATE/tests/vx_seed_demo.rs
echo "### suite WITH change"; cargo nextest run --workspace --no-fail-fast --test-threads 8 --offline 2>&1 | grep -E "^\s+Summary|^\s+FAIL" | sort | uniq | head -30
git checkout -- . && git clean -fdq -e target
echo "### done"
