#!/usr/bin/env python3
"""Generate MANIFEST.json from tools/manifest_src.py (single source of truth) and validate it."""
import json, os, sys
ROOT = os.path.dirname(os.path.dirname(os.path.abspath(__file__)))
sys.path.insert(0, os.path.join(ROOT, 'tools'))
import manifest_src as M

checks = []
for pid, c in M.CLAIMED.items():
    checks.append({
        'property_id': pid,
        'quick_cmd': f'./check {pid} --tier quick',
        'thorough_cmd': f'./check {pid} --tier thorough',
        'evidence_file': f'/verif/evidence/{pid}.json',
        'replay_cmd_template': './check --replay {path}',
        'engine': c.get('engine', 'vx'),
        'level_claimed': {'category': 'proof', 'text': c['text'], 'design_ref': c['design_ref']},
        'level_note': c['note'],
        'technique': c['technique'],
    })
man = {
    'version': 1,
    'setup_cmd': 'true',
    'hooks': {
        'guard': 'kani',
        'enable': 'none needed: Verus runs on function text extracted from /repo on every run; Kani harness modules (#[cfg(kani)]) are appended to a scratch copy of the crate, never to /repo',
        'baseline_off_cmd': M.BASELINE_CMD,
        'source_commits': [],
        'add_only': True,
    },
    'engines': [
        {'name': 'vx', 'path': '/verif/vx', 'serves_properties': sorted(M.CLAIMED), 'kind_free_text': 'mechanical extractor/assembler + Verus 0.2026.09.13 (z3) runner; contracts, specs and lemmas in /verif/units/<unit>/; trusted std model in /verif/stdmodel'},
    ],
    'checks': checks,
    'notes': M.NOTES,
    'not_applicable': [{'property_id': k, 'reason': v} for k, v in M.NOT_APPLICABLE.items()],
}
with open(os.path.join(ROOT, 'MANIFEST.json'), 'w') as f:
    json.dump(man, f, indent=1)
    f.write('\n')
try:
    import jsonschema
    jsonschema.validate(man, json.load(open('/root/.vp/MANIFEST.schema.json')))
    print('MANIFEST.json valid;', len(checks), 'checks,', len(M.NOT_APPLICABLE), 'not applicable')
except ImportError:
    print('jsonschema not available; wrote MANIFEST.json unvalidated')
