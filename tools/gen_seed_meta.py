#!/usr/bin/env python3
"""Writes seeded/<id>/meta.json from the seed's notes.md, patch.diff, check_result.txt and the confirmation log of tools/verify_seed.sh.
usage: tools/gen_seed_meta.py [log-dir]   (log-dir defaults to /var/tmp/vx; logs are copied next to the seed as verify.log)"""
import os, re, json, sys, glob
ROOT = os.path.dirname(os.path.dirname(os.path.abspath(__file__)))
LOGS = sys.argv[1] if len(sys.argv) > 1 else '/var/tmp/vx'
OLD = {'C13': 'verify_c13.log', 'C01': 'verify_c01.log', 'C14': 'verify_c14.log'}

def section(md, rx):
    m = re.search(r'^##+\s*[^\n]*(' + rx + r')[^\n]*\n(.*?)(?=^##+\s|\Z)', md, re.S | re.M | re.I)
    return m.group(2).strip() if m else None

for d in sorted(glob.glob(os.path.join(ROOT, 'seeded', 'C*-*'))):
    sid = os.path.basename(d); pid = sid.split('-')[0]
    md = open(os.path.join(d, 'notes.md')).read() if os.path.exists(os.path.join(d, 'notes.md')) else ''
    title = (md.splitlines() or [''])[0].lstrip('# ').strip()
    needs = section(md, r'needed|manifest|trigger|when it shows|how it shows') or ''
    patch = open(os.path.join(d, 'patch.diff')).read()
    files = sorted(set(re.findall(r'^\+\+\+ b/(\S+)', patch, re.M)))
    # confirmation log
    vlog = os.path.join(d, 'verify.log')
    src = os.path.join(LOGS, f'v_{sid}.log')
    text = None
    if os.path.exists(src) and '### done' in open(src).read():
        text = open(src).read()
    elif pid in OLD and os.path.exists(os.path.join(LOGS, OLD[pid])):
        whole = open(os.path.join(LOGS, OLD[pid])).read()
        m = re.search(r'===== ' + sid + r'\n(.*?)(?====== |\Z)', whole, re.S)
        if m and '### done' in m.group(1):
            text = m.group(1)
    if text:
        open(vlog, 'w').write(text)
    confirmed = None
    if os.path.exists(vlog):
        t = open(vlog).read()
        def part(a, b):
            m = re.search(re.escape(a) + r'\n(.*?)(?=' + re.escape(b) + r')', t, re.S)
            return m.group(1) if m else ''
        without = part('### demo WITHOUT change', '### demo WITH change')
        with_ = part('### demo WITH change', '### suite WITH change')
        suite = t[t.find('### suite WITH change'):]
        summ = re.findall(r'Summary \[[^\]]*\] (\d+) tests run: (\d+) passed[^,]*, (\d+) failed', suite)
        fails = sorted(set(re.findall(r'FAIL \[[^\]]*\] \(\s*\d+/\d+\) (.*)', suite.split('### re-run')[0])))
        known = [f for f in fails if re.search(r'link_file_cant_read|parse_error_test|test_failed_solver_discarded', f)]
        extra = [f for f in fails if f not in known]
        rerun = re.search(r'### re-run of load-sensitive failures alone.*?\n(.*?)### done', t, re.S)
        rer = re.findall(r'Summary \[[^\]]*\] (\d+) tests? run: (\d+) passed[^,]*(?:, (\d+) failed)?', rerun.group(1)) if rerun else []
        confirmed = {
            'demo_without_change': 'pass' if re.search(r'test result: ok', without) and not re.search(r'FAILED', without) else 'unexpected',
            'demo_with_change': 'fails' if re.search(r'test result: FAILED', with_) else 'unexpected',
            'suite_with_change': {'run': int(summ[0][0]), 'passed': int(summ[0][1]), 'failed': int(summ[0][2])} if summ else None,
            'failing_tests_known_always_fail': known,
            'failing_tests_other': extra,
            'other_failures_rerun_alone': ({'run': int(rer[0][0]), 'passed': int(rer[0][1]), 'failed': int(rer[0][2] or 0)} if rer else None),
        }
    cr = os.path.join(d, 'check_result.txt')
    lines = open(cr).read().splitlines() if os.path.exists(cr) else []
    viol = [re.search(r'obligation=(\S+)', l).group(1) for l in lines if l.startswith('VIOLATION') and 'obligation=' in l]
    und = [l.split('reason=', 1)[1][:200] for l in lines if l.startswith('UNDECIDED') and 'reason=' in l]
    verdict = 'VIOLATION' if viol else ('UNDECIDED (exit 2, no alarm)' if und else ('not detected (exit 0)' if lines else 'not run'))
    meta = {
        'id': sid, 'property': pid, 'title': title, 'files_changed': files,
        'needs_to_manifest': needs,
        'demonstration': 'demo.rs (integration test against the public cedar-policy API; copy to cedar-policy/tests/)',
        'what_i_ran': 'tools/verify_seed.sh seeded/%s cedar-policy partial-eval  (scratch worktree /tmp/wt_verify: demo on the pinned tree, patch applied, demo again, full workspace nextest suite with the patch; load-sensitive symcc failures re-run alone); '
                      'tools/seed_status.sh %s  (git -C /repo apply; ./check %s; git -C /repo checkout -- .)' % (sid, sid, pid),
        'confirmed': confirmed if confirmed else 'confirmation run pending or incomplete (see DESIGN.md section 8)',
        'check': {'verdict': verdict, 'failed_obligations': viol, 'undecided_reason': und},
    }
    json.dump(meta, open(os.path.join(d, 'meta.json'), 'w'), indent=1)
    print(sid, verdict, 'confirmed' if confirmed else 'pending')
