"""Unit batched: the loader-driven authorization loop is_authorized_batched (C15) - call structure, loader discipline, iteration budget, result mapping."""
from vx.assemble import Fn, Type, Raw, Loop, ClosureRw, FnRw, cmp_rw

PROPERTIES = ['C15']
HEADER = '#![feature(allocator_api)]'
STDMODEL = ['iter.rs', 'hash.rs', 'std.rs']
BE = 'cedar-policy-core/src/batched_evaluator.rs'
AUTHZ = 'cedar-policy-core/src/authorizer.rs'
ASSUMPTIONS = [
    '`&mut dyn EntityLoader` is read as a generic `&mut L` (dyn Trait is unsupported by Verus); the loader carries the history of its calls as ghost state.',
    'tpe::Evaluator::interpret (unit tpe_eval), policy_residual_map (unit tpe_auth), Residual::all_literal_uids (unit tpe_residual), Response::new / decision (unit tpe_response) are callee contracts; PartialEntities::{add_entities, add_entity_trusted} only record which uids have a record.',
    'That the batched decision equals ordinary authorization is NOT decided here (it needs the agreement of the residual semantics with the concrete evaluator); this unit decides the loop discipline.',
]
RW = [
    (r'let mut residuals: Vec<ResidualPolicy> = policy_residual_map\(&request, ps, schema\)\?\s*\.into_iter\(\)', 'let __vx_m = policy_residual_map(&request, ps, schema)?; let ghost __vx_ko = __vx_m.key_order(); let ghost __vx_mv = __vx_m@; let ghost __vx_pairs = __vx_m.pairs();\n    let mut residuals: Vec<ResidualPolicy> = __vx_m.into_iter()', 1),
    (r'let ids = residuals\.iter\(\)\.flat_map\(\|r\| r\.all_literal_uids\(\)\);', 'let __vx_it = vx_vec_iter(&residuals); let ghost __vx_rit = __vx_it.items(); let ids = __vx_it.flat_map(|r: &ResidualPolicy| -> (s: HashSet<EntityUID>) ensures s@ == r.residual.lits() { r.all_literal_uids() });', 1),
    (r'for \(id, e_option\) in loaded_entities \{', 'for _vxp in loaded_entities.into_iter().vx_for() { let (id, e_option) = _vxp;', 1),
    (r'(?s)entities\.add_entities\(\s*iter::once\(\(id, PartialEntity::try_from\(e\)\?\)\),\s*schema,\s*TCComputation::AssumeAlreadyComputed,\s*\)\?;', 'entities.vx_add_one(id, PartialEntity::vx_try_from(e)?, schema, TCComputation::AssumeAlreadyComputed)?;', 1),
    (r'PartialEntity::try_from\(Entity::with_uid\(id\)\)\?', 'PartialEntity::vx_try_from(Entity::with_uid(id))?', 1),
    ClosureRw(r'\(id, expr\)', '_vxp: (&PolicyID, Residual)', 'ResidualPolicy', requires='ps.links().contains_key(*_vxp.0)', ensures='*x.policy == ps.links()[*_vxp.0]', rname='x', destructure='(id, expr)', count=1),
    (r'residuals = residuals\s*\.into_iter\(\)', 'residuals = vx_vec_into_iter(residuals)', 1),
    ClosureRw(r'residual', 'residual: ResidualPolicy', 'ResidualPolicy', requires='ps.links().contains_key(residual.policy.spec_id())', ensures='x.policy.spec_id() == residual.policy.spec_id()', rname='x', count=1),
    (r'(?s)residuals\s*\.iter\(\)\s*\.all\(\|r\| !matches!\(\*\(r\.get_residual\(\)\), Residual::Partial \{ \.\. \}\)\)', 'vx_vec_iter(&residuals).all(|r: &ResidualPolicy| -> (b: bool) ensures b == !r.residual.spec_partial() { vx_not_partial(&r.get_residual()) })', 1),
    (r'Response::new\(residuals\.into_iter\(\)', 'Response::new(vx_vec_into_iter(residuals)', 1),
    (r'InsufficientIterationsError \{\}\.into\(\)', '<BatchedEvalError as From<InsufficientIterationsError>>::from(InsufficientIterationsError {})', 1),
]
ITEMS = [
    Type(AUTHZ, 'enum Decision', attrs=['derive(Clone, Copy, PartialEq, Eq)']),
    Raw(file='prelude.rs', tag='prelude'),
    Fn(BE, 'fn is_authorized_batched',
       sig_rewrites=[(r'loader: &mut dyn EntityLoader', 'loader: &mut L', 1), (r'fn is_authorized_batched\(', 'fn is_authorized_batched<L: EntityLoader>(', 1)],
       rewrites=RW,
       ensures=[('budget', 'final(loader).asked().len() <= old(loader).asked().len() + max_iters'),
                ('answer', 'r is Ok ==> exists|resp: Response| #[trigger] covers(ps, resp.spec_items()) && resp.spec_decision() == Some(r->Ok_0)')],
       proof_start='proof { axiom_links_ids(ps); } let ghost asked0 = loader.asked();',
       hints=[(r'(?s)let mut residuals: Vec<ResidualPolicy> = .*?\.collect\(\);', '''proof {
            broadcast use axiom_hashmap_order_ok;
            assert(residuals@.len() == __vx_pairs.len());
            assert forall|k: int| 0 <= k < residuals@.len() implies ps.links().contains_key((#[trigger] residuals@[k]).policy.spec_id()) by {
                let kk = __vx_ko[k]; assert(__vx_mv.dom().contains(kk)); assert(__vx_pairs[k] == (kk, __vx_mv[kk]));
            }
            assert forall|id: PolicyID| ps.links().contains_key(id) implies exists|k: int| 0 <= k < residuals@.len() && (#[trigger] residuals@[k]).policy.spec_id() == id by {
                assert(__vx_mv.contains_key(&id)); assert(__vx_ko.contains(&id));
                let k = choose|k: int| 0 <= k < __vx_ko.len() && __vx_ko[k] == &id;
                assert(__vx_pairs[k] == (__vx_ko[k], __vx_mv[__vx_ko[k]]));
                assert(residuals@[k].policy.spec_id() == id);
            }
        }'''),
        (r'(?=let response = Response::new)', 'proof { assert(covers(ps, residuals@)); }'),
        (r'let response = Response::new\(.*?\);', 'proof { assert(covers(ps, response.spec_items())); }'),
        (r'(?=let loaded_entities = loader\.load_entities\(&to_load\);)', '''proof {
            // LOADER DISCIPLINE: exactly the literal entity uids of the current residuals that have no record yet are requested
            assert forall|u: EntityUID| to_load@.contains(u) <==> lits_of(residuals@, u) && !entities.known().contains(u) by {
                if to_load@.contains(u) {
                    let j = choose|j: int| 0 <= j < ids0.len() && #[trigger] ids0[j] == u && !known0.contains(u);
                }
                if lits_of(residuals@, u) && !entities.known().contains(u) {
                    let k = choose|k: int| 0 <= k < residuals@.len() && (#[trigger] residuals@[k]).residual.lits().contains(u);
                    assert(*__vx_rit[k] == residuals@[k]);
                }
            }
        }''')],
       loops={
           1: Loop(invariant=[
               ('ids', 'forall|k: int| 0 <= k < residuals@.len() ==> ps.links().contains_key((#[trigger] residuals@[k]).policy.spec_id())'),
               ('cover', 'forall|id: PolicyID| ps.links().contains_key(id) ==> exists|k: int| 0 <= k < residuals@.len() && (#[trigger] residuals@[k]).policy.spec_id() == id'),
               ('budget', 'it_1.index@ <= max_iters && loader.asked().len() == asked0.len() + it_1.index@ && asked0 == old(loader).asked()'),
               ('axiom', 'forall|k: PolicyID| #[trigger] ps.links().contains_key(k) ==> ps.links()[k].spec_id() == k'),
           ]),
           2: Loop(iter_suffix='.vx_for()', name='it_2', proof_before='let ghost ids0 = ids.items(); let ghost known0 = entities.known();', invariant=[
               ('snapshot', 'it_2.snapshot@.remaining() == ids0 && entities.known() == known0'),
               ('filter', 'forall|u: EntityUID| to_load@.contains(u) <==> exists|j: int| 0 <= j < it_2.index@ && #[trigger] ids0[j] == u && !known0.contains(u)'),
           ]),
           3: Loop(name='it_3', invariant=[
               ('budget', 'it_1.index@ < max_iters && loader.asked().len() == asked0.len() + it_1.index@ + 1 && asked0 == old(loader).asked()'),
           ]),
       }),
]
CANARIES = ['is_authorized_batched']
# assumed contract ("only records which uids have a record"): reviewed, not verified here
WATCH = [('cedar-policy-core/src/tpe/entities.rs', 'impl PartialEntities > fn add_entities')]
