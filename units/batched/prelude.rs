// ---- batched unit prelude (trusted declarations) ----
#[verifier::external_body] pub struct EntityUID { _p: u8 }
impl Clone for EntityUID { #[verifier::external_body] fn clone(&self) -> (r: Self) ensures r == *self { unimplemented!() } }
#[verifier::external_body] pub struct PolicyID { _p: u8 }
#[verifier::external_body] pub struct Policy { _p: u8 }
impl Clone for Policy { #[verifier::external_body] fn clone(&self) -> (r: Self) ensures r == *self { unimplemented!() } }
#[verifier::external_body] pub struct PolicySet { _p: u8 }
#[verifier::external_body] pub struct Request { _p: u8 }
#[verifier::external_body] pub struct Entity { _p: u8 }
#[verifier::external_body] pub struct ValidatorSchema { _p: u8 }
#[verifier::external_body] pub struct BatchedEvalError { _p: u8 }
pub struct InsufficientIterationsError {}
#[verifier::external_body] pub struct TpeError { _p: u8 }
#[verifier::external_body] pub struct EntitiesError { _p: u8 }
#[verifier::external_body] pub struct ConvErr { _p: u8 }
#[verifier::external_body] pub struct Extensions<'a> { _p: &'a u8 }
#[verifier::external_body] pub struct PartialRequest { _p: u8 }
#[verifier::external_body] pub struct PartialEntity { _p: u8 }
#[verifier::external_body] pub struct Residual { _p: u8 }
impl<'a> Extensions<'a> { #[verifier::external_body] pub fn all_available() -> (r: &'static Extensions<'static>) { unimplemented!() } }
impl vstd::std_specs::convert::FromSpecImpl<TpeError> for BatchedEvalError { open spec fn obeys_from_spec() -> bool { false } uninterp spec fn from_spec(v: TpeError) -> BatchedEvalError; }
impl From<TpeError> for BatchedEvalError { #[verifier::external_body] fn from(v: TpeError) -> (r: BatchedEvalError) { unimplemented!() } }
impl vstd::std_specs::convert::FromSpecImpl<EntitiesError> for BatchedEvalError { open spec fn obeys_from_spec() -> bool { false } uninterp spec fn from_spec(v: EntitiesError) -> BatchedEvalError; }
impl From<EntitiesError> for BatchedEvalError { #[verifier::external_body] fn from(v: EntitiesError) -> (r: BatchedEvalError) { unimplemented!() } }
impl vstd::std_specs::convert::FromSpecImpl<ConvErr> for BatchedEvalError { open spec fn obeys_from_spec() -> bool { false } uninterp spec fn from_spec(v: ConvErr) -> BatchedEvalError; }
impl From<ConvErr> for BatchedEvalError { #[verifier::external_body] fn from(v: ConvErr) -> (r: BatchedEvalError) { unimplemented!() } }
impl vstd::std_specs::convert::FromSpecImpl<InsufficientIterationsError> for BatchedEvalError { open spec fn obeys_from_spec() -> bool { false } uninterp spec fn from_spec(v: InsufficientIterationsError) -> BatchedEvalError; }
impl From<InsufficientIterationsError> for BatchedEvalError { #[verifier::external_body] fn from(v: InsufficientIterationsError) -> (r: BatchedEvalError) { unimplemented!() } }
#[derive(Clone, Copy, PartialEq, Eq)] pub enum TCComputation { AssumeAlreadyComputed, EnforceAlreadyComputed, ComputeNow }
impl Policy { pub uninterp spec fn spec_id(&self) -> PolicyID; #[verifier::external_body] pub fn id(&self) -> (r: &PolicyID) ensures *r == self.spec_id() { unimplemented!() } }
impl PolicySet {
    pub uninterp spec fn links(&self) -> Map<PolicyID, Policy>;
    #[verifier::external_body] pub fn get(&self, id: &PolicyID) -> (r: Option<&Policy>) ensures r == (if self.links().contains_key(*id) { Some(&self.links()[*id]) } else { None }) { unimplemented!() }
}
/// every policy is stored under its own id (invariant of PolicySet, unit policyset)
pub axiom fn axiom_links_ids(ps: &PolicySet) ensures forall|k: PolicyID| #[trigger] ps.links().contains_key(k) ==> ps.links()[k].spec_id() == k;
#[verifier::external_body] pub fn concrete_request_to_partial(request: &Request, schema: &ValidatorSchema) -> (r: std::result::Result<PartialRequest, BatchedEvalError>) { unimplemented!() }
/// contract proved in unit tpe_auth: on success exactly the ids of the policy set
#[verifier::external_body] pub fn policy_residual_map<'a>(request: &'a PartialRequest, ps: &'a PolicySet, schema: &ValidatorSchema) -> (r: std::result::Result<HashMap<&'a PolicyID, Residual>, TpeError>)
    ensures r is Ok ==> forall|k: &PolicyID| #[trigger] r->Ok_0@.contains_key(k) <==> ps.links().contains_key(*k) { unimplemented!() }
/// the literal entity uids of a residual (Residual::all_literal_uids: proved in unit tpe_residual) and whether it is still partial
impl Residual {
    pub uninterp spec fn lits(&self) -> SSet<EntityUID>;
    pub uninterp spec fn spec_partial(&self) -> bool;
    #[verifier::external_body] pub fn all_literal_uids(&self) -> (r: HashSet<EntityUID>) ensures r@ == self.lits() { unimplemented!() }
}
/// `!matches!(*x, Residual::Partial { .. })`
#[verifier::external_body] pub fn vx_not_partial(x: &Arc<Residual>) -> (r: bool) ensures r == !x.spec_partial() { unimplemented!() }
/// the partial entity store: which uids it has a record for
impl PartialEntities {
    pub uninterp spec fn known(&self) -> SSet<EntityUID>;
    #[verifier::external_body] pub fn default() -> (r: Self) ensures r.known() =~= SSet::<EntityUID>::empty() { unimplemented!() }
    #[verifier::external_body] pub fn contains_entity(&self, u: &EntityUID) -> (r: bool) ensures r == self.known().contains(*u) { unimplemented!() }
    /// add one record (PartialEntities::add_entities with a one-element iterator; errors on a duplicate or an invalid entity and then changes nothing observable here)
    #[verifier::external_body] pub fn vx_add_one(&mut self, id: EntityUID, e: PartialEntity, schema: &ValidatorSchema, tc: TCComputation) -> (r: std::result::Result<(), EntitiesError>)
        ensures r is Ok ==> final(self).known() =~= old(self).known().insert(id), r is Err ==> final(self).known() =~= old(self).known() { unimplemented!() }
    #[verifier::external_body] pub fn add_entity_trusted(&mut self, id: EntityUID, e: PartialEntity) -> (r: std::result::Result<(), EntitiesError>)
        ensures r is Ok ==> final(self).known() =~= old(self).known().insert(id), r is Err ==> final(self).known() =~= old(self).known() { unimplemented!() }
}
#[verifier::external_body] pub struct PartialEntities { _p: u8 }
impl PartialEntity { #[verifier::external_body] pub fn vx_try_from(e: Entity) -> (r: std::result::Result<PartialEntity, ConvErr>) { unimplemented!() } }
impl Entity { #[verifier::external_body] pub fn with_uid(u: EntityUID) -> (r: Entity) { unimplemented!() } }
pub struct Evaluator<'e> { pub request: &'e PartialRequest, pub entities: &'e PartialEntities, pub extensions: &'e Extensions<'e> }
impl Evaluator<'_> {
    /// contract proved in unit tpe_eval (soundness of the simplification); here only the call structure matters
    #[verifier::external_body] pub fn interpret(&self, r: &Residual) -> (out: Residual) { unimplemented!() }
}
pub struct ResidualPolicy { pub residual: Arc<Residual>, pub policy: Arc<Policy> }
impl ResidualPolicy {
    #[verifier::external_body] pub fn new(residual: Arc<Residual>, policy: Arc<Policy>) -> (r: Self) ensures r.residual == residual && r.policy == policy { unimplemented!() }
    #[verifier::external_body] pub fn get_residual(&self) -> (r: Arc<Residual>) ensures r == self.residual { unimplemented!() }
    #[verifier::external_body] pub fn get_policy_id(&self) -> (r: &PolicyID) ensures *r == self.policy.spec_id() { unimplemented!() }
    #[verifier::external_body] pub fn all_literal_uids(&self) -> (r: HashSet<EntityUID>) ensures r@ == self.residual.lits() { unimplemented!() }
}
#[verifier::external_body] pub struct Response<'a> { _p: &'a u8 }
impl<'a> Response<'a> {
    pub uninterp spec fn spec_items(&self) -> Seq<ResidualPolicy>;
    pub uninterp spec fn spec_decision(&self) -> Option<Decision>;
    #[verifier::external_body] pub fn new(residuals: VxIter<ResidualPolicy>, request: &'a PartialRequest, entities: &'a PartialEntities, schema: &'a ValidatorSchema) -> (r: Self) ensures r.spec_items() == residuals.items() { unimplemented!() }
    #[verifier::external_body] pub fn decision(&self) -> (r: Option<Decision>) ensures r == self.spec_decision() { unimplemented!() }
}
/// the loader, with the history of what it was asked for as ghost state
pub trait EntityLoader {
    spec fn asked(&self) -> Seq<SSet<EntityUID>>;
    fn load_entities(&mut self, uids: &HashSet<EntityUID>) -> (r: HashMap<EntityUID, Option<Entity>>)
        ensures final(self).asked() == old(self).asked().push(uids@);
}
impl<T> VxIter<T> {
    /// `flat_map` over sets: the elements of all the sets
    #[verifier::external_body]
    pub fn flat_map<U, F: Fn(T) -> HashSet<U>>(self, f: F) -> (r: VxIter<U>)
        requires forall|i: int| 0 <= i < self.items().len() ==> f.requires((#[trigger] self.items()[i],))
        ensures
            forall|j: int| 0 <= j < r.items().len() ==> exists|i: int, s: HashSet<U>| 0 <= i < self.items().len() && #[trigger] f.ensures((self.items()[i],), s) && s@.contains(#[trigger] r.items()[j]),
            forall|i: int| #![trigger self.items()[i]] 0 <= i < self.items().len() ==> exists|s: HashSet<U>| #[trigger] f.ensures((self.items()[i],), s) && forall|u: U| #[trigger] s@.contains(u) ==> exists|j: int| 0 <= j < r.items().len() && #[trigger] r.items()[j] == u,
    { unimplemented!() }
}
#[verifier::external_body] pub fn vx_vec_iter<T>(v: &Vec<T>) -> (r: VxIter<&T>)
    ensures r.items().len() == v@.len(), forall|i: int| #![trigger r.items()[i]] #![trigger v@[i]] 0 <= i < v@.len() ==> *r.items()[i] == v@[i]
{ unimplemented!() }
/// u is a literal entity uid of one of the current residual policies
pub open spec fn lits_of(rs: Seq<ResidualPolicy>, u: EntityUID) -> bool { exists|k: int| 0 <= k < rs.len() && (#[trigger] rs[k]).residual.lits().contains(u) }
/// the residual policies are exactly one per policy id of the set
pub open spec fn covers(ps: &PolicySet, items: Seq<ResidualPolicy>) -> bool {
    (forall|k: int| 0 <= k < items.len() ==> ps.links().contains_key((#[trigger] items[k]).policy.spec_id()))
    && (forall|id: PolicyID| ps.links().contains_key(id) ==> exists|k: int| 0 <= k < items.len() && (#[trigger] items[k]).policy.spec_id() == id)
}
