"""Unit tc_checks: the transitive-closure / DAG checkers of transitive_closure.rs (C04, checker part)."""
from vx.assemble import Fn, Type, Raw, Loop, ClosureRw

PROPERTIES = ['C04']
HEADER = '#![feature(allocator_api)]'
STDMODEL = ['iter.rs', 'hash.rs', 'std.rs']
TC = 'cedar-policy-core/src/transitive_closure.rs'
ASSUMPTIONS = [
    'TCNode implementations satisfy the trait contract of the prelude: out_edges enumerates exactly edges(), has_edge_to is membership in edges(), get_key returns key() (impl TCNode for Entity is the subject of unit entity_hier).',
    'TCNode::out_edges returns Box<dyn Iterator>; the extracted callers see the model iterator instead (dyn Trait is unsupported by Verus).',
    'Every node is stored under its own key (keys_ok): established by Entities construction, not verified.',
    'Not covered: compute_tc / repair_tc / add_ancestors / cyclic_tc (the closure computation itself) and the store edits in entities.rs: the history part of C04 is not decided.',
]
WHERE = (r'K: Clone \+ Eq \+ Hash \+ Debug \+ Display,', 'K: Clone,', 1)
M = 'entities.view()'
ITEMS = [
    Raw(file='../_tc/tcnode.rs', tag='prelude'),
    Raw(file='prelude.rs', tag='prelude'),
    Raw(file='spec.rs', tag='spec'),
    Fn(TC, 'fn enforce_tc', sig_rewrites=[WHERE],
       ensures=[('closed', f'r is Ok <==> closed({M})')],
       proof_start=f'broadcast use axiom_hashmap_order_ok; proof {{ lemma_closed_nodes({M}); }}',
       loops={
           1: Loop(iter_suffix='.vx_for()', invariant=[
               ('snapshot', f'entities.order_ok(), it_1.snapshot@.remaining().len() == entities.key_order().len(), forall|i: int| 0 <= i < entities.key_order().len() ==> *(#[trigger] it_1.snapshot@.remaining()[i]) == {M}[entities.key_order()[i]]'),
               ('done', f'forall|i: int| 0 <= i < it_1.index@ ==> node_closed({M}, #[trigger] {M}[entities.key_order()[i]])'),
           ]),
           2: Loop(iter_suffix='.vx_for()', name='it_2', invariant=[
               ('outer', f'entities.order_ok(), 0 <= it_1.index@ < entities.key_order().len(), *entity == {M}[entities.key_order()[it_1.index@]]'),
               ('edges', 'forall|i: int| 0 <= i < it_2.snapshot@.remaining().len() ==> entity.edges().contains(*(#[trigger] it_2.snapshot@.remaining()[i]))'),
               ('all_edges', 'forall|k: K| entity.edges().contains(k) ==> exists|i: int| 0 <= i < it_2.snapshot@.remaining().len() && *(#[trigger] it_2.snapshot@.remaining()[i]) == k'),
               ('done', f'forall|i: int, c: K| 0 <= i < it_2.index@ && {M}.contains_key(*(#[trigger] it_2.snapshot@.remaining()[i])) && #[trigger] {M}[*it_2.snapshot@.remaining()[i]].edges().contains(c) ==> entity.edges().contains(c)'),
           ]),
           3: Loop(iter_suffix='.vx_for()', name='it_3', invariant=[
               ('parent', f'{M}.contains_key(*parent_uid), *parent == {M}[*parent_uid], entity.edges().contains(*parent_uid), 0 <= it_1.index@ < entities.key_order().len(), *entity == {M}[entities.key_order()[it_1.index@]], entities.order_ok()'),
               ('edges', 'forall|i: int| 0 <= i < it_3.snapshot@.remaining().len() ==> parent.edges().contains(*(#[trigger] it_3.snapshot@.remaining()[i]))'),
               ('all_edges', 'forall|k: K| parent.edges().contains(k) ==> exists|i: int| 0 <= i < it_3.snapshot@.remaining().len() && *(#[trigger] it_3.snapshot@.remaining()[i]) == k'),
               ('done', 'forall|i: int| 0 <= i < it_3.index@ ==> entity.edges().contains(*(#[trigger] it_3.snapshot@.remaining()[i]))'),
           ], proof_start=f'''proof {{
                        let k = entities.key_order()[it_1.index@];
                        assert({M}.dom().contains(k));
                        if !entity.edges().contains(*grandparent) {{
                            assert(edge({M}, k, *parent_uid)); assert(edge({M}, *parent_uid, *grandparent)); assert(!edge({M}, k, *grandparent));
                        }}
                    }}'''),
       }),
    Fn(TC, 'fn enforce_dag_from_tc', sig_rewrites=[WHERE],
       requires=[('keys', f'keys_ok({M})')],
       ensures=[('irreflexive', f'r is Ok <==> irreflexive({M})')],
       proof_start='broadcast use axiom_hashmap_order_ok;',
       loops={1: Loop(iter_suffix='.vx_for()', invariant=[
           ('snapshot', f'keys_ok({M}), entities.order_ok(), it_1.snapshot@.remaining().len() == entities.key_order().len(), forall|i: int| 0 <= i < entities.key_order().len() ==> *(#[trigger] it_1.snapshot@.remaining()[i]) == {M}[entities.key_order()[i]]'),
           ('done', f'forall|i: int| 0 <= i < it_1.index@ ==> !edge({M}, #[trigger] entities.key_order()[i], entities.key_order()[i])'),
       ], proof_start=f'proof {{ let k = entities.key_order()[it_1.index@]; assert({M}.dom().contains(k)); assert(entity.key() == k); if entity.edges().contains(k) {{ assert(edge({M}, k, k)); }} }}')},
       proof_tail=f'''proof {{
            assert forall|a: K| !#[trigger] edge({M}, a, a) by {{
                if {M}.contains_key(a) {{ assert(entities.key_order().contains(a)); let i = choose|i: int| 0 <= i < entities.key_order().len() && entities.key_order()[i] == a; }}
            }}
        }}'''),
    Fn(TC, 'fn enforce_dag_from_tc_for', sig_rewrites=[WHERE],
       ensures=[('checked', f'r is Ok <==> forall|k: K| nodes_to_check.view().contains(k) ==> !#[trigger] edge({M}, k, k)')],
       loops={1: Loop(iter_suffix='.iter().vx_for()', invariant=[
           ('snapshot', 'nodes_to_check.order_ok(), it_1.snapshot@.remaining().len() == nodes_to_check.elem_order().len(), forall|i: int| 0 <= i < nodes_to_check.elem_order().len() ==> *(#[trigger] it_1.snapshot@.remaining()[i]) == nodes_to_check.elem_order()[i]'),
           ('done', f'forall|i: int| 0 <= i < it_1.index@ ==> !edge({M}, #[trigger] nodes_to_check.elem_order()[i], nodes_to_check.elem_order()[i])'),
       ], proof_start=f'proof {{ let k = *key; assert(k == nodes_to_check.elem_order()[it_1.index@]); assert(nodes_to_check.view().contains(k)); if {M}.contains_key(k) && {M}[k].edges().contains(k) {{ assert(edge({M}, k, k)); }} }}')},
       proof_tail=f'''proof {{
            assert forall|k: K| nodes_to_check.view().contains(k) implies !#[trigger] edge({M}, k, k) by {{
                assert(nodes_to_check.elem_order().contains(k));
                let i = choose|i: int| 0 <= i < nodes_to_check.elem_order().len() && nodes_to_check.elem_order()[i] == k;
            }}
        }}'''),
    Fn(TC, 'fn enforce_tc_and_dag', sig_rewrites=[WHERE],
       requires=[('keys', f'keys_ok({M})')],
       ensures=[('closed_and_acyclic', f'r is Ok <==> closed({M}) && irreflexive({M})')]),
]
CANARIES = ['enforce_tc', 'enforce_dag_from_tc']
