// ---- tc_checks prelude ----
#[verifier::external_body] #[verifier::reject_recursive_types(K)] pub struct TcError<K> { _p: std::marker::PhantomData<K> }
pub type Result<T, K> = std::result::Result<T, TcError<K>>;
impl<K> TcError<K> {
    #[verifier::external_body] pub fn missing_tc_edge(child: K, parent: K, grandparent: K) -> (r: Self) { unimplemented!() }
    #[verifier::external_body] pub fn has_cycle(k: K) -> (r: Self) { unimplemented!() }
}
impl<'a, T> VxIter<&'a T> {
    /// itertools::Itertools::contains
    #[verifier::external_body] pub fn contains(self, q: &T) -> (r: bool)
        ensures r == (exists|i: int| 0 <= i < self.items().len() && *(#[trigger] self.items()[i]) == *q)
    { unimplemented!() }
}
