// ---- hierarchy spec (C04, last sentence): a store accepted with "enforce already computed" is transitively closed and acyclic ----
pub open spec fn edge<K, V: TCNode<K>>(m: Map<K, V>, a: K, b: K) -> bool { m.contains_key(a) && m[a].edges().contains(b) }
pub open spec fn closed<K, V: TCNode<K>>(m: Map<K, V>) -> bool {
    forall|a: K, b: K, c: K| #![trigger edge(m, a, b), edge(m, b, c)] edge(m, a, b) && edge(m, b, c) ==> edge(m, a, c)
}
pub open spec fn irreflexive<K, V: TCNode<K>>(m: Map<K, V>) -> bool { forall|a: K| !#[trigger] edge(m, a, a) }
/// every node is stored under its own key
pub open spec fn keys_ok<K, V: TCNode<K>>(m: Map<K, V>) -> bool { forall|k: K| m.contains_key(k) ==> (#[trigger] m[k]).key() == k }
/// node v (stored in m) has all the edges of the nodes it points to
pub open spec fn node_closed<K, V: TCNode<K>>(m: Map<K, V>, v: V) -> bool {
    forall|b: K, c: K| #![trigger v.edges().contains(b), m[b].edges().contains(c)] v.edges().contains(b) && m.contains_key(b) && m[b].edges().contains(c) ==> v.edges().contains(c)
}
/// a non-empty walk along edges
pub open spec fn walk<K, V: TCNode<K>>(m: Map<K, V>, s: Seq<K>) -> bool {
    s.len() >= 2 && forall|i: int| 0 <= i < s.len() - 1 ==> edge(m, #[trigger] s[i], s[i + 1])
}
/// in a closed store the stored ancestor sets are exactly reachability (every walk is an edge) ...
pub proof fn lemma_closed_walk<K, V: TCNode<K>>(m: Map<K, V>, s: Seq<K>)
    requires closed(m), walk(m, s)
    ensures edge(m, s[0], s[s.len() - 1])
    decreases s.len()
{
    if s.len() > 2 {
        let t = s.drop_last();
        assert forall|i: int| 0 <= i < t.len() - 1 implies edge(m, #[trigger] t[i], t[i + 1]) by { assert(t[i] == s[i] && t[i + 1] == s[i + 1]); }
        lemma_closed_walk(m, t);
        assert(t[0] == s[0] && t[t.len() - 1] == s[s.len() - 2]);
        assert(edge(m, s[s.len() - 2], s[s.len() - 2 + 1]));
    }
}
/// ... and closed + irreflexive means acyclic: no walk returns to its start
pub proof fn lemma_acyclic<K, V: TCNode<K>>(m: Map<K, V>, s: Seq<K>)
    requires closed(m), irreflexive(m), walk(m, s)
    ensures s[0] != s[s.len() - 1]
{
    lemma_closed_walk(m, s);
}
pub proof fn lemma_closed_nodes<K, V: TCNode<K>>(m: Map<K, V>)
    ensures closed(m) <==> (forall|k: K| m.contains_key(k) ==> node_closed(m, #[trigger] m[k]))
{
    if closed(m) {
        assert forall|k: K| m.contains_key(k) implies node_closed(m, #[trigger] m[k]) by {
            assert forall|b: K, c: K| m[k].edges().contains(b) && m.contains_key(b) && m[b].edges().contains(c) implies m[k].edges().contains(c) by {
                assert(edge(m, k, b) && edge(m, b, c));
            }
        }
    }
    if forall|k: K| m.contains_key(k) ==> node_closed(m, #[trigger] m[k]) {
        assert forall|a: K, b: K, c: K| edge(m, a, b) && edge(m, b, c) implies edge(m, a, c) by {
            assert(node_closed(m, m[a]));
        }
    }
}
