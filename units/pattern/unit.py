"""Unit pattern: Pattern::wildcard_match against the recursive wildcard spec (C02 `like`, C20 indexing)."""
from vx.assemble import Fn, Type, Raw, Loop, ClosureRw

PROPERTIES = ['C02']
STDMODEL = []
PAT = 'cedar-policy-core/src/ast/pattern.rs'
ASSUMPTIONS = [
    '`text.chars().collect()` yields the Unicode scalar values of the string in order and `str::is_empty` is length 0 (std, trusted; both are substituted by prelude functions, rule listed under rewrites).',
]
DERIVE = ['derive(Clone, Copy, PartialEq, Eq)']

ITEMS = [
    Raw(file='prelude.rs', tag='prelude'),
    Type(PAT, 'enum PatternElem', attrs=DERIVE),
    Type(PAT, 'struct Pattern'),
    Raw(file='spec.rs', tag='spec'),
    Fn(PAT, 'impl PatternElem > fn match_char', wrap='impl PatternElem',
       ensures=[('spec', 'r == (self is Wildcard || self == PatternElem::Char(text_char))')]),
    Fn(PAT, 'impl PatternElem > fn is_wildcard', wrap='impl PatternElem',
       ensures=[('spec', 'r == (self is Wildcard)')]),
    Fn(PAT, 'impl Pattern > fn get_elems', wrap='impl Pattern',
       ensures=[('elems', 'r@ == self.elems@')]),
    Fn(PAT, 'impl Pattern > fn wildcard_match', wrap='impl Pattern',
       attrs=['verifier::loop_isolation(false)'],
       rewrites=[(r'text\.is_empty\(\)', 'str_is_empty(text)', 1),
                 (r'text\.chars\(\)\.collect\(\)', 'chars_collect(text)', 1)],
       ensures=[('wc_match', 'r == wc_match(self.elems@, text@)')],
       proof_start='let ghost t0 = text@;',
       loops={
           1: Loop(invariant=[
               ('frame', 'text_len == text@.len(), pattern_len == pattern@.len(), pattern_len > 0, text@ == t0, pattern@ == self.elems@'),
               ('bounds', '0 <= i <= text_len, 0 <= j <= pattern_len, tmp_idx <= i'),
               ('no_star', '!contains_star ==> (i == j && tmp_idx == 0 && lit_seg(pattern@, text@, 0, j as int, 0) && forall|d: int| 0 <= d < j ==> pattern@[d] is Char)'),
               ('star', '''contains_star ==> (star_idx < j && pattern@[star_idx as int] == PatternElem::Wildcard
                    && i - tmp_idx == j - (star_idx + 1)
                    && lit_seg(pattern@, text@, star_idx + 1, j as int, tmp_idx as int)
                    && (forall|d: int| star_idx + 1 <= d < j ==> pattern@[d] is Char)
                    && m(pattern@, text@, 0, 0) == m(pattern@, text@, tmp_idx as int, star_idx as int))'''),
           ], decreases='text_len - tmp_idx, (text_len - i) + (pattern_len - j)',
               proof_start='''proof {
                let p = pattern@; let t = text@;
                if j < pattern_len && p[j as int] is Wildcard {
                    if !contains_star {
                        if m(p, t, 0, 0) { lemma_seg_fwd(p, t, 0, j as int, 0); }
                        if m(p, t, i as int, j as int) { lemma_seg_bwd(p, t, 0, j as int, 0); }
                    } else {
                        let s = star_idx as int; let tm = tmp_idx as int;
                        if m(p, t, tm, s) {
                            let k = lemma_star_unroll(p, t, tm, s);
                            lemma_seg_fwd(p, t, s + 1, j as int, k);
                            lemma_star_mono(p, t, i as int, k + (j - s - 1), j as int);
                        }
                        if m(p, t, i as int, j as int) { lemma_seg_bwd(p, t, s + 1, j as int, tm); }
                    }
                } else if j < pattern_len && (p[j as int] == PatternElem::Char(t[i as int])) {
                } else if contains_star {
                    let s = star_idx as int; let tm = tmp_idx as int;
                    if m(p, t, tm, s + 1) { lemma_seg_fwd(p, t, s + 1, j as int, tm); }
                } else {
                    if m(p, t, 0, 0) { lemma_seg_fwd(p, t, 0, j as int, 0); }
                    assert(!m(p, t, i as int, j as int));
                    assert(!m(p, t, 0, 0));
                }
            }'''),
           2: Loop(invariant=[('tail', 'j0 <= j <= pattern_len, pattern_len == pattern@.len(), forall|d: int| j0 <= d < j ==> pattern@[d] == PatternElem::Wildcard')],
                   decreases='pattern_len - j',
                   proof_before='''let ghost j0 = j;
        proof { post_first_loop(pattern@, text@, i as int, j as int, star_idx as int, tmp_idx as int, contains_star); }'''),
       },
       proof_tail='proof { lemma_tail(pattern@, text@, j0 as int); assert(all_wild(pattern@, j0 as int) == (j == pattern_len)) by { if j < pattern_len { assert(pattern@[j as int] != PatternElem::Wildcard); } else { } } }'),
]
CANARIES = ['wildcard_match']
