// ---- wildcard matching spec (C02 `like`): `*` matches any, possibly empty, run of Unicode scalar values ----
// ---------- spec ----------
pub open spec fn m(p: Seq<PatternElem>, t: Seq<char>, i: int, j: int) -> bool
    recommends 0 <= i <= t.len(), 0 <= j <= p.len()
    decreases p.len() - j, t.len() - i
{
    if !(0 <= i <= t.len() && 0 <= j <= p.len()) { false }
    else if j == p.len() { i == t.len() }
    else { match p[j] {
        PatternElem::Wildcard => m(p, t, i, j + 1) || (i < t.len() && m(p, t, i + 1, j)),
        PatternElem::Char(c) => i < t.len() && t[i] == c && m(p, t, i + 1, j + 1),
    } }
}
pub open spec fn wc_match(p: Seq<PatternElem>, t: Seq<char>) -> bool { m(p, t, 0, 0) }

// segment p[a..b) is all literal chars and equals t[k..k+(b-a))
pub open spec fn lit_seg(p: Seq<PatternElem>, t: Seq<char>, a: int, b: int, k: int) -> bool {
    0 <= a <= b <= p.len() && 0 <= k && k + (b - a) <= t.len()
    && forall|d: int| 0 <= d < b - a ==> p[a + d] == PatternElem::Char(#[trigger] t[k + d])
}

// star absorbs: p[j] is * and i <= i2 and m(i2, j) ==> m(i, j)
pub proof fn lemma_star_mono(p: Seq<PatternElem>, t: Seq<char>, i: int, i2: int, j: int)
    requires 0 <= i <= i2 <= t.len(), 0 <= j < p.len(), p[j] == PatternElem::Wildcard, m(p, t, i2, j)
    ensures m(p, t, i, j)
    decreases i2 - i
{
    if i < i2 { lemma_star_mono(p, t, i + 1, i2, j); }
}
// star unrolling: m(a, s) with p[s] = * implies exists k in [a, len] with m(k, s+1)
pub proof fn lemma_star_unroll(p: Seq<PatternElem>, t: Seq<char>, a: int, s: int) -> (k: int)
    requires 0 <= a <= t.len(), 0 <= s < p.len(), p[s] == PatternElem::Wildcard, m(p, t, a, s)
    ensures a <= k <= t.len(), m(p, t, k, s + 1)
    decreases t.len() - a
{
    if m(p, t, a, s + 1) { a } else { lemma_star_unroll(p, t, a + 1, s) }
}
// literal segment: m(k, a) with p[a..b) literal  <==> lit_seg && m(k+(b-a), b)
pub proof fn lemma_seg_fwd(p: Seq<PatternElem>, t: Seq<char>, a: int, b: int, k: int)
    requires 0 <= a <= b <= p.len(), 0 <= k <= t.len(), m(p, t, k, a),
        forall|d: int| a <= d < b ==> p[d] is Char,
    ensures lit_seg(p, t, a, b, k), m(p, t, k + (b - a), b)
    decreases b - a
{
    if a < b {
        lemma_seg_fwd(p, t, a + 1, b, k + 1);
        assert forall|d: int| 0 <= d < b - a implies p[a + d] == PatternElem::Char(#[trigger] t[k + d]) by {
            if d > 0 { assert(p[(a + 1) + (d - 1)] == PatternElem::Char(t[(k + 1) + (d - 1)])); }
        }
    }
}
pub proof fn lemma_seg_bwd(p: Seq<PatternElem>, t: Seq<char>, a: int, b: int, k: int)
    requires lit_seg(p, t, a, b, k), m(p, t, k + (b - a), b)
    ensures m(p, t, k, a)
    decreases b - a
{
    if a < b {
        assert(p[a + 0] == PatternElem::Char(t[k + 0]));
        assert forall|d: int| 0 <= d < b - (a + 1) implies p[(a + 1) + d] == PatternElem::Char(#[trigger] t[(k + 1) + d]) by {
            assert(p[a + (d + 1)] == PatternElem::Char(t[k + (d + 1)]));
        }
        lemma_seg_bwd(p, t, a + 1, b, k + 1);
    }
}
// all-wildcard tail
pub open spec fn all_wild(p: Seq<PatternElem>, a: int) -> bool { forall|d: int| a <= d < p.len() ==> p[d] == PatternElem::Wildcard }
pub proof fn lemma_tail(p: Seq<PatternElem>, t: Seq<char>, j: int)
    requires 0 <= j <= p.len()
    ensures m(p, t, t.len() as int, j) == all_wild(p, j)
    decreases p.len() - j
{
    if j < p.len() { lemma_tail(p, t, j + 1); 
        if p[j] == PatternElem::Wildcard { assert(all_wild(p, j) == all_wild(p, j + 1)) by { if all_wild(p, j+1) { assert forall|d: int| j <= d < p.len() implies p[d] == PatternElem::Wildcard by { if d > j { } } } } }
        else { assert(!all_wild(p, j)); }
    }
}

pub proof fn post_first_loop(p: Seq<PatternElem>, t: Seq<char>, i: int, j: int, s: int, tm: int, cs: bool)
    requires
        p.len() > 0, 0 <= i <= t.len(), 0 <= j <= p.len(), tm <= i, 0 <= tm,
        !cs ==> (i == j && tm == 0 && lit_seg(p, t, 0, j, 0) && forall|d: int| 0 <= d < j ==> p[d] is Char),
        cs ==> (0 <= s < j && p[s] == PatternElem::Wildcard && i - tm == j - (s + 1) && lit_seg(p, t, s + 1, j, tm)
            && (forall|d: int| s + 1 <= d < j ==> p[d] is Char) && m(p, t, 0, 0) == m(p, t, tm, s)),
        i == t.len() || (cs && s == p.len() - 1),
    ensures m(p, t, 0, 0) == all_wild(p, j),
{
    lemma_tail(p, t, j);
    if !cs {
        if m(p, t, 0, 0) { lemma_seg_fwd(p, t, 0, j, 0); }
        if m(p, t, i, j) { lemma_seg_bwd(p, t, 0, j, 0); }
    } else if i == t.len() {
        if m(p, t, tm, s) {
            let k = lemma_star_unroll(p, t, tm, s);
            lemma_seg_fwd(p, t, s + 1, j, k);
        }
        if m(p, t, i, j) { lemma_seg_bwd(p, t, s + 1, j, tm); }
    } else {
        // trailing star
        assert(j == p.len());
        lemma_tail(p, t, s);
        lemma_tail(p, t, s + 1);
        assert(m(p, t, t.len() as int, s));
        lemma_star_mono(p, t, tm, t.len() as int, s);
    }
}

