// ---- pattern unit prelude (trusted) ----
/// `text.chars().collect::<Vec<char>>()`: the Unicode scalar values of the string, in order (std, trusted)
#[verifier::external_body]
pub fn chars_collect(text: &str) -> (r: Vec<char>) ensures r@ == text@ { unimplemented!() }
/// `str::is_empty` (std, trusted)
#[verifier::external_body]
pub fn str_is_empty(text: &str) -> (r: bool) ensures r == (text@.len() == 0) { unimplemented!() }
