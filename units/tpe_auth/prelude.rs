// ---- tpe_auth prelude (trusted declarations) ----
#[verifier::external_body] pub struct PolicyID { _p: u8 }
#[verifier::external_body] pub struct Policy { _p: u8 }
#[verifier::external_body] pub struct Template { _p: u8 }
#[verifier::external_body] pub struct PolicySet { _p: u8 }
#[verifier::external_body] pub struct ValidatorSchema { _p: u8 }
#[verifier::external_body] pub struct TpeError { _p: u8 }
#[verifier::external_body] pub struct ValidationError { _p: u8 }
#[verifier::external_body] pub struct RequestEnv { _p: u8 }
#[verifier::external_body] pub struct SlotEnv { _p: u8 }
#[verifier::external_body] pub struct TypedExpr { _p: u8 }
#[verifier::external_body] pub struct ReqEnvErr { _p: u8 }
#[verifier::external_body] pub struct ConvErr { _p: u8 }
#[verifier::external_body] pub struct PolicyValidationError { _p: u8 }
impl Clone for Policy { #[verifier::external_body] fn clone(&self) -> (r: Self) ensures r == *self { unimplemented!() } }
impl Clone for RequestEnv { #[verifier::external_body] fn clone(&self) -> (r: Self) ensures r == *self { unimplemented!() } }
#[derive(Clone, Copy, PartialEq, Eq)] pub enum ValidationMode { Strict, Permissive, Partial }
pub mod vmode { pub use super::ValidationMode; }
pub enum PolicyCheck { Success(TypedExpr), Irrelevant(Vec<ValidationError>, TypedExpr), Fail(Vec<ValidationError>) }
impl Policy {
    pub uninterp spec fn spec_id(&self) -> PolicyID;
    pub uninterp spec fn spec_template(&self) -> Template;
    pub uninterp spec fn spec_env(&self) -> SlotEnv;
    #[verifier::external_body] pub fn id(&self) -> (r: &PolicyID) ensures *r == self.spec_id() { unimplemented!() }
    #[verifier::external_body] pub fn template(&self) -> (r: &Template) ensures *r == self.spec_template() { unimplemented!() }
    #[verifier::external_body] pub fn env(&self) -> (r: &SlotEnv) ensures *r == self.spec_env() { unimplemented!() }
}
impl PolicySet {
    /// the policies (links) of the set, by id (PolicySet::{policies, get}: proved in unit policyset, ids pairwise distinct)
    pub uninterp spec fn links(&self) -> Map<PolicyID, Policy>;
    pub uninterp spec fn order(&self) -> Seq<PolicyID>;
    #[verifier::external_body] pub fn policies(&self) -> (r: VxIter<&Policy>)
        ensures r.items().len() == self.order().len(), self.order().no_duplicates(),
            forall|i: int| 0 <= i < r.items().len() ==> self.links().contains_key(#[trigger] self.order()[i]) && *r.items()[i] == self.links()[self.order()[i]] && r.items()[i].spec_id() == self.order()[i],
            forall|k: PolicyID| self.links().contains_key(k) ==> self.order().contains(k),
    { unimplemented!() }
    #[verifier::external_body] pub fn get(&self, id: &PolicyID) -> (r: Option<&Policy>) ensures r == (if self.links().contains_key(*id) { Some(&self.links()[*id]) } else { None }) { unimplemented!() }
}
/// validation / typechecking / conversion of one policy for a request environment (C03 and the residual conversion: not covered here)
pub uninterp spec fn sp_env(req: &PartialRequest, schema: &ValidatorSchema) -> Option<RequestEnv>;
pub uninterp spec fn sp_lit_errs(schema: &ValidatorSchema, t: Template) -> Seq<ValidationError>;
pub uninterp spec fn sp_link(env: RequestEnv, s: SlotEnv) -> RequestEnv;
pub uninterp spec fn sp_check(schema: &ValidatorSchema, t: Template, env: RequestEnv) -> PolicyCheck;
pub uninterp spec fn sp_conv(e: TypedExpr, s: SlotEnv) -> Option<Residual>;
impl PartialRequest {
    #[verifier::external_body] pub fn find_request_env(&self, schema: &ValidatorSchema) -> (r: std::result::Result<RequestEnv, ReqEnvErr>)
        ensures r is Ok <==> sp_env(self, schema) is Some, r is Ok ==> r->Ok_0 == sp_env(self, schema)->Some_0 { unimplemented!() }
}
impl RequestEnv { #[verifier::external_body] pub fn link_slot_env(self, s: &SlotEnv) -> (r: RequestEnv) ensures r == sp_link(self, *s) { unimplemented!() } }
#[verifier::external_body] pub struct Typechecker<'a> { _p: &'a u8 }
impl<'a> Typechecker<'a> {
    pub uninterp spec fn spec_schema(&self) -> &'a ValidatorSchema;
    #[verifier::external_body] pub fn new(schema: &'a ValidatorSchema, mode: ValidationMode) -> (r: Self) ensures r.spec_schema() == schema { unimplemented!() }
    #[verifier::external_body] pub fn typecheck_by_single_request_env(&self, t: &Template, env: &RequestEnv) -> (r: PolicyCheck) ensures r == sp_check(self.spec_schema(), *t, *env) { unimplemented!() }
}
pub struct Validator;
impl Validator {
    #[verifier::external_body] pub fn validate_entity_types_and_literals(schema: &ValidatorSchema, t: &Template) -> (r: VxIter<ValidationError>) ensures r.items() == sp_lit_errs(schema, *t) { unimplemented!() }
}
impl Residual {
    #[verifier::external_body] pub fn try_from_typed_expr(e: &TypedExpr, s: &SlotEnv) -> (r: std::result::Result<Residual, ConvErr>)
        ensures r is Ok <==> sp_conv(*e, *s) is Some, r is Ok ==> r->Ok_0 == sp_conv(*e, *s)->Some_0 { unimplemented!() }
}
impl PolicyValidationError { #[verifier::external_body] pub fn new(errs: Vec<ValidationError>) -> (r: Self) { unimplemented!() } }
impl vstd::std_specs::convert::FromSpecImpl<PolicyValidationError> for TpeError { open spec fn obeys_from_spec() -> bool { false } uninterp spec fn from_spec(v: PolicyValidationError) -> TpeError; }
impl From<PolicyValidationError> for TpeError { #[verifier::external_body] fn from(v: PolicyValidationError) -> (r: TpeError) { unimplemented!() } }
impl vstd::std_specs::convert::FromSpecImpl<ReqEnvErr> for TpeError { open spec fn obeys_from_spec() -> bool { false } uninterp spec fn from_spec(v: ReqEnvErr) -> TpeError; }
impl From<ReqEnvErr> for TpeError { #[verifier::external_body] fn from(v: ReqEnvErr) -> (r: TpeError) { unimplemented!() } }
impl vstd::std_specs::convert::FromSpecImpl<ConvErr> for TpeError { open spec fn obeys_from_spec() -> bool { false } uninterp spec fn from_spec(v: ConvErr) -> TpeError; }
impl From<ConvErr> for TpeError { #[verifier::external_body] fn from(v: ConvErr) -> (r: TpeError) { unimplemented!() } }
/// the residual TPE starts from for one policy: it validates, typechecks without errors, and converts
pub open spec fn start_residual(req: &PartialRequest, schema: &ValidatorSchema, p: Policy) -> Option<Residual> {
    if sp_env(req, schema) is None || sp_lit_errs(schema, p.spec_template()).len() > 0 { None } else {
        match sp_check(schema, p.spec_template(), sp_link(sp_env(req, schema)->Some_0, p.spec_env())) {
            PolicyCheck::Success(e) => sp_conv(e, p.spec_env()),
            PolicyCheck::Irrelevant(errs, e) => if errs@.len() == 0 { sp_conv(e, p.spec_env()) } else { None },
            PolicyCheck::Fail(_) => None,
        }
    }
}
pub struct ResidualPolicy { pub residual: Arc<Residual>, pub policy: Arc<Policy> }
#[verifier::external_body] pub struct Response<'a> { _p: &'a u8 }
impl<'a> Response<'a> {
    /// the residual policies the response was built from (Response::new: proved in unit tpe_response)
    pub uninterp spec fn spec_items(&self) -> Seq<ResidualPolicy>;
    #[verifier::external_body] pub fn new(residuals: VxIter<ResidualPolicy>, request: &'a PartialRequest, entities: &'a PartialEntities, schema: &'a ValidatorSchema) -> (r: Self)
        ensures r.spec_items() == residuals.items() { unimplemented!() }
}
impl<'a> Extensions<'a> { #[verifier::external_body] pub fn all_available() -> (r: &'static Extensions<'static>) { unimplemented!() } }
/// every policy is stored under its own id (invariant of PolicySet, clause 3 of `inv` in unit policyset)
pub axiom fn axiom_links_ids(ps: &PolicySet) ensures forall|k: PolicyID| #[trigger] ps.links().contains_key(k) ==> ps.links()[k].spec_id() == k;
