"""Unit tpe_auth: tpe::is_authorized and policy_residual_map - every policy of the set gets exactly one residual policy whose residual is a sound
simplification of the residual it starts from (C14)."""
import os, copy, importlib.util
from vx.assemble import Fn, Type, Raw, Loop, ClosureRw, FnRw, cmp_rw

PROPERTIES = ['C14']
HEADER = '#![feature(allocator_api)]'
STDMODEL = ['iter.rs', 'hash.rs', 'btree.rs', 'std.rs']
TPE = 'cedar-policy-core/src/tpe.rs'
RESP = 'cedar-policy-core/src/tpe/response.rs'
ASSUMPTIONS = [
    'Validation, typechecking (C03) and the conversion of a typed expression to a residual are opaque: carried as uninterpreted functions; start_residual says when a policy has a residual to start from.',
    'tpe::Evaluator::interpret: contract proved in unit tpe_eval (same extracted text and contract; assumed here, not re-checked). Response::new: proved in unit tpe_response; PolicySet::{policies, get}: unit policyset.',
]
_s = importlib.util.spec_from_file_location('vx_tpe_eval_for_auth', os.path.join(os.path.dirname(os.path.abspath(__file__)), '..', 'tpe_eval', 'unit.py'))
_m = importlib.util.module_from_spec(_s); _s.loader.exec_module(_m)
def _rebased(items):
    out = []
    for it in items:
        it = copy.copy(it)
        if isinstance(it, Raw) and getattr(it, 'file', None):
            if it.file.startswith('../'):
                pass
            else:
                it.file = '../tpe_eval/' + it.file
        if getattr(it, 'kind', None) == 'fn' and it.name == 'Evaluator::interpret':
            # proved in unit tpe_eval (same extracted text, same contract); here only its contract is used
            it.attrs = list(it.attrs) + ['verifier::external_body']
            it.hints = []; it.proof_start = None; it.assumed_here = True
        out.append(it)
    return out
ITEMS = _rebased(_m.ITEMS) + [
    Raw(file='prelude.rs', tag='prelude'),
    Fn(RESP, 'impl ResidualPolicy > fn new', name='ResidualPolicy::new', wrap='impl ResidualPolicy', ensures=[('fields', 'r.residual == residual && r.policy == policy')]),
    Fn(TPE, 'fn policy_residual_map',
       rewrites=[(r'crate::validator::ValidationMode::Strict', 'ValidationMode::Strict', 1),
                 (r'let errs: Vec<_> = Validator::validate_entity_types_and_literals\(schema, t\)\.collect\(\);', 'let errs: Vec<ValidationError> = Validator::validate_entity_types_and_literals(schema, t).collect();', 1)],
       ensures=[('ok_iff', 'r is Ok <==> sp_env(request, schema) is Some && forall|k: PolicyID| ps.links().contains_key(k) ==> start_residual(request, schema, #[trigger] ps.links()[k]) is Some'),
                ('map', 'r is Ok ==> (forall|k: &PolicyID| #[trigger] r->Ok_0@.contains_key(k) <==> ps.links().contains_key(*k)) && (forall|k: &PolicyID| r->Ok_0@.contains_key(k) ==> Some(#[trigger] r->Ok_0@[k]) == start_residual(request, schema, ps.links()[*k]))')],
       loops={1: Loop(iter_suffix='.vx_for()', invariant=[
           ('snapshot', 'tc.spec_schema() == schema && sp_env(request, schema) == Some(env) && it_1.snapshot@.remaining().len() == ps.order().len() && ps.order().no_duplicates() && (forall|i: int| 0 <= i < ps.order().len() ==> ps.links().contains_key(#[trigger] ps.order()[i]) && *it_1.snapshot@.remaining()[i] == ps.links()[ps.order()[i]] && it_1.snapshot@.remaining()[i].spec_id() == ps.order()[i])'),
           ('all', 'forall|k: PolicyID| ps.links().contains_key(k) ==> ps.order().contains(k)'),
           ('done', 'forall|i: int| 0 <= i < it_1.index@ ==> start_residual(request, schema, ps.links()[#[trigger] ps.order()[i]]) is Some'),
           ('keys', 'forall|k: &PolicyID| #[trigger] residuals@.contains_key(k) <==> exists|i: int| 0 <= i < it_1.index@ && #[trigger] ps.order()[i] == *k'),
           ('vals', 'forall|k: &PolicyID| residuals@.contains_key(k) ==> ps.links().contains_key(*k) && Some(#[trigger] residuals@[k]) == start_residual(request, schema, ps.links()[*k])'),
       ], proof_start='proof { let k = ps.order()[it_1.index@]; assert(ps.links().contains_key(k)); assert(*p == ps.links()[k]); assert(p.spec_id() == k); }')},
       proof_tail='''proof {
            assert forall|k: PolicyID| ps.links().contains_key(k) implies start_residual(request, schema, #[trigger] ps.links()[k]) is Some by {
                assert(ps.order().contains(k)); let i = choose|i: int| 0 <= i < ps.order().len() && ps.order()[i] == k;
            }
            assert forall|k: &PolicyID| #[trigger] residuals@.contains_key(k) <==> ps.links().contains_key(*k) by {
                if ps.links().contains_key(*k) { assert(ps.order().contains(*k)); let i = choose|i: int| 0 <= i < ps.order().len() && ps.order()[i] == *k; }
                if residuals@.contains_key(k) { let i = choose|i: int| 0 <= i < ps.order().len() && #[trigger] ps.order()[i] == *k; }
            }
        }'''),
    Fn(TPE, 'fn is_authorized',
       rewrites=[(r'let residuals = policy_residual_map\(request, ps, schema\)\?\s*\.into_iter\(\)', 'let __vx_m = policy_residual_map(request, ps, schema)?; let ghost __vx_pairs = __vx_m.pairs(); let ghost __vx_ko = __vx_m.key_order(); let ghost __vx_mv = __vx_m@;\n    let residuals = __vx_m.into_iter()', 1),
                 ClosureRw(r'\(id, residual\)', '_vxp: (&PolicyID, Residual)', 'ResidualPolicy', requires='ps.links().contains_key(*_vxp.0)',
                           ensures='*x.policy == ps.links()[*_vxp.0] && sound(&evaluator, _vxp.1, *x.residual)', rname='x', destructure='(id, residual)', count=1)],
       ensures=[('ok_iff', 'r is Ok <==> sp_env(request, schema) is Some && forall|k: PolicyID| ps.links().contains_key(k) ==> start_residual(request, schema, #[trigger] ps.links()[k]) is Some'),
                ('each', '''r is Ok ==> forall|i: int| 0 <= i < r->Ok_0.spec_items().len() ==> {
                    let rp = #[trigger] r->Ok_0.spec_items()[i]; let k = rp.policy.spec_id();
                    ps.links().contains_key(k) && *rp.policy == ps.links()[k] && start_residual(request, schema, ps.links()[k]) is Some
                    && forall|ev: &Evaluator<'_>| ev.request == request && ev.entities == entities ==> #[trigger] sound(ev, start_residual(request, schema, ps.links()[k])->Some_0, *rp.residual) }'''),
                ('all', 'r is Ok ==> forall|k: PolicyID| ps.links().contains_key(k) ==> exists|i: int| 0 <= i < r->Ok_0.spec_items().len() && (#[trigger] r->Ok_0.spec_items()[i]).policy.spec_id() == k')],
       proof_start='broadcast use axiom_hashmap_order_ok;',
       proof_tail='''proof {
            axiom_links_ids(ps);
            let items = __vx_r->Ok_0.spec_items();
            assert(items.len() == __vx_pairs.len());
            assert forall|i: int| 0 <= i < items.len() implies ({
                let rp = #[trigger] items[i]; let k = rp.policy.spec_id();
                ps.links().contains_key(k) && *rp.policy == ps.links()[k] && start_residual(request, schema, ps.links()[k]) is Some
                && forall|ev: &Evaluator<'_>| ev.request == request && ev.entities == entities ==> #[trigger] sound(ev, start_residual(request, schema, ps.links()[k])->Some_0, *rp.residual) }) by {
                let kk = __vx_ko[i];
                assert(__vx_mv.dom().contains(kk));
                assert(__vx_pairs[i] == (kk, __vx_mv[kk]));
                assert(ps.links().contains_key(*kk));
                let rp = items[i];
                assert(rp.policy.spec_id() == *kk);
                assert(Some(__vx_mv[kk]) == start_residual(request, schema, ps.links()[*kk]));
                assert forall|ev: &Evaluator<'_>| ev.request == request && ev.entities == entities implies #[trigger] sound(ev, __vx_mv[kk], *rp.residual) by {
                    assert(sound(&evaluator, __vx_mv[kk], *rp.residual));
                    assert forall|c: Cx| cons(ev, c) == cons(&evaluator, c) by {}
                }
            }
            assert forall|k: PolicyID| ps.links().contains_key(k) implies exists|i: int| 0 <= i < items.len() && (#[trigger] items[i]).policy.spec_id() == k by {
                assert(__vx_mv.contains_key(&k));
                assert(__vx_ko.contains(&k));
                let i = choose|i: int| 0 <= i < __vx_ko.len() && __vx_ko[i] == &k;
                assert(__vx_pairs[i] == (__vx_ko[i], __vx_mv[__vx_ko[i]]));
                assert(items[i].policy.spec_id() == k);
            }
        }''',
       ),
]
CANARIES = ['policy_residual_map', 'is_authorized']
