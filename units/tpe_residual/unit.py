"""Unit tpe_residual: structural functions over TPE residuals (C15 kernel: all_literal_uids; C14: can_error_assuming_well_formed)."""
from vx.assemble import Fn, Type, Raw, Loop, ClosureRw, FnRw

PROPERTIES = ['C15', 'C14']
HEADER = '#![feature(allocator_api)]'
STDMODEL = ['iter.rs', 'hash.rs', 'btree.rs', 'std.rs']
RES = 'cedar-policy-core/src/tpe/residual.rs'
VALUE = 'cedar-policy-core/src/ast/value.rs'
LIT = 'cedar-policy-core/src/ast/literal.rs'
OPS = 'cedar-policy-core/src/ast/ops.rs'
EXPR = 'cedar-policy-core/src/ast/expr.rs'
ASSUMPTIONS = [
    'Value::all_literal_uids yields the entity literals of a concrete value (uninterpreted value_lit; not verified here).',
    'C15: only the literal-uid traversal is covered; the batched loop (loader interaction, iteration budget, termination) is not.',
]
DERIVE = ['derive(Clone, Copy, PartialEq, Eq)']
NODEC = ['verifier::exec_allows_no_decreases_clause']
ITEMS = [
    Raw(file='prelude.rs', tag='prelude'),
    Type(LIT, 'enum Literal'),
    Type(VALUE, 'enum ValueKind'),
    Type(VALUE, 'struct Value'),
    Type(OPS, 'enum UnaryOp', attrs=DERIVE),
    Type(OPS, 'enum BinaryOp', attrs=DERIVE),
    Type(EXPR, 'enum Var', attrs=DERIVE),
    Type(RES, 'enum Residual'),
    Type(RES, 'enum ResidualKind'),
    Raw(file='spec.rs', tag='spec'),
    Fn(RES, 'impl Residual > fn all_literal_uids', name='Residual::all_literal_uids', wrap='impl Residual', attrs=NODEC,
       ensures=[('exact', 'forall|u: EntityUID| #![trigger r@.contains(u)] #![trigger in_lits(*self, u)] r@.contains(u) <==> in_lits(*self, u)')],
       props=['C15']),
    Fn(RES, 'impl ResidualKind > fn all_literal_uids', props=['C15'], name='ResidualKind::all_literal_uids', wrap='impl ResidualKind', attrs=NODEC,
       ensures=[('exact', 'forall|u: EntityUID| #![trigger r@.contains(u)] #![trigger in_lits_kind(*self, u)] r@.contains(u) <==> in_lits_kind(*self, u)')],
       loops={
           1: Loop(invariant=[('acc', 'forall|u: EntityUID| uids@.contains(u) <==> exists|i: int| 0 <= i < it_1.index@ && in_lits(#[trigger] args@[i], u)')]),
           2: Loop(invariant=[('acc', 'forall|u: EntityUID| uids@.contains(u) <==> exists|i: int| 0 <= i < it_2.index@ && in_lits(#[trigger] elements@[i], u)')], name='it_2'),
           3: Loop(iter_suffix='.vx_for()', name='it_3', invariant=[
               ('snapshot', 'map.order_ok(), it_3.snapshot@.remaining().len() == map.key_order().len(), forall|i: int| 0 <= i < map.key_order().len() ==> *(#[trigger] it_3.snapshot@.remaining()[i]) == map@[map.key_order()[i]]'),
               ('acc', 'forall|u: EntityUID| uids@.contains(u) <==> exists|i: int| 0 <= i < it_3.index@ && in_lits(map@[#[trigger] map.key_order()[i]], u)')]),
       }),
    Fn(RES, 'impl Residual > fn can_error_assuming_well_formed', wrap='impl Residual', attrs=NODEC, props=['C14', 'C15'],
       ensures=[('spec', 'r == can_err(*self)')],
       proof_start='broadcast use axiom_btreemap_order_ok;',
       rewrites=[
           (r'items\.iter\(\)', 'vx_arc_vec_iter(items)', 1),
           (r'\.any\(Self::can_error_assuming_well_formed\)', '.any(|x: &Residual| -> (b: bool) ensures b == can_err(*x) { x.can_error_assuming_well_formed() })', None),
           (r'\.all\(Self::can_error_assuming_well_formed\)', '.all(|x: &Residual| -> (b: bool) ensures b == can_err(*x) { x.can_error_assuming_well_formed() })', None),
           ClosureRw(r'\(_, e\)', '_vxp: (&SmolStr, &Residual)', ret='bool', ensures='r == can_err(*_vxp.1)', destructure='(_, e)'),
       ]),
]
CANARIES = ['Residual::all_literal_uids']
