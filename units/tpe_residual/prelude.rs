// ---- tpe_residual prelude (trusted declarations) ----
#[verifier::external_body] pub struct Loc { _p: u8 }
#[verifier::external_body] pub struct SmolStr { _p: u8 }
#[verifier::external_body] pub struct EntityUID { _p: u8 }
#[verifier::external_body] pub struct EntityType { _p: u8 }
#[verifier::external_body] pub struct Name { _p: u8 }
#[verifier::external_body] pub struct Pattern { _p: u8 }
#[verifier::external_body] pub struct Set { _p: u8 }
#[verifier::external_body] pub struct RepresentableExtensionValue { _p: u8 }
#[verifier::external_body] pub struct Type { _p: u8 }
pub type Integer = i64;
pub mod ast { pub use super::{BinaryOp, UnaryOp}; }
/// the entity uids occurring as literals in a (concrete) value (Value::all_literal_uids; not verified here)
pub uninterp spec fn value_lit(v: Value, u: EntityUID) -> bool;
impl Value {
    #[verifier::external_body] pub fn all_literal_uids(&self) -> (r: HashSet<EntityUID>) ensures forall|u: EntityUID| r@.contains(u) <==> value_lit(*self, u) { unimplemented!() }
}
