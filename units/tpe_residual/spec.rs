// ---- structural specs over residuals (C15 kernel: literal uids; C14: which residuals can error) ----
/// u occurs as an entity literal somewhere in the residual (every child of every node, values inside Concrete included)
pub open spec fn in_lits(r: Residual, u: EntityUID) -> bool
    decreases r
{
    match r {
        Residual::Partial { kind, .. } => in_lits_kind(kind, u),
        Residual::Concrete { value, .. } => value_lit(value, u),
        Residual::Error(_) => false,
    }
}
pub open spec fn in_lits_kind(k: ResidualKind, u: EntityUID) -> bool
    decreases k
{
    match k {
        ResidualKind::Var(_) => false,
        ResidualKind::If { test_expr, then_expr, else_expr } => in_lits(*test_expr, u) || in_lits(*then_expr, u) || in_lits(*else_expr, u),
        ResidualKind::And { left, right } => in_lits(*left, u) || in_lits(*right, u),
        ResidualKind::Or { left, right } => in_lits(*left, u) || in_lits(*right, u),
        ResidualKind::UnaryApp { arg, .. } => in_lits(*arg, u),
        ResidualKind::BinaryApp { arg1, arg2, .. } => in_lits(*arg1, u) || in_lits(*arg2, u),
        ResidualKind::ExtensionFunctionApp { args, .. } => exists|i: int| 0 <= i < args@.len() && in_lits(#[trigger] args@[i], u),
        ResidualKind::GetAttr { expr, .. } => in_lits(*expr, u),
        ResidualKind::HasAttr { expr, .. } => in_lits(*expr, u),
        ResidualKind::Like { expr, .. } => in_lits(*expr, u),
        ResidualKind::Is { expr, .. } => in_lits(*expr, u),
        ResidualKind::Set(items) => exists|i: int| 0 <= i < items@.len() && in_lits(#[trigger] items@[i], u),
        ResidualKind::Record(map) => exists|a: SmolStr| map@.contains_key(a) && in_lits(#[trigger] map@[a], u),
    }
}

/// C14: which residuals may raise a run-time error when re-evaluated (for well-formed, validated residuals).
/// General rule: a node can error only if some child can; exceptions: checked arithmetic (+, -, *, unary -), attribute and
/// tag access (the entity may be missing) and extension calls can always error; an Error residual always errors; a
/// concrete value never does.
pub open spec fn can_err(r: Residual) -> bool
    decreases r
{
    match r {
        Residual::Concrete { .. } => false,
        Residual::Error(_) => true,
        Residual::Partial { kind, .. } => can_err_kind(kind),
    }
}
pub open spec fn can_err_kind(k: ResidualKind) -> bool
    decreases k
{
    match k {
        ResidualKind::Var(_) => false,
        ResidualKind::And { left, right } => can_err(*left) || can_err(*right),
        ResidualKind::Or { left, right } => can_err(*left) || can_err(*right),
        ResidualKind::If { test_expr, then_expr, else_expr } => can_err(*test_expr) || can_err(*then_expr) || can_err(*else_expr),
        ResidualKind::Is { expr, .. } => can_err(*expr),
        ResidualKind::Like { expr, .. } => can_err(*expr),
        ResidualKind::HasAttr { expr, .. } => can_err(*expr),
        ResidualKind::BinaryApp { op, arg1, arg2 } =>
            if op == BinaryOp::Add || op == BinaryOp::Sub || op == BinaryOp::Mul || op == BinaryOp::GetTag { true } else { can_err(*arg1) || can_err(*arg2) },
        ResidualKind::ExtensionFunctionApp { .. } => true,
        ResidualKind::GetAttr { .. } => true,
        ResidualKind::UnaryApp { op, arg } => if op == UnaryOp::Neg { true } else { can_err(*arg) },
        ResidualKind::Set(items) => exists|i: int| 0 <= i < items@.len() && can_err(#[trigger] items@[i]),
        ResidualKind::Record(attrs) => exists|a: SmolStr| attrs@.contains_key(a) && can_err(#[trigger] attrs@[a]),
    }
}
