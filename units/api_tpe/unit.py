"""Unit api_tpe: the permission queries of the public API (cedar_policy::PolicySet::query_resource / query_principal) return exactly the
entities of the queried type whose concrete request the ORIGINAL policies allow (C14), given the soundness of core TPE as a contract."""
import re
from vx.assemble import Fn, Type, Raw, Loop, ClosureRw, FnRw, cmp_rw

PROPERTIES = ['C14']
HEADER = '#![feature(allocator_api)]'
STDMODEL = ['iter.rs', 'std.rs']
API = 'cedar-policy/src/api/tpe.rs'
ASSUMPTIONS = [
    'Core TPE soundness is a CONTRACT here (tpe_sound on PolicySet::tpe): on every completion of the partial request / partial entities the residual policy set decides like the original policies and a definite decision is that decision. Its ingredients are proved in units tpe_eval, tpe_auth, tpe_response, tpe_consist; the composition through the api newtypes is not machine-checked.',
    'PartialEntities::from_concrete makes the concrete store a completion of its result; the request built by to_request(id, None) for a candidate id is a completion of the query request and cannot fail without a schema (as the expect-comment at the call site states).',
    'Authorizer::is_authorized is represented by spec_authz (C01). The enumeration order of Entities::iter and of the answer is not part of the contract (membership only).',
    'Iterator plumbing: `.collect_vec().into_iter()` and `vec![].into_iter()` are rewritten to model functions with the same items; `.map(Entity::uid)` to a closure.',
]
W = 'impl PolicySet'
COMMON = [
    (r'impl Iterator<Item = EntityUid>', 'VxIter<EntityUid>', 1),
    (r'\.collect_vec\(\)\s*\.into_iter\(\)', '.collect_vec_into_iter()', 2),
    (r'vec!\[\]\.into_iter\(\)', 'VxIter::vx_empty()', 1),
    (r'\.map\(Entity::uid\)', '.map(|e: &Entity| -> (u: EntityUid) ensures u == e.spec_uid(), u.spec_core() == e.0.spec_uid() { e.uid() })', 2),
]

def query(fn, kind, ty):
    return Fn(API, f'impl PolicySet > fn {fn}', name=f'PolicySet::{fn}', wrap=W, sig_rewrites=COMMON[:1],
              ensures=[('exact', f'''match r {{
            Ok(it) => forall|u: EntityUid| #![trigger it.items().contains(u)] it.items().contains(u) <==>
                exists|i: int| 0 <= i < entities.spec_items().len() && (#[trigger] entities.spec_items()[i]).spec_uid() == u && {kind}_answer(*self, *request, *entities, entities.spec_items()[i]),
            Err(_) => true,
        }}''')],
              proof_start=f'broadcast use axiom_{kind}_request_consistent;',
              rewrites=COMMON[1:] + [
                  ClosureRw(r'entity', 'entity: &&Entity', ret='bool', ensures=f'b == (entity.0.spec_uid().spec_type() == request.0.0.spec_{ty}_type())', rname='b', count=2, follow=r'entity\.0\.uid\(\)'),
                  ClosureRw(r'entity', 'entity: &&Entity', ret='bool', ensures=f'b == (spec_authz(policies, request.spec_request(entity.spec_uid().spec_id()), *entities) == Decision::Allow)', rname='b', count=1, follow=r'\{'),
              ])

ITEMS = [
    Raw(file='prelude.rs', tag='prelude'),
    Raw(file='spec.rs', tag='spec'),
    query('query_resource', 'resource', 'resource'),
    query('query_principal', 'principal', 'principal'),
]
VERUS_ARGS = ['--multiple-errors', '5']
CANARIES = ['PolicySet::query_resource']
