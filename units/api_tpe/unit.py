"""Unit api_tpe: the permission queries of the public API (cedar_policy::PolicySet::query_resource / query_principal) return exactly the
entities of the queried type whose concrete request the ORIGINAL policies allow (C14), given the soundness of core TPE as a contract."""
import re
from vx.assemble import Fn, Type, Raw, Loop, ClosureRw, FnRw, cmp_rw

PROPERTIES = ['C14']
HEADER = '#![feature(allocator_api)]'
STDMODEL = ['iter.rs', 'std.rs']
API = 'cedar-policy/src/api/tpe.rs'
ASSUMPTIONS = [
    'Core TPE soundness is a CONTRACT here (tpe_sound on PolicySet::tpe): on every completion of the partial request / partial entities the residual policy set decides like the original policies and a definite decision is that decision. Its ingredients are proved in units tpe_eval, tpe_auth, tpe_response, tpe_consist; the composition through the api newtypes is not machine-checked.',
    'PartialEntities::from_concrete makes the concrete store a completion of its result; the request built by to_request(id, None) for a candidate id is a completion of the query request and cannot fail without a schema (as the expect-comment at the call site states).',
    'Authorizer::is_authorized is represented by spec_authz (C01). The enumeration order of Entities::iter and of the answer is not part of the contract (membership only).',
    'Iterator plumbing: `.collect_vec().into_iter()` and `vec![].into_iter()` are rewritten to model functions with the same items; `.map(Entity::uid)` to a closure.',
]
W = 'impl PolicySet'
COMMON = [
    (r'impl Iterator<Item = EntityUid>', 'VxIter<EntityUid>', 1),
    (r'\.collect_vec\(\)\s*\.into_iter\(\)', '.collect_vec_into_iter()', 2),
    (r'vec!\[\]\.into_iter\(\)', 'VxIter::vx_empty()', 1),
    (r'\.map\(Entity::uid\)', '.map(|e: &Entity| -> (u: EntityUid) ensures u == e.spec_uid(), u.spec_core() == e.0.spec_uid() { e.uid() })', 2),
]

def query(fn, kind, ty):
    return Fn(API, f'impl PolicySet > fn {fn}', name=f'PolicySet::{fn}', wrap=W, sig_rewrites=COMMON[:1],
              ensures=[('exact', f'''match r {{
            Ok(it) => forall|u: EntityUid| #![trigger it.items().contains(u)] it.items().contains(u) <==>
                exists|i: int| 0 <= i < entities.spec_items().len() && (#[trigger] entities.spec_items()[i]).spec_uid() == u && {kind}_answer(*self, *request, *entities, entities.spec_items()[i]),
            Err(_) => true,
        }}''')],
              proof_start=f'broadcast use axiom_{kind}_request_consistent;',
              rewrites=COMMON[1:] + [
                  ClosureRw(r'entity', 'entity: &&Entity', ret='bool', ensures=f'b == (entity.0.spec_uid().spec_type() == request.0.0.spec_{ty}_type())', rname='b', count=2, follow=r'entity\.0\.uid\(\)'),
                  ClosureRw(r'entity', 'entity: &&Entity', ret='bool', ensures=f'b == (spec_authz(policies, request.spec_request(entity.spec_uid().spec_id()), *entities) == Decision::Allow)', rname='b', count=1, follow=r'\{'),
              ])

ITEMS = [
    Raw(file='prelude.rs', tag='prelude'),
    Raw(file='spec.rs', tag='spec'),
    query('query_resource', 'resource', 'resource'),
    query('query_principal', 'principal', 'principal'),
    Fn(API, 'impl PolicySet > fn query_action', name='PolicySet::query_action', wrap=W,
       sig_rewrites=[(r"impl Iterator<Item = \(&'a EntityUid, Option<Decision>\)>", "VxIter<(&'a EntityUid, Option<Decision>)>", 1)],
       ensures=[('exact', '''match r {
            // every candidate action whose partial request is valid and whose TPE decision is not a definite Deny is returned, with that
            // decision; nothing else is returned (with tpe_sound: no allowed action is omitted, none is labelled Allow that is not)
            Ok(it) => (forall|i: int| 0 <= i < request.spec_candidates().len() && request.spec_partial_request(#[trigger] request.spec_candidates()[i]) is Some
                    && spec_tpe_decision(*self, request.spec_partial_request(request.spec_candidates()[i])->Some_0, *entities) != Some(Decision::Deny)
                    ==> exists|k: int| 0 <= k < it.items().len() && (#[trigger] it.items()[k]).0.spec_core() == request.spec_candidates()[i]
                        && it.items()[k].1 == spec_tpe_decision(*self, request.spec_partial_request(request.spec_candidates()[i])->Some_0, *entities))
                && (forall|k: int| 0 <= k < it.items().len() ==> exists|i: int| 0 <= i < request.spec_candidates().len() && #[trigger] request.spec_candidates()[i] == (#[trigger] it.items()[k]).0.spec_core()
                        && request.spec_partial_request(request.spec_candidates()[i]) is Some
                        && it.items()[k].1 == spec_tpe_decision(*self, request.spec_partial_request(request.spec_candidates()[i])->Some_0, *entities) && it.items()[k].1 != Some(Decision::Deny)),
            Err(_) => true,
        }''')],
       rewrites=[
           (r'request\s*\.schema\s*\.0\s*\.actions_for_principal_and_resource\(&request\.principal\.0\.ty, &request\.resource\.0\.ty\)', 'request.vx_candidate_actions()', 1),
           (r'action\.clone\(\)\.into\(\)', 'vx_uid_from_core(action)', 1),
           (r'RefCast::ref_cast\(action\)', 'vx_ref_cast(action)', 1),
           (r'authorized_actions\.into_iter\(\)', 'vx_vec_into_iter(authorized_actions)', 1),
           (r'let mut authorized_actions = Vec::new\(\);', "let mut authorized_actions: Vec<(&'a EntityUid, Option<Decision>)> = Vec::new();", 1),
       ],
       proof_tail='''proof {
            let it = __vx_r->Ok_0;
            assert(it.items() == authorized_actions@);
            assert forall|i: int| 0 <= i < cands.len() && request.spec_partial_request(#[trigger] cands[i]) is Some
                    && spec_tpe_decision(*self, request.spec_partial_request(cands[i])->Some_0, *entities) != Some(Decision::Deny)
                    implies exists|k: int| 0 <= k < it.items().len() && (#[trigger] it.items()[k]).0.spec_core() == cands[i]
                        && it.items()[k].1 == spec_tpe_decision(*self, request.spec_partial_request(cands[i])->Some_0, *entities) by {
                let k = choose|k: int| 0 <= k < authorized_actions@.len() && (#[trigger] authorized_actions@[k]).0.spec_core() == cands[i]
                        && authorized_actions@[k].1 == spec_tpe_decision(*self, request.spec_partial_request(cands[i])->Some_0, *entities);
                assert(it.items()[k] == authorized_actions@[k]);
            }
        }''',
       loops={1: Loop(iter_suffix='.vx_for()', name='it_1', proof_before='let ghost cands = request.spec_candidates();',
           proof_start='let ghost old_v = authorized_actions@; let ghost idx = it_1.index@; proof { assert(*action == cands[idx]); }',
           proof_end='''proof {
                assert forall|k: int| 0 <= k < old_v.len() implies authorized_actions@[k] == old_v[k] by {}
                assert forall|i: int| 0 <= i < idx && request.spec_partial_request(#[trigger] cands[i]) is Some
                    && spec_tpe_decision(*self, request.spec_partial_request(cands[i])->Some_0, *entities) != Some(Decision::Deny)
                    implies exists|k: int| 0 <= k < authorized_actions@.len() && (#[trigger] authorized_actions@[k]).0.spec_core() == cands[i]
                        && authorized_actions@[k].1 == spec_tpe_decision(*self, request.spec_partial_request(cands[i])->Some_0, *entities) by {
                    let k = choose|k: int| 0 <= k < old_v.len() && (#[trigger] old_v[k]).0.spec_core() == cands[i] && old_v[k].1 == spec_tpe_decision(*self, request.spec_partial_request(cands[i])->Some_0, *entities);
                    assert(authorized_actions@[k] == old_v[k]);
                }
                if authorized_actions@.len() > old_v.len() { assert(authorized_actions@[old_v.len() as int].0.spec_core() == cands[idx]); }
            }''', invariant=[
           ('snapshot', 'it_1.snapshot@.remaining().len() == cands.len() && forall|j: int| 0 <= j < cands.len() ==> *(#[trigger] it_1.snapshot@.remaining()[j]) == cands[j]'),
           ('kept', '''forall|i: int| 0 <= i < it_1.index@ && request.spec_partial_request(#[trigger] cands[i]) is Some
                    && spec_tpe_decision(*self, request.spec_partial_request(cands[i])->Some_0, *entities) != Some(Decision::Deny)
                    ==> exists|k: int| 0 <= k < authorized_actions@.len() && (#[trigger] authorized_actions@[k]).0.spec_core() == cands[i]
                        && authorized_actions@[k].1 == spec_tpe_decision(*self, request.spec_partial_request(cands[i])->Some_0, *entities)'''),
           ('only', '''forall|k: int| 0 <= k < authorized_actions@.len() ==> exists|i: int| 0 <= i < it_1.index@ && #[trigger] cands[i] == (#[trigger] authorized_actions@[k]).0.spec_core()
                        && request.spec_partial_request(cands[i]) is Some
                        && authorized_actions@[k].1 == spec_tpe_decision(*self, request.spec_partial_request(cands[i])->Some_0, *entities) && authorized_actions@[k].1 != Some(Decision::Deny)'''),
       ])}),
]
VERUS_ARGS = ['--multiple-errors', '5']
CANARIES = ['PolicySet::query_resource']
