// ---- api_tpe prelude (trusted declarations): the public TPE wrapper types, opaque, with spec views ----
pub mod ast {
    use super::*;
    #[verifier::external_body] pub struct EntityType { _p: u8 }
    impl vstd::std_specs::cmp::PartialEqSpecImpl for EntityType { open spec fn obeys_eq_spec() -> bool { true } open spec fn eq_spec(&self, other: &Self) -> bool { *self == *other } }
    impl PartialEq for EntityType { #[verifier::external_body] fn eq(&self, other: &Self) -> (r: bool) { unimplemented!() } }
    #[verifier::external_body] pub struct EntityUID { _p: u8 }
    impl EntityUID {
        pub uninterp spec fn spec_type(&self) -> EntityType;
        #[verifier::external_body] pub fn entity_type(&self) -> (r: &EntityType) ensures *r == self.spec_type() { unimplemented!() }
    }
    #[verifier::external_body] pub struct Entity { _p: u8 }
    impl Entity {
        pub uninterp spec fn spec_uid(&self) -> EntityUID;
        #[verifier::external_body] pub fn uid(&self) -> (r: &EntityUID) ensures *r == self.spec_uid() { unimplemented!() }
    }
    /// the core partial request: the types of principal and resource are always known
    #[verifier::external_body] pub struct PartialRequest { _p: u8 }
    impl PartialRequest {
        pub uninterp spec fn spec_principal_type(&self) -> EntityType;
        pub uninterp spec fn spec_resource_type(&self) -> EntityType;
        #[verifier::external_body] pub fn principal_type(&self) -> (r: &EntityType) ensures *r == self.spec_principal_type() { unimplemented!() }
        #[verifier::external_body] pub fn resource_type(&self) -> (r: &EntityType) ensures *r == self.spec_resource_type() { unimplemented!() }
    }
}
#[verifier::external_body] pub struct EntityId { _p: u8 }
impl Clone for EntityId { #[verifier::external_body] fn clone(&self) -> (r: Self) ensures r == *self { unimplemented!() } }
#[verifier::external_body] pub struct EntityUid { _p: u8 }
impl EntityUid {
    pub uninterp spec fn spec_core(&self) -> ast::EntityUID;
    pub uninterp spec fn spec_id(&self) -> EntityId;
    #[verifier::external_body] pub fn id(&self) -> (r: &EntityId) ensures *r == self.spec_id() { unimplemented!() }
}
/// api::Entity is a newtype over the core entity
pub struct Entity(pub ast::Entity);
impl Entity {
    pub uninterp spec fn spec_uid(&self) -> EntityUid;
    /// `EntityUid::new(self.0.uid().clone())`: the uid of the wrapped entity (assumed)
    #[verifier::external_body] pub fn uid(&self) -> (r: EntityUid) ensures r == self.spec_uid(), r.spec_core() == self.0.spec_uid() { unimplemented!() }
}
#[verifier::external_body] pub struct Entities { _p: u8 }
impl Clone for Entities { #[verifier::external_body] fn clone(&self) -> (r: Self) ensures r == *self { unimplemented!() } }
impl Entities {
    /// the entities of the store (enumeration order is not part of the contract)
    pub uninterp spec fn spec_items(&self) -> Seq<Entity>;
    #[verifier::external_body] pub fn iter(&self) -> (r: VxIter<&Entity>)
        ensures r.items().len() == self.spec_items().len(), forall|i: int| #![trigger r.items()[i]] #![trigger self.spec_items()[i]] 0 <= i < r.items().len() ==> *r.items()[i] == self.spec_items()[i] { unimplemented!() }
}
#[verifier::external_body] pub struct Schema { _p: u8 }
#[verifier::external_body] pub struct Request { _p: u8 }
#[verifier::external_body] pub struct RequestValidationError { _p: u8 }
impl std::fmt::Debug for RequestValidationError { #[verifier::external_body] fn fmt(&self, f: &mut std::fmt::Formatter<'_>) -> std::fmt::Result { unimplemented!() } }
pub struct PartialRequest(pub ast::PartialRequest);
/// a partial request whose resource (principal) id is the unknown
pub struct ResourceQueryRequest(pub PartialRequest);
pub struct PrincipalQueryRequest(pub PartialRequest);
impl ResourceQueryRequest {
    /// the concrete request for a candidate resource id
    pub uninterp spec fn spec_request(&self, id: EntityId) -> Request;
    /// without a schema the construction cannot fail (as the code comment at the call site says)
    #[verifier::external_body] pub fn to_request(&self, resource_id: EntityId, schema: Option<&Schema>) -> (r: std::result::Result<Request, RequestValidationError>)
        ensures schema is None ==> r is Ok && r->Ok_0 == self.spec_request(resource_id) { unimplemented!() }
}
impl PrincipalQueryRequest {
    pub uninterp spec fn spec_request(&self, id: EntityId) -> Request;
    #[verifier::external_body] pub fn to_request(&self, principal_id: EntityId, schema: Option<&Schema>) -> (r: std::result::Result<Request, RequestValidationError>)
        ensures schema is None ==> r is Ok && r->Ok_0 == self.spec_request(principal_id) { unimplemented!() }
}
#[derive(Clone, Copy, PartialEq, Eq, Structural)] pub enum Decision { Allow, Deny }
#[verifier::external_body] pub struct Response { _p: u8 }
impl Response {
    pub uninterp spec fn spec_decision(&self) -> Decision;
    #[verifier::external_body] pub fn decision(&self) -> (r: Decision) ensures r == self.spec_decision() { unimplemented!() }
}
#[verifier::external_body] pub struct PolicySet { _p: u8 }
/// the decision of the concrete authorizer (C01; units authz)
pub uninterp spec fn spec_authz(ps: PolicySet, req: Request, ents: Entities) -> Decision;
pub struct Authorizer { pub _p: u8 }
impl Authorizer {
    #[verifier::external_body] pub fn new() -> (r: Self) { unimplemented!() }
    #[verifier::external_body] pub fn is_authorized(&self, r: &Request, p: &PolicySet, e: &Entities) -> (resp: Response) ensures resp.spec_decision() == spec_authz(*p, *r, *e) { unimplemented!() }
}
#[verifier::external_body] pub struct PartialEntities { _p: u8 }
pub mod tpe_err { use super::*;
    #[verifier::external_body] pub struct EntitiesError { _p: u8 }
    #[verifier::external_body] pub struct TpeError { _p: u8 }
}
#[verifier::external_body] pub struct PermissionQueryError { _p: u8 }
impl vstd::std_specs::convert::FromSpecImpl<tpe_err::EntitiesError> for PermissionQueryError { open spec fn obeys_from_spec() -> bool { false } uninterp spec fn from_spec(v: tpe_err::EntitiesError) -> PermissionQueryError; }
impl From<tpe_err::EntitiesError> for PermissionQueryError { #[verifier::external_body] fn from(v: tpe_err::EntitiesError) -> (r: Self) { unimplemented!() } }
impl vstd::std_specs::convert::FromSpecImpl<tpe_err::TpeError> for PermissionQueryError { open spec fn obeys_from_spec() -> bool { false } uninterp spec fn from_spec(v: tpe_err::TpeError) -> PermissionQueryError; }
impl From<tpe_err::TpeError> for PermissionQueryError { #[verifier::external_body] fn from(v: tpe_err::TpeError) -> (r: Self) { unimplemented!() } }
/// the concrete store is a completion of the partial entities built from it / the request built for a candidate id is a completion of the partial request
pub uninterp spec fn ents_consistent(pes: PartialEntities, ents: Entities) -> bool;
pub uninterp spec fn req_consistent(q: PartialRequest, req: Request) -> bool;
impl PartialEntities {
    /// assumed: validates the store and wraps it; the store is a completion of the result (tpe_consist: check_consistency)
    #[verifier::external_body] pub fn from_concrete(entities: Entities, schema: &Schema) -> (r: std::result::Result<Self, tpe_err::EntitiesError>)
        ensures r is Ok ==> ents_consistent(r->Ok_0, entities) { unimplemented!() }
}
#[verifier::external_body] pub struct TpeResponse<'a> { _p: &'a u8 }
impl<'a> TpeResponse<'a> {
    pub uninterp spec fn spec_policy_set(&self) -> PolicySet;
    pub uninterp spec fn spec_decision(&self) -> Option<Decision>;
    /// all residual policies, including the trivially true / false ones (unit tpe_response: policy_set.post.view)
    #[verifier::external_body] pub fn policy_set(&self) -> (r: PolicySet) ensures r == self.spec_policy_set() { unimplemented!() }
    #[verifier::external_body] pub fn decision(&self) -> (r: Option<Decision>) ensures r == self.spec_decision() { unimplemented!() }
}
/// C14 for the core (units tpe_eval, tpe_auth, tpe_response, tpe_consist; ASSUMED here, the api wrapper only adds newtypes): on every
/// completion of the partial inputs the residual policy set decides like the original policies, and a definite TPE decision is that decision
pub open spec fn tpe_sound(ps: PolicySet, q: PartialRequest, pes: PartialEntities, resp: TpeResponse<'_>) -> bool {
    forall|req: Request, ents: Entities| #![trigger spec_authz(resp.spec_policy_set(), req, ents)] #![trigger spec_authz(ps, req, ents)] req_consistent(q, req) && ents_consistent(pes, ents) ==> {
        &&& spec_authz(resp.spec_policy_set(), req, ents) == spec_authz(ps, req, ents)
        &&& (resp.spec_decision() is Some ==> spec_authz(ps, req, ents) == resp.spec_decision()->Some_0)
    }
}
impl PolicySet {
    #[verifier::external_body] pub fn tpe<'a>(&self, request: &'a PartialRequest, entities: &'a PartialEntities, schema: &'a Schema) -> (r: std::result::Result<TpeResponse<'a>, tpe_err::TpeError>)
        ensures r is Ok ==> tpe_sound(*self, *request, *entities, r->Ok_0) && r->Ok_0.spec_decision() == spec_tpe_decision(*self, *request, *entities) { unimplemented!() }
}
/// candidate requests are completions of the query's partial request (the candidate id fills the unknown; assumed)
pub broadcast axiom fn axiom_resource_request_consistent(q: ResourceQueryRequest, id: EntityId) ensures req_consistent(q.0, #[trigger] q.spec_request(id));
pub broadcast axiom fn axiom_principal_request_consistent(q: PrincipalQueryRequest, id: EntityId) ensures req_consistent(q.0, #[trigger] q.spec_request(id));
// ---- action query ----
#[verifier::external_body] pub struct ActionQueryInner { _p: u8 }
/// api::ActionQueryRequest: principal, resource and context are opaque here; the schema field is kept
pub struct ActionQueryRequest { pub inner: ActionQueryInner, pub schema: Schema }
impl ActionQueryRequest {
    /// the actions of the schema that apply to the types of the requested principal and resource
    /// (`self.schema.0.actions_for_principal_and_resource(&self.principal.0.ty, &self.resource.0.ty)`)
    pub uninterp spec fn spec_candidates(&self) -> Seq<ast::EntityUID>;
    #[verifier::external_body] pub fn vx_candidate_actions<'a>(&'a self) -> (r: VxIter<&'a ast::EntityUID>)
        ensures r.items().len() == self.spec_candidates().len(), forall|i: int| #![trigger r.items()[i]] 0 <= i < r.items().len() ==> *r.items()[i] == self.spec_candidates()[i] { unimplemented!() }
    /// the partial request for one action; fails when the partial context does not fit the action
    pub uninterp spec fn spec_partial_request(&self, action: ast::EntityUID) -> Option<PartialRequest>;
    #[verifier::external_body] pub fn partial_request(&self, action: EntityUid) -> (r: std::result::Result<PartialRequest, RequestValidationError>)
        ensures r is Ok <==> self.spec_partial_request(action.spec_core()) is Some, r is Ok ==> r->Ok_0 == self.spec_partial_request(action.spec_core())->Some_0 { unimplemented!() }
}
/// `action.clone().into()` and `RefCast::ref_cast(action)`: the api view of a core uid (newtype casts)
#[verifier::external_body] pub fn vx_uid_from_core(a: &ast::EntityUID) -> (r: EntityUid) ensures r.spec_core() == *a { unimplemented!() }
#[verifier::external_body] pub fn vx_ref_cast<'a>(a: &'a ast::EntityUID) -> (r: &'a EntityUid) ensures r.spec_core() == *a { unimplemented!() }
/// the TPE decision as a function of its inputs
pub uninterp spec fn spec_tpe_decision(ps: PolicySet, q: PartialRequest, pes: PartialEntities) -> Option<Decision>;
// ---- iterator plumbing ----
impl<T> VxIter<T> {
    /// `Iterator::filter`: exactly the items the predicate accepts (order is not part of the contract)
    #[verifier::external_body]
    pub fn filter<F: Fn(&T) -> bool>(self, f: F) -> (r: VxIter<T>)
        requires forall|i: int| 0 <= i < self.items().len() ==> f.requires((&#[trigger] self.items()[i],))
        ensures
            forall|j: int| 0 <= j < r.items().len() ==> exists|i: int| 0 <= i < self.items().len() && #[trigger] self.items()[i] == #[trigger] r.items()[j] && f.ensures((&self.items()[i],), true),
            // an item that is not kept was rejected by the predicate
            forall|i: int| 0 <= i < self.items().len() ==> (exists|j: int| 0 <= j < r.items().len() && #[trigger] r.items()[j] == self.items()[i]) || f.ensures((&#[trigger] self.items()[i],), false),
    { unimplemented!() }
    /// `Itertools::collect_vec().into_iter()` / `vec![].into_iter()`
    #[verifier::external_body] pub fn collect_vec_into_iter(self) -> (r: VxIter<T>) ensures r.items() == self.items() { unimplemented!() }
    #[verifier::external_body] pub fn vx_empty() -> (r: VxIter<T>) ensures r.items() == Seq::<T>::empty() { unimplemented!() }
}
