// ---- C14, permission queries: the answer is exactly the candidates the ORIGINAL policies allow ----
/// entity e of the store is a candidate of the queried type whose concrete request is allowed by the original policies
pub open spec fn resource_answer(ps: PolicySet, q: ResourceQueryRequest, ents: Entities, e: Entity) -> bool {
    e.0.spec_uid().spec_type() == q.0.0.spec_resource_type() && spec_authz(ps, q.spec_request(e.spec_uid().spec_id()), ents) == Decision::Allow
}
pub open spec fn principal_answer(ps: PolicySet, q: PrincipalQueryRequest, ents: Entities, e: Entity) -> bool {
    e.0.spec_uid().spec_type() == q.0.0.spec_principal_type() && spec_authz(ps, q.spec_request(e.spec_uid().spec_id()), ents) == Decision::Allow
}
