// ---- ext_int prelude ----
pub assume_specification[ i64::is_negative ](x: i64) -> (r: bool) ensures r == (x < 0);
pub assume_specification[ i64::checked_pow ](x: i64, e: u32) -> (r: Option<i64>)
    ensures r == (if i64::MIN <= vstd::arithmetic::power::pow(x as int, e as nat) <= i64::MAX { Some(vstd::arithmetic::power::pow(x as int, e as nat) as i64) } else { None::<i64> });
pub assume_specification[ <i64 as From<u32>>::from ](x: u32) -> (r: i64) ensures r == x as i64;
/// the decimal extension's error type (only Overflow is constructed by the function under contract)
pub enum Error { FailedParse(String), TooManyDigits(String), Overflow }
/// truncation toward zero
pub open spec fn trunc_div(a: int, b: int) -> int { if a >= 0 { a / b } else { -((-a) / b) } }
pub open spec fn fits_i64(m: int) -> bool { i64::MIN <= m <= i64::MAX }
