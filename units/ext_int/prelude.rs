// ---- ext_int prelude ----
pub assume_specification[ i64::is_negative ](x: i64) -> (r: bool) ensures r == (x < 0);
pub assume_specification[ i64::checked_pow ](x: i64, e: u32) -> (r: Option<i64>)
    ensures r == (if i64::MIN <= vstd::arithmetic::power::pow(x as int, e as nat) <= i64::MAX { Some(vstd::arithmetic::power::pow(x as int, e as nat) as i64) } else { None::<i64> });
pub assume_specification[ <i64 as From<u32>>::from ](x: u32) -> (r: i64) ensures r == x as i64;
/// the decimal extension's error type (only Overflow is constructed by the function under contract)
pub enum Error { FailedParse(String), TooManyDigits(String), Overflow }
/// truncation toward zero
pub open spec fn trunc_div(a: int, b: int) -> int { if a >= 0 { a / b } else { -((-a) / b) } }
pub open spec fn fits_i64(m: int) -> bool { i64::MIN <= m <= i64::MAX }
// ---- decimal("...") constructor: the string side is opaque, the arithmetic is checked ----
/// what the regex `^(-?\d+)\.(\d+)$` captured: integer part (with optional sign) and fraction digits; None if the string does not match
pub uninterp spec fn vx_spec_caps(s: &str) -> Option<(&str, &str)>;
#[verifier::external_body] pub fn vx_decimal_caps(s: &str) -> (r: Option<(&str, &str)>) ensures r == vx_spec_caps(s) { unimplemented!() }
/// the integer a string of (signed) decimal digits denotes, and basic facts about the captured pieces (trusted: str::parse, len, starts_with)
pub uninterp spec fn str_int(s: &str) -> int;
pub uninterp spec fn str_len(s: &str) -> nat;
pub uninterp spec fn str_minus(s: &str) -> bool;
#[verifier::external_body] pub fn vx_parse_i64(s: &str) -> (r: std::result::Result<i64, ()>) ensures r is Ok <==> fits_i64(str_int(s)), r is Ok ==> r->Ok_0 == str_int(s) { unimplemented!() }
#[verifier::external_body] pub fn vx_len_u32(s: &str) -> (r: std::result::Result<u32, ()>) ensures r is Ok <==> str_len(s) <= 0xFFFF_FFFF, r is Ok ==> r->Ok_0 == str_len(s) { unimplemented!() }
#[verifier::external_body] pub fn vx_starts_with_minus(s: &str) -> (r: bool) ensures r == str_minus(s) { unimplemented!() }
#[verifier::external_body] pub fn vx_failed_parse(s: &str) -> (r: Error) ensures r is FailedParse { unimplemented!() }
#[verifier::external_body] pub fn vx_too_many(s: &str) -> (r: Error) ensures r is TooManyDigits { unimplemented!() }
pub open spec fn p10(n: nat) -> int { vstd::arithmetic::power::pow(10, n) }
/// the number `l.f` scaled by 10^4: the sign is that of the *string* l (so that "-0.5" is negative)
pub open spec fn dec_value(l: &str, f: &str) -> int { if str_minus(l) { str_int(l) * 10000 - str_int(f) * p10((4 - str_len(f)) as nat) } else { str_int(l) * 10000 + str_int(f) * p10((4 - str_len(f)) as nat) } }
/// every intermediate result and the final value are representable
pub open spec fn dec_fits(l: &str, f: &str) -> bool {
    fits_i64(str_int(l)) && fits_i64(str_int(l) * 10000) && fits_i64(str_int(f)) && fits_i64(str_int(f) * p10((4 - str_len(f)) as nat)) && fits_i64(dec_value(l, f))
}
