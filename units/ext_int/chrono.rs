// ---- model of the chrono types the datetime constructor ends in (trusted; written from the chrono documentation) ----
// ms(): the exact number of milliseconds since the Unix epoch (NaiveDateTime's range keeps it far inside i64).
pub mod chrono {
    use vstd::prelude::*;
    #[verifier::external_body] pub struct NaiveDateTime { _p: u8 }
    #[verifier::external_body] pub struct DateTime { _p: u8 }
    #[verifier::external_body] pub struct TimeDelta { _p: u8 }
    pub struct Utc;
    impl Clone for NaiveDateTime { #[verifier::external_body] fn clone(&self) -> (r: Self) ensures r == *self { unimplemented!() } }
    impl Copy for NaiveDateTime {}
    impl Clone for DateTime { #[verifier::external_body] fn clone(&self) -> (r: Self) ensures r == *self { unimplemented!() } }
    impl Copy for DateTime {}
    impl Clone for TimeDelta { #[verifier::external_body] fn clone(&self) -> (r: Self) ensures r == *self { unimplemented!() } }
    impl Copy for TimeDelta {}
    pub open spec fn fits(m: int) -> bool { -9_000_000_000_000_000_000 < m < 9_000_000_000_000_000_000 }
    impl NaiveDateTime {
        pub uninterp spec fn ms(&self) -> int;
        #[verifier::external_body] pub fn and_utc(&self) -> (r: DateTime) ensures r.ms() == self.ms() { unimplemented!() }
    }
    impl DateTime {
        pub uninterp spec fn ms(&self) -> int;
        #[verifier::external_body] pub const UNIX_EPOCH: DateTime = DateTime { _p: 0 };
        #[verifier::external_body] pub fn from_naive_utc_and_offset(v: NaiveDateTime, o: Utc) -> (r: DateTime) ensures r.ms() == v.ms() { unimplemented!() }
        /// milliseconds since the epoch
        #[verifier::external_body] pub fn timestamp_millis(&self) -> (r: i64) ensures r == self.ms() { unimplemented!() }
        /// whole seconds since the epoch, rounded toward negative infinity
        #[verifier::external_body] pub fn timestamp(&self) -> (r: i64) ensures r == self.ms() / 1000 { unimplemented!() }
        /// the millisecond part of the (floor-based) timestamp
        #[verifier::external_body] pub fn timestamp_subsec_millis(&self) -> (r: u32) ensures r == self.ms() % 1000 { unimplemented!() }
    }
    impl TimeDelta {
        pub uninterp spec fn ms(&self) -> int;
        #[verifier::external_body] pub fn num_milliseconds(&self) -> (r: i64) ensures r == self.ms() { unimplemented!() }
        /// whole seconds, rounded toward zero
        #[verifier::external_body] pub fn num_seconds(&self) -> (r: i64) ensures r == (if self.ms() >= 0 { self.ms() / 1000 } else { -((-self.ms()) / 1000) }) { unimplemented!() }
    }
    impl vstd::std_specs::ops::SubSpecImpl<DateTime> for DateTime {
        open spec fn obeys_sub_spec() -> bool { true }
        open spec fn sub_req(self, rhs: DateTime) -> bool { true }
        uninterp spec fn sub_spec(self, rhs: DateTime) -> TimeDelta;
    }
    impl std::ops::Sub for DateTime { type Output = TimeDelta; #[verifier::external_body] fn sub(self, o: DateTime) -> TimeDelta { unimplemented!() } }
    pub broadcast axiom fn ax_sub(a: DateTime, b: DateTime) ensures #[trigger] vstd::std_specs::ops::SubSpec::sub_spec(a, b).ms() == a.ms() - b.ms();
    pub broadcast axiom fn ax_epoch() ensures #[trigger] DateTime::UNIX_EPOCH.ms() == 0;
    /// NaiveDateTime covers roughly +-262000 years
    pub broadcast axiom fn ax_range(v: NaiveDateTime) ensures -8_300_000_000_000_000 < #[trigger] v.ms() < 8_300_000_000_000_000;
    pub broadcast axiom fn ax_range_dt(v: DateTime) ensures -8_300_000_000_000_000 < #[trigger] v.ms() < 8_300_000_000_000_000;
}
use chrono::NaiveDateTime;
