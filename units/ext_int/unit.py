"""Unit ext_int: integer kernels of the datetime / duration / decimal extensions (C07)."""
from vx.assemble import Fn, Type, Raw, Loop, ClosureRw

PROPERTIES = ['C07']
STDMODEL = []
HEADER = 'use vstd::std_specs::ops::SubSpec;'
DT = 'cedar-policy-core/src/extensions/datetime.rs'
DEC = 'cedar-policy-core/src/extensions/decimal.rs'
ASSUMPTIONS = [
    'i64::is_negative, checked_rem_euclid (Euclidean remainder), checked_pow as specified in std (assume_specification); the other checked_* operations use vstd specs.',
    'chrono (NaiveDateTime, DateTime<Utc>, TimeDelta) is modelled by its documented millisecond arithmetic (units/ext_int/chrono.rs).',
    'Only the integer kernels are covered: which strings the constructors accept (regex, chrono, str::parse) is trusted; the &[Value] wrappers (downcasts through dyn Any) are not extracted.',
]
DERIVE = ['derive(Clone, Copy)']
DAY = '86400000'
ITEMS = [
    Raw(file='prelude.rs', tag='prelude'),
    Type(DT, 'struct DateTime', attrs=DERIVE),
    Type(DT, 'struct Duration', attrs=DERIVE),
    Raw(file='chrono.rs', tag='prelude'),
    Type(DT, 'struct UTCOffset'),
    Type(DT, 'impl DateTime > const DAY_IN_MILLISECONDS', wrap='impl DateTime'),
    Fn(DT, 'impl DateTime > fn offset', name='DateTime::offset', wrap='impl DateTime',
       rewrites=[ClosureRw(r'epoch', 'epoch: i64', ret='Self', ensures='r.epoch == epoch')],
       ensures=[('exact', 'match r { Some(d) => d.epoch == self.epoch + duration.ms, None => !fits_i64(self.epoch + duration.ms) }')]),
    Fn(DT, 'impl DateTime > fn duration_since', name='DateTime::duration_since', wrap='impl DateTime',
       rewrites=[ClosureRw(r'ms', 'ms: i64', ret='Duration', ensures='r.ms == ms')],
       ensures=[('exact', 'match r { Some(d) => d.ms == self.epoch - other.epoch, None => !fits_i64(self.epoch - other.epoch) }')]),
    Fn(DT, 'impl DateTime > fn to_date', name='DateTime::to_date', wrap='impl DateTime',
       ensures=[('floor_day', f'match r {{ Some(d) => d.epoch == (self.epoch as int / {DAY}) * {DAY}, None => !fits_i64((self.epoch as int / {DAY}) * {DAY}) }}')]),
    Fn(DT, 'impl DateTime > fn to_time', name='DateTime::to_time', wrap='impl DateTime',
       ensures=[('euclid_rem', f'r.ms == self.epoch as int % {DAY}'), ('range', f'0 <= r.ms < {DAY}')]),
    Fn(DT, 'impl From<NaiveDateTime> for DateTime > fn from', name='DateTime::from<NaiveDateTime>', wrap='impl DateTime',
       sig_rewrites=[(r'fn from\(', 'fn from_naive(', 1)],
       proof_start='broadcast use chrono::ax_sub, chrono::ax_epoch, chrono::ax_range, chrono::ax_range_dt;',
       ensures=[('exact', 'r.epoch == value.ms()')]),
    Fn(DT, 'impl Duration > fn to_milliseconds', wrap='impl Duration', ensures=[('ms', 'r == self.ms')]),
    Fn(DT, 'impl Duration > fn to_seconds', wrap='impl Duration', ensures=[('trunc', 'r == trunc_div(self.ms as int, 1000)')]),
    Fn(DT, 'impl Duration > fn to_minutes', wrap='impl Duration', ensures=[('trunc', 'r == trunc_div(self.ms as int, 60000)')]),
    Fn(DT, 'impl Duration > fn to_hours', wrap='impl Duration', ensures=[('trunc', 'r == trunc_div(self.ms as int, 3600000)')]),
    Fn(DT, 'impl Duration > fn to_days', wrap='impl Duration', ensures=[('trunc', f'r == trunc_div(self.ms as int, {DAY})')]),
    Type(DT, 'impl UTCOffset > const MAX_HH', wrap='impl UTCOffset'),
    Type(DT, 'impl UTCOffset > const MAX_MM', wrap='impl UTCOffset'),
    Fn(DT, 'impl UTCOffset > fn is_valid', wrap='impl UTCOffset', ensures=[('range', 'r == (self.hh < 24 && self.mm < 60)')]),
    Fn(DT, 'impl UTCOffset > fn to_seconds', name='UTCOffset::to_seconds', wrap='impl UTCOffset',
       requires=[('valid', 'self.hh < 24 && self.mm < 60')],
       ensures=[('signed', 'r == (if self.positive { self.hh * 3600 + self.mm * 60 } else { -(self.hh * 3600 + self.mm * 60) })')]),
    Type(DEC, 'const NUM_DIGITS'),
    Type(DEC, 'struct Decimal', attrs=DERIVE),
    Fn(DEC, 'impl Decimal > fn from_str', name='Decimal::from_str', wrap='impl Decimal', vis='pub',
       sig_rewrites=[(r'str: impl AsRef<str>', 'str: &str', 1)],
       rewrites=[(r'(?s)let caps = constants::DECIMAL_REGEX.*?let r_str = caps.*?\.as_str\(\);', 'let (l_str, r_str) = match vx_decimal_caps(str) { Some(c) => c, None => { return Err(vx_failed_parse(str)); } };', 1),
                 (r'i64::from_str\((l_str|r_str)\)\.map_err\(\|_\| Error::Overflow\)\?', r'vx_parse_i64(\1).map_err(|_e: ()| -> (e: Error) ensures e is Overflow { Error::Overflow })?', 2),
                 (r'r_str\.len\(\)\.try_into\(\)\.map_err\(\|_\| Error::Overflow\)\?', 'vx_len_u32(r_str).map_err(|_e: ()| -> (e: Error) ensures e is Overflow { Error::Overflow })?', 1),
                 (r'Error::TooManyDigits\(str\.as_ref\(\)\.to_string\(\)\)', 'vx_too_many(str)', 1),
                 (r"l_str\.starts_with\('-'\)", 'vx_starts_with_minus(l_str)', None),
                 ClosureRw(r'value', 'value: i64', 'Self', ensures='d.value == value', rname='d', count=1)],
       ensures=[('no_match', 'vx_spec_caps(str) is None ==> r is Err'),
                ('too_many_digits', 'vx_spec_caps(str) is Some && str_len(vx_spec_caps(str)->Some_0.1) > 4 ==> r is Err'),
                ('ok_iff', 'vx_spec_caps(str) is Some && str_len(vx_spec_caps(str)->Some_0.1) <= 4 ==> (r is Ok <==> dec_fits(vx_spec_caps(str)->Some_0.0, vx_spec_caps(str)->Some_0.1))'),
                ('value', 'vx_spec_caps(str) is Some && r is Ok ==> r->Ok_0.value == dec_value(vx_spec_caps(str)->Some_0.0, vx_spec_caps(str)->Some_0.1)')],
       proof_start='proof { reveal_with_fuel(vstd::arithmetic::power::pow, 6); assert(vstd::arithmetic::power::pow(10, 4) == 10000); }',
       hints=[(r'let r = checked_mul_pow\(r, NUM_DIGITS - len\)\?;', '''proof {
            assert(l == str_int(l_str) * 10000);
            assert(r == str_int(r_str) * p10((4 - str_len(r_str)) as nat));
            assert(vx_spec_caps(str) == Some((l_str, r_str)));
        }''')]),

    Fn(DEC, 'fn checked_mul_pow',
       requires=[('digits', 'y <= 4')],
       proof_start='proof { reveal_with_fuel(vstd::arithmetic::power::pow, 6); assert(vstd::arithmetic::power::pow(10, y as nat) <= 10000); }',
       ensures=[('exact', 'match r { Ok(w) => w == x * vstd::arithmetic::power::pow(10, y as nat), Err(e) => e is Overflow && !fits_i64(x * vstd::arithmetic::power::pow(10, y as nat)) }')]),
]
CANARIES = ['DateTime::to_date', 'UTCOffset::to_seconds']
