// ---- reqval prelude (trusted declarations) ----
#[verifier::external_body] pub struct EntityType { _p: u8 }
#[verifier::external_body] pub struct Eid { _p: u8 }
#[verifier::external_body] pub struct Loc { _p: u8 }
#[verifier::external_body] pub struct Attributes { _p: u8 }
#[verifier::external_body] pub struct StandardValidatorEntityType { _p: u8 }
#[verifier::external_body] pub struct Extensions<'a> { _p: &'a u8 }
#[verifier::external_body] pub struct Context { _p: u8 }
#[verifier::external_body] pub struct PartialValue { _p: u8 }
#[verifier::external_body] pub struct Type { _p: u8 }
#[verifier::external_body] pub struct Request { _p: u8 }
#[verifier::external_body] pub struct EntityUIDEntry { _p: u8 }
#[verifier::external_body] pub struct RequestValidationError { _p: u8 }
#[verifier::external_body] pub struct InvalidEnumEntityError { _p: u8 }
#[verifier::external_body] pub struct GetSchemaTypeError { _p: u8 }
#[verifier::external_body] pub struct ValidateEuidError { _p: u8 }
#[verifier::external_body] #[verifier::reject_recursive_types(T)] pub struct NonEmpty<T> { _p: std::marker::PhantomData<T> }
impl<T> NonEmpty<T> { pub uninterp spec fn view(&self) -> Seq<T>; }
impl Clone for EntityType { #[verifier::external_body] fn clone(&self) -> (r: Self) ensures r == *self { unimplemented!() } }
impl Clone for Context { #[verifier::external_body] fn clone(&self) -> (r: Self) ensures r == *self { unimplemented!() } }
#[verifier::external_body] pub struct EntityUID { _p: u8 }
impl Clone for EntityUID { #[verifier::external_body] fn clone(&self) -> (r: Self) ensures r == *self { unimplemented!() } }
impl EntityUID {
    pub uninterp spec fn spec_type(&self) -> EntityType;
    pub uninterp spec fn spec_eid(&self) -> Eid;
    #[verifier::external_body] pub fn entity_type(&self) -> (r: &EntityType) ensures *r == self.spec_type() { unimplemented!() }
}
/// contract proved in unit conformance
#[verifier::external_body] pub fn is_valid_enumerated_entity(choices: &NonEmpty<Eid>, uid: &EntityUID) -> (r: std::result::Result<(), InvalidEnumEntityError>)
    ensures r is Ok <==> exists|i: int| 0 <= i < choices@.len() && #[trigger] choices@[i] == uid.spec_eid()
{ unimplemented!() }
/// every error construction of this file (payload structs of request_validation_errors) is replaced by this opaque constructor
#[verifier::external_body] pub fn vx_rve() -> (r: RequestValidationError) { unimplemented!() }
#[verifier::external_body] pub fn vx_rve_enum(e: InvalidEnumEntityError) -> (r: RequestValidationError) { unimplemented!() }
#[verifier::external_body] pub fn vx_rve_type(e: GetSchemaTypeError) -> (r: RequestValidationError) { unimplemented!() }
#[verifier::external_body] pub fn vx_rve_euid(e: ValidateEuidError) -> (r: RequestValidationError) { unimplemented!() }
#[verifier::external_body] pub struct InvalidPrincipalTypeError { _p: u8 }
#[verifier::external_body] pub struct InvalidResourceTypeError { _p: u8 }
#[verifier::external_body] pub fn vx_ipte() -> (r: InvalidPrincipalTypeError) { unimplemented!() }
#[verifier::external_body] pub fn vx_irte() -> (r: InvalidResourceTypeError) { unimplemented!() }
impl vstd::std_specs::convert::FromSpecImpl<InvalidPrincipalTypeError> for RequestValidationError { open spec fn obeys_from_spec() -> bool { false } uninterp spec fn from_spec(v: InvalidPrincipalTypeError) -> RequestValidationError; }
impl From<InvalidPrincipalTypeError> for RequestValidationError { #[verifier::external_body] fn from(v: InvalidPrincipalTypeError) -> (r: RequestValidationError) { unimplemented!() } }
impl vstd::std_specs::convert::FromSpecImpl<InvalidResourceTypeError> for RequestValidationError { open spec fn obeys_from_spec() -> bool { false } uninterp spec fn from_spec(v: InvalidResourceTypeError) -> RequestValidationError; }
impl From<InvalidResourceTypeError> for RequestValidationError { #[verifier::external_body] fn from(v: InvalidResourceTypeError) -> (r: RequestValidationError) { unimplemented!() } }
