/// the schema's lookups (ValidatorSchema::{get_entity_type, get_action_id}; hash-map lookups, trusted) and the action's declaration
#[verifier::external_body] pub struct ValidatorSchema { _p: u8 }
#[verifier::external_body] pub struct ValidatorActionId { _p: u8 }
impl ValidatorSchema {
    pub uninterp spec fn sp_entity_type(&self, ty: EntityType) -> Option<ValidatorEntityType>;
    pub uninterp spec fn sp_action(&self, uid: EntityUID) -> Option<ValidatorActionId>;
    #[verifier::external_body] pub fn get_entity_type(&self, ty: &EntityType) -> (r: Option<&ValidatorEntityType>)
        ensures r == (match self.sp_entity_type(*ty) { Some(t) => Some(&t), None => None::<&ValidatorEntityType> }) { unimplemented!() }
    #[verifier::external_body] pub fn get_action_id(&self, uid: &EntityUID) -> (r: Option<&ValidatorActionId>)
        ensures r == (match self.sp_action(*uid) { Some(t) => Some(&t), None => None::<&ValidatorActionId> }) { unimplemented!() }
    /// the entity uids occurring in a context value are declared / valid enum members (validate_euids_in_partial_value over CoreSchema; assumed)
    pub uninterp spec fn sp_euids_valid(&self, c: Context) -> bool;
    #[verifier::external_body] pub fn vx_validate_euids_in_context(&self, c: &Context) -> (r: std::result::Result<(), ValidateEuidError>) ensures r is Ok <==> self.sp_euids_valid(*c) { unimplemented!() }
}
impl ValidatorActionId {
    pub uninterp spec fn sp_principals(&self) -> SSet<EntityType>;
    pub uninterp spec fn sp_resources(&self) -> SSet<EntityType>;
    pub uninterp spec fn sp_context_type(&self) -> Type;
    #[verifier::external_body] pub fn is_applicable_principal_type(&self, ty: &EntityType) -> (r: bool) ensures r == self.sp_principals().contains(*ty) { unimplemented!() }
    #[verifier::external_body] pub fn is_applicable_resource_type(&self, ty: &EntityType) -> (r: bool) ensures r == self.sp_resources().contains(*ty) { unimplemented!() }
    #[verifier::external_body] pub fn context_type(&self) -> (r: &Type) ensures *r == self.sp_context_type() { unimplemented!() }
}
impl Type {
    /// recursive value typing of the context against the declared record type (assumed; Err = an extension type could not be resolved)
    pub uninterp spec fn sp_typecheck(&self, c: Context) -> Option<bool>;
    #[verifier::external_body] pub fn vx_typecheck_context(&self, c: &Context, e: &Extensions<'_>) -> (r: std::result::Result<bool, GetSchemaTypeError>)
        ensures r is Ok <==> self.sp_typecheck(*c) is Some, r is Ok ==> r->Ok_0 == self.sp_typecheck(*c)->Some_0 { unimplemented!() }
}
impl Request {
    pub uninterp spec fn sp_principal(&self) -> Option<EntityUID>;
    pub uninterp spec fn sp_action(&self) -> Option<EntityUID>;
    pub uninterp spec fn sp_resource(&self) -> Option<EntityUID>;
    pub uninterp spec fn sp_context(&self) -> Option<Context>;
    #[verifier::external_body] pub fn vx_principal_uid(&self) -> (r: Option<&EntityUID>) ensures r == (match self.sp_principal() { Some(u) => Some(&u), None => None::<&EntityUID> }) { unimplemented!() }
    #[verifier::external_body] pub fn vx_action_uid(&self) -> (r: Option<&EntityUID>) ensures r == (match self.sp_action() { Some(u) => Some(&u), None => None::<&EntityUID> }) { unimplemented!() }
    #[verifier::external_body] pub fn vx_resource_uid(&self) -> (r: Option<&EntityUID>) ensures r == (match self.sp_resource() { Some(u) => Some(&u), None => None::<&EntityUID> }) { unimplemented!() }
    #[verifier::external_body] pub fn context(&self) -> (r: Option<&Context>) ensures r == (match self.sp_context() { Some(u) => Some(&u), None => None::<&Context> }) { unimplemented!() }
}
// ---- C11, request part: what the schema requires of a request ----
/// a uid of a declared entity type; for an enumerated type, one of the declared ids
pub open spec fn uid_ok(s: &ValidatorSchema, u: EntityUID) -> bool {
    match s.sp_entity_type(u.spec_type()) {
        None => false,
        Some(et) => match et.kind { ValidatorEntityTypeKind::Enum(choices) => exists|i: int| 0 <= i < choices@.len() && #[trigger] choices@[i] == u.spec_eid(), _ => true },
    }
}
pub open spec fn scope_ok(s: &ValidatorSchema, p: Option<EntityUID>, a: Option<EntityUID>, r: Option<EntityUID>) -> bool {
    (p is Some ==> uid_ok(s, p->Some_0)) && (r is Some ==> uid_ok(s, r->Some_0))
    && (a is Some ==> s.sp_action(a->Some_0) is Some
        && (p is Some ==> s.sp_action(a->Some_0)->Some_0.sp_principals().contains(p->Some_0.spec_type()))
        && (r is Some ==> s.sp_action(a->Some_0)->Some_0.sp_resources().contains(r->Some_0.spec_type())))
}
pub open spec fn context_ok(s: &ValidatorSchema, c: Context, a: EntityUID) -> bool {
    s.sp_action(a) is Some && s.sp_euids_valid(c) && s.sp_action(a)->Some_0.sp_context_type().sp_typecheck(c) == Some(true)
}
