"""Unit reqval: schema-based request validation accepts exactly the conformant requests (C11, request part):
ValidatorSchema::{validate_request, validate_context, validate_scope_variables}, ValidatorActionId::{check_principal_type, check_resource_type}."""
from vx.assemble import Fn, Type, Raw, Loop, ClosureRw, FnRw, cmp_rw

PROPERTIES = ['C11']
HEADER = '#![feature(allocator_api)]'
STDMODEL = ['iter.rs', 'hash.rs', 'std.rs']
CS = 'cedar-policy-core/src/validator/coreschema.rs'
ET = 'cedar-policy-core/src/validator/schema/entity_type.rs'
ASSUMPTIONS = [
    'ValidatorSchema::{get_entity_type, get_action_id} are lookups in the schema (spec views sp_entity_type / sp_action); ValidatorActionId::{is_applicable_*_type, context_type} read the action declaration.',
    'validate_euids_in_partial_value (entity uids inside the context) and Type::typecheck_partial_value (recursive value typing) are callee contracts, assumed.',
    'is_valid_enumerated_entity: contract proved in unit conformance.',
    'Error payload constructions (request_validation_errors::*) are replaced by opaque constructors: which error is reported is not decided, only acceptance.',
]
W = 'impl ValidatorSchema'
ERR_STRUCT = r'request_validation_errors::\w+ \{[^{}]*\}\s*\.into\(\)'
ITEMS = [
    Raw(file='prelude.rs', tag='prelude'),
    Type(ET, 'struct ValidatorEntityType'),
    Type(ET, 'enum ValidatorEntityTypeKind'),
    Raw(file='prelude2.rs', tag='prelude'),
    Fn(CS, 'impl ValidatorActionId > fn check_principal_type', name='ValidatorActionId::check_principal_type', wrap='impl ValidatorActionId',
       sig_rewrites=[(r'request_validation_errors::', '', 1)],
       rewrites=[(r'(?s)request_validation_errors::InvalidPrincipalTypeError \{.*?\.collect\(\),\s*\}', 'vx_ipte()', 1)],
       ensures=[('applies', 'r is Ok <==> self.sp_principals().contains(*principal_type)')]),
    Fn(CS, 'impl ValidatorActionId > fn check_resource_type', name='ValidatorActionId::check_resource_type', wrap='impl ValidatorActionId',
       sig_rewrites=[(r'request_validation_errors::', '', 1)],
       rewrites=[(r'(?s)request_validation_errors::InvalidResourceTypeError \{.*?\.collect\(\),\s*\}', 'vx_irte()', 1)],
       ensures=[('applies', 'r is Ok <==> self.sp_resources().contains(*resource_type)')]),
    Fn(CS, 'impl ast::RequestSchema for ValidatorSchema > fn validate_scope_variables', name='ValidatorSchema::validate_scope_variables', wrap=W,
       rewrites=[(r'\.map_err\(RequestValidationError::InvalidEnumEntity\)', '.map_err(|e: InvalidEnumEntityError| -> (x: RequestValidationError) { vx_rve_enum(e) })', 2),
                 (r'(?s)request_validation_errors::Undeclared(Principal|Resource)TypeError \{[^{}]*\}\s*\.into\(\)', 'vx_rve()', 2),
                 (r'(?s)\.ok_or_else\(\|\| \{\s*request_validation_errors::UndeclaredActionError \{[^{}]*\}\s*\}\)', '.ok_or_else(|| -> (x: RequestValidationError) { vx_rve() })', 1)],
       ensures=[('exact', 'r is Ok <==> scope_ok(self, (match principal { Some(u) => Some(*u), None => None }), (match action { Some(u) => Some(*u), None => None }), (match resource { Some(u) => Some(*u), None => None }))')]),
    Fn(CS, 'impl ast::RequestSchema for ValidatorSchema > fn validate_context', name='ValidatorSchema::validate_context', wrap=W,
       sig_rewrites=[(r'ast::', '', None)],
       rewrites=[(r'(?s)\.ok_or_else\(\|\| \{\s*request_validation_errors::UndeclaredActionError \{[^{}]*\}\s*\}\)', '.ok_or_else(|| -> (x: RequestValidationError) { vx_rve() })', 1),
                 (r'(?s)validate_euids_in_partial_value\(&CoreSchema::new\(self\), &context\.clone\(\)\.into\(\)\)\.map_err\(.*?\},\s*\)\?;', 'self.vx_validate_euids_in_context(context).map_err(|e: ValidateEuidError| -> (x: RequestValidationError) { vx_rve_euid(e) })?;', 1),
                 (r'(?s)expected_context_ty\s*\.typecheck_partial_value\(&context\.clone\(\)\.into\(\), extensions\)\s*\.map_err\(RequestValidationError::TypeOfContext\)\?', 'expected_context_ty.vx_typecheck_context(context, extensions).map_err(|e: GetSchemaTypeError| -> (x: RequestValidationError) { vx_rve_type(e) })?', 1),
                 (r'(?s)request_validation_errors::InvalidContextError \{[^{}]*\}\s*\.into\(\)', 'vx_rve()', 1)],
       ensures=[('exact', 'r is Ok <==> context_ok(self, *context, *action)')]),
    Fn(CS, 'impl ast::RequestSchema for ValidatorSchema > fn validate_request', name='ValidatorSchema::validate_request', wrap=W,
       sig_rewrites=[(r'ast::', '', None), (r'Self::Error', 'RequestValidationError', 1)],
       rewrites=[(r'request\.action\(\)\.uid\(\)', 'request.vx_action_uid()', None),
                 (r'request\.principal\(\)\.uid\(\)', 'request.vx_principal_uid()', None),
                 (r'request\.resource\(\)\.uid\(\)', 'request.vx_resource_uid()', None)],
       ensures=[('exact', 'r is Ok <==> scope_ok(self, request.sp_principal(), request.sp_action(), request.sp_resource()) && (request.sp_context() is Some && request.sp_action() is Some ==> context_ok(self, request.sp_context()->Some_0, request.sp_action()->Some_0))')]),
]
CANARIES = ['ValidatorSchema::validate_scope_variables', 'ValidatorSchema::validate_request']
