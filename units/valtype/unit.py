"""Unit valtype: Type::typecheck_restricted_expr - a restricted expression (context / attribute value) has a validator type exactly when the
recursive definition says so (C11: values of the declared types, recursively, with set elements and nested record fields)."""
from vx.assemble import Fn, Type, Raw, Loop, ClosureRw, FnRw, cmp_rw

PROPERTIES = ['C11']
HEADER = '#![feature(allocator_api)]'
STDMODEL = ['iter.rs', 'hash.rs', 'btree.rs', 'std.rs']
VT = 'cedar-policy-core/src/validator/types.rs'
ST = 'cedar-policy-core/src/entities/json/schema_types.rs'
ASSUMPTIONS = [
    'A restricted expression is read through its accessors (as_bool, as_long, as_string, as_euid, as_set_elements, as_record_pairs with pairwise distinct keys, as_extn_fn_call); these are trusted.',
    'Extension function lookup and signatures are spec views; typing of extension-call arguments against core schema types (typecheck_restricted_expr_against_schematype, a closure-recursive function) is a callee contract, assumed.',
    'Recursion is admitted without a decreases clause; the spec recursion is structural over the type.',
]
NODEC = ['verifier::exec_allows_no_decreases_clause']
ITEMS = [
    Raw(file='prelude.rs', tag='prelude'),
    Raw(text='pub mod core_schema { use vstd::prelude::*; use super::*;', tag='prelude'),
    Type(ST, 'enum SchemaType'),
    Type(ST, 'struct AttributeType'),
    Raw(text='}', tag='prelude'),
    Type(VT, 'enum BoolType'),
    Type(VT, 'enum OpenTag'),
    Type(VT, 'enum EntityKind'),
    Type(VT, 'struct AttributeType'),
    Type(VT, 'struct Attributes'),
    Type(VT, 'enum Type'),
    Raw(file='prelude2.rs', tag='spec'),
    Fn(VT, 'impl Type > fn typecheck_restricted_expr', name='Type::typecheck_restricted_expr', wrap='impl Type', attrs=NODEC + ['verifier::loop_isolation(false)'],
       rewrites=[(r'for \(k, attr_val\) in &record \{', 'for _vxp in record.iter().vx_for() { let (k, attr_val) = _vxp;', 1),
                 (r'for \(k, attr_ty\) in attrs\.iter\(\) \{', 'for _vxp in attrs.iter().vx_for() { let (k, attr_ty) = _vxp;', 1),
                 (r'for \(actual_arg, expected_arg_ty\) in args\.zip\(func\.arg_types\(\)\) \{', 'for _vxp in args.zip(func.arg_types()).vx_for() { let (actual_arg, expected_arg_ty) = _vxp;', 1),
                 (r'open_attributes != &OpenTag::OpenAttributes', 'vx_opentag_ne(open_attributes, &OpenTag::OpenAttributes)', None),
                 (r'actual_name != name', 'vx_name_ne(actual_name, name)', None),
                 (r'record\.contains_key\(k\)', 'record.contains_key(&k)', None)],
       ensures=[('exact', 'r is Ok ==> r->Ok_0 == has_type(*self, restricted_expr, extensions)')],
       proof_start='broadcast use axiom_hashmap_order_ok, axiom_btreemap_order_ok;',
       hints=[(r'let record: HashMap<_, BorrowedRestrictedExpr<\'_>> = pairs\.collect\(\);', 'proof { lemma_rec_ok(__vx_items, record@, restricted_expr.sp_record()->Some_0); }'),
              (r'(?=let record: HashMap<_, BorrowedRestrictedExpr)', 'let ghost __vx_items = pairs.items();')],
       loops={
           1: Loop(iter_suffix='.vx_for()', invariant=[
               ('snapshot', 'restricted_expr.sp_set() is Some && it_1.snapshot@.remaining() == restricted_expr.sp_set()->Some_0'),
               ('done', 'forall|i: int| 0 <= i < it_1.index@ ==> has_type(**el_type, #[trigger] restricted_expr.sp_set()->Some_0[i], extensions)'),
           ]),
           2: Loop(name='it_2', invariant=[
               ('snapshot', 'rec_ok(record@, restricted_expr.sp_record()->Some_0) && record.order_ok() && it_2.snapshot@.remaining().len() == record.key_order().len() && (forall|i: int| 0 <= i < record.key_order().len() ==> *(#[trigger] it_2.snapshot@.remaining()[i]).0 == record.key_order()[i] && *it_2.snapshot@.remaining()[i].1 == record@[record.key_order()[i]])'),
               ('done', '''forall|i: int| 0 <= i < it_2.index@ ==> ({ let k = *(#[trigger] record.key_order()[i]); let m = restricted_expr.sp_record()->Some_0;
                    if attrs.attrs@.contains_key(k) { has_type(*attrs.attrs@[k].attr_type, m[k], extensions) } else { *open_attributes == OpenTag::OpenAttributes } })'''),
           ]),
           3: Loop(name='it_3', invariant=[
               ('snapshot', 'rec_ok(record@, restricted_expr.sp_record()->Some_0) && attrs.attrs.order_ok() && it_3.snapshot@.remaining().len() == attrs.attrs.key_order().len() && (forall|i: int| 0 <= i < attrs.attrs.key_order().len() ==> *(#[trigger] it_3.snapshot@.remaining()[i]).0 == attrs.attrs.key_order()[i] && *it_3.snapshot@.remaining()[i].1 == attrs.attrs@[attrs.attrs.key_order()[i]])'),
               ('done', 'forall|i: int| 0 <= i < it_3.index@ ==> (attrs.attrs@[#[trigger] attrs.attrs.key_order()[i]].is_required ==> restricted_expr.sp_record()->Some_0.contains_key(attrs.attrs.key_order()[i]))'),
           ]),
           4: Loop(name='it_4', invariant=[
               ('snapshot', 'it_4.snapshot@.remaining().len() <= restricted_expr.sp_ext()->Some_0.1.len() && it_4.snapshot@.remaining().len() <= func.sp_args().len() && (it_4.snapshot@.remaining().len() == restricted_expr.sp_ext()->Some_0.1.len() || it_4.snapshot@.remaining().len() == func.sp_args().len()) && (forall|i: int| 0 <= i < it_4.snapshot@.remaining().len() ==> (#[trigger] it_4.snapshot@.remaining()[i]).0 == restricted_expr.sp_ext()->Some_0.1[i] && *it_4.snapshot@.remaining()[i].1 == func.sp_args()[i])'),
               ('done', 'forall|i: int| 0 <= i < it_4.index@ ==> sp_core_ok(#[trigger] restricted_expr.sp_ext()->Some_0.1[i], func.sp_args()[i])'),
           ]),
       }),
]
CANARIES = ['Type::typecheck_restricted_expr']
