pub use core_schema::SchemaType as CoreSchemaType;
impl Attributes {
    /// the declared attributes (Attributes::{get_attr, iter}: thin wrappers over the BTreeMap; get_attr takes the key as &str)
    #[verifier::external_body] pub fn get_attr(&self, k: &SmolStr) -> (r: Option<&AttributeType>) ensures r == (if self.attrs@.contains_key(*k) { Some(&self.attrs@[*k]) } else { None }) { unimplemented!() }
    #[verifier::external_body] pub fn iter(&self) -> (r: VxIter<(&SmolStr, &AttributeType)>)
        ensures self.attrs.order_ok(), r.items().len() == self.attrs.key_order().len(),
            forall|i: int| #![trigger r.items()[i]] #![trigger self.attrs.key_order()[i]] 0 <= i < r.items().len() ==> *r.items()[i].0 == self.attrs.key_order()[i] && *r.items()[i].1 == self.attrs@[self.attrs.key_order()[i]] { unimplemented!() }
}
#[verifier::external_body] pub fn vx_name_ne(a: &Name, b: &Name) -> (r: bool) ensures r == (*a != *b) { unimplemented!() }
#[verifier::external_body] pub fn vx_opentag_ne(a: &OpenTag, b: &OpenTag) -> (r: bool) ensures r == (*a != *b) { unimplemented!() }
impl<'a> Extensions<'a> {
    pub uninterp spec fn sp_func(&self, n: Name) -> Option<ExtensionFunction>;
    #[verifier::external_body] pub fn func(&self, n: &Name) -> (r: std::result::Result<&ExtensionFunction, ExtensionFunctionLookupError>)
        ensures r is Ok <==> self.sp_func(*n) is Some, r is Ok ==> *r->Ok_0 == self.sp_func(*n)->Some_0 { unimplemented!() }
}
impl ExtensionFunction {
    pub uninterp spec fn sp_return(&self) -> Option<CoreSchemaType>;
    pub uninterp spec fn sp_args(&self) -> Seq<CoreSchemaType>;
    #[verifier::external_body] pub fn return_type(&self) -> (r: Option<&CoreSchemaType>) ensures r == (match self.sp_return() { Some(t) => Some(&t), None => None::<&CoreSchemaType> }) { unimplemented!() }
    #[verifier::external_body] pub fn arg_types(&self) -> (r: VxIter<&CoreSchemaType>) ensures r.items().len() == self.sp_args().len(), forall|i: int| 0 <= i < r.items().len() ==> *(#[trigger] r.items()[i]) == self.sp_args()[i] { unimplemented!() }
}
/// value typing against a *core* schema type (entities/conformance.rs; recursive over closures, not verified)
pub uninterp spec fn sp_core_ok(e: BorrowedRestrictedExpr<'_>, t: CoreSchemaType) -> bool;
#[verifier::external_body] pub fn typecheck_restricted_expr_against_schematype(e: BorrowedRestrictedExpr<'_>, t: &CoreSchemaType, x: &Extensions<'_>) -> (r: std::result::Result<(), TypecheckError>)
    ensures r is Ok <==> sp_core_ok(e, *t) { unimplemented!() }
impl<T> VxIter<T> {
    /// `zip`: pairs up to the shorter length
    #[verifier::external_body] pub fn zip<U>(self, o: VxIter<U>) -> (r: VxIter<(T, U)>)
        ensures r.items().len() == (if self.items().len() <= o.items().len() { self.items().len() } else { o.items().len() }),
            forall|i: int| 0 <= i < r.items().len() ==> #[trigger] r.items()[i] == (self.items()[i], o.items()[i]) { unimplemented!() }
}
// ---- C11: when a restricted expression is a value of a (validator) type ----
pub open spec fn has_type(t: Type, e: BorrowedRestrictedExpr<'_>, x: &Extensions<'_>) -> bool
    decreases t
{
    match t {
        Type::Never => false,
        Type::Bool(BoolType::AnyBool) => e.sp_bool() is Some,
        Type::Bool(BoolType::True) => e.sp_bool() == Some(true),
        Type::Bool(BoolType::False) => e.sp_bool() == Some(false),
        Type::Long => e.sp_long() is Some,
        Type::String => e.sp_string() is Some,
        Type::Set { element_type: None } => e.sp_set() is Some,
        Type::Set { element_type: Some(el) } => e.sp_set() is Some && forall|i: int| 0 <= i < e.sp_set()->Some_0.len() ==> has_type(*el, #[trigger] e.sp_set()->Some_0[i], x),
        Type::Entity(EntityKind::Entity(lub)) => e.sp_euid() is Some && lub@.contains(e.sp_euid()->Some_0.spec_type()),
        Type::Entity(EntityKind::AnyEntity) => e.sp_euid() is Some,
        Type::Record { attrs, open_attributes } => e.sp_record() is Some && ({
            let m = e.sp_record()->Some_0;
            // every field present is declared with that type (or the record type is open), and every required attribute is present
            (forall|k: SmolStr| #[trigger] m.contains_key(k) ==> (if attrs.attrs@.contains_key(k) { has_type(*attrs.attrs@[k].attr_type, m[k], x) } else { open_attributes == OpenTag::OpenAttributes }))
            && (forall|k: SmolStr| #[trigger] attrs.attrs@.contains_key(k) && attrs.attrs@[k].is_required ==> m.contains_key(k))
        }),
        Type::ExtensionType { name } => e.sp_ext() is Some && ext_ok(name, e.sp_ext()->Some_0.0, e.sp_ext()->Some_0.1, x),
    }
}
/// a call of an extension function whose declared return type is this extension type and whose arguments have the declared argument types
pub open spec fn ext_ok(name: Name, f: Name, args: Seq<BorrowedRestrictedExpr<'_>>, x: &Extensions<'_>) -> bool {
    x.sp_func(f) is Some && x.sp_func(f)->Some_0.sp_return() == Some(CoreSchemaType::Extension { name })
    && forall|i: int| 0 <= i < args.len() && i < x.sp_func(f)->Some_0.sp_args().len() ==> sp_core_ok(#[trigger] args[i], x.sp_func(f)->Some_0.sp_args()[i])
}
/// the collected field map is the record's field map, keyed by reference
pub open spec fn rec_ok<'a>(hm: Map<&'a SmolStr, BorrowedRestrictedExpr<'a>>, m: Map<SmolStr, BorrowedRestrictedExpr<'a>>) -> bool {
    (forall|k: &SmolStr| #[trigger] hm.contains_key(k) ==> m.contains_key(*k) && hm[k] == m[*k])
    && (forall|k: SmolStr| #[trigger] m.contains_key(k) ==> hm.contains_key(&k))
}
pub proof fn lemma_rec_ok<'a>(items: Seq<(&'a SmolStr, BorrowedRestrictedExpr<'a>)>, hm: Map<&'a SmolStr, BorrowedRestrictedExpr<'a>>, m: Map<SmolStr, BorrowedRestrictedExpr<'a>>)
    requires hm == vx_map_of(items),
        forall|i: int, j: int| 0 <= i < j < items.len() ==> *(#[trigger] items[i]).0 != *(#[trigger] items[j]).0,
        forall|i: int| 0 <= i < items.len() ==> m.contains_key(*(#[trigger] items[i]).0) && m[*items[i].0] == items[i].1,
        forall|k: SmolStr| m.contains_key(k) ==> exists|i: int| 0 <= i < items.len() && *(#[trigger] items[i]).0 == k,
    ensures rec_ok(hm, m),
{
    lemma_vx_map_of_dom(items);
    assert forall|a: int, b: int| 0 <= a < b < items.len() implies (#[trigger] items[a]).0 != (#[trigger] items[b]).0 by { assert(*items[a].0 != *items[b].0); }
    assert forall|k: &SmolStr| #[trigger] hm.contains_key(k) implies m.contains_key(*k) && hm[k] == m[*k] by {
        let i = choose|i: int| 0 <= i < items.len() && (#[trigger] items[i]).0 == k;
        lemma_vx_map_of_val(items, i);
    }
    assert forall|k: SmolStr| #[trigger] m.contains_key(k) implies hm.contains_key(&k) by {
        let i = choose|i: int| 0 <= i < items.len() && *(#[trigger] items[i]).0 == k;
        lemma_vx_map_of_val(items, i);
        assert(items[i].0 == &k);
    }
}
