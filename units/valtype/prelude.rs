// ---- valtype prelude (trusted declarations) ----
#[verifier::external_body] pub struct SmolStr { _p: u8 }
#[verifier::external_body] pub struct Name { _p: u8 }
#[verifier::external_body] pub struct Loc { _p: u8 }
#[verifier::external_body] pub struct EntityType { _p: u8 }
#[verifier::external_body] pub struct EntityUID { _p: u8 }
#[verifier::external_body] pub struct EntityLUB { _p: u8 }
#[verifier::external_body] pub struct Extensions<'a> { _p: &'a u8 }
#[verifier::external_body] pub struct ExtensionFunction { _p: u8 }
#[verifier::external_body] pub struct ExtensionFunctionLookupError { _p: u8 }
#[verifier::external_body] pub struct TypecheckError { _p: u8 }
impl EntityUID { pub uninterp spec fn spec_type(&self) -> EntityType; #[verifier::external_body] pub fn entity_type(&self) -> (r: &EntityType) ensures *r == self.spec_type() { unimplemented!() } }
impl EntityLUB { pub uninterp spec fn view(&self) -> SSet<EntityType>; #[verifier::external_body] pub fn contains(&self, ty: &EntityType) -> (r: bool) ensures r == self@.contains(*ty) { unimplemented!() } }
/// a restricted expression (a value written as an expression), read through its accessors (ast/restricted_expr.rs; trusted)
#[verifier::external_body] pub struct BorrowedRestrictedExpr<'a> { _p: &'a u8 }
impl<'a> Clone for BorrowedRestrictedExpr<'a> { #[verifier::external_body] fn clone(&self) -> (r: Self) ensures r == *self { unimplemented!() } }
impl<'a> Copy for BorrowedRestrictedExpr<'a> {}
impl<'a> BorrowedRestrictedExpr<'a> {
    pub uninterp spec fn sp_bool(&self) -> Option<bool>;
    pub uninterp spec fn sp_long(&self) -> Option<i64>;
    pub uninterp spec fn sp_string(&self) -> Option<SmolStr>;
    pub uninterp spec fn sp_euid(&self) -> Option<EntityUID>;
    pub uninterp spec fn sp_set(&self) -> Option<Seq<BorrowedRestrictedExpr<'a>>>;
    pub uninterp spec fn sp_record(&self) -> Option<Map<SmolStr, BorrowedRestrictedExpr<'a>>>;
    pub uninterp spec fn sp_ext(&self) -> Option<(Name, Seq<BorrowedRestrictedExpr<'a>>)>;
    #[verifier::external_body] pub fn as_bool(&self) -> (r: Option<bool>) ensures r == self.sp_bool() { unimplemented!() }
    #[verifier::external_body] pub fn as_long(&self) -> (r: Option<i64>) ensures r == self.sp_long() { unimplemented!() }
    #[verifier::external_body] pub fn as_string(&self) -> (r: Option<&SmolStr>) ensures r == (match self.sp_string() { Some(s) => Some(&s), None => None::<&SmolStr> }) { unimplemented!() }
    #[verifier::external_body] pub fn as_euid(&self) -> (r: Option<&EntityUID>) ensures r == (match self.sp_euid() { Some(s) => Some(&s), None => None::<&EntityUID> }) { unimplemented!() }
    #[verifier::external_body] pub fn as_set_elements(&self) -> (r: Option<VxIter<BorrowedRestrictedExpr<'a>>>) ensures r is Some <==> self.sp_set() is Some, r is Some ==> r->Some_0.items() == self.sp_set()->Some_0 { unimplemented!() }
    /// the fields of a record literal: pairwise distinct keys
    #[verifier::external_body] pub fn as_record_pairs(&self) -> (r: Option<VxIter<(&'a SmolStr, BorrowedRestrictedExpr<'a>)>>)
        ensures r is Some <==> self.sp_record() is Some,
            r is Some ==> (forall|i: int, j: int| 0 <= i < j < r->Some_0.items().len() ==> *(#[trigger] r->Some_0.items()[i]).0 != *(#[trigger] r->Some_0.items()[j]).0)
                && (forall|i: int| 0 <= i < r->Some_0.items().len() ==> self.sp_record()->Some_0.contains_key(*(#[trigger] r->Some_0.items()[i]).0) && self.sp_record()->Some_0[*r->Some_0.items()[i].0] == r->Some_0.items()[i].1)
                && (forall|k: SmolStr| self.sp_record()->Some_0.contains_key(k) ==> exists|i: int| 0 <= i < r->Some_0.items().len() && *(#[trigger] r->Some_0.items()[i]).0 == k)
    { unimplemented!() }
    #[verifier::external_body] pub fn as_extn_fn_call(&self) -> (r: Option<(&Name, VxIter<BorrowedRestrictedExpr<'a>>)>)
        ensures r is Some <==> self.sp_ext() is Some, r is Some ==> *r->Some_0.0 == self.sp_ext()->Some_0.0 && r->Some_0.1.items() == self.sp_ext()->Some_0.1 { unimplemented!() }
    #[verifier::external_body] pub fn to_owned(&self) -> (r: Self) ensures r == *self { unimplemented!() }
}
