// ---- representation invariant and abstract view of PolicySet (C08) ----
pub open spec fn tid(p: Policy) -> PolicyID { p.spec_template().spec_id() }
/// the three maps are consistent: no link without its template, the reverse index is exact,
/// and an id occurs both as template and as link only for a static policy (whose template has exactly that one link)
pub open spec fn inv(ps: PolicySet) -> bool {
    let T = ps.templates.view(); let L = ps.links.view(); let M = ps.template_to_links_map.view();
    &&& M.dom() =~= T.dom()
    &&& forall|t: PolicyID| T.contains_key(t) ==> (#[trigger] T[t]).spec_id() == t
    &&& forall|l: PolicyID| L.contains_key(l) ==> (#[trigger] L[l]).spec_id() == l && T.contains_key(tid(L[l])) && *T[tid(L[l])] == L[l].spec_template() && M[tid(L[l])].view().contains(l)
    &&& forall|t: PolicyID, l: PolicyID| M.contains_key(t) && (#[trigger] M[t].view().contains(l)) ==> L.contains_key(l) && tid(L[l]) == t
    &&& forall|i: PolicyID| T.contains_key(i) && #[trigger] L.contains_key(i) ==> tid(L[i]) == i && M[i].view() =~= SSet::<PolicyID>::empty().insert(i)
}
pub open spec fn same(a: PolicySet, b: PolicySet) -> bool {
    a.templates.view() =~= b.templates.view() && a.links.view() =~= b.links.view() && a.template_to_links_map.view() =~= b.template_to_links_map.view()
}
/// the reverse index is determined by the other two maps (so whole-view postconditions may speak about templates and links only)
pub open spec fn index_of(ps: PolicySet, t: PolicyID) -> SSet<PolicyID> { ps.template_to_links_map.view()[t].view() }

/// what the callers of PolicySet::add guarantee about id collisions when they pass a template-linked policy (nothing is required for a
/// static policy; cedar_policy::PolicySet::add only passes static policies):
/// a static-shaped policy does not reuse the id of a plain template with an equal body (a different body is rejected by add itself), and a linked policy neither links to a static policy's
/// template nor takes the id of a template
pub open spec fn add_pre(ps: PolicySet, p: Policy) -> bool {
    let T = ps.templates.view(); let L = ps.links.view();
    if p.spec_is_static() { true }
    else if tid(p) == p.spec_id() { T.contains_key(p.spec_id()) ==> L.contains_key(p.spec_id()) || *T[p.spec_id()] != p.spec_template() }
    else { !L.contains_key(tid(p)) && !T.contains_key(p.spec_id()) }
}
