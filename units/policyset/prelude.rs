// ---- policyset unit prelude (trusted declarations) ----
#[verifier::external_body] pub struct PolicyID { _p: u8 }
impl Clone for PolicyID { #[verifier::external_body] fn clone(&self) -> (r: Self) ensures r == *self { unimplemented!() } }
#[verifier::external_body] pub struct SlotId { _p: u8 }
#[verifier::external_body] pub struct EntityUID { _p: u8 }
#[verifier::external_body] pub struct Template { _p: u8 }
#[verifier::external_body] pub struct Policy { _p: u8 }
#[verifier::external_body] pub struct StaticPolicy { _p: u8 }
#[verifier::external_body] pub struct LinkingErrorInner { _p: u8 }
impl Template {
    pub uninterp spec fn spec_id(&self) -> PolicyID;
    /// `values` binds exactly the slots of the template (spec of Template::check_binding; not verified here)
    pub uninterp spec fn spec_binds(&self, values: HashMap<SlotId, EntityUID>) -> bool;
    #[verifier::external_body] pub fn id(&self) -> (r: &PolicyID) ensures *r == self.spec_id() { unimplemented!() }
    /// assumed contract of Template::link: succeeds iff exactly the template's slots are bound; the link has the new id and this template
    #[verifier::external_body] pub fn link(template: Arc<Template>, new_id: PolicyID, values: HashMap<SlotId, EntityUID>) -> (r: std::result::Result<Policy, LinkingError>)
        ensures r is Ok <==> template.spec_binds(values),
            r is Ok ==> r->Ok_0.spec_id() == new_id && r->Ok_0.spec_template() == *template,
            r is Err ==> r->Err_0 is ArityError,
    { unimplemented!() }
    /// assumed: a static policy becomes a zero-slot template and its single link, sharing the id
    #[verifier::external_body] pub fn link_static_policy(p: StaticPolicy) -> (r: (Arc<Template>, Policy))
        ensures r.1.spec_template() == *r.0, r.1.spec_id() == r.0.spec_id(),
    { unimplemented!() }
}
impl Policy {
    pub uninterp spec fn spec_id(&self) -> PolicyID;
    pub uninterp spec fn spec_template(&self) -> Template;
    #[verifier::external_body] pub fn id(&self) -> (r: &PolicyID) ensures *r == self.spec_id() { unimplemented!() }
    #[verifier::external_body] pub fn template(&self) -> (r: &Template) ensures *r == self.spec_template() { unimplemented!() }
    #[verifier::external_body] pub fn template_arc(&self) -> (r: Arc<Template>) ensures *r == self.spec_template() { unimplemented!() }
    /// a static policy has no link id: its id is its template's id (Policy::{is_static, id}: proved in unit linking)
    pub uninterp spec fn spec_is_static(&self) -> bool;
    #[verifier::external_body] pub fn is_static(&self) -> (r: bool) ensures r == self.spec_is_static(), r ==> self.spec_id() == self.spec_template().spec_id() { unimplemented!() }
}
/// `Arc<Template> != Arc<Template>` (derived PartialEq on Template; trusted to be spec equality)
#[verifier::external_body] pub fn vx_template_ne(a: &Arc<Template>, b: &Arc<Template>) -> (r: bool) ensures r == (**a != **b) { unimplemented!() }
#[verifier::external_body] pub fn arc_unwrap_or_clone(t: Arc<Template>) -> (r: Template) ensures r == *t { unimplemented!() }
/// `std::iter::once(x).collect()` / `vec![x].into_iter().collect()` into a LinkedHashSet: the singleton set
#[verifier::external_body] pub fn vx_singleton(p: PolicyID) -> (r: LinkedHashSet<PolicyID>) ensures r.view() == SSet::<PolicyID>::empty().insert(p) { unimplemented!() }
pub enum LinkingError { ArityError { inner: LinkingErrorInner }, NoSuchTemplate { id: PolicyID }, PolicyIdConflict { id: PolicyID } }
/// a static policy's id is its template's id (Policy::id returns the link id or else the template id, Policy::is_static is `link.is_none()`: both proved in unit linking)
pub broadcast axiom fn axiom_static_id(p: Policy) ensures #[trigger] p.spec_is_static() ==> p.spec_id() == p.spec_template().spec_id();
