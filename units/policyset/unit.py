"""Unit policyset: PolicySet operations under a three-map representation invariant (C08)."""
from vx.assemble import Fn, Type, Raw, Loop, ClosureRw

PROPERTIES = ['C08']
HEADER = '#![feature(allocator_api)]'
STDMODEL = ['iter.rs', 'hash.rs', 'linked.rs', 'std.rs']
PS = 'cedar-policy-core/src/ast/policy_set.rs'
ASSUMPTIONS = [
    'Template::link succeeds iff exactly the template\'s slots are bound and yields a policy with the new id and that template (Template::check_binding is not verified here); Template::link_static_policy yields a template and its link sharing one id.',
    'Policy::{id,template,template_arc}, Template::id are accessors of opaque types; derived PartialEq on Template is spec equality.',
    'LinkedHashMap/LinkedHashSet (incl. Entry API) behave as the model in stdmodel/linked.rs.',
    'Preconditions of PolicySet::add and PolicySet::link about id collisions between a non-static link and templates are established by their callers (cedar_policy::PolicySet checks them); not verified.',
]
W = 'impl PolicySet'
T = 'old(self).templates.view()'
L = 'old(self).links.view()'
M = 'old(self).template_to_links_map.view()'
T2 = 'final(self).templates.view()'
L2 = 'final(self).links.view()'
M2 = 'final(self).template_to_links_map.view()'
INV = [('inv', 'inv(*old(self))')]
KEEP = ('inv', 'inv(*final(self))')
FAIL = ('unchanged_on_error', 'r is Err ==> same(*final(self), *old(self))')

ITEMS = [
    Raw(file='prelude.rs', tag='prelude'),
    Type(PS, 'struct PolicySet'),
    Type(PS, 'enum PolicySetError'),
    Type(PS, 'enum PolicySetGetLinksError'),
    Type(PS, 'enum PolicySetUnlinkError'),
    Type(PS, 'enum PolicySetTemplateRemovalError'),
    Type(PS, 'enum PolicySetPolicyRemovalError'),
    Raw(file='spec.rs', tag='spec'),

    Fn(PS, 'impl PolicySet > fn new', wrap=W,
       ensures=[('empty', 'r.templates.view() == Map::<PolicyID, Arc<Template>>::empty() && r.links.view() == Map::<PolicyID, Policy>::empty()'), ('inv', 'inv(r)')]),
    Fn(PS, 'impl PolicySet > fn policy_id_is_bound', wrap=W,
       ensures=[('bound', 'r == (self.templates.view().contains_key(*pid) || self.links.view().contains_key(*pid))')]),
    Fn(PS, 'impl PolicySet > fn add_template', wrap=W, requires=INV,
       ensures=[KEEP,
                ('ok_iff', f'r is Ok <==> !{L}.contains_key(t.spec_id()) && !{T}.contains_key(t.spec_id())'),
                ('effect', f'r is Ok ==> {T2} == {T}.insert(t.spec_id(), Arc::new(t)) && {L2} == {L} && {M2}.dom() == {M}.dom().insert(t.spec_id()) && {M2}[t.spec_id()].view() == SSet::<PolicyID>::empty() && forall|k: PolicyID| k != t.spec_id() && {M}.contains_key(k) ==> {M2}[k] == {M}[k]'),
                FAIL]),
    Fn(PS, 'impl PolicySet > fn remove_template', wrap=W, requires=INV,
       rewrites=[(r'Arc::unwrap_or_clone\(t\)', 'arc_unwrap_or_clone(t)', 1)],
       ensures=[KEEP,
                ('ok_iff', f'r is Ok <==> !{L}.contains_key(*policy_id) && {M}.contains_key(*policy_id) && {M}[*policy_id].view() =~= SSet::<PolicyID>::empty()'),
                ('effect', f'r is Ok ==> {T2} == {T}.remove(*policy_id) && {L2} == {L} && {M2} == {M}.remove(*policy_id) && r->Ok_0 == *{T}[*policy_id]'),
                ('error_class', f'r is Err ==> (r->Err_0 is NotTemplateError <==> {L}.contains_key(*policy_id)) && (r->Err_0 is RemovePolicyNoTemplateError <==> !{L}.contains_key(*policy_id) && !{M}.contains_key(*policy_id))'),
                FAIL]),
    Fn(PS, 'impl PolicySet > fn unlink', wrap=W, requires=INV,
       ensures=[KEEP,
                ('ok_iff', f'r is Ok <==> !{T}.contains_key(*policy_id) && {L}.contains_key(*policy_id)'),
                ('effect', f'r is Ok ==> {T2} == {T} && {L2} == {L}.remove(*policy_id) && r->Ok_0 == {L}[*policy_id] && {M2}.dom() == {M}.dom() && (forall|k: PolicyID| {M}.contains_key(k) ==> #[trigger] {M2}[k].view() == (if k == tid({L}[*policy_id]) {{ {M}[k].view().remove(*policy_id) }} else {{ {M}[k].view() }}))'),
                ('error_class', f'r is Err ==> (r->Err_0 is NotLinkError <==> {T}.contains_key(*policy_id)) && (r->Err_0 is UnlinkingError <==> !{T}.contains_key(*policy_id) && !{L}.contains_key(*policy_id))'),
                FAIL]),
    Fn(PS, 'impl PolicySet > fn remove_static', wrap=W, requires=INV,
       ensures=[KEEP,
                ('ok_iff', f'r is Ok <==> {T}.contains_key(*policy_id) && {L}.contains_key(*policy_id)'),
                ('effect', f'r is Ok ==> {T2} == {T}.remove(*policy_id) && {L2} == {L}.remove(*policy_id) && {M2} == {M}.remove(*policy_id) && r->Ok_0 == {L}[*policy_id]'),
                FAIL]),
    Fn(PS, 'impl PolicySet > fn add_static', wrap=W, requires=INV,
       rewrites=[(r'vec!\[p\.id\(\)\.clone\(\)\]\s*\.into_iter\(\)\s*\.collect::<LinkedHashSet<PolicyID>>\(\)', 'vx_singleton(p.id().clone())', 1)],
       ensures=[KEEP,
                ('ok_iff', f'r is Ok <==> exists|id: PolicyID| #![auto] !{T}.contains_key(id) && !{L}.contains_key(id) && {T2}.contains_key(id)'),
                ('effect', f'r is Ok ==> exists|id: PolicyID| #![auto] {T2}.dom() == {T}.dom().insert(id) && {L2}.dom() == {L}.dom().insert(id) && tid({L2}[id]) == id && {M2}[id].view() == SSet::<PolicyID>::empty().insert(id) && (forall|k: PolicyID| k != id && {T}.contains_key(k) ==> {T2}[k] == {T}[k] && {M2}[k] == {M}[k]) && (forall|k: PolicyID| k != id && {L}.contains_key(k) ==> {L2}[k] == {L}[k])'),
                FAIL]),
    Fn(PS, 'impl PolicySet > fn add', wrap=W, requires=INV + [('callers', 'add_pre(*old(self), policy)')],
       proof_start='broadcast use axiom_static_id;',
       rewrites=[(r'oentry\.get\(\) != &t', 'vx_template_ne(oentry.get(), &t)', 1),
                 (r'std::iter::once\(policy\.id\(\)\.clone\(\)\)\.collect\(\)', 'vx_singleton(policy.id().clone())', 1)],
       ensures=[KEEP,
                ('ok_iff', f'r is Ok <==> !{L}.contains_key(policy.spec_id()) && ({T}.contains_key(tid(policy)) ==> !policy.spec_is_static() && *{T}[tid(policy)] == policy.spec_template())'),
                ('effect', f'r is Ok ==> {L2} == {L}.insert(policy.spec_id(), policy) && {T2}.dom() == {T}.dom().insert(tid(policy)) && *{T2}[tid(policy)] == policy.spec_template() && (forall|k: PolicyID| {T}.contains_key(k) ==> {T2}[k] == {T}[k]) && {M2}.dom() == {T2}.dom() && (forall|k: PolicyID| {M2}.contains_key(k) ==> #[trigger] {M2}[k].view() == (if k == tid(policy) {{ (if {M}.contains_key(k) {{ {M}[k].view() }} else {{ SSet::<PolicyID>::empty() }}).insert(policy.spec_id()) }} else {{ {M}[k].view() }}))'),
                FAIL]),
    Fn(PS, 'impl PolicySet > fn get_template_arc', wrap=W,
       rewrites=[(r'self\.templates\.get\(id\)\.cloned\(\)', 'vx_opt_arc_cloned(self.templates.get(id))', 1)],
       ensures=[('lookup', 'r == (if self.templates.view().contains_key(*id) { Some(self.templates.view()[*id]) } else { None })')]),
    Fn(PS, 'impl PolicySet > fn get', wrap=W,
       ensures=[('lookup', 'r == (if self.links.view().contains_key(*id) { Some(&self.links.view()[*id]) } else { None })')]),
    Fn(PS, 'impl PolicySet > fn is_empty', wrap=W,
       ensures=[('empty', 'r == (self.templates.view().dom() =~= SSet::<PolicyID>::empty() && self.links.view().dom() =~= SSet::<PolicyID>::empty())')]),
    Fn(PS, 'impl PolicySet > fn policies', wrap=W,
       sig_rewrites=[(r'impl Iterator<Item = &Policy>', 'VxIter<&Policy>', 1)],
       ensures=[('exactly_links', 'self.links.order_ok() && r.items().len() == self.links.key_order().len() && forall|i: int| 0 <= i < r.items().len() ==> *(#[trigger] r.items()[i]) == self.links.view()[self.links.key_order()[i]]'),
                ('distinct_ids', 'inv(*self) ==> forall|i: int, j: int| 0 <= i < j < r.items().len() ==> (#[trigger] r.items()[i]).spec_id() != (#[trigger] r.items()[j]).spec_id()')]),
    Fn(PS, 'impl PolicySet > fn get_linked_policies', wrap=W,
       sig_rewrites=[(r'impl Iterator<Item = &PolicyID>', 'VxIter<&PolicyID>', 1)],
       ensures=[('ok_iff', 'r is Ok <==> self.template_to_links_map.view().contains_key(*template_id)'),
                ('members', 'r is Ok ==> forall|i: int| 0 <= i < r->Ok_0.items().len() ==> index_of(*self, *template_id).contains(*(#[trigger] r->Ok_0.items()[i]))'),
                ('all', 'r is Ok ==> forall|l: PolicyID| self.template_to_links_map.view()[*template_id].view().contains(l) ==> exists|i: int| 0 <= i < r->Ok_0.items().len() && *(#[trigger] r->Ok_0.items()[i]) == l')],
       proof_tail='''proof {
            if __vx_r is Ok {
                let it = __vx_r->Ok_0; let s = self.template_to_links_map.view()[*template_id];
                assert forall|l: PolicyID| s.view().contains(l) implies exists|i: int| 0 <= i < it.items().len() && *(#[trigger] it.items()[i]) == l by {}
            }
        }'''),
    Fn(PS, 'impl PolicySet > fn link', wrap=W,
       requires=INV + [('template_not_static', f'!{L}.contains_key(template_id)')],
       rewrites=[(r'\.ok_or_else\(\|\| LinkingError::NoSuchTemplate \{\s*id: template_id\.clone\(\),\s*\}\)',
                  '.ok_or_else(|| -> (e: LinkingError) ensures e is NoSuchTemplate { LinkingError::NoSuchTemplate { id: template_id.clone() } })', 1)],
       ensures=[KEEP,
                ('ok_iff', f'r is Ok <==> {T}.contains_key(template_id) && {T}[template_id].spec_binds(values) && !{L}.contains_key(new_id) && !{T}.contains_key(new_id)'),
                ('effect', f'r is Ok ==> {T2} == {T} && {L2}.dom() == {L}.dom().insert(new_id) && {L2}[new_id].spec_id() == new_id && {L2}[new_id].spec_template() == *{T}[template_id] && *r->Ok_0 == {L2}[new_id] && (forall|k: PolicyID| k != new_id && {L}.contains_key(k) ==> {L2}[k] == {L}[k]) && {M2}.dom() == {M}.dom() && (forall|k: PolicyID| {M}.contains_key(k) ==> #[trigger] {M2}[k].view() == (if k == template_id {{ {M}[k].view().insert(new_id) }} else {{ {M}[k].view() }}))'),
                FAIL]),
]
CANARIES = ['remove_template', 'unlink']
# mechanisms of C08 that no unit covers (listed as such in DESIGN / MANIFEST): a change to them cannot be decided by this check
UNCOVERED = [('cedar-policy-core/src/ast/policy_set.rs', 'impl PolicySet > fn merge_policyset'), ('cedar-policy-core/src/ast/policy_set.rs', 'impl PolicySet > fn update_renaming'),
             ('cedar-policy-core/src/ast/policy_set.rs', 'impl PolicySet > fn get_fresh_id')]
