// ---- C14: what a residual means under a completion of the partial inputs ----
/// a completion: a concrete request and entity store (opaque; read through the functions below)
#[verifier::external_body] pub struct Cx { _p: u8 }
pub uninterp spec fn cx_principal(c: Cx) -> EntityUID;
pub uninterp spec fn cx_resource(c: Cx) -> EntityUID;
pub uninterp spec fn cx_action(c: Cx) -> EntityUID;
pub uninterp spec fn cx_context(c: Cx) -> ValueKind;
/// stored ancestors of an entity (empty for an entity without a record)
pub uninterp spec fn cx_ancestors(c: Cx, u: EntityUID) -> SSet<EntityUID>;
/// attributes / tags of an entity; None: the store has no such entity
pub uninterp spec fn cx_attrs(c: Cx, u: EntityUID) -> Option<Map<SmolStr, Value>>;
pub uninterp spec fn cx_tags(c: Cx, u: EntityUID) -> Option<Map<SmolStr, Value>>;
/// the completion agrees with everything the partial request and the partial entities know
pub open spec fn cons(ev: &Evaluator<'_>, c: Cx) -> bool {
    let q = ev.request; let es = ev.entities;
    &&& (q.sp_principal() is Some ==> cx_principal(c) == q.sp_principal()->Some_0)
    &&& cx_principal(c).spec_type() == q.sp_principal_type()
    &&& (q.sp_resource() is Some ==> cx_resource(c) == q.sp_resource()->Some_0)
    &&& cx_resource(c).spec_type() == q.sp_resource_type()
    &&& cx_action(c) == q.sp_action()
    &&& (q.sp_context() is Some ==> cx_context(c) == ValueKind::Record(q.sp_context()->Some_0))
    &&& forall|u: EntityUID| #![trigger es.sp_ancestors(u)] es.sp_ancestors(u) is Some ==> cx_ancestors(c, u) == es.sp_ancestors(u)->Some_0
    &&& forall|u: EntityUID| #![trigger es.sp_attrs(u)] es.sp_attrs(u) is Some ==> cx_attrs(c, u) == Some(es.sp_attrs(u)->Some_0)
    &&& forall|u: EntityUID| #![trigger es.sp_tags(u)] es.sp_tags(u) is Some ==> cx_tags(c, u) == Some(es.sp_tags(u)->Some_0)
}
/// result of evaluating under a completion: a value, an error, or not specified here (results of extension calls, record literals)
pub enum R { V(ValueKind), E, U }
pub open spec fn kbool(b: bool) -> ValueKind { ValueKind::Lit(Literal::Bool(b)) }
pub open spec fn kuid(u: EntityUID) -> ValueKind { ValueKind::Lit(Literal::EntityUID(Arc::new(u))) }
pub open spec fn as_b(r: R) -> Option<bool> { match r { R::V(ValueKind::Lit(Literal::Bool(b))) => Some(b), _ => None } }
/// a boolean operand: its boolean, an error (also for a non-boolean value), or unspecified
pub open spec fn want_b(r: R) -> R { match r { R::V(ValueKind::Lit(Literal::Bool(_))) => r, R::V(_) => R::E, x => x } }
pub open spec fn opt_r(o: Option<ValueKind>) -> R { match o { Some(k) => R::V(k), None => R::E } }
pub open spec fn rsem(c: Cx, r: Residual) -> R
    decreases r
{
    match r {
        Residual::Concrete { value, .. } => R::V(value.value),
        Residual::Error(_) => R::E,
        Residual::Partial { kind, .. } => ksem(c, kind),
    }
}
/// some item evaluates to an error / every item to a value / the items' values
pub open spec fn v_any_err(c: Cx, es: Arc<Vec<Residual>>) -> bool decreases es { exists|i: int| 0 <= i < es@.len() && rsem(c, #[trigger] es@[i]) is E }
pub open spec fn v_all_val(c: Cx, es: Arc<Vec<Residual>>) -> bool decreases es { forall|i: int| 0 <= i < es@.len() ==> rsem(c, #[trigger] es@[i]) is V }
pub open spec fn v_vals(c: Cx, es: Arc<Vec<Residual>>) -> Seq<ValueKind> decreases es { Seq::new(es@.len(), |i: int| if 0 <= i < es@.len() { rsem(c, es@[i])->V_0 } else { arbitrary() }) }
pub open spec fn m_any_err(c: Cx, m: Arc<BTreeMap<SmolStr, Residual>>) -> bool decreases m { exists|k: SmolStr| m@.contains_key(k) && rsem(c, #[trigger] m@[k]) is E }
pub open spec fn m_all_val(c: Cx, m: Arc<BTreeMap<SmolStr, Residual>>) -> bool decreases m { forall|k: SmolStr| m@.contains_key(k) ==> rsem(c, #[trigger] m@[k]) is V }
pub open spec fn m_vals(c: Cx, m: Arc<BTreeMap<SmolStr, Residual>>) -> Seq<(SmolStr, ValueKind)> decreases m {
    Seq::new(m.key_order().len(), |i: int| if 0 <= i < m.key_order().len() && m@.contains_key(m.key_order()[i]) { (m.key_order()[i], rsem(c, m@[m.key_order()[i]])->V_0) } else { arbitrary() })
}
pub open spec fn bsem(c: Cx, op: BinaryOp, k1: ValueKind, k2: ValueKind) -> R {
    match op {
        BinaryOp::Eq | BinaryOp::Less | BinaryOp::LessEq => opt_r(evaluator::sp_relation(op, k1, k2)),
        BinaryOp::Add | BinaryOp::Sub | BinaryOp::Mul => opt_r(evaluator::sp_arith(op, k1, k2)),
        BinaryOp::In => match k1 {
            ValueKind::Lit(Literal::EntityUID(u1)) => match k2 {
                ValueKind::Lit(Literal::EntityUID(u2)) => R::V(kbool(*u1 == *u2 || cx_ancestors(c, *u1).contains(*u2))),
                ValueKind::Set(s) => match entity_elems(s) {
                    Some(us) => R::V(kbool(us.contains(*u1) || !us.disjoint(cx_ancestors(c, *u1)))),
                    None => R::E,
                },
                _ => R::E,
            },
            _ => R::E,
        },
        BinaryOp::GetTag => match (k1, k2) {
            (ValueKind::Lit(Literal::EntityUID(u)), ValueKind::Lit(Literal::String(t))) => match cx_tags(c, *u) {
                Some(m) => if m.contains_key(t) { R::V(m[t].value) } else { R::E },
                None => R::E,
            },
            _ => R::E,
        },
        BinaryOp::HasTag => match (k1, k2) {
            (ValueKind::Lit(Literal::EntityUID(u)), ValueKind::Lit(Literal::String(t))) => R::V(kbool(cx_tags(c, *u) is Some && cx_tags(c, *u)->Some_0.contains_key(t))),
            _ => R::E,
        },
        BinaryOp::Contains => match k1 { ValueKind::Set(s) => R::V(kbool(s.sp_mem(k2))), _ => R::E },
        BinaryOp::ContainsAll => match (k1, k2) { (ValueKind::Set(s1), ValueKind::Set(s2)) => R::V(kbool(s2.sp_subset(s1))), _ => R::E },
        BinaryOp::ContainsAny => match (k1, k2) { (ValueKind::Set(s1), ValueKind::Set(s2)) => R::V(kbool(!s1.sp_disjoint(s2))), _ => R::E },
    }
}
pub open spec fn ksem(c: Cx, k: ResidualKind) -> R
    decreases k
{
    match k {
        ResidualKind::Var(Var::Principal) => R::V(kuid(cx_principal(c))),
        ResidualKind::Var(Var::Action) => R::V(kuid(cx_action(c))),
        ResidualKind::Var(Var::Resource) => R::V(kuid(cx_resource(c))),
        ResidualKind::Var(Var::Context) => R::V(cx_context(c)),
        ResidualKind::And { left, right } => match want_b(rsem(c, *left)) {
            R::V(k) => if k == kbool(false) { R::V(kbool(false)) } else { want_b(rsem(c, *right)) },
            x => x,
        },
        ResidualKind::Or { left, right } => match want_b(rsem(c, *left)) {
            R::V(k) => if k == kbool(true) { R::V(kbool(true)) } else { want_b(rsem(c, *right)) },
            x => x,
        },
        ResidualKind::If { test_expr, then_expr, else_expr } => match want_b(rsem(c, *test_expr)) {
            R::V(k) => if k == kbool(true) { rsem(c, *then_expr) } else { rsem(c, *else_expr) },
            x => x,
        },
        ResidualKind::Is { expr, entity_type } => match rsem(c, *expr) {
            R::V(ValueKind::Lit(Literal::EntityUID(u))) => R::V(kbool(u.spec_type() == entity_type)),
            R::V(_) => R::E,
            x => x,
        },
        ResidualKind::Like { expr, pattern } => match rsem(c, *expr) {
            R::V(ValueKind::Lit(Literal::String(s))) => R::V(kbool(pattern.spec_match(s))),
            R::V(_) => R::E,
            x => x,
        },
        ResidualKind::UnaryApp { op, arg } => match rsem(c, *arg) { R::V(k) => opt_r(evaluator::sp_unary(op, k)), x => x },
        ResidualKind::BinaryApp { op, arg1, arg2 } => match rsem(c, *arg1) {
            R::V(k1) => match rsem(c, *arg2) { R::V(k2) => bsem(c, op, k1, k2), x => x },
            R::E => match rsem(c, *arg2) { R::U => R::U, _ => R::E },
            R::U => R::U,
        },
        ResidualKind::GetAttr { expr, attr } => match rsem(c, *expr) {
            R::V(ValueKind::Record(m)) => if m@.contains_key(attr) { R::V(m@[attr].value) } else { R::E },
            R::V(ValueKind::Lit(Literal::EntityUID(u))) => match cx_attrs(c, *u) { Some(m) => if m.contains_key(attr) { R::V(m[attr].value) } else { R::E }, None => R::E },
            R::V(_) => R::E,
            x => x,
        },
        ResidualKind::HasAttr { expr, attr } => match rsem(c, *expr) {
            R::V(ValueKind::Record(m)) => R::V(kbool(m@.contains_key(attr))),
            R::V(ValueKind::Lit(Literal::EntityUID(u))) => R::V(kbool(cx_attrs(c, *u) is Some && cx_attrs(c, *u)->Some_0.contains_key(attr))),
            R::V(_) => R::E,
            x => x,
        },
        // every argument / element is evaluated: an error in any of them is an error of the whole.  The result of an extension
        // call itself, and is not pinned down here
        ResidualKind::ExtensionFunctionApp { args, .. } => if v_any_err(c, args) { R::E } else { R::U },
        ResidualKind::Set(es) => if v_any_err(c, es) { R::E } else if v_all_val(c, es) { R::V(mk_set(v_vals(c, es))) } else { R::U },
        ResidualKind::Record(m) => if m_any_err(c, m) { R::E } else if m_all_val(c, m) { R::V(mk_record(m_vals(c, m))) } else { R::U },
    }
}
/// the simplified residual answers what the original answers (an unspecified side allows anything)
pub open spec fn agree(out: R, inp: R) -> bool {
    match inp { R::U => true, R::V(k) => out == R::V(k) || out is U, R::E => out is E || out is U }
}
pub open spec fn is_bool_k(k: ValueKind) -> bool { k is Lit && k->Lit_0 is Bool }
pub open spec fn is_uid_k(k: ValueKind) -> bool { k is Lit && k->Lit_0 is EntityUID }
pub open spec fn is_str_k(k: ValueKind) -> bool { k is Lit && k->Lit_0 is String }
pub open spec fn val_ok(r: R, p: spec_fn(ValueKind) -> bool) -> bool { match r { R::V(k) => p(k), _ => true } }
/// no operand has the wrong type under this completion (what validation guarantees; type soundness itself is C03, not proved here).
/// Overflow, missing attributes / tags / entities and extension calls are NOT type errors: they are what can_err flags.
pub open spec fn types_ok(c: Cx, r: Residual) -> bool
    decreases r
{
    match r { Residual::Partial { kind, .. } => tk(c, kind), _ => true }
}
pub open spec fn bin_types_ok(c: Cx, op: BinaryOp, k1: ValueKind, k2: ValueKind) -> bool {
    match op {
        BinaryOp::Eq | BinaryOp::Less | BinaryOp::LessEq => evaluator::sp_relation(op, k1, k2) is Some,
        BinaryOp::Add | BinaryOp::Sub | BinaryOp::Mul | BinaryOp::GetTag => true,
        BinaryOp::In => is_uid_k(k1) && (is_uid_k(k2) || (k2 is Set && entity_elems(k2->Set_0) is Some)),
        BinaryOp::HasTag => is_uid_k(k1) && is_str_k(k2),
        BinaryOp::Contains => k1 is Set,
        BinaryOp::ContainsAll | BinaryOp::ContainsAny => k1 is Set && k2 is Set,
    }
}
pub open spec fn tk(c: Cx, k: ResidualKind) -> bool
    decreases k
{
    match k {
        ResidualKind::Var(_) => true,
        ResidualKind::And { left, right } => types_ok(c, *left) && types_ok(c, *right) && val_ok(rsem(c, *left), |k: ValueKind| is_bool_k(k)) && val_ok(rsem(c, *right), |k: ValueKind| is_bool_k(k)),
        ResidualKind::Or { left, right } => types_ok(c, *left) && types_ok(c, *right) && val_ok(rsem(c, *left), |k: ValueKind| is_bool_k(k)) && val_ok(rsem(c, *right), |k: ValueKind| is_bool_k(k)),
        ResidualKind::If { test_expr, then_expr, else_expr } => types_ok(c, *test_expr) && types_ok(c, *then_expr) && types_ok(c, *else_expr) && val_ok(rsem(c, *test_expr), |k: ValueKind| is_bool_k(k)),
        ResidualKind::Is { expr, .. } => types_ok(c, *expr) && val_ok(rsem(c, *expr), |k: ValueKind| is_uid_k(k)),
        ResidualKind::Like { expr, .. } => types_ok(c, *expr) && val_ok(rsem(c, *expr), |k: ValueKind| is_str_k(k)),
        ResidualKind::UnaryApp { op, arg } => types_ok(c, *arg) && (op != UnaryOp::Neg ==> val_ok(rsem(c, *arg), |k: ValueKind| evaluator::sp_unary(op, k) is Some)),
        ResidualKind::BinaryApp { op, arg1, arg2 } => types_ok(c, *arg1) && types_ok(c, *arg2)
            && (rsem(c, *arg1) is V && rsem(c, *arg2) is V ==> bin_types_ok(c, op, rsem(c, *arg1)->V_0, rsem(c, *arg2)->V_0)),
        ResidualKind::GetAttr { expr, .. } => types_ok(c, *expr),
        ResidualKind::HasAttr { expr, .. } => types_ok(c, *expr) && val_ok(rsem(c, *expr), |k: ValueKind| k is Record || is_uid_k(k)),
        ResidualKind::ExtensionFunctionApp { args, .. } => forall|i: int| 0 <= i < args@.len() ==> types_ok(c, #[trigger] args@[i]),
        ResidualKind::Set(es) => forall|i: int| 0 <= i < es@.len() ==> types_ok(c, #[trigger] es@[i]),
        ResidualKind::Record(m) => forall|k: SmolStr| m@.contains_key(k) ==> types_ok(c, #[trigger] m@[k]),
    }
}
/// SOUNDNESS of a simplification step, for every completion consistent with the partial inputs under which the input has no type error:
/// the output answers what the input answers, and if the input raises an error the output is flagged as possibly erroring
pub open spec fn sound(ev: &Evaluator<'_>, inp: Residual, out: Residual) -> bool {
    forall|c: Cx| #![trigger rsem(c, out)] #![trigger rsem(c, inp)] cons(ev, c) && types_ok(c, inp) ==> agree(rsem(c, out), rsem(c, inp)) && (rsem(c, inp) is E ==> can_err(out))
}

// ---- lists: set literals and extension-call arguments ----
pub open spec fn list_any_err(c: Cx, rs: Seq<Residual>) -> bool { exists|i: int| 0 <= i < rs.len() && rsem(c, #[trigger] rs[i]) is E }
pub open spec fn list_all_val(c: Cx, rs: Seq<Residual>) -> bool { forall|i: int| 0 <= i < rs.len() ==> rsem(c, #[trigger] rs[i]) is V }
pub open spec fn list_vals(c: Cx, rs: Seq<Residual>) -> Seq<ValueKind> { Seq::new(rs.len(), |i: int| if 0 <= i < rs.len() { rsem(c, rs[i])->V_0 } else { arbitrary() }) }
/// element-wise soundness of the simplified items gives, for every completion, what the three outcomes of the list arms need
pub proof fn lemma_list_sound(ev: &Evaluator<'_>, ins: Seq<Residual>, outs: Seq<Residual>)
    requires ins.len() == outs.len(), forall|i: int| 0 <= i < ins.len() ==> sound(ev, #[trigger] ins[i], outs[i])
    ensures forall|c: Cx| #![trigger list_any_err(c, ins)] #![trigger list_all_val(c, ins)] cons(ev, c) && (forall|i: int| 0 <= i < ins.len() ==> types_ok(c, #[trigger] ins[i])) ==> {
        // an error among the inputs is flagged in the corresponding output, and is an error or unspecified there
        &&& (list_any_err(c, ins) ==> (exists|i: int| 0 <= i < outs.len() && can_err(#[trigger] outs[i])) && (list_any_err(c, outs) || !list_all_val(c, outs)))
        // an error among the outputs: the inputs are an error or unspecified
        &&& (list_any_err(c, outs) ==> list_any_err(c, ins) || !list_all_val(c, ins))
        // all inputs values: the outputs are the same values, or unspecified
        &&& (list_all_val(c, ins) && list_all_val(c, outs) ==> list_vals(c, outs) == list_vals(c, ins))
        &&& (list_all_val(c, ins) ==> !list_any_err(c, outs))
    }
{
    assert forall|c: Cx| #![trigger list_any_err(c, ins)] #![trigger list_all_val(c, ins)] cons(ev, c) && (forall|i: int| 0 <= i < ins.len() ==> types_ok(c, #[trigger] ins[i])) implies ({
        &&& (list_any_err(c, ins) ==> (exists|i: int| 0 <= i < outs.len() && can_err(#[trigger] outs[i])) && (list_any_err(c, outs) || !list_all_val(c, outs)))
        &&& (list_any_err(c, outs) ==> list_any_err(c, ins) || !list_all_val(c, ins))
        &&& (list_all_val(c, ins) && list_all_val(c, outs) ==> list_vals(c, outs) == list_vals(c, ins))
        &&& (list_all_val(c, ins) ==> !list_any_err(c, outs))
    }) by {
        assert forall|i: int| 0 <= i < ins.len() implies agree(rsem(c, #[trigger] outs[i]), rsem(c, ins[i])) && (rsem(c, ins[i]) is E ==> can_err(outs[i])) by {
            assert(sound(ev, ins[i], outs[i])); assert(types_ok(c, ins[i]));
        }
        if list_any_err(c, ins) {
            let i = choose|i: int| 0 <= i < ins.len() && rsem(c, #[trigger] ins[i]) is E;
            assert(can_err(outs[i]));
            assert(rsem(c, outs[i]) is E || rsem(c, outs[i]) is U);
        }
        if list_any_err(c, outs) {
            let i = choose|i: int| 0 <= i < outs.len() && rsem(c, #[trigger] outs[i]) is E;
            assert(agree(rsem(c, outs[i]), rsem(c, ins[i])));
            assert(rsem(c, ins[i]) is E || rsem(c, ins[i]) is U);
        }
        if list_all_val(c, ins) && list_all_val(c, outs) {
            assert forall|i: int| 0 <= i < ins.len() implies list_vals(c, outs)[i] == list_vals(c, ins)[i] by {
                assert(agree(rsem(c, outs[i]), rsem(c, ins[i]))); assert(rsem(c, ins[i]) is V); assert(rsem(c, outs[i]) is V);
            }
            assert(list_vals(c, outs) =~= list_vals(c, ins));
        }
        if list_all_val(c, ins) && list_any_err(c, outs) {
            let i = choose|i: int| 0 <= i < outs.len() && rsem(c, #[trigger] outs[i]) is E;
            assert(agree(rsem(c, outs[i]), rsem(c, ins[i]))); assert(rsem(c, ins[i]) is V);
        }
    }
}

/// the vector predicates used by ksem are the list predicates of the vector's content
pub proof fn lemma_v_list(es: Arc<Vec<Residual>>)
    ensures forall|c: Cx| #![trigger v_any_err(c, es)] #![trigger v_all_val(c, es)] #![trigger v_vals(c, es)]
        v_any_err(c, es) == list_any_err(c, es@) && v_all_val(c, es) == list_all_val(c, es@) && v_vals(c, es) == list_vals(c, es@)
{
    assert forall|c: Cx| #![trigger v_any_err(c, es)] #![trigger v_all_val(c, es)] #![trigger v_vals(c, es)]
        v_any_err(c, es) == list_any_err(c, es@) && v_all_val(c, es) == list_all_val(c, es@) && v_vals(c, es) == list_vals(c, es@) by {
        let rs = es@;
        if list_any_err(c, rs) { let i = choose|i: int| 0 <= i < rs.len() && rsem(c, #[trigger] rs[i]) is E; assert(rsem(c, es@[i]) is E); }
        if v_any_err(c, es) { let i = choose|i: int| 0 <= i < es@.len() && rsem(c, #[trigger] es@[i]) is E; assert(rsem(c, rs[i]) is E); }
        if list_all_val(c, rs) { assert forall|i: int| 0 <= i < es@.len() implies rsem(c, #[trigger] es@[i]) is V by { assert(rsem(c, rs[i]) is V); } }
        if v_all_val(c, es) { assert forall|i: int| 0 <= i < rs.len() implies rsem(c, #[trigger] rs[i]) is V by { assert(rsem(c, es@[i]) is V); } }
        assert(v_vals(c, es) =~= list_vals(c, rs));
    }
}
/// the meaning of a set literal / an extension call in terms of the list predicates
pub proof fn lemma_ksem_set(es: Arc<Vec<Residual>>)
    ensures forall|c: Cx| #[trigger] ksem(c, ResidualKind::Set(es)) == (if list_any_err(c, es@) { R::E } else if list_all_val(c, es@) { R::V(mk_set(list_vals(c, es@))) } else { R::U })
{
    lemma_v_list(es);
    assert forall|c: Cx| #[trigger] ksem(c, ResidualKind::Set(es)) == (if list_any_err(c, es@) { R::E } else if list_all_val(c, es@) { R::V(mk_set(list_vals(c, es@))) } else { R::U }) by {
        assert(ksem(c, ResidualKind::Set(es)) == (if v_any_err(c, es) { R::E } else if v_all_val(c, es) { R::V(mk_set(v_vals(c, es))) } else { R::U }));
    }
}
pub proof fn lemma_ksem_ext(n: Name, args: Arc<Vec<Residual>>)
    ensures forall|c: Cx| #[trigger] ksem(c, ResidualKind::ExtensionFunctionApp { fn_name: n, args }) == (if list_any_err(c, args@) { R::E } else { R::U })
{
    lemma_v_list(args);
    assert forall|c: Cx| #[trigger] ksem(c, ResidualKind::ExtensionFunctionApp { fn_name: n, args }) == (if list_any_err(c, args@) { R::E } else { R::U }) by {
        assert(ksem(c, ResidualKind::ExtensionFunctionApp { fn_name: n, args }) == (if v_any_err(c, args) { R::E } else { R::U }));
    }
}
/// the same for the type condition
pub proof fn lemma_tk_list(k: ResidualKind)
    requires k is Set || k is ExtensionFunctionApp
    ensures forall|c: Cx| #[trigger] tk(c, k) ==> (forall|i: int| 0 <= i < list_of(k).len() ==> types_ok(c, #[trigger] list_of(k)[i]))
{
    assert forall|c: Cx| #[trigger] tk(c, k) implies (forall|i: int| 0 <= i < list_of(k).len() ==> types_ok(c, #[trigger] list_of(k)[i])) by {
        assert forall|i: int| 0 <= i < list_of(k).len() implies types_ok(c, #[trigger] list_of(k)[i]) by {
            match k { ResidualKind::Set(es) => { assert(types_ok(c, es@[i])); }, ResidualKind::ExtensionFunctionApp { args, .. } => { assert(types_ok(c, args@[i])); }, _ => {} }
        }
    }
}
pub open spec fn list_of(k: ResidualKind) -> Seq<Residual> { match k { ResidualKind::Set(es) => es@, ResidualKind::ExtensionFunctionApp { args, .. } => args@, _ => Seq::empty() } }

// ---- record literals ----
pub open spec fn mp_any_err(c: Cx, m: Map<SmolStr, Residual>) -> bool { exists|k: SmolStr| m.contains_key(k) && rsem(c, #[trigger] m[k]) is E }
pub open spec fn mp_all_val(c: Cx, m: Map<SmolStr, Residual>) -> bool { forall|k: SmolStr| m.contains_key(k) ==> rsem(c, #[trigger] m[k]) is V }
pub open spec fn mp_can_err(m: Map<SmolStr, Residual>) -> bool { exists|k: SmolStr| m.contains_key(k) && can_err(#[trigger] m[k]) }
pub proof fn lemma_can_err_record(m: Arc<BTreeMap<SmolStr, Residual>>)
    ensures can_err_kind(ResidualKind::Record(m)) <==> mp_can_err(m@)
{
    reveal_with_fuel(can_err_kind, 2);
    let kd = ResidualKind::Record(m);
    assert(kd->Record_0 == m);
    if mp_can_err(m@) {
        let k = choose|k: SmolStr| m@.contains_key(k) && can_err(#[trigger] m@[k]);
        assert(kd->Record_0@.contains_key(k) && can_err(kd->Record_0@[k]));
    }
    if can_err_kind(kd) {
        let k = choose|k: SmolStr| m@.contains_key(k) && can_err(#[trigger] m@[k]);
        assert(m@.contains_key(k) && can_err(m@[k]));
    }
}
pub proof fn lemma_map_sound(ev: &Evaluator<'_>, mi: Map<SmolStr, Residual>, mo: Map<SmolStr, Residual>)
    requires mi.dom() =~= mo.dom(), forall|k: SmolStr| mi.contains_key(k) ==> sound(ev, #[trigger] mi[k], mo[k])
    ensures forall|c: Cx| #![trigger mp_any_err(c, mi)] #![trigger mp_all_val(c, mi)] cons(ev, c) && (forall|k: SmolStr| mi.contains_key(k) ==> types_ok(c, #[trigger] mi[k])) ==> {
        &&& (mp_any_err(c, mi) ==> mp_can_err(mo) && (mp_any_err(c, mo) || !mp_all_val(c, mo)))
        &&& (mp_any_err(c, mo) ==> mp_any_err(c, mi) || !mp_all_val(c, mi))
        &&& (mp_all_val(c, mi) && mp_all_val(c, mo) ==> forall|k: SmolStr| mi.contains_key(k) ==> rsem(c, #[trigger] mo[k]) == rsem(c, mi[k]))
        &&& (mp_all_val(c, mi) ==> !mp_any_err(c, mo))
    }
{
    assert forall|c: Cx| #![trigger mp_any_err(c, mi)] #![trigger mp_all_val(c, mi)] cons(ev, c) && (forall|k: SmolStr| mi.contains_key(k) ==> types_ok(c, #[trigger] mi[k])) implies ({
        &&& (mp_any_err(c, mi) ==> mp_can_err(mo) && (mp_any_err(c, mo) || !mp_all_val(c, mo)))
        &&& (mp_any_err(c, mo) ==> mp_any_err(c, mi) || !mp_all_val(c, mi))
        &&& (mp_all_val(c, mi) && mp_all_val(c, mo) ==> forall|k: SmolStr| mi.contains_key(k) ==> rsem(c, #[trigger] mo[k]) == rsem(c, mi[k]))
        &&& (mp_all_val(c, mi) ==> !mp_any_err(c, mo))
    }) by {
        assert forall|k: SmolStr| mi.contains_key(k) implies agree(rsem(c, #[trigger] mo[k]), rsem(c, mi[k])) && (rsem(c, mi[k]) is E ==> can_err(mo[k])) by {
            assert(sound(ev, mi[k], mo[k])); assert(types_ok(c, mi[k]));
        }
        if mp_any_err(c, mi) {
            let k = choose|k: SmolStr| mi.contains_key(k) && rsem(c, #[trigger] mi[k]) is E;
            assert(mo.contains_key(k)); assert(can_err(mo[k])); assert(rsem(c, mo[k]) is E || rsem(c, mo[k]) is U);
        }
        if mp_any_err(c, mo) {
            let k = choose|k: SmolStr| mo.contains_key(k) && rsem(c, #[trigger] mo[k]) is E;
            assert(mi.contains_key(k)); assert(agree(rsem(c, mo[k]), rsem(c, mi[k]))); assert(rsem(c, mi[k]) is E || rsem(c, mi[k]) is U);
        }
        if mp_all_val(c, mi) && mp_all_val(c, mo) {
            assert forall|k: SmolStr| mi.contains_key(k) implies rsem(c, #[trigger] mo[k]) == rsem(c, mi[k]) by {
                assert(mo.contains_key(k)); assert(agree(rsem(c, mo[k]), rsem(c, mi[k]))); assert(rsem(c, mi[k]) is V); assert(rsem(c, mo[k]) is V);
            }
        }
        if mp_all_val(c, mi) && mp_any_err(c, mo) {
            let k = choose|k: SmolStr| mo.contains_key(k) && rsem(c, #[trigger] mo[k]) is E;
            assert(mi.contains_key(k)); assert(agree(rsem(c, mo[k]), rsem(c, mi[k]))); assert(rsem(c, mi[k]) is V);
        }
    }
}
/// the meaning of a record literal in terms of the map predicates
pub proof fn lemma_ksem_record(m: Arc<BTreeMap<SmolStr, Residual>>)
    ensures forall|c: Cx| #[trigger] ksem(c, ResidualKind::Record(m)) == (if mp_any_err(c, m@) { R::E } else if mp_all_val(c, m@) { R::V(mk_record(m_vals(c, m))) } else { R::U }),
        forall|c: Cx| #[trigger] tk(c, ResidualKind::Record(m)) ==> (forall|k: SmolStr| m@.contains_key(k) ==> types_ok(c, #[trigger] m@[k])),
{
    assert forall|c: Cx| #[trigger] ksem(c, ResidualKind::Record(m)) == (if mp_any_err(c, m@) { R::E } else if mp_all_val(c, m@) { R::V(mk_record(m_vals(c, m))) } else { R::U }) by {
        let mm = m@;
        if mp_any_err(c, mm) { let k = choose|k: SmolStr| mm.contains_key(k) && rsem(c, #[trigger] mm[k]) is E; assert(rsem(c, m@[k]) is E); }
        if m_any_err(c, m) { let k = choose|k: SmolStr| m@.contains_key(k) && rsem(c, #[trigger] m@[k]) is E; assert(rsem(c, mm[k]) is E); }
        if mp_all_val(c, mm) { assert forall|k: SmolStr| m@.contains_key(k) implies rsem(c, #[trigger] m@[k]) is V by { assert(rsem(c, mm[k]) is V); } }
        if m_all_val(c, m) { assert forall|k: SmolStr| mm.contains_key(k) implies rsem(c, #[trigger] mm[k]) is V by { assert(rsem(c, m@[k]) is V); } }
        assert(ksem(c, ResidualKind::Record(m)) == (if m_any_err(c, m) { R::E } else if m_all_val(c, m) { R::V(mk_record(m_vals(c, m))) } else { R::U }));
    }
    assert forall|c: Cx| #[trigger] tk(c, ResidualKind::Record(m)) implies (forall|k: SmolStr| m@.contains_key(k) ==> types_ok(c, #[trigger] m@[k])) by {}
}
/// interpreting every field of a record literal gives a map over the same field names whose values are sound field by field
pub proof fn lemma_record_collect(ev: &Evaluator<'_>, m: Arc<BTreeMap<SmolStr, Residual>>, items: Seq<(SmolStr, Residual)>, rec: BTreeMap<SmolStr, Residual>)
    requires m.order_ok(), items.len() == m.key_order().len(),
        forall|i: int| 0 <= i < items.len() ==> (#[trigger] items[i]).0 == m.key_order()[i] && sound(ev, m@[m.key_order()[i]], items[i].1),
        rec@ == vx_map_of(items),
    ensures rec@.dom() =~= m@.dom(), forall|k: SmolStr| m@.contains_key(k) ==> sound(ev, #[trigger] m@[k], rec@[k]), rec.key_order() == m.key_order(),
{
    let ko = m.key_order();
    lemma_vx_map_of_dom(items);
    assert forall|a: int, b: int| 0 <= a < b < items.len() implies (#[trigger] items[a]).0 != (#[trigger] items[b]).0 by { assert(ko[a] != ko[b]); }
    assert forall|k: SmolStr| rec@.contains_key(k) <==> m@.contains_key(k) by {
        if rec@.contains_key(k) { let i = choose|i: int| 0 <= i < items.len() && (#[trigger] items[i]).0 == k; assert(ko[i] == k); }
        if m@.contains_key(k) { assert(ko.contains(k)); let i = choose|i: int| 0 <= i < ko.len() && ko[i] == k; assert(items[i].0 == k); }
    }
    assert forall|k: SmolStr| m@.contains_key(k) implies sound(ev, #[trigger] m@[k], rec@[k]) by {
        assert(ko.contains(k)); let i = choose|i: int| 0 <= i < ko.len() && ko[i] == k;
        lemma_vx_map_of_val(items, i);
        assert(items[i].0 == k);
    }
    axiom_btreemap_key_order_dom(&rec, &*m);
}
