// ---- C14: what a residual means under a completion of the partial inputs ----
/// a completion: a concrete request and entity store (opaque; read through the functions below)
#[verifier::external_body] pub struct Cx { _p: u8 }
pub uninterp spec fn cx_principal(c: Cx) -> EntityUID;
pub uninterp spec fn cx_resource(c: Cx) -> EntityUID;
pub uninterp spec fn cx_action(c: Cx) -> EntityUID;
pub uninterp spec fn cx_context(c: Cx) -> ValueKind;
/// stored ancestors of an entity (empty for an entity without a record)
pub uninterp spec fn cx_ancestors(c: Cx, u: EntityUID) -> SSet<EntityUID>;
/// attributes / tags of an entity; None: the store has no such entity
pub uninterp spec fn cx_attrs(c: Cx, u: EntityUID) -> Option<Map<SmolStr, Value>>;
pub uninterp spec fn cx_tags(c: Cx, u: EntityUID) -> Option<Map<SmolStr, Value>>;
/// the completion agrees with everything the partial request and the partial entities know
pub open spec fn cons(ev: &Evaluator<'_>, c: Cx) -> bool {
    let q = ev.request; let es = ev.entities;
    &&& (q.sp_principal() is Some ==> cx_principal(c) == q.sp_principal()->Some_0)
    &&& cx_principal(c).spec_type() == q.sp_principal_type()
    &&& (q.sp_resource() is Some ==> cx_resource(c) == q.sp_resource()->Some_0)
    &&& cx_resource(c).spec_type() == q.sp_resource_type()
    &&& cx_action(c) == q.sp_action()
    &&& (q.sp_context() is Some ==> cx_context(c) == ValueKind::Record(q.sp_context()->Some_0))
    &&& forall|u: EntityUID| #![trigger es.sp_ancestors(u)] es.sp_ancestors(u) is Some ==> cx_ancestors(c, u) == es.sp_ancestors(u)->Some_0
    &&& forall|u: EntityUID| #![trigger es.sp_attrs(u)] es.sp_attrs(u) is Some ==> cx_attrs(c, u) == Some(es.sp_attrs(u)->Some_0)
    &&& forall|u: EntityUID| #![trigger es.sp_tags(u)] es.sp_tags(u) is Some ==> cx_tags(c, u) == Some(es.sp_tags(u)->Some_0)
}
/// result of evaluating under a completion: a value, an error, or not specified here (extension calls, set and record literals)
pub enum R { V(ValueKind), E, U }
pub open spec fn kbool(b: bool) -> ValueKind { ValueKind::Lit(Literal::Bool(b)) }
pub open spec fn kuid(u: EntityUID) -> ValueKind { ValueKind::Lit(Literal::EntityUID(Arc::new(u))) }
pub open spec fn as_b(r: R) -> Option<bool> { match r { R::V(ValueKind::Lit(Literal::Bool(b))) => Some(b), _ => None } }
/// a boolean operand: its boolean, an error (also for a non-boolean value), or unspecified
pub open spec fn want_b(r: R) -> R { match r { R::V(ValueKind::Lit(Literal::Bool(_))) => r, R::V(_) => R::E, x => x } }
pub open spec fn opt_r(o: Option<ValueKind>) -> R { match o { Some(k) => R::V(k), None => R::E } }
pub open spec fn rsem(c: Cx, r: Residual) -> R
    decreases r
{
    match r {
        Residual::Concrete { value, .. } => R::V(value.value),
        Residual::Error(_) => R::E,
        Residual::Partial { kind, .. } => ksem(c, kind),
    }
}
pub open spec fn bsem(c: Cx, op: BinaryOp, k1: ValueKind, k2: ValueKind) -> R {
    match op {
        BinaryOp::Eq | BinaryOp::Less | BinaryOp::LessEq => opt_r(evaluator::sp_relation(op, k1, k2)),
        BinaryOp::Add | BinaryOp::Sub | BinaryOp::Mul => opt_r(evaluator::sp_arith(op, k1, k2)),
        BinaryOp::In => match k1 {
            ValueKind::Lit(Literal::EntityUID(u1)) => match k2 {
                ValueKind::Lit(Literal::EntityUID(u2)) => R::V(kbool(*u1 == *u2 || cx_ancestors(c, *u1).contains(*u2))),
                ValueKind::Set(s) => match entity_elems(s) {
                    Some(us) => R::V(kbool(us.contains(*u1) || !us.disjoint(cx_ancestors(c, *u1)))),
                    None => R::E,
                },
                _ => R::E,
            },
            _ => R::E,
        },
        BinaryOp::GetTag => match (k1, k2) {
            (ValueKind::Lit(Literal::EntityUID(u)), ValueKind::Lit(Literal::String(t))) => match cx_tags(c, *u) {
                Some(m) => if m.contains_key(t) { R::V(m[t].value) } else { R::E },
                None => R::E,
            },
            _ => R::E,
        },
        BinaryOp::HasTag => match (k1, k2) {
            (ValueKind::Lit(Literal::EntityUID(u)), ValueKind::Lit(Literal::String(t))) => R::V(kbool(cx_tags(c, *u) is Some && cx_tags(c, *u)->Some_0.contains_key(t))),
            _ => R::E,
        },
        BinaryOp::Contains => match k1 { ValueKind::Set(s) => R::V(kbool(s.sp_mem(k2))), _ => R::E },
        BinaryOp::ContainsAll => match (k1, k2) { (ValueKind::Set(s1), ValueKind::Set(s2)) => R::V(kbool(s2.sp_subset(s1))), _ => R::E },
        BinaryOp::ContainsAny => match (k1, k2) { (ValueKind::Set(s1), ValueKind::Set(s2)) => R::V(kbool(!s1.sp_disjoint(s2))), _ => R::E },
    }
}
pub open spec fn ksem(c: Cx, k: ResidualKind) -> R
    decreases k
{
    match k {
        ResidualKind::Var(Var::Principal) => R::V(kuid(cx_principal(c))),
        ResidualKind::Var(Var::Action) => R::V(kuid(cx_action(c))),
        ResidualKind::Var(Var::Resource) => R::V(kuid(cx_resource(c))),
        ResidualKind::Var(Var::Context) => R::V(cx_context(c)),
        ResidualKind::And { left, right } => match want_b(rsem(c, *left)) {
            R::V(k) => if k == kbool(false) { R::V(kbool(false)) } else { want_b(rsem(c, *right)) },
            x => x,
        },
        ResidualKind::Or { left, right } => match want_b(rsem(c, *left)) {
            R::V(k) => if k == kbool(true) { R::V(kbool(true)) } else { want_b(rsem(c, *right)) },
            x => x,
        },
        ResidualKind::If { test_expr, then_expr, else_expr } => match want_b(rsem(c, *test_expr)) {
            R::V(k) => if k == kbool(true) { rsem(c, *then_expr) } else { rsem(c, *else_expr) },
            x => x,
        },
        ResidualKind::Is { expr, entity_type } => match rsem(c, *expr) {
            R::V(ValueKind::Lit(Literal::EntityUID(u))) => R::V(kbool(u.spec_type() == entity_type)),
            R::V(_) => R::E,
            x => x,
        },
        ResidualKind::Like { expr, pattern } => match rsem(c, *expr) {
            R::V(ValueKind::Lit(Literal::String(s))) => R::V(kbool(pattern.spec_match(s))),
            R::V(_) => R::E,
            x => x,
        },
        ResidualKind::UnaryApp { op, arg } => match rsem(c, *arg) { R::V(k) => opt_r(evaluator::sp_unary(op, k)), x => x },
        ResidualKind::BinaryApp { op, arg1, arg2 } => match rsem(c, *arg1) {
            R::V(k1) => match rsem(c, *arg2) { R::V(k2) => bsem(c, op, k1, k2), x => x },
            R::E => match rsem(c, *arg2) { R::U => R::U, _ => R::E },
            R::U => R::U,
        },
        ResidualKind::GetAttr { expr, attr } => match rsem(c, *expr) {
            R::V(ValueKind::Record(m)) => if m@.contains_key(attr) { R::V(m@[attr].value) } else { R::E },
            R::V(ValueKind::Lit(Literal::EntityUID(u))) => match cx_attrs(c, *u) { Some(m) => if m.contains_key(attr) { R::V(m[attr].value) } else { R::E }, None => R::E },
            R::V(_) => R::E,
            x => x,
        },
        ResidualKind::HasAttr { expr, attr } => match rsem(c, *expr) {
            R::V(ValueKind::Record(m)) => R::V(kbool(m@.contains_key(attr))),
            R::V(ValueKind::Lit(Literal::EntityUID(u))) => R::V(kbool(cx_attrs(c, *u) is Some && cx_attrs(c, *u)->Some_0.contains_key(attr))),
            R::V(_) => R::E,
            x => x,
        },
        // extension calls, set and record literals: not pinned down here
        ResidualKind::ExtensionFunctionApp { .. } => R::U,
        ResidualKind::Set(_) => R::U,
        ResidualKind::Record(_) => R::U,
    }
}
/// the simplified residual answers what the original answers (an unspecified side allows anything)
pub open spec fn agree(out: R, inp: R) -> bool {
    match inp { R::U => true, R::V(k) => out == R::V(k) || out is U, R::E => out is E || out is U }
}
pub open spec fn is_bool_k(k: ValueKind) -> bool { k is Lit && k->Lit_0 is Bool }
pub open spec fn is_uid_k(k: ValueKind) -> bool { k is Lit && k->Lit_0 is EntityUID }
pub open spec fn is_str_k(k: ValueKind) -> bool { k is Lit && k->Lit_0 is String }
pub open spec fn val_ok(r: R, p: spec_fn(ValueKind) -> bool) -> bool { match r { R::V(k) => p(k), _ => true } }
/// no operand has the wrong type under this completion (what validation guarantees; type soundness itself is C03, not proved here).
/// Overflow, missing attributes / tags / entities and extension calls are NOT type errors: they are what can_err flags.
pub open spec fn types_ok(c: Cx, r: Residual) -> bool
    decreases r
{
    match r { Residual::Partial { kind, .. } => tk(c, kind), _ => true }
}
pub open spec fn bin_types_ok(c: Cx, op: BinaryOp, k1: ValueKind, k2: ValueKind) -> bool {
    match op {
        BinaryOp::Eq | BinaryOp::Less | BinaryOp::LessEq => evaluator::sp_relation(op, k1, k2) is Some,
        BinaryOp::Add | BinaryOp::Sub | BinaryOp::Mul | BinaryOp::GetTag => true,
        BinaryOp::In => is_uid_k(k1) && (is_uid_k(k2) || (k2 is Set && entity_elems(k2->Set_0) is Some)),
        BinaryOp::HasTag => is_uid_k(k1) && is_str_k(k2),
        BinaryOp::Contains => k1 is Set,
        BinaryOp::ContainsAll | BinaryOp::ContainsAny => k1 is Set && k2 is Set,
    }
}
pub open spec fn tk(c: Cx, k: ResidualKind) -> bool
    decreases k
{
    match k {
        ResidualKind::Var(_) => true,
        ResidualKind::And { left, right } => types_ok(c, *left) && types_ok(c, *right) && val_ok(rsem(c, *left), |k: ValueKind| is_bool_k(k)) && val_ok(rsem(c, *right), |k: ValueKind| is_bool_k(k)),
        ResidualKind::Or { left, right } => types_ok(c, *left) && types_ok(c, *right) && val_ok(rsem(c, *left), |k: ValueKind| is_bool_k(k)) && val_ok(rsem(c, *right), |k: ValueKind| is_bool_k(k)),
        ResidualKind::If { test_expr, then_expr, else_expr } => types_ok(c, *test_expr) && types_ok(c, *then_expr) && types_ok(c, *else_expr) && val_ok(rsem(c, *test_expr), |k: ValueKind| is_bool_k(k)),
        ResidualKind::Is { expr, .. } => types_ok(c, *expr) && val_ok(rsem(c, *expr), |k: ValueKind| is_uid_k(k)),
        ResidualKind::Like { expr, .. } => types_ok(c, *expr) && val_ok(rsem(c, *expr), |k: ValueKind| is_str_k(k)),
        ResidualKind::UnaryApp { op, arg } => types_ok(c, *arg) && (op != UnaryOp::Neg ==> val_ok(rsem(c, *arg), |k: ValueKind| evaluator::sp_unary(op, k) is Some)),
        ResidualKind::BinaryApp { op, arg1, arg2 } => types_ok(c, *arg1) && types_ok(c, *arg2)
            && (rsem(c, *arg1) is V && rsem(c, *arg2) is V ==> bin_types_ok(c, op, rsem(c, *arg1)->V_0, rsem(c, *arg2)->V_0)),
        ResidualKind::GetAttr { expr, .. } => types_ok(c, *expr),
        ResidualKind::HasAttr { expr, .. } => types_ok(c, *expr) && val_ok(rsem(c, *expr), |k: ValueKind| k is Record || is_uid_k(k)),
        ResidualKind::ExtensionFunctionApp { .. } => true,
        ResidualKind::Set(_) => true,
        ResidualKind::Record(_) => true,
    }
}
/// SOUNDNESS of a simplification step, for every completion consistent with the partial inputs under which the input has no type error:
/// the output answers what the input answers, and if the input raises an error the output is flagged as possibly erroring
pub open spec fn sound(ev: &Evaluator<'_>, inp: Residual, out: Residual) -> bool {
    forall|c: Cx| #![trigger rsem(c, out)] #![trigger rsem(c, inp)] cons(ev, c) && types_ok(c, inp) ==> agree(rsem(c, out), rsem(c, inp)) && (rsem(c, inp) is E ==> can_err(out))
}
