"""Unit tpe_eval: the type-aware partial evaluator tpe::Evaluator::interpret (C14)."""
import re
import os, copy, importlib.util
from vx.assemble import Fn, Type, Raw, Loop, ClosureRw, FnRw, cmp_rw

PROPERTIES = ['C14', 'C15']
HEADER = '#![feature(allocator_api)]'
STDMODEL = ['iter.rs', 'hash.rs', 'btree.rs', 'std.rs']
EV = 'cedar-policy-core/src/tpe/evaluator.rs'
RES = 'cedar-policy-core/src/tpe/residual.rs'
ASSUMPTIONS = [
    'A completion (concrete request + entity store) is read through uninterpreted functions; `cons` says it agrees with everything the partial request / partial entities know (the checks of unit tpe_consist decide exactly this).',
    'Soundness is stated for completions under which the input residual has no TYPE error (types_ok: what validation guarantees; type soundness itself is C03 and not proved). Overflow, missing attributes / tags / entities and extension calls are not type errors.',
    'The stack-depth guard is assumed to pass (on overflow TPE answers Residual::Error). Extension values are identified with their canonical representation (normalize_ext_value).',
    'Extension calls, set and record literals are evaluated by the code under contract but their meaning is left unspecified (U): only their unwrap sites are proved unreachable.',
    'Operator semantics (binary_relation / binary_arith / unary_app: unit eval_ops), Set operations (unit value_set), Pattern::wildcard_match (unit pattern) enter as uninterpreted functions of the operand kinds.',
]
_s = importlib.util.spec_from_file_location('vx_tpe_residual_for_eval', os.path.join(os.path.dirname(os.path.abspath(__file__)), '..', 'tpe_residual', 'unit.py'))
_m = importlib.util.module_from_spec(_s); _s.loader.exec_module(_m)
def _rebased(items):
    out = []
    for it in items:
        it = copy.copy(it)
        if isinstance(it, Raw) and getattr(it, 'file', None) and not it.file.startswith('../'):
            it.file = '../tpe_residual/' + it.file
        out.append(it)
    return out
NODEC = ['verifier::exec_allows_no_decreases_clause']


def split_record_collect(text):
    rx = re.compile(r'let record: BTreeMap<_, _> = (m\s*\.iter\(\)\s*\.map\(.*?\}\))\s*\.collect\(\);', re.S)
    def rep(m):
        return ('let __vx_it = ' + m.group(1) + ';\n                let ghost __vx_items = __vx_it.items();\n'
                '                let record: BTreeMap<_, _> = __vx_it.collect();')
    return rx.subn(rep, text, count=1)

RW = [
    (r'crate::evaluator::', 'evaluator::', None),
    (r'EntityUID::try_from\(self\.request\.principal\(\)\.clone\(\)\)', 'self.request.vx_principal_uid()', 1),
    (r'EntityUID::try_from\(self\.request\.resource\(\)\.clone\(\)\)', 'self.request.vx_resource_uid()', 1),
    (r'mk_concrete\(([^\n]*?)\.into\(\)\)', r'mk_concrete(vx_val(\1))', None),
    (r'vx_val\(\(([^\n]*?)\)\)\)', r'vx_val(\1))', None),
    (r'uid\.entity_type\(\) == entity_type', 'vx_etype_eq(uid.entity_type(), entity_type)', None),
    (r'entity_type == self\.request\.(principal|resource)_type\(\)', r'vx_etype_eq(entity_type, self.request.\1_type())', None),
    (r'uid1 == uid2', 'vx_uid_eq(uid1, uid2)', None),
    # --- the four local constructors
    ClosureRw(r'', '', 'Residual', ensures='x == Residual::Error(r.spec_ty()) && can_err(x) && forall|c: Cx| #[trigger] rsem(c, x) == R::E', rname='x', count=1, follow=r'Residual::Error'),
    ClosureRw(r'kind: ResidualKind', 'kind: ResidualKind', 'Residual', ensures='x == (Residual::Partial { kind, ty: r.spec_ty() }) && can_err(x) == can_err_kind(kind) && forall|c: Cx| #[trigger] rsem(c, x) == ksem(c, kind)', rname='x', count=1),
    ClosureRw(r'v: Value', 'v: Value', 'Residual', ensures='x is Concrete && x->Concrete_value.value == v.value && x->Concrete_ty == r.spec_ty() && !can_err(x) && forall|c: Cx| #[trigger] rsem(c, x) == R::V(v.value)', rname='x', count=1),
    ClosureRw(r'arg1, arg2', 'arg1: Residual, arg2: Residual', 'Residual', ensures='x == (Residual::Partial { kind: ResidualKind::BinaryApp { op: *op, arg1: Arc::new(arg1), arg2: Arc::new(arg2) }, ty: r.spec_ty() }) && can_err(x) == can_err_kind(ResidualKind::BinaryApp { op: *op, arg1: Arc::new(arg1), arg2: Arc::new(arg2) }) && forall|c: Cx| #[trigger] rsem(c, x) == ksem(c, ResidualKind::BinaryApp { op: *op, arg1: Arc::new(arg1), arg2: Arc::new(arg2) })', rname='x', count=1),
    # --- lists: arguments of extension calls, set elements, record fields
    (r'args\.iter\(\)\.map\(', 'vx_arc_vec_iter(args).map(', 1),
    (r'es\.iter\(\)\.map\(', 'vx_arc_vec_iter(es).map(', 1),
    ClosureRw(r'a', 'a: &Residual', 'Residual', ensures='sound(self, *a, x)', rname='x', count=1, follow=r'self\.interpret\(a\)'),
    ClosureRw(r'e', 'e: &Residual', 'Residual', ensures='sound(self, *e, x)', rname='x', count=1, follow=r'self\.interpret\(e\)'),
    (r'(args|es)\.iter\(\)\.all\(Residual::is_concrete\)', r'vx_vec_iter(&\1).all(|x: &Residual| -> (b: bool) ensures b == (*x is Concrete) { x.is_concrete() })', 2),
    (r'(args|es)\.iter\(\)\.any\(Residual::is_error\)', r'vx_vec_iter(&\1).any(|x: &Residual| -> (b: bool) ensures b == (*x is Error) { x.is_error() })', 2),
    (r'(args|es)\.into_iter\(\)\.map\(', r'vx_vec_into_iter(\1).map(', 2),
    ClosureRw(r'a', 'a: Residual', 'Value', requires='a is Concrete', ensures='v == a->Concrete_value', rname='v', count=2, follow=r'\{'),
    (r'Value::try_from\((a|r)\)\.unwrap\(\)', r'Value::try_from_residual(\1).unwrap()', 3),
    ClosureRw(r'\(a, e\)', '_vxp: (&SmolStr, &Residual)', '(SmolStr, Residual)', ensures='x.0 == *_vxp.0 && sound(self, *_vxp.1, x.1)', rname='x', destructure='(a, e)', count=1),
    ClosureRw(r'\(_, r\)', '_vxp: (&SmolStr, &Residual)', 'bool', ensures='b == (*_vxp.1 is Concrete)', rname='b', destructure='(_, r)', count=1, follow=r'r\.is_concrete'),
    ClosureRw(r'\(_, r\)', '_vxp: (&SmolStr, &Residual)', 'bool', ensures='b == (*_vxp.1 is Error)', rname='b', destructure='(_, r)', count=1, follow=r'r\.is_error'),
    ClosureRw(r'\(a, r\)', '_vxp: (SmolStr, Residual)', '(SmolStr, Value)', requires='_vxp.1 is Concrete', ensures='x.0 == _vxp.0 && x.1 == _vxp.1->Concrete_value', rname='x', destructure='(a, r)', count=1),
    FnRw('statement split of `let record: BTreeMap<_, _> = m.iter().map(..).collect();` (the mapped iterator is bound to a local first; order preserved)', split_record_collect, 1),
    # --- `in` against a set of entities
    ClosureRw(r'ancestors', 'ancestors: &HashSet<EntityUID>', 'bool', ensures='b == !uids@.disjoint(ancestors@)', rname='b', count=1),
    ClosureRw(r'uid2', 'uid2: &EntityUID', 'bool', ensures='c == ancestors@.contains(*uid2)', rname='c', count=1),
]
ITEMS = _rebased(_m.ITEMS) + [
    Raw(file='prelude.rs', tag='prelude'),
    Type(EV, 'struct Evaluator'),
    Raw(file='spec.rs', tag='spec'),
    Fn(RES, 'impl Residual > fn ty', name='Residual::ty', wrap='impl Residual', ensures=[('ty', '*r == self.spec_ty()')]),
    Fn(RES, 'impl Residual > fn is_concrete', name='Residual::is_concrete', wrap='impl Residual', ensures=[('concrete', 'r == (*self is Concrete)')]),
    Fn(RES, 'impl Residual > fn is_error', name='Residual::is_error', wrap='impl Residual', ensures=[('error', 'r == (*self is Error)')]),
    Fn(RES, 'impl TryFrom<Residual> for Value > fn try_from', name='Value::try_from<Residual>', wrap='impl Value',
       sig_rewrites=[(r'fn try_from\(', 'fn try_from_residual(', 1), (r'Self::Error', '()', 1)],
       ensures=[('concrete', 'r is Ok <==> value is Concrete'), ('value', 'r is Ok ==> r->Ok_0 == value->Concrete_value')]),
    Fn(EV, "impl Evaluator<'_> > fn interpret", name='Evaluator::interpret', wrap="impl Evaluator<'_>", attrs=NODEC + ['verifier::spinoff_prover'], ret='out',
       ensures=[('sound_concrete', '!(*r is Partial) ==> sound(self, *r, out)'),
                ('sound_var', '*r is Partial && r->Partial_kind is Var ==> sound(self, *r, out)'),
                ('sound_and', '*r is Partial && r->Partial_kind is And ==> sound(self, *r, out)'),
                ('sound_or', '*r is Partial && r->Partial_kind is Or ==> sound(self, *r, out)'),
                ('sound_if', '*r is Partial && r->Partial_kind is If ==> sound(self, *r, out)'),
                ('sound_is', '*r is Partial && r->Partial_kind is Is ==> sound(self, *r, out)'),
                ('sound_like', '*r is Partial && r->Partial_kind is Like ==> sound(self, *r, out)'),
                ('sound_binaryapp', '*r is Partial && r->Partial_kind is BinaryApp ==> sound(self, *r, out)'),
                ('sound_getattr', '*r is Partial && r->Partial_kind is GetAttr ==> sound(self, *r, out)'),
                ('sound_hasattr', '*r is Partial && r->Partial_kind is HasAttr ==> sound(self, *r, out)'),
                ('sound_unaryapp', '*r is Partial && r->Partial_kind is UnaryApp ==> sound(self, *r, out)'),
                ('sound_extensionfunctionapp', '*r is Partial && r->Partial_kind is ExtensionFunctionApp ==> sound(self, *r, out)'),
                ('sound_set', '*r is Partial && r->Partial_kind is Set ==> sound(self, *r, out)'),
                ('sound_record', '*r is Partial && r->Partial_kind is Record ==> sound(self, *r, out)'),
                ],
       hints=[(r'ResidualKind::GetAttr \{ expr, attr \} => \{', 'let ghost subr = expr;'),
              (r'let es: Vec<_> = vx_arc_vec_iter\(es\)\.map\(.*?\)\.collect\(\);', '''proof {
                    let ins = list_of(r->Partial_kind);
                    lemma_list_sound(self, ins, es@);
                    lemma_ksem_set(r->Partial_kind->Set_0);
                    lemma_tk_list(r->Partial_kind);
                    assert forall|c: Cx| #[trigger] rsem(c, *r) == ksem(c, r->Partial_kind) by {}
                    assert forall|c: Cx| #[trigger] types_ok(c, *r) == tk(c, r->Partial_kind) by {}
                    assert forall|v: Arc<Vec<Residual>>| v@ == es@ implies forall|c: Cx| #[trigger] ksem(c, ResidualKind::Set(v)) == (if list_any_err(c, es@) { R::E } else if list_all_val(c, es@) { R::V(mk_set(list_vals(c, es@))) } else { R::U }) by { lemma_ksem_set(v); }
                }
                let ghost g_outs = es@;'''),
              (r'let args: Vec<_> = vx_arc_vec_iter\(args\)\.map\(.*?\)\.collect\(\);', '''proof {
                    let ins = list_of(r->Partial_kind);
                    lemma_list_sound(self, ins, args@);
                    lemma_ksem_ext(*fn_name, r->Partial_kind->args);
                    lemma_tk_list(r->Partial_kind);
                    assert forall|c: Cx| #[trigger] rsem(c, *r) == ksem(c, r->Partial_kind) by {}
                    assert forall|c: Cx| #[trigger] types_ok(c, *r) == tk(c, r->Partial_kind) by {}
                    assert forall|v: Arc<Vec<Residual>>| v@ == args@ implies forall|c: Cx| #[trigger] ksem(c, ResidualKind::ExtensionFunctionApp { fn_name: *fn_name, args: v }) == (if list_any_err(c, args@) { R::E } else { R::U }) by { lemma_ksem_ext(*fn_name, v); }
                }
                let ghost g_outs = args@;'''),
              (r'let record: BTreeMap<_, _> = __vx_it\.collect\(\);', '''proof {
                    let mi = r->Partial_kind->Record_0;
                    assert forall|i: int| 0 <= i < __vx_items.len() implies (#[trigger] __vx_items[i]).0 == mi.key_order()[i] && sound(self, mi@[mi.key_order()[i]], __vx_items[i].1) by {}
                    lemma_record_collect(self, mi, __vx_items, record);
                    lemma_map_sound(self, mi@, record@);
                    lemma_ksem_record(mi);
                    assert forall|c: Cx| #[trigger] rsem(c, *r) == ksem(c, r->Partial_kind) by {}
                    assert forall|c: Cx| #[trigger] types_ok(c, *r) == tk(c, r->Partial_kind) by {}
                    lemma_ksem_record(Arc::new(record));
                    assert(Arc::new(record)@ == record@);
                    lemma_can_err_record(Arc::new(record));
                    assert forall|c: Cx| cons(self, c) && types_ok(c, *r) && mp_all_val(c, mi@) && mp_all_val(c, record@) implies #[trigger] m_vals(c, Arc::new(record)) == m_vals(c, mi) by {
                        assert(tk(c, r->Partial_kind));
                        assert forall|i: int| 0 <= i < mi.key_order().len() implies m_vals(c, Arc::new(record))[i] == m_vals(c, mi)[i] by {
                            let k = mi.key_order()[i]; assert(mi@.contains_key(k)); assert(rsem(c, record@[k]) == rsem(c, mi@[k]));
                        }
                        assert(m_vals(c, Arc::new(record)) =~= m_vals(c, mi));
                    }
                    assert forall|c: Cx, k: SmolStr| record@.contains_key(k) && record@[k] is Error implies mp_any_err(c, record@) by { assert(rsem(c, record@[k]) is E); }
                }
                let ghost g_rec = record;'''),
              (r'let m = record\s*\.into_iter\(\)\s*\.map\(.*?\}\s*\}\);', '''proof {
                        let mi = r->Partial_kind->Record_0;
                        assert forall|c: Cx| mp_all_val(c, g_rec@) by { assert forall|k: SmolStr| g_rec@.contains_key(k) implies rsem(c, #[trigger] g_rec@[k]) is V by { assert(g_rec@[k] is Concrete); } }
                        assert forall|c: Cx| cons(self, c) && types_ok(c, *r) && mp_all_val(c, mi@) implies #[trigger] m_vals(c, mi) == pair_kinds(m.items()) by {
                            assert(tk(c, r->Partial_kind));
                            assert forall|i: int| 0 <= i < mi.key_order().len() implies m_vals(c, mi)[i] == #[trigger] pair_kinds(m.items())[i] by {
                                let k = mi.key_order()[i];
                                assert(g_rec.pairs()[i] == (k, g_rec@[k]));
                                assert(g_rec@[k] is Concrete);
                                assert(rsem(c, g_rec@[k]) == rsem(c, mi@[k]));
                            }
                            assert(m_vals(c, mi) =~= pair_kinds(m.items()));
                        }
                    }'''),
              (r'let vals = vx_vec_into_iter\(es\)\.map\(.*?\}\s*\}\);', '''proof {
                        assert forall|c: Cx| list_all_val(c, g_outs) && #[trigger] list_vals(c, g_outs) == kinds_of(vals.items()) by {
                            assert forall|i: int| 0 <= i < g_outs.len() implies rsem(c, #[trigger] g_outs[i]) == R::V(kinds_of(vals.items())[i]) by { assert(g_outs[i] is Concrete); }
                            assert(list_vals(c, g_outs) =~= kinds_of(vals.items()));
                        }
                    }'''),
              (r'ResidualKind::GetAttr \{ expr, attr \} => \{\s*let expr = self\.interpret\(expr\);', '''proof {
                    assert(r->Partial_kind->GetAttr_expr == *subr);
                    assert(sound(self, **subr, expr));
                    assert forall|c: Cx| #[trigger] rsem(c, *r) == ksem(c, r->Partial_kind) by {}
                    assert forall|c: Cx| types_ok(c, *r) implies #[trigger] types_ok(c, **subr) by {}
                    assert forall|c: Cx| #[trigger] ksem(c, r->Partial_kind) == (match rsem(c, **subr) {
                        R::V(ValueKind::Record(m)) => if m@.contains_key(*attr) { R::V(m@[*attr].value) } else { R::E },
                        R::V(ValueKind::Lit(Literal::EntityUID(u))) => match cx_attrs(c, *u) { Some(m) => if m.contains_key(*attr) { R::V(m[*attr].value) } else { R::E }, None => R::E },
                        R::V(_) => R::E,
                        x => x,
                    }) by {}
                }''')],
       rewrites=RW),
]
VERUS_ARGS = ['--multiple-errors', '30']
# a false obligation in this 450-line function is refuted only after a long search: give the solver room (the unchanged tree needs ~6 s)
RLIMIT = {'quick': 400, 'thorough': 1200}
CANARIES = ['Residual::is_concrete']   # a global-consistency canary (interpret has no precondition; an  on it only burns solver time)
# normalize_ext_value is represented by an ASSUMED contract ("same value"): its code is reviewed, not verified
WATCH = [('cedar-policy-core/src/tpe/evaluator.rs', 'fn normalize_ext_value'), ('cedar-policy-core/src/tpe/evaluator.rs', 'fn normalize_ext_value_inner')]
