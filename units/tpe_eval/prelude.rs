// ---- tpe_eval prelude (trusted declarations) ----
#[verifier::external_body] pub struct Eid { _p: u8 }
#[verifier::external_body] pub struct Extensions<'a> { _p: &'a u8 }
#[verifier::external_body] pub struct PartialRequest { _p: u8 }
#[verifier::external_body] pub struct PartialEntities { _p: u8 }
#[verifier::external_body] pub struct PartialEntityUID { _p: u8 }
impl Clone for Type { #[verifier::external_body] fn clone(&self) -> (r: Self) ensures r == *self { unimplemented!() } }
impl Clone for Residual { #[verifier::external_body] fn clone(&self) -> (r: Self) ensures r == *self { unimplemented!() } }
impl Clone for Value { #[verifier::external_body] fn clone(&self) -> (r: Self) ensures r == *self { unimplemented!() } }
impl Clone for EntityUID { #[verifier::external_body] fn clone(&self) -> (r: Self) ensures r == *self { unimplemented!() } }
impl Clone for EntityType { #[verifier::external_body] fn clone(&self) -> (r: Self) ensures r == *self { unimplemented!() } }
impl Clone for SmolStr { #[verifier::external_body] fn clone(&self) -> (r: Self) ensures r == *self { unimplemented!() } }
impl Clone for Pattern { #[verifier::external_body] fn clone(&self) -> (r: Self) ensures r == *self { unimplemented!() } }
impl Clone for Name { #[verifier::external_body] fn clone(&self) -> (r: Self) ensures r == *self { unimplemented!() } }
/// the stack-depth guard is not modelled: it is assumed to pass (on a stack overflow TPE answers Residual::Error)
#[verifier::external_body] pub fn stack_size_check() -> (r: std::result::Result<(), ()>) ensures r is Ok { unimplemented!() }
#[verifier::external_body] pub struct EvalErr { _p: u8 }
#[verifier::external_body] pub struct Expr { _p: u8 }
pub enum PartialValue { Value(Value), Residual(Expr) }
#[verifier::external_body] pub struct ExtensionFunction { _p: u8 }
/// extension values are identified with their canonical representation (normalize_ext_value rebuilds func/args; same value)
#[verifier::external_body] pub fn normalize_ext_value(value: Value) -> (r: Value) ensures r.value == value.value { unimplemented!() }
/// anything convertible to a Value with `.into()` in this file: bool and EntityUID
pub trait VxToValue: Sized { spec fn vx_kind(self) -> ValueKind; }
impl VxToValue for bool { open spec fn vx_kind(self) -> ValueKind { ValueKind::Lit(Literal::Bool(self)) } }
impl VxToValue for EntityUID { open spec fn vx_kind(self) -> ValueKind { ValueKind::Lit(Literal::EntityUID(Arc::new(self))) } }
#[verifier::external_body] pub fn vx_val<T: VxToValue>(t: T) -> (r: Value) ensures r.value == t.vx_kind() { unimplemented!() }
impl PartialRequest {
    pub uninterp spec fn sp_principal(&self) -> Option<EntityUID>;
    pub uninterp spec fn sp_resource(&self) -> Option<EntityUID>;
    pub uninterp spec fn sp_principal_type(&self) -> EntityType;
    pub uninterp spec fn sp_resource_type(&self) -> EntityType;
    pub uninterp spec fn sp_action(&self) -> EntityUID;
    pub uninterp spec fn sp_context(&self) -> Option<Arc<BTreeMap<SmolStr, Value>>>;
    #[verifier::external_body] pub fn action(&self) -> (r: &EntityUID) ensures *r == self.sp_action() { unimplemented!() }
    #[verifier::external_body] pub fn principal_type(&self) -> (r: &EntityType) ensures *r == self.sp_principal_type() { unimplemented!() }
    #[verifier::external_body] pub fn resource_type(&self) -> (r: &EntityType) ensures *r == self.sp_resource_type() { unimplemented!() }
    #[verifier::external_body] pub fn context_attrs(&self) -> (r: Option<&Arc<BTreeMap<SmolStr, Value>>>) ensures r == (match self.sp_context() { Some(c) => Some(&c), None => None::<&Arc<BTreeMap<SmolStr, Value>>> }) { unimplemented!() }
    /// `EntityUID::try_from(self.principal().clone())`: the principal uid if its id is known
    #[verifier::external_body] pub fn vx_principal_uid(&self) -> (r: std::result::Result<EntityUID, ()>) ensures r is Ok <==> self.sp_principal() is Some, r is Ok ==> r->Ok_0 == self.sp_principal()->Some_0 { unimplemented!() }
    #[verifier::external_body] pub fn vx_resource_uid(&self) -> (r: std::result::Result<EntityUID, ()>) ensures r is Ok <==> self.sp_resource() is Some, r is Ok ==> r->Ok_0 == self.sp_resource()->Some_0 { unimplemented!() }
}
impl PartialEntities {
    pub uninterp spec fn sp_ancestors(&self, u: EntityUID) -> Option<SSet<EntityUID>>;
    pub uninterp spec fn sp_attrs(&self, u: EntityUID) -> Option<Map<SmolStr, Value>>;
    pub uninterp spec fn sp_tags(&self, u: EntityUID) -> Option<Map<SmolStr, Value>>;
    #[verifier::external_body] pub fn get_ancestors(&self, u: &EntityUID) -> (r: Option<&HashSet<EntityUID>>) ensures r is Some <==> self.sp_ancestors(*u) is Some, r is Some ==> r->Some_0@ == self.sp_ancestors(*u)->Some_0 { unimplemented!() }
    #[verifier::external_body] pub fn get_attrs(&self, u: &EntityUID) -> (r: Option<&BTreeMap<SmolStr, Value>>) ensures r is Some <==> self.sp_attrs(*u) is Some, r is Some ==> r->Some_0@ == self.sp_attrs(*u)->Some_0 { unimplemented!() }
    #[verifier::external_body] pub fn get_tags(&self, u: &EntityUID) -> (r: Option<&BTreeMap<SmolStr, Value>>) ensures r is Some <==> self.sp_tags(*u) is Some, r is Some ==> r->Some_0@ == self.sp_tags(*u)->Some_0 { unimplemented!() }
}
pub mod evaluator {
    use vstd::prelude::*; use super::*;
    /// contracts proved in unit eval_ops; here the operator semantics are carried as uninterpreted functions of the operand kinds
    /// (None = the operator raises an error: wrong operand types or arithmetic overflow)
    pub uninterp spec fn sp_relation(op: BinaryOp, a: ValueKind, b: ValueKind) -> Option<ValueKind>;
    pub uninterp spec fn sp_arith(op: BinaryOp, a: ValueKind, b: ValueKind) -> Option<ValueKind>;
    pub uninterp spec fn sp_unary(op: UnaryOp, a: ValueKind) -> Option<ValueKind>;
    #[verifier::external_body] pub fn binary_relation(op: BinaryOp, a: &Value, b: &Value, e: &Extensions<'_>) -> (r: std::result::Result<Value, EvalErr>) ensures r is Ok <==> sp_relation(op, a.value, b.value) is Some, r is Ok ==> r->Ok_0.value == sp_relation(op, a.value, b.value)->Some_0 { unimplemented!() }
    #[verifier::external_body] pub fn binary_arith(op: BinaryOp, a: Value, b: Value, l: Option<&Loc>) -> (r: std::result::Result<Value, EvalErr>) ensures r is Ok <==> sp_arith(op, a.value, b.value) is Some, r is Ok ==> r->Ok_0.value == sp_arith(op, a.value, b.value)->Some_0 { unimplemented!() }
    #[verifier::external_body] pub fn unary_app(op: UnaryOp, a: Value, l: Option<&Loc>) -> (r: std::result::Result<Value, EvalErr>) ensures r is Ok <==> sp_unary(op, a.value) is Some, r is Ok ==> r->Ok_0.value == sp_unary(op, a.value)->Some_0 { unimplemented!() }
}
impl<'a> Extensions<'a> {
    #[verifier::external_body] pub fn func(&self, n: &Name) -> (r: std::result::Result<&ExtensionFunction, EvalErr>) { unimplemented!() }
}
impl ExtensionFunction { #[verifier::external_body] pub fn call(&self, args: &Vec<Value>) -> (r: std::result::Result<PartialValue, EvalErr>) { unimplemented!() } }
impl EntityUID {
    pub uninterp spec fn spec_type(&self) -> EntityType;
    #[verifier::external_body] pub fn entity_type(&self) -> (r: &EntityType) ensures *r == self.spec_type() { unimplemented!() }
}
#[verifier::external_body] pub fn vx_etype_eq(a: &EntityType, b: &EntityType) -> (r: bool) ensures r == (*a == *b) { unimplemented!() }
#[verifier::external_body] pub fn vx_uid_eq(a: &EntityUID, b: &EntityUID) -> (r: bool) ensures r == (*a == *b) { unimplemented!() }
impl Pattern {
    pub uninterp spec fn spec_match(&self, s: SmolStr) -> bool;
    #[verifier::external_body] pub fn wildcard_match(&self, s: &SmolStr) -> (r: bool) ensures r == self.spec_match(*s) { unimplemented!() }
}
impl Set {
    pub uninterp spec fn sp_mem(&self, v: ValueKind) -> bool;
    pub uninterp spec fn sp_subset(&self, o: Set) -> bool;
    pub uninterp spec fn sp_disjoint(&self, o: Set) -> bool;
    #[verifier::external_body] pub fn contains(&self, v: &Value) -> (r: bool) ensures r == self.sp_mem(v.value) { unimplemented!() }
    #[verifier::external_body] pub fn is_subset(&self, o: &Set) -> (r: bool) ensures r == self.sp_subset(*o) { unimplemented!() }
    #[verifier::external_body] pub fn is_disjoint(&self, o: &Set) -> (r: bool) ensures r == self.sp_disjoint(*o) { unimplemented!() }
}
/// Some(uids) if every element of the set is an entity literal
pub uninterp spec fn entity_elems(s: Set) -> Option<SSet<EntityUID>>;
impl Value {
    #[verifier::external_body] pub fn get_as_bool(&self) -> (r: std::result::Result<bool, EvalErr>) ensures match self.value { ValueKind::Lit(Literal::Bool(b)) => r == Ok::<bool, EvalErr>(b), _ => r is Err } { unimplemented!() }
    #[verifier::external_body] pub fn get_as_string(&self) -> (r: std::result::Result<&SmolStr, EvalErr>) ensures match self.value { ValueKind::Lit(Literal::String(s)) => r is Ok && *r->Ok_0 == s, _ => r is Err } { unimplemented!() }
    #[verifier::external_body] pub fn get_as_entity(&self) -> (r: std::result::Result<&EntityUID, EvalErr>) ensures match self.value { ValueKind::Lit(Literal::EntityUID(u)) => r is Ok && *r->Ok_0 == *u, _ => r is Err } { unimplemented!() }
    #[verifier::external_body] pub fn get_as_set(&self) -> (r: std::result::Result<&Set, EvalErr>) ensures match self.value { ValueKind::Set(s) => r is Ok && *r->Ok_0 == s, _ => r is Err } { unimplemented!() }
    #[verifier::external_body] pub fn get_as_record(&self) -> (r: std::result::Result<&Arc<BTreeMap<SmolStr, Value>>, EvalErr>) ensures match self.value { ValueKind::Record(m) => r is Ok && *r->Ok_0 == m, _ => r is Err } { unimplemented!() }
    /// Ok(uids) iff the value is a set of entity literals
    #[verifier::external_body] pub fn get_as_entity_set(&self) -> (r: std::result::Result<HashSet<EntityUID>, EvalErr>)
        ensures match self.value { ValueKind::Set(s) => (r is Ok <==> entity_elems(s) is Some) && (r is Ok ==> r->Ok_0@ == entity_elems(s)->Some_0), _ => r is Err } { unimplemented!() }
    #[verifier::external_body] pub fn record_arc(m: Arc<BTreeMap<SmolStr, Value>>, l: Option<Loc>) -> (r: Value) ensures r.value == ValueKind::Record(m) { unimplemented!() }
}
impl Residual {
    pub open spec fn spec_ty(&self) -> Type { match *self { Residual::Partial { ty, .. } => ty, Residual::Concrete { ty, .. } => ty, Residual::Error(ty) => ty } }
}
impl<K, V> VxFromIter<(K, V)> for BTreeMap<K, V> {
    open spec fn vx_built_from(&self, items: Seq<(K, V)>) -> bool { self.view() == vx_map_of(items) }
}
impl<K, V> BTreeMap<K, V> {
    pub open spec fn pairs(&self) -> Seq<(K, V)> { Seq::new(self.key_order().len(), |i: int| (self.key_order()[i], self.view()[self.key_order()[i]])) }
    #[verifier::external_body] pub fn into_iter(self) -> (r: VxIter<(K, V)>) ensures r.items() == self.pairs(), self.order_ok() { unimplemented!() }
}
#[verifier::external_body] pub fn vx_vec_iter<T>(v: &Vec<T>) -> (r: VxIter<&T>)
    ensures r.items().len() == v@.len(), forall|i: int| #![trigger r.items()[i]] #![trigger v@[i]] 0 <= i < v@.len() ==> *r.items()[i] == v@[i]
{ unimplemented!() }
/// the set value with these elements / the record value with these fields (Value::set / Value::record; unit value_set covers Set)
pub uninterp spec fn mk_set(ks: Seq<ValueKind>) -> ValueKind;
pub open spec fn pair_kinds(s: Seq<(SmolStr, Value)>) -> Seq<(SmolStr, ValueKind)> { s.map_values(|p: (SmolStr, Value)| (p.0, p.1.value)) }
pub open spec fn kinds_of(vs: Seq<Value>) -> Seq<ValueKind> { vs.map_values(|v: Value| v.value) }
pub uninterp spec fn mk_record(ks: Seq<(SmolStr, ValueKind)>) -> ValueKind;
impl Value {
    #[verifier::external_body] pub fn set(vals: VxIter<Value>, l: Option<Loc>) -> (r: Value) ensures r.value == mk_set(kinds_of(vals.items())) { unimplemented!() }
    #[verifier::external_body] pub fn record(vals: VxIter<(SmolStr, Value)>, l: Option<Loc>) -> (r: Value) ensures r.value == mk_record(pair_kinds(vals.items())) { unimplemented!() }
}
