
// ---- appended by /verif (unit ext_bits): Kani harnesses for the bit-level kernels of the ipaddr extension ----
#[cfg(kani)]
mod vx_kani {
    use super::*;
    use std::net::{IpAddr as StdIp, Ipv4Addr, Ipv6Addr};

    /// spec: the CIDR block denoted by (address, prefix length) as an inclusive interval [lo, hi]
    fn block_v4(a: u32, p: u8) -> (u32, u32) {
        let s: u32 = 32 - p as u32; // number of host bits, 0..=32
        let lo = (((a as u64) >> s) << s) as u32;
        let hi = (lo as u64 + ((1u64 << s) - 1)) as u32;
        (lo, hi)
    }
    fn v4(a: u32, p: u8) -> IPAddr { IPAddr { addr: StdIp::V4(Ipv4Addr::from(a)), prefix: p } }
    fn v6(a: u128, p: u8) -> IPAddr { IPAddr { addr: StdIp::V6(Ipv6Addr::from(a)), prefix: p } }

    /// x.isInRange(y)  <=>  block(x) is contained in block(y)   (all IPv4 addresses, all prefix lengths incl. /0 and /32)
    #[kani::proof]
    fn is_in_range_v4() {
        let (a, b, p, q): (u32, u32, u8, u8) = (kani::any(), kani::any(), kani::any(), kani::any());
        kani::assume(p <= 32 && q <= 32); // invariant of IPAddr established by parse_prefix
        let (xl, xh) = block_v4(a, p);
        let (yl, yh) = block_v4(b, q);
        kani::cover!(yl <= xl && xh <= yh && p != q);
        kani::cover!(!(yl <= xl && xh <= yh));
        assert!(v4(a, p).is_in_range(&v4(b, q)) == (yl <= xl && xh <= yh));
    }
    fn block_v6(a: u128, p: u8) -> (u128, u128) {
        let s: u32 = 128 - p as u32;
        if s == 128 { (0, u128::MAX) } else {
            let lo = (a >> s) << s;
            (lo, lo + ((1u128 << s) - 1))
        }
    }
    #[kani::proof]
    fn is_in_range_v6() {
        let (a, b, p, q): (u128, u128, u8, u8) = (kani::any(), kani::any(), kani::any(), kani::any());
        kani::assume(p <= 128 && q <= 128);
        let (xl, xh) = block_v6(a, p);
        let (yl, yh) = block_v6(b, q);
        kani::cover!(yl <= xl && xh <= yh && p != q);
        kani::cover!(!(yl <= xl && xh <= yh));
        assert!(v6(a, p).is_in_range(&v6(b, q)) == (yl <= xl && xh <= yh));
    }
    /// addresses of different families are never in range of each other
    #[kani::proof]
    fn is_in_range_mixed() {
        let (a, b, p, q): (u32, u128, u8, u8) = (kani::any(), kani::any(), kani::any(), kani::any());
        kani::assume(p <= 32 && q <= 128);
        assert!(!v4(a, p).is_in_range(&v6(b, q)));
        assert!(!v6(b, q).is_in_range(&v4(a, p)));
    }
    /// loopback: 127.0.0.0/8 (prefix >= 8) and ::1/128; multicast: 224.0.0.0/4 (prefix >= 4) and ff00::/8 (prefix >= 8)
    #[kani::proof]
    fn loopback_multicast_v4() {
        let (a, p): (u32, u8) = (kani::any(), kani::any());
        kani::assume(p <= 32);
        let x = v4(a, p);
        assert!(x.is_ipv4() && !x.is_ipv6());
        kani::cover!((a >> 24) == 127 && p >= 8);
        assert!(x.is_loopback() == ((a >> 24) == 127 && p >= 8));
        assert!(x.is_multicast() == ((a >> 28) == 0xE && p >= 4));
    }
    #[kani::proof]
    fn loopback_multicast_v6() {
        let (a, p): (u128, u8) = (kani::any(), kani::any());
        kani::assume(p <= 128);
        let x = v6(a, p);
        assert!(x.is_ipv6() && !x.is_ipv4());
        kani::cover!(a == 1 && p == 128);
        assert!(x.is_loopback() == (a == 1 && p == 128));
        assert!(x.is_multicast() == ((a >> 120) == 0xff && p >= 8));
    }
}
