"""Kani unit ext_bits: bit-level kernels of the ipaddr extension (C07).  Loop-free harnesses over the full input
domain: complete proofs with concrete counterexamples."""
import os
import re
import subprocess

PROPERTIES = ['C07']
PACKAGE = 'cedar-policy-core'
TARGET = 'cedar-policy-core/src/extensions/ipaddr.rs'
HARNESS_FILE = 'harness.rs'
FUNCTIONS = ['impl IPAddr > fn is_in_range', 'impl IPAddr > fn is_loopback', 'impl IPAddr > fn is_multicast',
             'impl IPAddr > fn is_ipv4', 'impl IPAddr > fn is_ipv6', 'struct IPAddr']
HARNESSES = {
    'is_in_range_v4': dict(fn='IPAddr::is_in_range', tier='quick'),
    'is_in_range_mixed': dict(fn='IPAddr::is_in_range', tier='quick'),
    'loopback_multicast_v4': dict(fn='IPAddr::{is_loopback,is_multicast,is_ipv4,is_ipv6}', tier='quick'),
    'loopback_multicast_v6': dict(fn='IPAddr::{is_loopback,is_multicast,is_ipv4,is_ipv6}', tier='quick'),
    'is_in_range_v6': dict(fn='IPAddr::is_in_range', tier='thorough'),
}
ASSUMPTIONS = [
    'IPAddr values satisfy prefix <= 32 (v4) / <= 128 (v6): the invariant established by parse_prefix in IPAddr::from_str (assumed in the harnesses, not proved).',
    'std::net::{Ipv4Addr,Ipv6Addr} <-> u32/u128 conversions and is_loopback/is_multicast are executed by CBMC from the std sources.',
    'The spec side of each harness (CIDR block as an interval computed with shifts) is hand-written from the property statement.',
]


def _v4(a):
    return '.'.join(str((a >> s) & 255) for s in (24, 16, 8, 0))


def _v6(a):
    return ':'.join('%x' % ((a >> s) & 0xffff) for s in range(112, -1, -16))


def _block(a, p, bits):
    s = bits - p
    lo = (a >> s) << s
    return lo, lo + (1 << s) - 1


def replay(h, playback, S, env):
    """Replay a Kani counterexample against the real code through the evaluator: evaluate the Cedar expression
    built from the counterexample and compare with the value the spec prescribes."""
    vals = (playback or {}).get('values') or []
    nums = [v['le_uint'] for v in vals]
    cases = []
    if h == 'is_in_range_v4' and len(nums) >= 4:
        a, b, p, q = nums[:4]
        xl, xh = _block(a, p, 32); yl, yh = _block(b, q, 32)
        cases.append((f'ip("{_v4(a)}/{p}").isInRange(ip("{_v4(b)}/{q}"))', yl <= xl and xh <= yh))
    elif h == 'is_in_range_v6' and len(nums) >= 4:
        a, b, p, q = nums[:4]
        xl, xh = _block(a, p, 128); yl, yh = _block(b, q, 128)
        cases.append((f'ip("{_v6(a)}/{p}").isInRange(ip("{_v6(b)}/{q}"))', yl <= xl and xh <= yh))
    elif h == 'is_in_range_mixed' and len(nums) >= 4:
        a, b, p, q = nums[:4]
        cases.append((f'ip("{_v4(a)}/{p}").isInRange(ip("{_v6(b)}/{q}"))', False))
        cases.append((f'ip("{_v6(b)}/{q}").isInRange(ip("{_v4(a)}/{p}"))', False))
    elif h == 'loopback_multicast_v4' and len(nums) >= 2:
        a, p = nums[:2]
        cases.append((f'ip("{_v4(a)}/{p}").isLoopback()', (a >> 24) == 127 and p >= 8))
        cases.append((f'ip("{_v4(a)}/{p}").isMulticast()', (a >> 28) == 0xE and p >= 4))
    elif h == 'loopback_multicast_v6' and len(nums) >= 2:
        a, p = nums[:2]
        cases.append((f'ip("{_v6(a)}/{p}").isLoopback()', a == 1 and p == 128))
        cases.append((f'ip("{_v6(a)}/{p}").isMulticast()', (a >> 120) == 0xff and p >= 8))
    if not cases:
        return {'confirmed': False, 'reason': 'no counterexample values'}
    body = '\n'.join(f'    check(r#"{e}"#, {str(v).lower()});' for e, v in cases)
    test = '''use cedar_policy_core::ast::{Context, EntityUID, Request, RequestSchemaAllPass};
use cedar_policy_core::entities::Entities;
use cedar_policy_core::evaluator::Evaluator;
use cedar_policy_core::extensions::Extensions;
fn check(src: &str, expected: bool) {
    let q = Request::new((EntityUID::with_eid_and_type("T", "p").unwrap(), None), (EntityUID::with_eid_and_type("Action", "a").unwrap(), None),
        (EntityUID::with_eid_and_type("T", "r").unwrap(), None), Context::empty(), None::<&RequestSchemaAllPass>, Extensions::all_available()).unwrap();
    let es = Entities::new();
    let ev = Evaluator::new(q, &es, Extensions::all_available());
    let e: cedar_policy_core::ast::Expr = src.parse().unwrap();
    let v = ev.interpret(&e, &std::collections::HashMap::new()).unwrap();
    assert_eq!(v, expected.into(), "{src}");
}
#[test]
fn vx_replay() {
''' + body + '\n}\n'
    tdir = os.path.join(S, 'cedar-policy-core', 'tests')
    os.makedirs(tdir, exist_ok=True)
    with open(os.path.join(tdir, 'vx_replay.rs'), 'w') as f:
        f.write(test)
    p = subprocess.run(['cargo', 'test', '-p', 'cedar-policy-core', '--offline', '--test', 'vx_replay'], cwd=S, env=env, capture_output=True, text=True, timeout=1800)
    failed = 'test result: FAILED' in p.stdout or 'panicked' in p.stdout + p.stderr
    built = 'Running' in p.stderr or 'running 1 test' in p.stdout
    return {'confirmed': bool(failed and built), 'input': [e for e, _ in cases], 'expected': [v for _, v in cases],
            'test_file': test, 'output_tail': (p.stdout + p.stderr)[-1500:]}
