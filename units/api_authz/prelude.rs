// ---- api_authz prelude (trusted declarations): the public Authorizer / Response / Diagnostics newtypes over the core authorizer ----
pub mod ast {
    use super::*;
    #[verifier::external_body] pub struct PolicyID { _p: u8 }
    #[verifier::external_body] pub struct Request { _p: u8 }
    impl Clone for Request { #[verifier::external_body] fn clone(&self) -> (r: Self) ensures r == *self { unimplemented!() } }
    #[verifier::external_body] pub struct PolicySet { _p: u8 }
    #[verifier::external_body] pub struct Entities { _p: u8 }
}
pub mod authorizer {
    use super::*;
    #[verifier::external_body] pub struct AuthorizationError { _p: u8 }
    pub struct Diagnostics { pub reason: HashSet<ast::PolicyID>, pub errors: Vec<AuthorizationError> }
    pub struct Response { pub decision: Decision, pub diagnostics: Diagnostics }
    /// the core authorizer's answer (C01: units authz)
    pub uninterp spec fn spec_is_authorized(q: ast::Request, ps: ast::PolicySet, es: ast::Entities) -> Response;
    pub struct Authorizer { pub _p: u8 }
    impl Authorizer {
        #[verifier::external_body] pub fn new() -> (r: Self) { unimplemented!() }
        #[verifier::external_body] pub fn is_authorized(&self, q: ast::Request, pset: &ast::PolicySet, entities: &ast::Entities) -> (r: Response)
            ensures r == spec_is_authorized(q, *pset, *entities) { unimplemented!() }
    }
}
#[derive(Clone, Copy, PartialEq, Eq, Structural)] pub enum Decision { Allow, Deny }
#[verifier::external_body] pub struct PolicyId { _p: u8 }
impl PolicyId {
    pub uninterp spec fn spec_core(&self) -> ast::PolicyID;
    /// newtype constructor (assumed injective: the wrapped id)
    #[verifier::external_body] pub fn new(id: ast::PolicyID) -> (r: Self) ensures r.spec_core() == id { unimplemented!() }
}
#[verifier::external_body] pub struct AuthorizationError { _p: u8 }
impl AuthorizationError { pub uninterp spec fn spec_core(&self) -> authorizer::AuthorizationError; }
impl vstd::std_specs::convert::FromSpecImpl<authorizer::AuthorizationError> for AuthorizationError { open spec fn obeys_from_spec() -> bool { false } uninterp spec fn from_spec(v: authorizer::AuthorizationError) -> AuthorizationError; }
impl From<authorizer::AuthorizationError> for AuthorizationError { #[verifier::external_body] fn from(v: authorizer::AuthorizationError) -> (r: Self) ensures r.spec_core() == v { unimplemented!() } }
pub struct Request(pub ast::Request);
pub struct PolicySet { pub ast: ast::PolicySet, pub _p: u8 }
pub struct Entities(pub ast::Entities);
