"""Unit api_authz: the public cedar_policy::Authorizer::is_authorized answers what the core authorizer answers on the unwrapped
request, policy set and entities: same decision, the determining policies are exactly the core ones (as PolicyIds), the errors are
the core errors in the same order (C01, public API glue)."""
from vx.assemble import Fn, Type, Raw, Loop, ClosureRw

PROPERTIES = ['C01']
HEADER = '#![feature(allocator_api)]'
STDMODEL = ['iter.rs', 'hash.rs', 'std.rs']
API = 'cedar-policy/src/api.rs'
ASSUMPTIONS = [
    'The core authorizer is an uninterpreted function of (request, policy set, entities) here; its contract is the subject of unit authz.',
    'PolicyId::new / AuthorizationError::from are newtype wrappers (spec_core is the wrapped value).',
]
ITEMS = [
    Raw(file='prelude.rs', tag='prelude'),
    Type(API, 'struct Authorizer'),
    Type(API, 'struct Diagnostics'),
    Type(API, 'struct Response'),
    Raw(text='''/// the public diagnostics present exactly the core diagnostics
pub open spec fn diag_of(d: Diagnostics, c: authorizer::Diagnostics) -> bool {
    &&& forall|id: ast::PolicyID| c.reason@.contains(id) <==> exists|p: PolicyId| d.reason@.contains(p) && #[trigger] p.spec_core() == id
    &&& forall|p: PolicyId| d.reason@.contains(p) ==> c.reason@.contains(#[trigger] p.spec_core())
    &&& d.errors@.len() == c.errors@.len() && forall|i: int| 0 <= i < d.errors@.len() ==> (#[trigger] d.errors@[i]).spec_core() == c.errors@[i]
}
pub open spec fn resp_of(r: Response, c: authorizer::Response) -> bool { r.decision == c.decision && diag_of(r.diagnostics, c.diagnostics) }
''', tag='spec'),
    Fn(API, 'impl From<authorizer::Diagnostics> for Diagnostics > fn from', name='Diagnostics::from', wrap='impl Diagnostics',
       sig_rewrites=[(r'fn from\(', 'fn from_core(', 1)],
       ensures=[('same', 'diag_of(r, diagnostics)')],
       rewrites=[(r'\.map\(PolicyId::new\)', '.map(|id: ast::PolicyID| -> (p: PolicyId) ensures p.spec_core() == id { PolicyId::new(id) })', 1),
                 (r'\.map\(Into::into\)', '.map(|e: authorizer::AuthorizationError| -> (x: AuthorizationError) ensures x.spec_core() == e { e.into() })', 1)]),
    Fn(API, 'impl From<authorizer::Response> for Response > fn from', name='Response::from', wrap='impl Response',
       sig_rewrites=[(r'fn from\(', 'fn from_core(', 1)],
       ensures=[('same', 'resp_of(r, a)')],
       rewrites=[(r'a\.diagnostics\.into\(\)', 'Diagnostics::from_core(a.diagnostics)', 1)]),
    Fn(API, 'impl Response > fn decision', name='Response::decision', wrap='impl Response', ensures=[('field', 'r == self.decision')]),
    Fn(API, 'impl Response > fn diagnostics', name='Response::diagnostics', wrap='impl Response', ensures=[('field', '*r == self.diagnostics')]),
    Fn(API, 'impl Authorizer > fn is_authorized', name='Authorizer::is_authorized', wrap='impl Authorizer',
       ensures=[('same', 'resp_of(resp, authorizer::spec_is_authorized(r.0, p.ast, e.0))')], ret='resp',
       rewrites=[(r'self\.0\.is_authorized\((.*?)\)\.into\(\)', r'Response::from_core(self.0.is_authorized(\1))', 1)]),
]
VERUS_ARGS = ['--multiple-errors', '5']
CANARIES = ['Authorizer::is_authorized']
