"""Unit linking: Template::check_binding / link / try_as_policy / link_static_policy and the Policy accessors that
delegate to the template (C08: linking succeeds only when exactly the slots are bound; a link's effect and annotations are its template's)."""
from vx.assemble import Fn, Type, Raw, Loop, ClosureRw, FnRw, cmp_rw

PROPERTIES = ['C08']
HEADER = '#![feature(allocator_api)]'
STDMODEL = ['iter.rs', 'hash.rs', 'std.rs']
POL = 'cedar-policy-core/src/ast/policy.rs'
NAME = 'cedar-policy-core/src/ast/name.rs'
ASSUMPTIONS = [
    'TemplateBody (scope constraints, condition, annotations) is opaque; Template::condition and the annotation accessors are carried as uninterpreted functions of the body.',
    'cfg(debug_assertions) blocks (a re-check of check_binding inside Policy::new; Template::check_invariant) are dropped: release configuration.',
    'SlotId equality is spec equality; HashMap<SlotId, _> keys are compared with it.',
]
WT = 'impl Template'
WP = 'impl Policy'
ITEMS = [
    Raw(file='prelude.rs', tag='prelude'),
    Type(NAME, 'struct Slot'),
    Type(POL, 'struct Template'),
    Type(POL, 'struct Policy'),
    Type(POL, 'enum LinkingError'),
    Type(POL, 'enum EntityReference'),
    Type(POL, 'enum PrincipalOrResourceConstraint'),
    Type(POL, 'struct PrincipalConstraint'),
    Type(POL, 'struct ResourceConstraint'),
    Raw(file='prelude2.rs', tag='prelude'),
    Raw(file='spec.rs', tag='spec'),
    Fn(POL, 'impl LinkingError > fn from_unbound_and_extras', name='LinkingError::from_unbound_and_extras', wrap='impl LinkingError',
       sig_rewrites=[(r'impl Iterator<Item = SlotId>', 'VxIter<SlotId>', 2)],
       ensures=[('arity', 'r is ArityError')]),
    Fn(POL, 'impl Template > fn is_static', name='Template::is_static', wrap=WT, ensures=[('no_slots', 'r == (self.slots@.len() == 0)')]),
    Fn(POL, 'impl Template > fn check_binding', name='Template::check_binding', wrap=WT,
       rewrites=[(r'template\s*\.slots\s*\.iter\(\)', 'vx_vec_iter(&template.slots)', 2),
                 ClosureRw(r'slot', "slot: &&Slot", 'bool', ensures='b == !values@.contains_key(slot.id)', rname='b', count=1, follow=r'!values'),
                 ClosureRw(r'slot', "slot: &&SlotId", 'bool', ensures='b == !has_slot(*template, **slot)', rname='b', count=1, follow=r'\{'),
                 (r'template_slot\.id == \*\*slot', 'vx_slotid_eq(&template_slot.id, &**slot)', 1),
                 ClosureRw(r'template_slot', 'template_slot: &Slot', 'bool', ensures='b == (template_slot.id == **slot)', rname='b', count=1),
                 (r'unbound\.into_iter\(\)\.map\(', 'vx_vec_into_iter(unbound).map(', 1),
                 ClosureRw(r'slot', 'slot: &Slot', 'SlotId', rname='s', count=1, follow=r'slot\.id\)'),
                 (r'extra\.into_iter\(\)\.copied\(\)', 'vx_vec_into_iter(extra).copied()', 1)],
       ensures=[('exact', 'r is Ok <==> binds(*template, *values)'), ('arity', 'r is Err ==> r->Err_0 is ArityError')],
       hints=[(r'(?s)let extra = .*?collect::<Vec<_>>\(\);', '''proof {
            if unbound@.len() > 0 { let x = unbound@[0]; assert(!values@.contains_key(x.id)); }
            if extra@.len() > 0 { let k = extra@[0]; assert(values@.contains_key(*k) && !has_slot(*template, *k)); }
        }''')]),
    Fn(POL, 'impl Template > fn id', name='Template::id', wrap=WT, ensures=[('id', '*r == self.body.spec_id()')]),
    Fn(POL, 'impl Template > fn effect', name='Template::effect', wrap=WT, ensures=[('effect', 'r == self.body.spec_effect()')]),
    Fn(POL, 'impl Template > fn annotation', name='Template::annotation', wrap=WT,
       ensures=[('annotation', 'r == (match self.body.spec_annotation(*key) { Some(a) => Some(&a), None => None::<&Annotation> })')]),
    Fn(POL, 'impl Template > fn annotations_arc', name='Template::annotations_arc', wrap=WT, ensures=[('annotations', '**r == self.body.spec_annotations()')]),
    Fn(POL, 'impl Template > fn condition', name='Template::condition', wrap=WT, ensures=[('condition', 'r == self.body.spec_condition()')]),
    Fn(POL, 'impl Policy > fn new', name='Policy::new', wrap=WP,
       ensures=[('fields', 'r.template == template && r.link == link_id && r.values == values')]),
    Fn(POL, 'impl Template > fn link', name='Template::link', wrap=WT,
       rewrites=[ClosureRw(r'_', '_u: ()', 'Policy', ensures='p.template == template && p.link == Some(new_id) && p.values == values', rname='p', count=1)],
       ensures=[('exact', 'r is Ok <==> binds(*template, values)'),
                ('link', 'r is Ok ==> r->Ok_0.template == template && r->Ok_0.link == Some(new_id) && r->Ok_0.values == values'),
                ('arity', 'r is Err ==> r->Err_0 is ArityError')]),
    Fn(POL, 'impl Template > fn try_as_policy', name='Template::try_as_policy', wrap=WT,
       rewrites=[ClosureRw(r'_', '_u: ()', 'Policy', ensures='p.template == template && p.link is None && p.values@ =~= Map::<SlotId, EntityUID>::empty()', rname='p', count=1)],
       proof_start='proof { if template.slots@.len() > 0 { let x = template.slots@[0].id; } }',
       ensures=[('exact', 'r is Ok <==> template.slots@.len() == 0'),
                ('static', 'r is Ok ==> r->Ok_0.template == template && r->Ok_0.link is None && r->Ok_0.values@ =~= Map::<SlotId, EntityUID>::empty()')]),
    Fn(POL, 'impl Template > fn check_invariant', name='Template::check_invariant', wrap=WT),
    Fn(POL, 'impl Template > fn link_static_policy', name='Template::link_static_policy', wrap=WT,
       rewrites=[(r'let body: TemplateBody = p\.into\(\);', 'let body: TemplateBody = <TemplateBody as From<StaticPolicy>>::from(p);', 1)],
       ensures=[('shared', 'r.1.template == r.0 && r.1.link is None && r.0.slots@.len() == 0 && r.1.values@ =~= Map::<SlotId, EntityUID>::empty()')]),
    Fn(POL, 'impl Policy > fn template', name='Policy::template', wrap=WP, ensures=[('template', '*r == *self.template')]),
    Fn(POL, 'impl Policy > fn template_arc', name='Policy::template_arc', wrap=WP, ensures=[('template', 'r == self.template')]),
    Fn(POL, 'impl Policy > fn effect', name='Policy::effect', wrap=WP, ensures=[('of_template', 'r == self.template.body.spec_effect()')]),
    Fn(POL, 'impl Policy > fn annotation', name='Policy::annotation', wrap=WP,
       ensures=[('of_template', 'r == (match self.template.body.spec_annotation(*key) { Some(a) => Some(&a), None => None::<&Annotation> })')]),
    Fn(POL, 'impl Policy > fn annotations_arc', name='Policy::annotations_arc', wrap=WP, ensures=[('of_template', '**r == self.template.body.spec_annotations()')]),
    Fn(POL, 'impl Policy > fn condition', name='Policy::condition', wrap=WP, ensures=[('of_template', 'r == self.template.body.spec_condition()')]),
    Fn(POL, 'impl Policy > fn env', name='Policy::env', wrap=WP, ensures=[('values', '*r == self.values')]),
    Fn(POL, 'impl Policy > fn id', name='Policy::id', wrap=WP,
       rewrites=[ClosureRw(r'', '', '&PolicyID', ensures='*i == self.template.body.spec_id()', rname='i', count=1)],
       ensures=[('id', '*r == (match self.link { Some(l) => l, None => self.template.body.spec_id() })')]),
    Fn(POL, 'impl Policy > fn is_static', name='Policy::is_static', wrap=WP, ensures=[('static', 'r == (self.link is None)')]),
    Fn(POL, 'impl PrincipalConstraint > fn with_filled_slot', name='PrincipalConstraint::with_filled_slot', wrap='impl PrincipalConstraint',
       ensures=[('substitution', 'r.constraint == fill(self.constraint, euid)')]),
    Fn(POL, 'impl ResourceConstraint > fn with_filled_slot', name='ResourceConstraint::with_filled_slot', wrap='impl ResourceConstraint',
       ensures=[('substitution', 'r.constraint == fill(self.constraint, euid)')]),
    Fn(POL, 'impl Template > fn principal_constraint', name='Template::principal_constraint', wrap=WT, ensures=[('body', '*r == self.body.spec_principal_constraint()')]),
    Fn(POL, 'impl Template > fn resource_constraint', name='Template::resource_constraint', wrap=WT, ensures=[('body', '*r == self.body.spec_resource_constraint()')]),
    Fn(POL, 'impl Policy > fn principal_constraint', name='Policy::principal_constraint', wrap=WP,
       ensures=[('substitution', 'r.constraint == (if self.values@.contains_key(SlotId::spec_principal()) { fill(self.template.body.spec_principal_constraint().constraint, Arc::new(self.values@[SlotId::spec_principal()])) } else { self.template.body.spec_principal_constraint().constraint })')]),
    Fn(POL, 'impl Policy > fn resource_constraint', name='Policy::resource_constraint', wrap=WP,
       ensures=[('substitution', 'r.constraint == (if self.values@.contains_key(SlotId::spec_resource()) { fill(self.template.body.spec_resource_constraint().constraint, Arc::new(self.values@[SlotId::spec_resource()])) } else { self.template.body.spec_resource_constraint().constraint })')]),
]
