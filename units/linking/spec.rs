// ---- C08: linking succeeds only when exactly the template's slots are bound ----
pub open spec fn has_slot(t: Template, k: SlotId) -> bool { exists|i: int| 0 <= i < t.slots@.len() && (#[trigger] t.slots@[i]).id == k }
/// `values` binds every slot of the template and nothing else
pub open spec fn binds(t: Template, values: SlotEnv) -> bool {
    (forall|i: int| 0 <= i < t.slots@.len() ==> values@.contains_key((#[trigger] t.slots@[i]).id))
    && (forall|k: SlotId| #[trigger] values@.contains_key(k) ==> has_slot(t, k))
}
