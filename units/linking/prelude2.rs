impl Clone for PrincipalConstraint { #[verifier::external_body] fn clone(&self) -> (r: Self) ensures r == *self { unimplemented!() } }
impl Clone for ResourceConstraint { #[verifier::external_body] fn clone(&self) -> (r: Self) ensures r == *self { unimplemented!() } }
impl TemplateBody {
    pub uninterp spec fn spec_principal_constraint(&self) -> PrincipalConstraint;
    pub uninterp spec fn spec_resource_constraint(&self) -> ResourceConstraint;
    #[verifier::external_body] pub fn principal_constraint(&self) -> (r: &PrincipalConstraint) ensures *r == self.spec_principal_constraint() { unimplemented!() }
    #[verifier::external_body] pub fn resource_constraint(&self) -> (r: &ResourceConstraint) ensures *r == self.spec_resource_constraint() { unimplemented!() }
}
/// writing the linked entity in place of the slot of a scope constraint
pub open spec fn fill_ref(r: EntityReference, e: Arc<EntityUID>) -> EntityReference { match r { EntityReference::Slot(_) => EntityReference::EUID(e), x => x } }
pub open spec fn fill(c: PrincipalOrResourceConstraint, e: Arc<EntityUID>) -> PrincipalOrResourceConstraint {
    match c {
        PrincipalOrResourceConstraint::Any => PrincipalOrResourceConstraint::Any,
        PrincipalOrResourceConstraint::In(r) => PrincipalOrResourceConstraint::In(fill_ref(r, e)),
        PrincipalOrResourceConstraint::Eq(r) => PrincipalOrResourceConstraint::Eq(fill_ref(r, e)),
        PrincipalOrResourceConstraint::Is(t) => PrincipalOrResourceConstraint::Is(t),
        PrincipalOrResourceConstraint::IsIn(t, r) => PrincipalOrResourceConstraint::IsIn(t, fill_ref(r, e)),
    }
}
