// ---- linking unit prelude (trusted declarations) ----
#[verifier::external_body] pub struct PolicyID { _p: u8 }
impl Clone for PolicyID { #[verifier::external_body] fn clone(&self) -> (r: Self) ensures r == *self { unimplemented!() } }
#[verifier::external_body] pub struct SlotId { _p: u8 }
impl Clone for SlotId { #[verifier::external_body] fn clone(&self) -> (r: Self) ensures r == *self { unimplemented!() } }
impl Copy for SlotId {}
#[verifier::external_body] pub struct EntityUID { _p: u8 }
#[verifier::external_body] pub struct Loc { _p: u8 }
#[verifier::external_body] pub struct TemplateBody { _p: u8 }
#[verifier::external_body] pub struct StaticPolicy { _p: u8 }
#[verifier::external_body] pub struct Expr { _p: u8 }
#[verifier::external_body] pub struct AnyId { _p: u8 }
#[verifier::external_body] pub struct Annotation { _p: u8 }
#[verifier::external_body] pub struct Annotations { _p: u8 }
#[derive(Clone, Copy, PartialEq, Eq)] pub enum Effect { Permit, Forbid }
pub type SlotEnv = HashMap<SlotId, EntityUID>;
/// `SlotId == SlotId` (derived on a private enum of two unit variants; trusted to be spec equality)
#[verifier::external_body] pub fn vx_slotid_eq(a: &SlotId, b: &SlotId) -> (r: bool) ensures r == (*a == *b) { unimplemented!() }
impl TemplateBody {
    pub uninterp spec fn spec_id(&self) -> PolicyID;
    pub uninterp spec fn spec_effect(&self) -> Effect;
    pub uninterp spec fn spec_condition(&self) -> Expr;
    pub uninterp spec fn spec_annotation(&self, key: AnyId) -> Option<Annotation>;
    pub uninterp spec fn spec_annotations(&self) -> Annotations;
    #[verifier::external_body] pub fn id(&self) -> (r: &PolicyID) ensures *r == self.spec_id() { unimplemented!() }
    #[verifier::external_body] pub fn effect(&self) -> (r: Effect) ensures r == self.spec_effect() { unimplemented!() }
    #[verifier::external_body] pub fn condition(&self) -> (r: Expr) ensures r == self.spec_condition() { unimplemented!() }
    #[verifier::external_body] pub fn annotation(&self, key: &AnyId) -> (r: Option<&Annotation>) ensures r == (match self.spec_annotation(*key) { Some(a) => Some(&a), None => None::<&Annotation> }) { unimplemented!() }
    #[verifier::external_body] pub fn annotations_arc(&self) -> (r: &Arc<Annotations>) ensures **r == self.spec_annotations() { unimplemented!() }
}
impl From<StaticPolicy> for TemplateBody { #[verifier::external_body] fn from(p: StaticPolicy) -> (r: Self) { unimplemented!() } }
/// `vec.iter()` in a position whose result flows into model adapters
#[verifier::external_body] pub fn vx_vec_iter<T>(v: &Vec<T>) -> (r: VxIter<&T>)
    ensures r.items().len() == v@.len(), forall|i: int| #![trigger r.items()[i]] #![trigger v@[i]] 0 <= i < v@.len() ==> *r.items()[i] == v@[i]
{ unimplemented!() }
impl<T> VxIter<T> {
    /// `Iterator::filter` for a predicate whose contract determines its answer: exactly the selected items
    #[verifier::external_body]
    pub fn filter<F: Fn(&T) -> bool>(self, f: F) -> (r: VxIter<T>)
        requires forall|i: int| 0 <= i < self.items().len() ==> f.requires((&#[trigger] self.items()[i],)),
        ensures
            forall|j: int| 0 <= j < r.items().len() ==> exists|i: int| 0 <= i < self.items().len() && self.items()[i] == #[trigger] r.items()[j] && f.ensures((&self.items()[i],), true),
            forall|i: int| 0 <= i < self.items().len() && !f.ensures((&#[trigger] self.items()[i],), false) ==> exists|j: int| 0 <= j < r.items().len() && r.items()[j] == self.items()[i],
    { unimplemented!() }
}
impl<'a, T: Copy> VxIter<&'a T> {
    #[verifier::external_body]
    pub fn copied(self) -> (r: VxIter<T>)
        ensures r.items().len() == self.items().len(), forall|i: int| #![trigger r.items()[i]] #![trigger self.items()[i]] 0 <= i < r.items().len() ==> r.items()[i] == *self.items()[i]
    { unimplemented!() }
}
#[verifier::external_body] pub struct EntityType { _p: u8 }
impl Clone for EntityUID { #[verifier::external_body] fn clone(&self) -> (r: Self) ensures r == *self { unimplemented!() } }
impl SlotId {
    pub uninterp spec fn spec_principal() -> SlotId;
    pub uninterp spec fn spec_resource() -> SlotId;
    #[verifier::external_body] pub fn principal() -> (r: Self) ensures r == Self::spec_principal() { unimplemented!() }
    #[verifier::external_body] pub fn resource() -> (r: Self) ensures r == Self::spec_resource() { unimplemented!() }
}
