"""Unit tc_dfs: one step of the incremental closure computation (transitive_closure.rs add_ancestors, the DFS behind repair_tc): after
the call the node has an edge to every ancestor of each of its direct ancestors (as they were before the call), nothing is lost
anywhere, and only edges are added (C04, closure-computation part; a LOCAL contract, not the whole-graph theorem)."""
import re
from vx.assemble import Fn, Type, Raw, Loop, ClosureRw, FnRw

PROPERTIES = ['C04']
HEADER = '#![feature(allocator_api)]'
STDMODEL = ['iter.rs', 'hash.rs', 'std.rs']
TC = 'cedar-policy-core/src/transitive_closure.rs'
ASSUMPTIONS = [
    'TCNode implementations satisfy the trait contract of units/_tc/tcnode.rs (impl TCNode for Entity: unit entity_hier).',
    'Local contract only: that repeating this step over the nodes to fix yields the full reachability relation (the assumed repair_tc contract of unit store) is NOT proved; termination of the recursion is not proved.',
]
N0 = 'old(nodes).view()'


def desugar_outer_for(text):
    """`for ancestor_id in out_edges { BODY }`  ->  `let mut it = out_edges.into_iter(); loop { let ancestor_id = match it.next() { Some(x) => x, None => break }; BODY }`
    (the standard desugaring of a for loop; needed because Verus' for loops do not support `continue`)."""
    rx = re.compile(r'for ancestor_id in out_edges \{')
    rep = ('let mut __vx_it1 = vx_vec_into_iter(out_edges);\n    let ghost mut __vx_i: int = 0;\n    loop {\n'
           '        let ancestor_id = match __vx_it1.next() { Some(__vx_x) => __vx_x, None => { break; } };\n'
           '        proof { __vx_i = __vx_i + 1; }')
    return rx.subn(lambda m: rep, text, count=1)

ITEMS = [
    Raw(file='../_tc/tcnode.rs', tag='prelude'),
    Raw(text='/// `K::clone` returns an equal key (assumed for the key type, as for Iterator::cloned)\n#[verifier::external_body] pub fn vx_clone<K: Clone>(k: &K) -> (r: K) ensures r == *k { unimplemented!() }\n', tag='prelude'),
    Fn(TC, 'fn add_ancestors', attrs=['verifier::exec_allows_no_decreases_clause', 'verifier::loop_isolation(false)'],
       sig_rewrites=[(r'K: Clone \+ Eq \+ Hash,', 'K: Clone,', 1)],
       requires=[('wf', f'forall|k: K| {N0}.contains_key(k) ==> (#[trigger] {N0}[k]).node_wf()')],
       ensures=[
           ('frame', f'final(nodes).view().dom() =~= {N0}.dom() && forall|k: K| {N0}.contains_key(k) ==> (#[trigger] final(nodes).view()[k]).node_wf() && final(nodes).view()[k].key() == {N0}[k].key() && {N0}[k].edges().subset_of(final(nodes).view()[k].edges())'),
           ('step', f'{N0}.contains_key(*node_id) ==> forall|a: K, g: K| #![trigger {N0}[a].edges().contains(g)] {N0}[*node_id].edges().contains(a) && {N0}.contains_key(a) && {N0}[a].edges().contains(g) ==> final(nodes).view()[*node_id].edges().contains(g)'),
           ('seen', 'old(seen).view().subset_of(final(seen).view())'),
       ],
       proof_start='let ghost n0 = nodes.view(); let ghost seen0 = seen.view();',
       rewrites=[(r'\.map\(K::clone\)', '.cloned()', 1), (r'\bancestor_id\.clone\(\)', 'vx_clone(&ancestor_id)', None), (r'grand_ancestor_id\.clone\(\)', 'vx_clone(grand_ancestor_id)', 1), FnRw('desugar the outer for loop (it contains `continue`, which Verus for-loops do not support) into loop + next()', desugar_outer_for, 1)],
       loops={
           1: Loop(proof_before='let ghost oe = out_edges.view();', invariant=[
               ('snapshot', '0 <= __vx_i <= oe.len() && __vx_it1.items() == oe.subrange(__vx_i, oe.len() as int)'),
               ('frame', 'nodes.view().dom() =~= n0.dom() && forall|k: K| n0.contains_key(k) ==> (#[trigger] nodes.view()[k]).node_wf() && nodes.view()[k].key() == n0[k].key() && n0[k].edges().subset_of(nodes.view()[k].edges())'),
               ('seen', 'seen0.subset_of(seen.view())'),
               ('explored', 'forall|i: int| 0 <= i < __vx_i ==> explored.view().contains(#[trigger] oe[i])'),
               ('collected', 'forall|a: K, g: K| #![trigger n0[a].edges().contains(g)] explored.view().contains(a) && n0.contains_key(a) && n0[a].edges().contains(g) ==> ancestors.view().contains(g)'),
           ]),
           2: Loop(iter_suffix='.vx_for()', name='it_2', proof_before='let ghost ge = ancestor.edges(); let ghost anc0 = ancestors.view();', invariant=[
               ('grows', 'anc0.subset_of(ancestors.view())'),
               ('done', 'forall|j: int| 0 <= j < it_2.index@ ==> ancestors.view().contains(*(#[trigger] it_2.snapshot@.remaining()[j]))'),
           ]),
           3: Loop(iter_suffix='.into_iter().vx_for()', name='it_3', proof_before='let ghost anc = ancestors.view(); let ghost e0 = node.edges(); let ghost k0 = node.key();', invariant=[
               ('node', 'node.node_wf() && node.key() == k0 && e0.subset_of(node.edges())'),
               ('added', 'forall|j: int| 0 <= j < it_3.index@ ==> node.edges().contains(#[trigger] it_3.snapshot@.remaining()[j])'),
               ('all', 'forall|t: K| anc.contains(t) ==> exists|j: int| 0 <= j < it_3.snapshot@.remaining().len() && #[trigger] it_3.snapshot@.remaining()[j] == t'),
           ]),
       }),
]
VERUS_ARGS = ['--multiple-errors', '8']
CANARIES = ['add_ancestors']
