// ---- glue specs between the code's data structures and the C01/C13 spec; lemmas (proved, not trusted) ----
/// some policy of the sequence has this id
pub open spec fn id_in(s: Seq<Policy>, k: PolicyID) -> bool { exists|i: int| 0 <= i < s.len() && (#[trigger] s[i]).spec_id() == k }
/// the sequence yields exactly the ids of d
pub open spec fn yields_ids(s: Seq<Policy>, d: SSet<PolicyID>) -> bool { forall|k: PolicyID| d.contains(k) <==> #[trigger] id_in(s, k) }
pub open spec fn yields(s: Seq<Policy>, d: SSet<PolicyID>, e: Effect) -> bool {
    yields_ids(s, d) && (forall|i: int| 0 <= i < s.len() ==> (#[trigger] s[i]).spec_effect() == e)
}
pub broadcast proof fn lemma_id_in_concat(a: Seq<Policy>, b: Seq<Policy>, k: PolicyID)
    ensures #[trigger] id_in(a + b, k) <==> (id_in(a, k) || id_in(b, k))
{
    if id_in(a + b, k) {
        let i = choose|i: int| 0 <= i < (a + b).len() && (#[trigger] (a + b)[i]).spec_id() == k;
        if i < a.len() { assert(a[i].spec_id() == k); } else { assert(b[i - a.len()].spec_id() == k); }
    }
    if id_in(a, k) { let i = choose|i: int| 0 <= i < a.len() && (#[trigger] a[i]).spec_id() == k; assert((a + b)[i].spec_id() == k); }
    if id_in(b, k) { let i = choose|i: int| 0 <= i < b.len() && (#[trigger] b[i]).spec_id() == k; assert((a + b)[a.len() + i].spec_id() == k); }
}
pub open spec fn ids1<T>(v: Seq<(PolicyID, T)>) -> Seq<PolicyID> { v.map_values(|x: (PolicyID, T)| x.0) }
pub open spec fn ids3<T>(v: Seq<(PolicyID, T)>) -> Seq<PolicyID> { ids1(v) }
pub open spec fn ids_err(v: Seq<AuthorizationError>) -> Seq<PolicyID> { v.map_values(|x: AuthorizationError| x->id) }

/// among the first n policies there is one with this id, effect and outcome
pub open spec fn picks(ps: Seq<&Policy>, n: int, ev: &Evaluator<'_>, id: PolicyID, eff: Effect, o: Outcome) -> bool {
    exists|i: int| 0 <= i < n && i < ps.len() && (#[trigger] ps[i]).spec_id() == id && ps[i].spec_effect() == eff && outcome(ev, ps[i]) == o
}
pub open spec fn bucket(ids: Seq<PolicyID>, ps: Seq<&Policy>, n: int, ev: &Evaluator<'_>, eff: Effect, o: Outcome) -> bool {
    forall|id: PolicyID| ids.contains(id) <==> picks(ps, n, ev, id, eff, o)
}
pub open spec fn false_outcome(s: ErrorState) -> Outcome { match s { ErrorState::NoError => Outcome::Unsat, ErrorState::Error => Outcome::Errd } }
pub open spec fn bucket_false(v: Seq<(PolicyID, (ErrorState, Arc<Annotations>))>, ps: Seq<&Policy>, n: int, ev: &Evaluator<'_>, eff: Effect) -> bool {
    (forall|j: int| 0 <= j < v.len() ==> picks(ps, n, ev, (#[trigger] v[j]).0, eff, false_outcome(v[j].1.0)))
    && (forall|id: PolicyID, s: ErrorState| picks(ps, n, ev, id, eff, false_outcome(s)) ==> exists|j: int| 0 <= j < v.len() && (#[trigger] v[j]).0 == id && v[j].1.0 == s)
}
pub open spec fn errors_ok(ids: Seq<PolicyID>, ps: Seq<&Policy>, n: int, ev: &Evaluator<'_>) -> bool {
    ids.no_duplicates()
    && (forall|id: PolicyID| ids.contains(id) <==> (picks(ps, n, ev, id, Effect::Permit, Outcome::Errd) || picks(ps, n, ev, id, Effect::Forbid, Outcome::Errd)))
}

// ---- PartialResponse-level specs ----
pub open spec fn sp(p: PartialResponse) -> SSet<PolicyID> { p.satisfied_permits@.dom() }
pub open spec fn sf(p: PartialResponse) -> SSet<PolicyID> { p.satisfied_forbids@.dom() }
pub open spec fn rp(p: PartialResponse) -> SSet<PolicyID> { p.residual_permits@.dom() }
pub open spec fn rf(p: PartialResponse) -> SSet<PolicyID> { p.residual_forbids@.dom() }
pub open spec fn nonempty<A>(s: SSet<A>) -> bool { exists|a: A| s.contains(a) }
/// C01 at concretisation: residual policies count as errors, hence as not satisfied
pub open spec fn pr_decision(p: PartialResponse) -> Decision {
    if nonempty(sp(p)) && !nonempty(sf(p)) { Decision::Allow } else { Decision::Deny }
}
pub open spec fn pr_reasons(p: PartialResponse) -> SSet<PolicyID> { if nonempty(sf(p)) { sf(p) } else { sp(p) } }
pub open spec fn pr_error_ids(p: PartialResponse) -> Seq<PolicyID> {
    p.residual_forbids.key_order() + p.residual_permits.key_order() + ids_err(p.errors@)
}
/// C13: a completion turns the residual policies selected by c into satisfied ones (the others become unsatisfied or erroring)
pub open spec fn c_sat_permit(p: PartialResponse, c: spec_fn(PolicyID) -> bool, id: PolicyID) -> bool { sp(p).contains(id) || (rp(p).contains(id) && c(id)) }
pub open spec fn c_sat_forbid(p: PartialResponse, c: spec_fn(PolicyID) -> bool, id: PolicyID) -> bool { sf(p).contains(id) || (rf(p).contains(id) && c(id)) }
pub open spec fn completed_decision(p: PartialResponse, c: spec_fn(PolicyID) -> bool) -> Decision {
    if (exists|id: PolicyID| c_sat_permit(p, c, id)) && !(exists|id: PolicyID| c_sat_forbid(p, c, id)) { Decision::Allow } else { Decision::Deny }
}
pub open spec fn completed_reason(p: PartialResponse, c: spec_fn(PolicyID) -> bool, id: PolicyID) -> bool {
    if exists|id: PolicyID| c_sat_forbid(p, c, id) { c_sat_forbid(p, c, id) } else { c_sat_permit(p, c, id) }
}
pub open spec fn pr_may(p: PartialResponse) -> SSet<PolicyID> {
    if !nonempty(sf(p)) { sp(p) + rp(p) + rf(p) } else { sf(p) + rf(p) }
}
/// what the pipeline must establish about the partial response, in terms of the C01 spec
pub open spec fn rows_ok(r: PartialResponse, ps: Seq<&Policy>, ev: &Evaluator<'_>) -> bool {
    &&& forall|id: PolicyID| #![auto] sp(r).contains(id) <==> has(ps, ev, id, Effect::Permit, Outcome::Sat)
    &&& forall|id: PolicyID| #![auto] sf(r).contains(id) <==> has(ps, ev, id, Effect::Forbid, Outcome::Sat)
    &&& forall|id: PolicyID| #![auto] rp(r).contains(id) <==> has(ps, ev, id, Effect::Permit, Outcome::Resid)
    &&& forall|id: PolicyID| #![auto] rf(r).contains(id) <==> has(ps, ev, id, Effect::Forbid, Outcome::Resid)
    &&& forall|id: PolicyID| #![auto] r.false_permits@.dom().contains(id) <==> (has(ps, ev, id, Effect::Permit, Outcome::Unsat) || has(ps, ev, id, Effect::Permit, Outcome::Errd))
    &&& forall|id: PolicyID| #![auto] r.false_forbids@.dom().contains(id) <==> (has(ps, ev, id, Effect::Forbid, Outcome::Unsat) || has(ps, ev, id, Effect::Forbid, Outcome::Errd))
    &&& ids_err(r.errors@).no_duplicates()
    &&& forall|id: PolicyID| #![auto] ids_err(r.errors@).contains(id) <==> (has(ps, ev, id, Effect::Permit, Outcome::Errd) || has(ps, ev, id, Effect::Forbid, Outcome::Errd))
}

pub proof fn lemma_nonempty_empty<A>(s: SSet<A>)
    ensures nonempty(s) <==> !(s =~= SSet::<A>::empty())
{
    if !(s =~= SSet::<A>::empty()) {
        let a = choose|a: A| s.contains(a) != SSet::<A>::empty().contains(a);
        assert(s.contains(a));
    }
}

pub proof fn lemma_step(ps: Seq<&Policy>, k: int, ev: &Evaluator<'_>)
    requires 0 <= k < ps.len()
    ensures forall|id: PolicyID, eff: Effect, o: Outcome| #![trigger picks(ps, k + 1, ev, id, eff, o)]
        picks(ps, k + 1, ev, id, eff, o) <==> (picks(ps, k, ev, id, eff, o) || (ps[k].spec_id() == id && ps[k].spec_effect() == eff && outcome(ev, ps[k]) == o))
{
    assert forall|id: PolicyID, eff: Effect, o: Outcome| #![trigger picks(ps, k + 1, ev, id, eff, o)]
        picks(ps, k + 1, ev, id, eff, o) <==> (picks(ps, k, ev, id, eff, o) || (ps[k].spec_id() == id && ps[k].spec_effect() == eff && outcome(ev, ps[k]) == o)) by {
        if picks(ps, k + 1, ev, id, eff, o) {
            let i = choose|i: int| 0 <= i < k + 1 && i < ps.len() && (#[trigger] ps[i]).spec_id() == id && ps[i].spec_effect() == eff && outcome(ev, ps[i]) == o;
            if i < k { assert(picks(ps, k, ev, id, eff, o)); }
        }
        if picks(ps, k, ev, id, eff, o) {
            let i = choose|i: int| 0 <= i < k && i < ps.len() && (#[trigger] ps[i]).spec_id() == id && ps[i].spec_effect() == eff && outcome(ev, ps[i]) == o;
            assert(picks(ps, k + 1, ev, id, eff, o));
        }
        if ps[k].spec_id() == id && ps[k].spec_effect() == eff && outcome(ev, ps[k]) == o {
            assert(picks(ps, k + 1, ev, id, eff, o));
        }
    }
}

pub proof fn lemma_picks_all(ps: Seq<&Policy>, ev: &Evaluator<'_>)
    ensures forall|id: PolicyID, eff: Effect, o: Outcome| #![trigger picks(ps, ps.len() as int, ev, id, eff, o)] picks(ps, ps.len() as int, ev, id, eff, o) <==> has(ps, ev, id, eff, o)
{
}

pub proof fn lemma_rows(ps: Seq<&Policy>, ev: &Evaluator<'_>,
    tp: Seq<(PolicyID, Arc<Annotations>)>, fp: Seq<(PolicyID, (ErrorState, Arc<Annotations>))>, rpv: Seq<(PolicyID, (Arc<Expr>, Arc<Annotations>))>,
    tf: Seq<(PolicyID, Arc<Annotations>)>, ff: Seq<(PolicyID, (ErrorState, Arc<Annotations>))>, rfv: Seq<(PolicyID, (Arc<Expr>, Arc<Annotations>))>,
    errs: Seq<AuthorizationError>, r: PartialResponse)
    requires
        bucket(ids1(tp), ps, ps.len() as int, ev, Effect::Permit, Outcome::Sat),
        bucket(ids1(tf), ps, ps.len() as int, ev, Effect::Forbid, Outcome::Sat),
        bucket_false(fp, ps, ps.len() as int, ev, Effect::Permit),
        bucket_false(ff, ps, ps.len() as int, ev, Effect::Forbid),
        bucket(ids3(rpv), ps, ps.len() as int, ev, Effect::Permit, Outcome::Resid),
        bucket(ids3(rfv), ps, ps.len() as int, ev, Effect::Forbid, Outcome::Resid),
        errors_ok(ids_err(errs), ps, ps.len() as int, ev),
        r.satisfied_permits@ == vx_map_of(tp), r.false_permits@ == vx_map_of(fp), r.residual_permits@ == vx_map_of(rpv),
        r.satisfied_forbids@ == vx_map_of(tf), r.false_forbids@ == vx_map_of(ff), r.residual_forbids@ == vx_map_of(rfv),
        r.errors@ == errs,
    ensures rows_ok(r, ps, ev)
{
    lemma_picks_all(ps, ev);
    lemma_vx_map_of_dom(tp); lemma_vx_map_of_dom(fp); lemma_vx_map_of_dom(rpv);
    lemma_vx_map_of_dom(tf); lemma_vx_map_of_dom(ff); lemma_vx_map_of_dom(rfv);
    let n = ps.len() as int;
    assert forall|id: PolicyID| sp(r).contains(id) <==> has(ps, ev, id, Effect::Permit, Outcome::Sat) by { lemma_ids_contains1(tp, id); }
    assert forall|id: PolicyID| sf(r).contains(id) <==> has(ps, ev, id, Effect::Forbid, Outcome::Sat) by { lemma_ids_contains1(tf, id); }
    assert forall|id: PolicyID| rp(r).contains(id) <==> has(ps, ev, id, Effect::Permit, Outcome::Resid) by { lemma_ids_contains3(rpv, id); }
    assert forall|id: PolicyID| rf(r).contains(id) <==> has(ps, ev, id, Effect::Forbid, Outcome::Resid) by { lemma_ids_contains3(rfv, id); }
    lemma_false_dom(fp, ps, ev, Effect::Permit, r.false_permits@);
    lemma_false_dom(ff, ps, ev, Effect::Forbid, r.false_forbids@);
}

pub proof fn lemma_false_dom(v: Seq<(PolicyID, (ErrorState, Arc<Annotations>))>, ps: Seq<&Policy>, ev: &Evaluator<'_>, eff: Effect, m: Map<PolicyID, (ErrorState, Arc<Annotations>)>)
    requires bucket_false(v, ps, ps.len() as int, ev, eff), m == vx_map_of(v),
        forall|k: PolicyID| m.contains_key(k) <==> exists|i: int| 0 <= i < v.len() && (#[trigger] v[i]).0 == k,
    ensures forall|id: PolicyID| #![auto] m.dom().contains(id) <==> (has(ps, ev, id, eff, Outcome::Unsat) || has(ps, ev, id, eff, Outcome::Errd))
{
    lemma_picks_all(ps, ev);
    let n = ps.len() as int;
    assert forall|id: PolicyID| m.dom().contains(id) implies (has(ps, ev, id, eff, Outcome::Unsat) || has(ps, ev, id, eff, Outcome::Errd)) by {
        let j = choose|j: int| 0 <= j < v.len() && (#[trigger] v[j]).0 == id;
        assert(picks(ps, n, ev, v[j].0, eff, false_outcome(v[j].1.0)));
    }
    assert forall|id: PolicyID| (has(ps, ev, id, eff, Outcome::Unsat) || has(ps, ev, id, eff, Outcome::Errd)) implies m.dom().contains(id) by {
        if has(ps, ev, id, eff, Outcome::Unsat) {
            assert(picks(ps, n, ev, id, eff, false_outcome(ErrorState::NoError)));
        } else {
            assert(picks(ps, n, ev, id, eff, false_outcome(ErrorState::Error)));
        }
    }
}

pub proof fn lemma_ids_contains1<T>(v: Seq<(PolicyID, T)>, id: PolicyID)
    ensures ids1(v).contains(id) <==> exists|i: int| 0 <= i < v.len() && (#[trigger] v[i]).0 == id
{
    if ids1(v).contains(id) {
        let i = choose|i: int| 0 <= i < ids1(v).len() && ids1(v)[i] == id;
        assert(v[i].0 == id);
    }
    if exists|i: int| 0 <= i < v.len() && (#[trigger] v[i]).0 == id {
        let i = choose|i: int| 0 <= i < v.len() && (#[trigger] v[i]).0 == id;
        assert(ids1(v)[i] == id);
    }
}
pub proof fn lemma_ids_contains3<T>(v: Seq<(PolicyID, T)>, id: PolicyID)
    ensures ids3(v).contains(id) <==> exists|i: int| 0 <= i < v.len() && (#[trigger] v[i]).0 == id
{ lemma_ids_contains1(v, id); }

/// a vector that was left alone or received one push
pub open spec fn grew<A>(old: Seq<A>, now: Seq<A>) -> bool {
    now == old || (now.len() == old.len() + 1 && forall|j: int| 0 <= j < old.len() ==> #[trigger] now[j] == old[j])
}
pub proof fn lemma_grow<T>(old: Seq<(PolicyID, T)>, now: Seq<(PolicyID, T)>)
    requires grew(old, now)
    ensures forall|id: PolicyID| #![trigger ids1(now).contains(id)] ids1(now).contains(id) <==> (ids1(old).contains(id) || (now.len() > old.len() && id == now.last().0))
{
    assert forall|id: PolicyID| #![trigger ids1(now).contains(id)] ids1(now).contains(id) <==> (ids1(old).contains(id) || (now.len() > old.len() && id == now.last().0)) by {
        lemma_ids_contains1(old, id); lemma_ids_contains1(now, id);
        if ids1(old).contains(id) {
            let i = choose|i: int| 0 <= i < old.len() && (#[trigger] old[i]).0 == id;
            assert(now[i].0 == id);
        }
        if now.len() > old.len() && id == now.last().0 { assert(now[now.len() - 1].0 == id); }
        if ids1(now).contains(id) {
            let i = choose|i: int| 0 <= i < now.len() && (#[trigger] now[i]).0 == id;
            if i < old.len() { assert(old[i].0 == id); }
        }
    }
}
pub proof fn lemma_grow_err(old: Seq<AuthorizationError>, now: Seq<AuthorizationError>)
    requires grew(old, now)
    ensures forall|id: PolicyID| #![trigger ids_err(now).contains(id)] ids_err(now).contains(id) <==> (ids_err(old).contains(id) || (now.len() > old.len() && id == now.last()->id)),
        ids_err(old).no_duplicates() && (now.len() > old.len() ==> !ids_err(old).contains(now.last()->id)) ==> ids_err(now).no_duplicates(),
{
    assert forall|id: PolicyID| #![trigger ids_err(now).contains(id)] ids_err(now).contains(id) <==> (ids_err(old).contains(id) || (now.len() > old.len() && id == now.last()->id)) by {
        if ids_err(old).contains(id) {
            let i = choose|i: int| 0 <= i < ids_err(old).len() && ids_err(old)[i] == id;
            assert(ids_err(now)[i] == id);
        }
        if now.len() > old.len() && id == now.last()->id { assert(ids_err(now)[now.len() - 1] == id); }
        if ids_err(now).contains(id) {
            let i = choose|i: int| 0 <= i < ids_err(now).len() && ids_err(now)[i] == id;
            if i < old.len() { assert(ids_err(old)[i] == id); }
        }
    }
    if ids_err(old).no_duplicates() && (now.len() > old.len() ==> !ids_err(old).contains(now.last()->id)) {
        assert forall|i: int, j: int| 0 <= i < ids_err(now).len() && 0 <= j < ids_err(now).len() && i != j implies ids_err(now)[i] != ids_err(now)[j] by {
            if i < old.len() { assert(ids_err(old)[i] == ids_err(now)[i]); }
            if j < old.len() { assert(ids_err(old)[j] == ids_err(now)[j]); }
        }
    }
}
pub proof fn lemma_grow_false(old: Seq<(PolicyID, (ErrorState, Arc<Annotations>))>, now: Seq<(PolicyID, (ErrorState, Arc<Annotations>))>,
    ps: Seq<&Policy>, k: int, ev: &Evaluator<'_>, eff: Effect)
    requires grew(old, now), 0 <= k < ps.len(), bucket_false(old, ps, k, ev, eff),
        now.len() > old.len() ==> now.last().0 == ps[k].spec_id() && ps[k].spec_effect() == eff && outcome(ev, ps[k]) == false_outcome(now.last().1.0),
        now.len() == old.len() ==> !(ps[k].spec_effect() == eff && (outcome(ev, ps[k]) is Unsat || outcome(ev, ps[k]) is Errd)),
    ensures bucket_false(now, ps, k + 1, ev, eff)
{
    lemma_step(ps, k, ev);
    let n = k + 1;
    assert forall|j: int| 0 <= j < now.len() implies picks(ps, n, ev, (#[trigger] now[j]).0, eff, false_outcome(now[j].1.0)) by {
        if j < old.len() { assert(picks(ps, k, ev, old[j].0, eff, false_outcome(old[j].1.0))); }
    }
    assert forall|id: PolicyID, s: ErrorState| #[trigger] picks(ps, n, ev, id, eff, false_outcome(s)) implies exists|j: int| 0 <= j < now.len() && (#[trigger] now[j]).0 == id && now[j].1.0 == s by {
        if picks(ps, k, ev, id, eff, false_outcome(s)) {
            let j = choose|j: int| 0 <= j < old.len() && (#[trigger] old[j]).0 == id && old[j].1.0 == s;
            assert(now[j].0 == id && now[j].1.0 == s);
        } else {
            assert(now[now.len() - 1].0 == id);
        }
    }
}

/// no claim is made through the generic `From` spec; the impl's own contract is used at the (statically resolved) call sites
impl vstd::std_specs::convert::FromSpecImpl<PartialResponse> for Response {
    open spec fn obeys_from_spec() -> bool { false }
    open spec fn from_spec(v: PartialResponse) -> Response { arbitrary() }
}

pub proof fn lemma_yields_from_order(s: Seq<Policy>, order: Seq<PolicyID>, dom: SSet<PolicyID>, e: Effect)
    requires s.len() == order.len(),
        forall|i: int| 0 <= i < s.len() ==> (#[trigger] s[i]).spec_id() == order[i] && s[i].spec_effect() == e,
        forall|k: PolicyID| dom.contains(k) <==> order.contains(k),
    ensures yields(s, dom, e)
{
    assert forall|k: PolicyID| dom.contains(k) <==> #[trigger] id_in(s, k) by {
        if dom.contains(k) {
            assert(order.contains(k));
            let i = choose|i: int| 0 <= i < order.len() && #[trigger] order[i] == k;
            assert(s[i].spec_id() == k);
        }
        if id_in(s, k) {
            let i = choose|i: int| 0 <= i < s.len() && (#[trigger] s[i]).spec_id() == k;
            assert(order[i] == k);
            assert(order.contains(order[i]));
        }
    }
}

pub proof fn lemma_decision_sound(p: PartialResponse, r: Option<Decision>)
    requires r == (if nonempty(sf(p)) { Some(Decision::Deny) } else if !nonempty(sp(p)) && !nonempty(rp(p)) { Some(Decision::Deny) }
        else if nonempty(rf(p)) { None } else if !nonempty(sp(p)) { None } else { Some(Decision::Allow) })
    ensures forall|c: spec_fn(PolicyID) -> bool| r is Some ==> #[trigger] completed_decision(p, c) == r->Some_0
{
    assert forall|c: spec_fn(PolicyID) -> bool| r is Some implies #[trigger] completed_decision(p, c) == r->Some_0 by {
        if nonempty(sf(p)) { let a = choose|a: PolicyID| sf(p).contains(a); assert(c_sat_forbid(p, c, a)); }
        if nonempty(sp(p)) { let a = choose|a: PolicyID| sp(p).contains(a); assert(c_sat_permit(p, c, a)); }
    }
}

/// C01, end to end: from the partial response's rows and the concretisation contract to the statement of the property
pub proof fn lemma_final(pr: PartialResponse, ps: Seq<&Policy>, ev: &Evaluator<'_>, resp: Response)
    requires rows_ok(pr, ps, ev),
        forall|i: int, j: int| 0 <= i < j < ps.len() ==> (#[trigger] ps[i]).spec_id() != (#[trigger] ps[j]).spec_id(),
        resp.decision == pr_decision(pr), resp.diagnostics.reason@ =~= pr_reasons(pr), ids_err(resp.diagnostics.errors@) == pr_error_ids(pr),
    ensures resp.decision == decide(ps, ev),
        forall|id: PolicyID| resp.diagnostics.reason@.contains(id) <==> is_reason(ps, ev, id),
        ids_err(resp.diagnostics.errors@).no_duplicates(),
        forall|id: PolicyID| ids_err(resp.diagnostics.errors@).contains(id) <==> is_error_id(ps, ev, id),
{
    broadcast use axiom_hashmap_order_ok;
    assert(nonempty(sp(pr)) <==> any_sat(ps, ev, Effect::Permit)) by {
        if nonempty(sp(pr)) { let a = choose|a: PolicyID| sp(pr).contains(a); assert(has(ps, ev, a, Effect::Permit, Outcome::Sat)); }
        if any_sat(ps, ev, Effect::Permit) { let a = choose|a: PolicyID| has(ps, ev, a, Effect::Permit, Outcome::Sat); assert(sp(pr).contains(a)); }
    }
    assert(nonempty(sf(pr)) <==> any_sat(ps, ev, Effect::Forbid)) by {
        if nonempty(sf(pr)) { let a = choose|a: PolicyID| sf(pr).contains(a); assert(has(ps, ev, a, Effect::Forbid, Outcome::Sat)); }
        if any_sat(ps, ev, Effect::Forbid) { let a = choose|a: PolicyID| has(ps, ev, a, Effect::Forbid, Outcome::Sat); assert(sf(pr).contains(a)); }
    }
    let kf = pr.residual_forbids.key_order();
    let kp = pr.residual_permits.key_order();
    let ke = ids_err(pr.errors@);
    let all = kf + kp + ke;
    assert(pr.residual_forbids.order_ok() && pr.residual_permits.order_ok());
    assert forall|id: PolicyID| all.contains(id) <==> is_error_id(ps, ev, id) by {
        if all.contains(id) {
            let i = choose|i: int| 0 <= i < all.len() && all[i] == id;
            lemma_class_of(pr, ps, ev, all, i);
        }
        if is_error_id(ps, ev, id) {
            if rf(pr).contains(id) { assert(pr.residual_forbids@.contains_key(id)); assert(kf.contains(id)); let i = choose|i: int| 0 <= i < kf.len() && kf[i] == id; assert(all[i] == id); }
            else if rp(pr).contains(id) { assert(pr.residual_permits@.contains_key(id)); assert(kp.contains(id)); let i = choose|i: int| 0 <= i < kp.len() && kp[i] == id; assert(all[kf.len() + i] == id); }
            else { assert(ke.contains(id)); let i = choose|i: int| 0 <= i < ke.len() && ke[i] == id; assert(all[kf.len() + kp.len() + i] == id); }
        }
    }
    assert forall|i: int, j: int| 0 <= i < all.len() && 0 <= j < all.len() && i != j implies all[i] != all[j] by {
        lemma_class_of(pr, ps, ev, all, i);
        lemma_class_of(pr, ps, ev, all, j);
        if all[i] == all[j] {
            lemma_unique_row(ps, ev, all[i]);
        }
    }
}
/// which class of row the i-th reported error id belongs to
pub open spec fn err_class(pr: PartialResponse, i: int) -> (Effect, bool) {
    let kf = pr.residual_forbids.key_order(); let kp = pr.residual_permits.key_order();
    if i < kf.len() { (Effect::Forbid, true) } else if i < kf.len() + kp.len() { (Effect::Permit, true) } else { (Effect::Permit, false) }
}
pub proof fn lemma_class_of(pr: PartialResponse, ps: Seq<&Policy>, ev: &Evaluator<'_>, all: Seq<PolicyID>, i: int)
    requires rows_ok(pr, ps, ev), 0 <= i < all.len(),
        all == pr.residual_forbids.key_order() + pr.residual_permits.key_order() + ids_err(pr.errors@),
        pr.residual_forbids.order_ok(), pr.residual_permits.order_ok(),
    ensures
        i < pr.residual_forbids.key_order().len() ==> has(ps, ev, all[i], Effect::Forbid, Outcome::Resid),
        pr.residual_forbids.key_order().len() <= i < pr.residual_forbids.key_order().len() + pr.residual_permits.key_order().len() ==> has(ps, ev, all[i], Effect::Permit, Outcome::Resid),
        pr.residual_forbids.key_order().len() + pr.residual_permits.key_order().len() <= i ==> (has(ps, ev, all[i], Effect::Permit, Outcome::Errd) || has(ps, ev, all[i], Effect::Forbid, Outcome::Errd)),
{
    let kf = pr.residual_forbids.key_order(); let kp = pr.residual_permits.key_order(); let ke = ids_err(pr.errors@);
    if i < kf.len() { assert(kf[i] == all[i]); assert(kf.contains(kf[i])); assert(pr.residual_forbids@.contains_key(kf[i])); assert(rf(pr).contains(all[i])); }
    else if i < kf.len() + kp.len() { let j = i - kf.len(); assert(kp[j] == all[i]); assert(kp.contains(kp[j])); assert(pr.residual_permits@.contains_key(kp[j])); assert(rp(pr).contains(all[i])); }
    else { let j = i - kf.len() - kp.len(); assert(ke[j] == all[i]); assert(ke.contains(ke[j])); }
}
/// with pairwise distinct ids, an id has one effect and one outcome
pub proof fn lemma_unique_row(ps: Seq<&Policy>, ev: &Evaluator<'_>, id: PolicyID)
    requires forall|i: int, j: int| 0 <= i < j < ps.len() ==> (#[trigger] ps[i]).spec_id() != (#[trigger] ps[j]).spec_id(),
    ensures forall|e1: Effect, o1: Outcome, e2: Effect, o2: Outcome| has(ps, ev, id, e1, o1) && has(ps, ev, id, e2, o2) ==> e1 == e2 && o1 == o2
{
    assert forall|e1: Effect, o1: Outcome, e2: Effect, o2: Outcome| has(ps, ev, id, e1, o1) && has(ps, ev, id, e2, o2) implies e1 == e2 && o1 == o2 by {
        let i = choose|i: int| 0 <= i < ps.len() && (#[trigger] ps[i]).spec_id() == id && ps[i].spec_effect() == e1 && outcome(ev, ps[i]) == o1;
        let j = choose|j: int| 0 <= j < ps.len() && (#[trigger] ps[j]).spec_id() == id && ps[j].spec_effect() == e2 && outcome(ev, ps[j]) == o2;
        if i < j { assert(ps[i].spec_id() != ps[j].spec_id()); } else if j < i { assert(ps[j].spec_id() != ps[i].spec_id()); }
    }
}

// ---- re-authorization (C13) ----
/// the policy `p` was built from the component tuple `c` (postcondition of the closure of `all_residual_policies`)
pub open spec fn pol_of(p: Policy, c: PolicyComponents<'_>) -> bool {
    p.spec_effect() == c.0 && p.spec_id() == *c.1 && p.spec_condition() == when_cond(**c.2) && p.spec_env() == empty_env()
}
pub open spec fn built_from(items: Seq<Policy>, cs: Seq<PolicyComponents<'_>>) -> bool {
    items.len() == cs.len() && forall|i: int| 0 <= i < items.len() ==> pol_of(#[trigger] items[i], cs[i])
}
pub proof fn lemma_resid_set(pr: PartialResponse, cp: Seq<PolicyComponents<'_>>, cf: Seq<PolicyComponents<'_>>, items: Seq<Policy>, ps: PolicySet)
    requires comps_ok(pr, cp, Effect::Permit), comps_ok(pr, cf, Effect::Forbid), built_from(items, cp + cf),
        ps.distinct_ids(), same_policies(ps.policy_seq(), items),
    ensures resid_set(pr, ps)
{
    let cs = cp + cf;
    let s = ps.policy_seq();
    assert forall|i: int| 0 <= i < s.len() implies resid_pol(pr, *(#[trigger] s[i])) by {
        let j = choose|j: int| 0 <= j < items.len() && *s[i] == #[trigger] items[j];
        assert(pol_of(items[j], cs[j]));
        let c = cs[j];
        if j < cp.len() { assert(c == cp[j]); assert(comp_ok(pr, cp[j], Effect::Permit)); }
        else { assert(c == cf[j - cp.len()]); assert(comp_ok(pr, cf[j - cp.len()], Effect::Forbid)); }
        let e: Arc<Expr> = *c.2;
        assert(s[i].spec_condition() == when_cond(*e));
    }
    assert forall|id: PolicyID, eff: Effect| in_buckets(pr, id, eff) implies #[trigger] pol_has(s, id, eff) by {
        let j: int = if eff == Effect::Permit {
            assert(comp_has(cp, id));
            let k = choose|k: int| 0 <= k < cp.len() && *(#[trigger] cp[k]).1 == id;
            assert(comp_ok(pr, cp[k], Effect::Permit)); assert(cs[k] == cp[k]);
            k
        } else {
            assert(comp_has(cf, id));
            let k = choose|k: int| 0 <= k < cf.len() && *(#[trigger] cf[k]).1 == id;
            assert(comp_ok(pr, cf[k], Effect::Forbid)); assert(cs[cp.len() + k] == cf[k]);
            cp.len() + k
        };
        assert(pol_of(items[j], cs[j]));
        let i = choose|i: int| 0 <= i < s.len() && *(#[trigger] s[i]) == #[trigger] items[j];
        assert(s[i].spec_id() == id && s[i].spec_effect() == eff);
    }
}
/// `all_residuals`: every listed policy stands for a bucket entry of its effect, and every bucket entry is listed
pub open spec fn pols_has(s: Seq<Policy>, id: PolicyID, eff: Effect) -> bool { exists|i: int| 0 <= i < s.len() && (#[trigger] s[i]).spec_id() == id && s[i].spec_effect() == eff }
pub open spec fn all_listed(pr: PartialResponse, s: Seq<Policy>) -> bool {
    (forall|i: int| 0 <= i < s.len() ==> in_buckets(pr, (#[trigger] s[i]).spec_id(), s[i].spec_effect()))
    && (forall|id: PolicyID, eff: Effect| in_buckets(pr, id, eff) ==> #[trigger] pols_has(s, id, eff))
}
pub open spec fn eff_id_from(items: Seq<Policy>, cs: Seq<PolicyComponents<'_>>) -> bool {
    items.len() == cs.len() && forall|i: int| 0 <= i < items.len() ==> (#[trigger] items[i]).spec_effect() == cs[i].0 && items[i].spec_id() == *cs[i].1
}
pub proof fn lemma_all_listed(pr: PartialResponse, cp: Seq<PolicyComponents<'_>>, cf: Seq<PolicyComponents<'_>>, items: Seq<Policy>)
    requires comps_ok(pr, cp, Effect::Permit), comps_ok(pr, cf, Effect::Forbid), eff_id_from(items, cp + cf),
    ensures all_listed(pr, items)
{
    let cs = cp + cf;
    assert forall|i: int| 0 <= i < items.len() implies in_buckets(pr, (#[trigger] items[i]).spec_id(), items[i].spec_effect()) by {
        if i < cp.len() { assert(cs[i] == cp[i]); assert(comp_ok(pr, cp[i], Effect::Permit)); }
        else { assert(cs[i] == cf[i - cp.len()]); assert(comp_ok(pr, cf[i - cp.len()], Effect::Forbid)); }
    }
    assert forall|id: PolicyID, eff: Effect| in_buckets(pr, id, eff) implies #[trigger] pols_has(items, id, eff) by {
        let j: int = if eff == Effect::Permit {
            assert(comp_has(cp, id));
            let k = choose|k: int| 0 <= k < cp.len() && *(#[trigger] cp[k]).1 == id;
            assert(comp_ok(pr, cp[k], Effect::Permit)); assert(cs[k] == cp[k]);
            k
        } else {
            assert(comp_has(cf, id));
            let k = choose|k: int| 0 <= k < cf.len() && *(#[trigger] cf[k]).1 == id;
            assert(comp_ok(pr, cf[k], Effect::Forbid)); assert(cs[cp.len() + k] == cf[k]);
            cp.len() + k
        };
        assert(items[j].spec_id() == id && items[j].spec_effect() == eff);
    }
}
