// ---- authz unit prelude: trusted declarations (opaque types, assumed callee contracts) ----
#[verifier::external_body] pub struct PolicyID { _p: u8 }
impl Clone for PolicyID { #[verifier::external_body] fn clone(&self) -> (r: Self) ensures r == *self { unimplemented!() } }
#[verifier::external_body] pub struct Annotations { _p: u8 }
#[verifier::external_body] pub struct Expr { _p: u8 }
impl Clone for Expr { #[verifier::external_body] fn clone(&self) -> (r: Self) ensures r == *self { unimplemented!() } }
#[verifier::external_body] pub struct Loc { _p: u8 }
#[verifier::external_body] pub struct Value { _p: u8 }
#[verifier::external_body] pub struct EvaluationError { _p: u8 }
#[verifier::external_body] pub struct Request { _p: u8 }
impl Clone for Request { #[verifier::external_body] fn clone(&self) -> (r: Self) ensures r == *self { unimplemented!() } }
#[verifier::external_body] pub struct Entities { _p: u8 }
#[verifier::external_body] pub struct Extensions<'a> { _p: &'a u8 }
#[verifier::external_body] pub struct SlotEnv { _p: u8 }
#[verifier::external_body] pub struct Policy { _p: u8 }
#[verifier::external_body] pub struct PolicySet { _p: u8 }
#[verifier::external_body] pub struct Evaluator<'e> { _p: &'e u8 }
pub enum Either<L, R> { Left(L), Right(R) }
pub type Result<T> = std::result::Result<T, EvaluationError>;
pub type PolicyComponents<'a> = (Effect, &'a PolicyID, &'a Arc<Expr>, &'a Arc<Annotations>);
pub enum PartialValue { Value(Value), Residual(Expr) }

impl Expr {
    #[verifier::external_body] pub fn val(b: bool) -> (r: Expr) { unimplemented!() }
    #[verifier::external_body] pub fn source_loc(&self) -> (r: Option<&Loc>) { unimplemented!() }
}
impl Clone for Loc { #[verifier::external_body] fn clone(&self) -> (r: Self) { unimplemented!() } }
impl Clone for Annotations { #[verifier::external_body] fn clone(&self) -> (r: Self) { unimplemented!() } }
impl EvaluationError {
    #[verifier::external_body] pub fn non_value(e: Expr) -> (r: Self) { unimplemented!() }
}
/// spec view of a value as a boolean (None: not a boolean)
pub uninterp spec fn value_as_bool(v: Value) -> Option<bool>;
impl Value {
    /// assumed contract (the function itself is under contract in unit eval_ops)
    #[verifier::external_body] pub fn get_as_bool(&self) -> (r: Result<bool>)
        ensures match r { Ok(b) => value_as_bool(*self) == Some(b), Err(_) => value_as_bool(*self) is None }
    { unimplemented!() }
}
impl Policy {
    pub uninterp spec fn spec_id(&self) -> PolicyID;
    pub uninterp spec fn spec_effect(&self) -> Effect;
    pub uninterp spec fn spec_condition(&self) -> Expr;
    pub uninterp spec fn spec_env(&self) -> SlotEnv;
    #[verifier::external_body] pub fn id(&self) -> (r: &PolicyID) ensures *r == self.spec_id() { unimplemented!() }
    #[verifier::external_body] pub fn effect(&self) -> (r: Effect) ensures r == self.spec_effect() { unimplemented!() }
    #[verifier::external_body] pub fn annotations_arc(&self) -> (r: &Arc<Annotations>) { unimplemented!() }
    #[verifier::external_body] pub fn condition(&self) -> (r: Expr) ensures r == self.spec_condition() { unimplemented!() }
    #[verifier::external_body] pub fn env(&self) -> (r: &SlotEnv) ensures *r == self.spec_env() { unimplemented!() }
    /// assumed: the constructed policy carries the given effect and id
    #[verifier::external_body] pub fn from_when_clause_annos(effect: Effect, when: Arc<Expr>, id: PolicyID, loc: Option<Loc>, annotations: Arc<Annotations>) -> (r: Policy)
        ensures r.spec_effect() == effect, r.spec_id() == id
    { unimplemented!() }
}
impl PolicySet {
    /// the policies of the set in *some* enumeration order (uninterpreted)
    pub uninterp spec fn policy_seq(&self) -> Seq<&Policy>;
    /// representation invariant of PolicySet relied on here (established in unit policyset): ids are pairwise distinct
    pub open spec fn distinct_ids(&self) -> bool {
        forall|i: int, j: int| 0 <= i < j < self.policy_seq().len() ==> (#[trigger] self.policy_seq()[i]).spec_id() != (#[trigger] self.policy_seq()[j]).spec_id()
    }
    #[verifier::external_body] pub fn policies(&self) -> (r: VxIter<&Policy>) ensures r.items() == self.policy_seq() { unimplemented!() }
}
/// result of partially interpreting an expression under an evaluator: an uninterpreted oracle
pub uninterp spec fn pinterp(ev: &Evaluator<'_>, e: Expr, slots: SlotEnv) -> Result<PartialValue>;
/// the evaluator for a request and an entity store (opaque)
pub uninterp spec fn spec_evaluator<'e>(q: Request, entities: &'e Entities, extensions: &'e Extensions<'e>) -> Evaluator<'e>;
impl<'e> Evaluator<'e> {
    #[verifier::external_body] pub fn new(q: Request, entities: &'e Entities, extensions: &'e Extensions<'e>) -> (r: Self)
        ensures r == spec_evaluator(q, entities, extensions)
    { unimplemented!() }
    /// assumed contract: the oracle (units eval_node prove the evaluator against the language semantics)
    #[verifier::external_body] pub fn partial_interpret(&self, expr: &Expr, slots: &SlotEnv) -> (r: Result<PartialValue>)
        ensures r == pinterp(self, *expr, *slots)
    { unimplemented!() }
}
