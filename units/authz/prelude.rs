// ---- authz unit prelude: trusted declarations (opaque types, assumed callee contracts) ----
#[verifier::external_body] pub struct PolicyID { _p: u8 }
impl Clone for PolicyID { #[verifier::external_body] fn clone(&self) -> (r: Self) ensures r == *self { unimplemented!() } }
#[verifier::external_body] pub struct Annotations { _p: u8 }
#[verifier::external_body] pub struct Expr { _p: u8 }
impl Clone for Expr { #[verifier::external_body] fn clone(&self) -> (r: Self) ensures r == *self { unimplemented!() } }
#[verifier::external_body] pub struct Loc { _p: u8 }
#[verifier::external_body] pub struct Value { _p: u8 }
#[verifier::external_body] pub struct EvaluationError { _p: u8 }
#[verifier::external_body] pub struct Request { _p: u8 }
impl Clone for Request { #[verifier::external_body] fn clone(&self) -> (r: Self) ensures r == *self { unimplemented!() } }
#[verifier::external_body] pub struct Entities { _p: u8 }
#[verifier::external_body] pub struct Extensions<'a> { _p: &'a u8 }
#[verifier::external_body] pub struct SlotEnv { _p: u8 }
#[verifier::external_body] pub struct Policy { _p: u8 }
#[verifier::external_body] pub struct PolicySet { _p: u8 }
#[verifier::external_body] pub struct Evaluator<'e> { _p: &'e u8 }
pub enum Either<L, R> { Left(L), Right(R) }
pub type Result<T> = std::result::Result<T, EvaluationError>;
pub type PolicyComponents<'a> = (Effect, &'a PolicyID, &'a Arc<Expr>, &'a Arc<Annotations>);
pub enum PartialValue { Value(Value), Residual(Expr) }

impl Expr {
    #[verifier::external_body] pub fn val(b: bool) -> (r: Expr) { unimplemented!() }
    #[verifier::external_body] pub fn source_loc(&self) -> (r: Option<&Loc>) { unimplemented!() }
}
impl Clone for Loc { #[verifier::external_body] fn clone(&self) -> (r: Self) { unimplemented!() } }
impl Clone for Annotations { #[verifier::external_body] fn clone(&self) -> (r: Self) { unimplemented!() } }
impl EvaluationError {
    #[verifier::external_body] pub fn non_value(e: Expr) -> (r: Self) { unimplemented!() }
}
/// spec view of a value as a boolean (None: not a boolean)
pub uninterp spec fn value_as_bool(v: Value) -> Option<bool>;
impl Value {
    /// assumed contract (the function itself is under contract in unit eval_ops)
    #[verifier::external_body] pub fn get_as_bool(&self) -> (r: Result<bool>)
        ensures match r { Ok(b) => value_as_bool(*self) == Some(b), Err(_) => value_as_bool(*self) is None }
    { unimplemented!() }
}
impl Policy {
    pub uninterp spec fn spec_id(&self) -> PolicyID;
    pub uninterp spec fn spec_effect(&self) -> Effect;
    pub uninterp spec fn spec_condition(&self) -> Expr;
    pub uninterp spec fn spec_env(&self) -> SlotEnv;
    #[verifier::external_body] pub fn id(&self) -> (r: &PolicyID) ensures *r == self.spec_id() { unimplemented!() }
    #[verifier::external_body] pub fn effect(&self) -> (r: Effect) ensures r == self.spec_effect() { unimplemented!() }
    #[verifier::external_body] pub fn annotations_arc(&self) -> (r: &Arc<Annotations>) { unimplemented!() }
    #[verifier::external_body] pub fn condition(&self) -> (r: Expr) ensures r == self.spec_condition() { unimplemented!() }
    #[verifier::external_body] pub fn env(&self) -> (r: &SlotEnv) ensures *r == self.spec_env() { unimplemented!() }
    /// assumed: the constructed policy carries the given effect and id
    #[verifier::external_body] pub fn from_when_clause_annos(effect: Effect, when: Arc<Expr>, id: PolicyID, loc: Option<Loc>, annotations: Arc<Annotations>) -> (r: Policy)
        ensures r.spec_effect() == effect, r.spec_id() == id, r.spec_condition() == when_cond(*when), r.spec_env() == empty_env()
    { unimplemented!() }
}
/// the condition the authorizer evaluates for a policy built by `from_when_clause_annos` (unconstrained scope && when-clause): uninterpreted
pub uninterp spec fn when_cond(when: Expr) -> Expr;
/// the slot environment of a static policy
pub uninterp spec fn empty_env() -> SlotEnv;
impl PolicySet {
    /// the policies of the set in *some* enumeration order (uninterpreted)
    pub uninterp spec fn policy_seq(&self) -> Seq<&Policy>;
    /// representation invariant of PolicySet relied on here (established in unit policyset): ids are pairwise distinct
    pub open spec fn distinct_ids(&self) -> bool {
        forall|i: int, j: int| 0 <= i < j < self.policy_seq().len() ==> (#[trigger] self.policy_seq()[i]).spec_id() != (#[trigger] self.policy_seq()[j]).spec_id()
    }
    #[verifier::external_body] pub fn policies(&self) -> (r: VxIter<&Policy>) ensures r.items() == self.policy_seq() { unimplemented!() }
}
/// result of partially interpreting an expression under an evaluator: an uninterpreted oracle
pub uninterp spec fn pinterp(ev: &Evaluator<'_>, e: Expr, slots: SlotEnv) -> Result<PartialValue>;
/// the evaluator for a request and an entity store (opaque)
pub uninterp spec fn spec_evaluator<'e>(q: Request, entities: &'e Entities, extensions: &'e Extensions<'e>) -> Evaluator<'e>;
impl<'e> Evaluator<'e> {
    #[verifier::external_body] pub fn new(q: Request, entities: &'e Entities, extensions: &'e Extensions<'e>) -> (r: Self)
        ensures r == spec_evaluator(q, entities, extensions)
    { unimplemented!() }
    /// assumed contract: the oracle (units eval_node prove the evaluator against the language semantics)
    #[verifier::external_body] pub fn partial_interpret(&self, expr: &Expr, slots: &SlotEnv) -> (r: Result<PartialValue>)
        ensures r == pinterp(self, *expr, *slots)
    { unimplemented!() }
}

// ---- additions for PartialResponse::reauthorize (C13) ----
#[verifier::external_body] pub struct PolicySetError { _p: u8 }
#[verifier::external_body] pub struct ConcretizationError { _p: u8 }
#[verifier::external_body] pub struct ReauthorizationError { _p: u8 }
impl From<PolicySetError> for ReauthorizationError { #[verifier::external_body] fn from(e: PolicySetError) -> (r: Self) { unimplemented!() } }
impl From<ConcretizationError> for ReauthorizationError { #[verifier::external_body] fn from(e: ConcretizationError) -> (r: Self) { unimplemented!() } }
#[verifier::external_body] pub struct SmolStr { _p: u8 }
/// the boxed unknowns mapper of an Evaluator (a `Box<dyn Fn(&str) -> Option<Value>>` in the code)
#[verifier::external_body] pub struct UnknownsMapper<'e> { _p: &'e u8 }
/// what a `HashMap<SmolStr, Value>` answers for a `&str` key (Borrow-based lookup): uninterpreted
pub uninterp spec fn str_lookup(m: HashMap<SmolStr, Value>, k: &str) -> Option<Value>;
/// model of `mapping.get(name).cloned()` for a `&str` key
#[verifier::external_body] pub fn vx_map_get_str_cloned(m: &HashMap<SmolStr, Value>, k: &str) -> (r: Option<Value>) ensures r == str_lookup(*m, k) { unimplemented!() }
/// the mapper that answers every unknown name with the mapping's entry
pub uninterp spec fn mapper_of<'e>(m: HashMap<SmolStr, Value>) -> UnknownsMapper<'e>;
/// model of `Box::new(closure)`: the closure handed over must answer exactly the mapping's lookup (checked at the call site)
#[verifier::external_body] pub fn vx_box_mapper<'e, F: Fn(&str) -> Option<Value>>(f: F, Ghost(m): Ghost<HashMap<SmolStr, Value>>) -> (r: UnknownsMapper<'e>)
    requires forall|n: &str| f.requires((n,)), forall|n: &str, o: Option<Value>| f.ensures((n,), o) ==> o == str_lookup(m, n)
    ensures r == mapper_of::<'e>(m)
{ unimplemented!() }
pub uninterp spec fn spec_with_mapper<'e>(ev: Evaluator<'e>, m: UnknownsMapper<'e>) -> Evaluator<'e>;
impl<'e> Evaluator<'e> {
    /// assumed: the evaluator with its unknowns mapper replaced (struct update in the code)
    #[verifier::external_body] pub fn with_unknowns_mapper(self, m: UnknownsMapper<'e>) -> (r: Self) ensures r == spec_with_mapper(self, m) { unimplemented!() }
}
/// `items` and the policies of `ps` are the same policies (in any order)
pub open spec fn same_policies(ps: Seq<&Policy>, items: Seq<Policy>) -> bool {
    (forall|i: int| 0 <= i < ps.len() ==> exists|j: int| 0 <= j < items.len() && *(#[trigger] ps[i]) == #[trigger] items[j])
    && (forall|j: int| 0 <= j < items.len() ==> exists|i: int| 0 <= i < ps.len() && *(#[trigger] ps[i]) == #[trigger] items[j])
}
impl PolicySet {
    /// assumed (PolicySet construction is the subject of C08): success gives a set with pairwise distinct ids holding exactly the given policies
    #[verifier::external_body] pub fn try_from_iter(it: VxIter<Policy>) -> (r: std::result::Result<PolicySet, PolicySetError>)
        ensures r matches Ok(ps) ==> ps.distinct_ids() && same_policies(ps.policy_seq(), it.items())
    { unimplemented!() }
}
pub uninterp spec fn spec_concretize_request(pr: PartialResponse, m: HashMap<SmolStr, Value>) -> std::result::Result<Request, ConcretizationError>;
impl PartialResponse {
    /// assumed (watched): the concretized request is an uninterpreted function of the response's request and the mapping
    #[verifier::external_body] pub fn concretize_request(&self, mapping: &HashMap<SmolStr, Value>) -> (r: std::result::Result<Request, ConcretizationError>)
        ensures r == spec_concretize_request(*self, *mapping)
    { unimplemented!() }
}
