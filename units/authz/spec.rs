// ---- authorization spec, written from the statement of C01 ----
pub enum Outcome { Sat, Unsat, Resid, Errd }
/// the outcome of one policy under an evaluator
pub open spec fn outcome(ev: &Evaluator<'_>, p: &Policy) -> Outcome {
    match pinterp(ev, p.spec_condition(), p.spec_env()) {
        Err(_) => Outcome::Errd,
        Ok(PartialValue::Residual(_)) => Outcome::Resid,
        Ok(PartialValue::Value(v)) => match value_as_bool(v) { Some(true) => Outcome::Sat, Some(false) => Outcome::Unsat, None => Outcome::Errd },
    }
}
/// the policy set contains a policy with this id, effect and outcome
pub open spec fn has(ps: Seq<&Policy>, ev: &Evaluator<'_>, id: PolicyID, eff: Effect, o: Outcome) -> bool {
    exists|i: int| 0 <= i < ps.len() && (#[trigger] ps[i]).spec_id() == id && ps[i].spec_effect() == eff && outcome(ev, ps[i]) == o
}
pub open spec fn any_sat(ps: Seq<&Policy>, ev: &Evaluator<'_>, eff: Effect) -> bool { exists|id: PolicyID| has(ps, ev, id, eff, Outcome::Sat) }
/// Allow exactly when at least one permit is satisfied and no forbid is satisfied
pub open spec fn decide(ps: Seq<&Policy>, ev: &Evaluator<'_>) -> Decision {
    if any_sat(ps, ev, Effect::Permit) && !any_sat(ps, ev, Effect::Forbid) { Decision::Allow } else { Decision::Deny }
}
/// exactly the satisfied forbids when there are any, otherwise exactly the satisfied permits
pub open spec fn is_reason(ps: Seq<&Policy>, ev: &Evaluator<'_>, id: PolicyID) -> bool {
    if any_sat(ps, ev, Effect::Forbid) { has(ps, ev, id, Effect::Forbid, Outcome::Sat) } else { has(ps, ev, id, Effect::Permit, Outcome::Sat) }
}
/// ids reported in the diagnostics' errors: exactly the erroring policies (at concretisation a residual policy is an error too)
pub open spec fn is_error_id(ps: Seq<&Policy>, ev: &Evaluator<'_>, id: PolicyID) -> bool {
    has(ps, ev, id, Effect::Permit, Outcome::Errd) || has(ps, ev, id, Effect::Forbid, Outcome::Errd)
        || has(ps, ev, id, Effect::Permit, Outcome::Resid) || has(ps, ev, id, Effect::Forbid, Outcome::Resid)
}

// ---- re-authorization (C13): the residual policy set of a partial response ----
/// one component tuple stands for a bucket entry of the response: the bucket's effect, an id of that bucket, and the expression
/// `true` / `false` / the stored residual according to the bucket
pub open spec fn comp_ok(pr: PartialResponse, c: PolicyComponents<'_>, eff: Effect) -> bool {
    &&& c.0 == eff
    &&& eff == Effect::Permit ==> (
            (pr.satisfied_permits@.contains_key(*c.1) && *c.2 == pr.true_expr)
         || (pr.false_permits@.contains_key(*c.1) && *c.2 == pr.false_expr)
         || (pr.residual_permits@.contains_key(*c.1) && *c.2 == pr.residual_permits@[*c.1].0))
    &&& eff == Effect::Forbid ==> (
            (pr.satisfied_forbids@.contains_key(*c.1) && *c.2 == pr.true_expr)
         || (pr.false_forbids@.contains_key(*c.1) && *c.2 == pr.false_expr)
         || (pr.residual_forbids@.contains_key(*c.1) && *c.2 == pr.residual_forbids@[*c.1].0))
}
pub open spec fn in_buckets(pr: PartialResponse, id: PolicyID, eff: Effect) -> bool {
    if eff == Effect::Permit { pr.satisfied_permits@.contains_key(id) || pr.false_permits@.contains_key(id) || pr.residual_permits@.contains_key(id) }
    else { pr.satisfied_forbids@.contains_key(id) || pr.false_forbids@.contains_key(id) || pr.residual_forbids@.contains_key(id) }
}
pub open spec fn comp_has(s: Seq<PolicyComponents<'_>>, id: PolicyID) -> bool { exists|i: int| 0 <= i < s.len() && *(#[trigger] s[i]).1 == id }
/// the component sequence lists every entry of the three buckets of this effect, and nothing else
pub open spec fn comps_ok(pr: PartialResponse, s: Seq<PolicyComponents<'_>>, eff: Effect) -> bool {
    (forall|i: int| 0 <= i < s.len() ==> comp_ok(pr, #[trigger] s[i], eff))
    && (forall|id: PolicyID| in_buckets(pr, id, eff) ==> #[trigger] comp_has(s, id))
}
/// a policy of the residual policy set: a static when-clause policy for one bucket entry
pub open spec fn resid_pol(pr: PartialResponse, p: Policy) -> bool {
    p.spec_env() == empty_env() && exists|e: Arc<Expr>| #![trigger when_cond(*e)] p.spec_condition() == when_cond(*e) && (
            (p.spec_effect() == Effect::Permit && (
                (pr.satisfied_permits@.contains_key(p.spec_id()) && e == pr.true_expr)
             || (pr.false_permits@.contains_key(p.spec_id()) && e == pr.false_expr)
             || (pr.residual_permits@.contains_key(p.spec_id()) && e == pr.residual_permits@[p.spec_id()].0)))
         || (p.spec_effect() == Effect::Forbid && (
                (pr.satisfied_forbids@.contains_key(p.spec_id()) && e == pr.true_expr)
             || (pr.false_forbids@.contains_key(p.spec_id()) && e == pr.false_expr)
             || (pr.residual_forbids@.contains_key(p.spec_id()) && e == pr.residual_forbids@[p.spec_id()].0))))
}
pub open spec fn pol_has(s: Seq<&Policy>, id: PolicyID, eff: Effect) -> bool { exists|i: int| 0 <= i < s.len() && (#[trigger] s[i]).spec_id() == id && s[i].spec_effect() == eff }
/// `ps` is the residual policy set of `pr`: pairwise distinct ids, one residual policy per bucket entry, nothing else
pub open spec fn resid_set(pr: PartialResponse, ps: PolicySet) -> bool {
    &&& ps.distinct_ids()
    &&& forall|i: int| 0 <= i < ps.policy_seq().len() ==> resid_pol(pr, *(#[trigger] ps.policy_seq()[i]))
    &&& forall|id: PolicyID, eff: Effect| in_buckets(pr, id, eff) ==> #[trigger] pol_has(ps.policy_seq(), id, eff)
}
