// ---- authorization spec, written from the statement of C01 ----
pub enum Outcome { Sat, Unsat, Resid, Errd }
/// the outcome of one policy under an evaluator
pub open spec fn outcome(ev: &Evaluator<'_>, p: &Policy) -> Outcome {
    match pinterp(ev, p.spec_condition(), p.spec_env()) {
        Err(_) => Outcome::Errd,
        Ok(PartialValue::Residual(_)) => Outcome::Resid,
        Ok(PartialValue::Value(v)) => match value_as_bool(v) { Some(true) => Outcome::Sat, Some(false) => Outcome::Unsat, None => Outcome::Errd },
    }
}
/// the policy set contains a policy with this id, effect and outcome
pub open spec fn has(ps: Seq<&Policy>, ev: &Evaluator<'_>, id: PolicyID, eff: Effect, o: Outcome) -> bool {
    exists|i: int| 0 <= i < ps.len() && (#[trigger] ps[i]).spec_id() == id && ps[i].spec_effect() == eff && outcome(ev, ps[i]) == o
}
pub open spec fn any_sat(ps: Seq<&Policy>, ev: &Evaluator<'_>, eff: Effect) -> bool { exists|id: PolicyID| has(ps, ev, id, eff, Outcome::Sat) }
/// Allow exactly when at least one permit is satisfied and no forbid is satisfied
pub open spec fn decide(ps: Seq<&Policy>, ev: &Evaluator<'_>) -> Decision {
    if any_sat(ps, ev, Effect::Permit) && !any_sat(ps, ev, Effect::Forbid) { Decision::Allow } else { Decision::Deny }
}
/// exactly the satisfied forbids when there are any, otherwise exactly the satisfied permits
pub open spec fn is_reason(ps: Seq<&Policy>, ev: &Evaluator<'_>, id: PolicyID) -> bool {
    if any_sat(ps, ev, Effect::Forbid) { has(ps, ev, id, Effect::Forbid, Outcome::Sat) } else { has(ps, ev, id, Effect::Permit, Outcome::Sat) }
}
/// ids reported in the diagnostics' errors: exactly the erroring policies (at concretisation a residual policy is an error too)
pub open spec fn is_error_id(ps: Seq<&Policy>, ev: &Evaluator<'_>, id: PolicyID) -> bool {
    has(ps, ev, id, Effect::Permit, Outcome::Errd) || has(ps, ev, id, Effect::Forbid, Outcome::Errd)
        || has(ps, ev, id, Effect::Permit, Outcome::Resid) || has(ps, ev, id, Effect::Forbid, Outcome::Resid)
}
