"""Unit authz: the authorization decision pipeline (C01, C13).

is_authorized -> is_authorized_core -> is_authorized_core_internal (bucket loop)
 -> PartialResponse::new -> concretize -> From<PartialResponse> for Response
 (decision, must_be_determining, errors), plus the PartialResponse queries.
"""
from vx.assemble import Fn, Type, Raw, Loop, ClosureRw

PROPERTIES = ['C01', 'C13']
STDMODEL = ['iter.rs', 'hash.rs', 'std.rs']
HEADER = '#![feature(allocator_api)]'
AUTHZ = 'cedar-policy-core/src/authorizer.rs'
PR = 'cedar-policy-core/src/authorizer/partial_response.rs'
ERR = 'cedar-policy-core/src/authorizer/err.rs'
POLICY = 'cedar-policy-core/src/ast/policy.rs'
EVAL = 'cedar-policy-core/src/evaluator.rs'

ASSUMPTIONS = [
    'Evaluator::partial_interpret is an uninterpreted oracle pinterp(evaluator, condition, slot env) (its agreement with the language semantics is the subject of C02).',
    'PolicySet::policies() yields the policies of the set in some order; their ids are pairwise distinct (PolicySet invariant, C08).',
    'Policy::from_when_clause_annos builds a policy with the given id and effect; Policy::{id,effect,condition,env} are accessors of an opaque Policy.',
    'PolicyID equality/hash agree with spec equality (ids are an uninterpreted type: nothing depends on their spelling).',
    'Authorizer has only immutable fields and every function takes &self: no state survives a call (frame fact, by inspection of the extracted struct).',
]

DERIVE = ['derive(Clone, Copy, PartialEq, Eq)']

# closure rewrites (rules R2+R3)
def pol_closure(effect, params, ty, destr):
    return ClosureRw(params, f'_vxp: {ty}', ret='Policy',
                     ensures=f'r.spec_effect() == Effect::{effect}, r.spec_id() == *_vxp.0', destructure=destr)

T2 = "(&PolicyID, &Arc<Annotations>)"
T3 = "(&PolicyID, &(Arc<Expr>, Arc<Annotations>))"
ITER_RET = (r'impl Iterator<Item = Policy> \+ \'_', 'VxIter<Policy>')

def yields(field, eff):
    return f'yields(r.items(), self.{field}@.dom(), Effect::{eff})'

MUST_SET = '(if self.satisfied_forbids@.dom() =~= SSet::<PolicyID>::empty() && self.residual_forbids@.dom() =~= SSet::<PolicyID>::empty() { self.satisfied_permits@.dom() } else { self.satisfied_forbids@.dom() })'
MUST_EFF = '(if self.satisfied_forbids@.dom() =~= SSet::<PolicyID>::empty() && self.residual_forbids@.dom() =~= SSet::<PolicyID>::empty() { Effect::Permit } else { Effect::Forbid })'

INV_CLAUSES = [
    ('snapshot', 'it_1.snapshot@.remaining() == ps, pset.distinct_ids(), ps == pset.policy_seq()'),
    ('true_permits', 'bucket(ids1(true_permits@), ps, it_1.index@, eval, Effect::Permit, Outcome::Sat)'),
    ('true_forbids', 'bucket(ids1(true_forbids@), ps, it_1.index@, eval, Effect::Forbid, Outcome::Sat)'),
    ('false_permits', 'bucket_false(false_permits@, ps, it_1.index@, eval, Effect::Permit)'),
    ('false_forbids', 'bucket_false(false_forbids@, ps, it_1.index@, eval, Effect::Forbid)'),
    ('residual_permits', 'bucket(ids3(residual_permits@), ps, it_1.index@, eval, Effect::Permit, Outcome::Resid)'),
    ('residual_forbids', 'bucket(ids3(residual_forbids@), ps, it_1.index@, eval, Effect::Forbid, Outcome::Resid)'),
    ('errors', 'errors_ok(ids_err(errors@), ps, it_1.index@, eval)'),
]

ITEMS = [
    Raw(file='prelude.rs', tag='prelude'),
    Type(POLICY, 'enum Effect', attrs=DERIVE),
    Type(AUTHZ, 'enum Decision', attrs=DERIVE),
    Type(PR, 'enum ErrorState', attrs=DERIVE),
    Type(AUTHZ, 'enum ErrorHandling', attrs=DERIVE),
    Type(ERR, 'enum AuthorizationError'),
    Type(AUTHZ, 'struct Authorizer'),
    Type(AUTHZ, 'struct Diagnostics'),
    Type(AUTHZ, 'struct Response'),
    Type(PR, 'struct PartialResponse'),
    Raw(file='spec.rs', tag='spec'),
    Raw(file='lemmas.rs', tag='spec'),

    # ---- evaluator entry points ----
    Fn(EVAL, "impl Evaluator<'e> > fn partial_evaluate", wrap="impl<'e> Evaluator<'e>",
       ensures=[('outcome', '''match r {
            Ok(Either::Left(b)) => outcome(self, p) == (if b { Outcome::Sat } else { Outcome::Unsat }),
            Ok(Either::Right(_)) => outcome(self, p) == Outcome::Resid,
            Err(_) => outcome(self, p) == Outcome::Errd,
        }''')],
       rewrites=[
           (r'v\.get_as_bool\(\)\.map\(Either::Left\)', r'v.get_as_bool().map(|b: bool| -> (r: Either<bool, Expr>) ensures r == Either::<bool, Expr>::Left(b) { Either::Left(b) })', 1),
       ]),

    # ---- Response ----
    Fn(AUTHZ, 'impl Response > fn new', name='Response::new', wrap='impl Response',
       ensures=[('fields', 'r.decision == decision && r.diagnostics.reason == reason && r.diagnostics.errors == errors')]),

    # ---- PartialResponse ----
    Fn(PR, 'fn construct_policy',
       rewrites=[(r"\(effect, id, expr, annotations\): PolicyComponents<'_>", "_vxp: PolicyComponents<'_>", 1),
                 (r"(\) -> Policy \{)", r"\1 let (effect, id, expr, annotations) = _vxp;", 1)],
       ensures=[('effect_id', 'r.spec_effect() == _vxp.0 && r.spec_id() == *_vxp.1')]),
    Fn(PR, 'fn did_error',
       rewrites=[(r"\(id, \(state, _\)\): \(&'a PolicyID, &'_ \(ErrorState, Arc<Annotations>\)\)", "_vxp: (&'a PolicyID, &'_ (ErrorState, Arc<Annotations>))", 1),
                 (r"(\) -> Option<&'a PolicyID> \{)", r"\1 let (id, (state, _)) = _vxp;", 1)],
       ensures=[('state', 'r == (if _vxp.1.0 == ErrorState::Error { Some(_vxp.0) } else { None })')]),

    Fn(PR, 'impl PartialResponse > fn new', name='PartialResponse::new', wrap='impl PartialResponse',
       sig_rewrites=[(r'impl IntoIterator<Item = ([^\n]*)>,\n', r'Vec<\1>,\n', 7)],
       rewrites=[(r'(\w+)\.into_iter\(\)\.collect\(\)', r'vx_vec_into_iter(\1).collect()', 7)],
       ensures=[
           ('satisfied_permits', 'r.satisfied_permits@ == vx_map_of(true_permits@)'),
           ('false_permits', 'r.false_permits@ == vx_map_of(false_permits@)'),
           ('residual_permits', 'r.residual_permits@ == vx_map_of(residual_permits@)'),
           ('satisfied_forbids', 'r.satisfied_forbids@ == vx_map_of(true_forbids@)'),
           ('false_forbids', 'r.false_forbids@ == vx_map_of(false_forbids@)'),
           ('residual_forbids', 'r.residual_forbids@ == vx_map_of(residual_forbids@)'),
           ('errors', 'r.errors@ == errors@'),
       ]),
    Fn(PR, 'impl PartialResponse > fn concretize', wrap='impl PartialResponse',
       rewrites=[(r'self\.into\(\)', '<Response as From<PartialResponse>>::from(self)', 1)],
       ensures=[
           ('decision', 'r.decision == pr_decision(self)'),
           ('reasons', 'r.diagnostics.reason@ =~= pr_reasons(self)'),
           ('errors', 'ids_err(r.diagnostics.errors@) == pr_error_ids(self)'),
       ]),
    Fn(PR, 'impl PartialResponse > fn decision', wrap='impl PartialResponse',
       ensures=[('sound', 'forall|c: spec_fn(PolicyID) -> bool| r is Some ==> #[trigger] completed_decision(*self, c) == r->Some_0', ['C13']),
                ],
       proof_start='proof { lemma_nonempty_empty(sf(*self)); lemma_nonempty_empty(sp(*self)); lemma_nonempty_empty(rp(*self)); lemma_nonempty_empty(rf(*self)); }',
       proof_tail='proof { lemma_decision_sound(*self, __vx_r); }'),
    Fn(PR, 'impl PartialResponse > fn definitely_satisfied_permits', wrap='impl PartialResponse',
       sig_rewrites=[ITER_RET], rewrites=[pol_closure('Permit', r'\(id, annotations\)', T2, '(id, annotations)')],
       ensures=[('yields', yields('satisfied_permits', 'Permit'))],
       proof_tail='proof { lemma_yields_from_order(__vx_r.items(), self.satisfied_permits.key_order(), self.satisfied_permits@.dom(), Effect::Permit); }'),
    Fn(PR, 'impl PartialResponse > fn definitely_satisfied_forbids', wrap='impl PartialResponse',
       sig_rewrites=[ITER_RET], rewrites=[pol_closure('Forbid', r'\(id, annotations\)', T2, '(id, annotations)')],
       ensures=[('yields', yields('satisfied_forbids', 'Forbid'))],
       proof_tail='proof { lemma_yields_from_order(__vx_r.items(), self.satisfied_forbids.key_order(), self.satisfied_forbids@.dom(), Effect::Forbid); }'),
    Fn(PR, 'impl PartialResponse > fn residual_permits', wrap='impl PartialResponse',
       sig_rewrites=[ITER_RET], rewrites=[pol_closure('Permit', r'\(id, \(expr, annotations\)\)', T3, '(id, (expr, annotations))')],
       ensures=[('yields', yields('residual_permits', 'Permit'))],
       proof_tail='proof { lemma_yields_from_order(__vx_r.items(), self.residual_permits.key_order(), self.residual_permits@.dom(), Effect::Permit); }'),
    Fn(PR, 'impl PartialResponse > fn residual_forbids', wrap='impl PartialResponse',
       sig_rewrites=[ITER_RET], rewrites=[pol_closure('Forbid', r'\(id, \(expr, annotations\)\)', T3, '(id, (expr, annotations))')],
       ensures=[('yields', yields('residual_forbids', 'Forbid'))],
       proof_tail='proof { lemma_yields_from_order(__vx_r.items(), self.residual_forbids.key_order(), self.residual_forbids@.dom(), Effect::Forbid); }'),
    Fn(PR, 'impl PartialResponse > fn must_be_determining', wrap='impl PartialResponse',
       sig_rewrites=[ITER_RET], rewrites=[(r'Either::(Left|Right)\(', 'vx_id(', 2)],
       ensures=[('yields', f'yields(r.items(), {MUST_SET}, {MUST_EFF})'),
                ('under', 'forall|c: spec_fn(PolicyID) -> bool, id: PolicyID| id_in(r.items(), id) ==> #[trigger] completed_reason(*self, c, id)', ['C13'])],
       proof_start='proof { lemma_nonempty_empty(sf(*self)); lemma_nonempty_empty(rf(*self)); }'),
    Fn(PR, 'impl PartialResponse > fn may_be_determining', wrap='impl PartialResponse',
       sig_rewrites=[ITER_RET], rewrites=[(r'Either::(Left|Right)\(', 'vx_id(', 2)],
       ensures=[('exact', 'yields_ids(r.items(), pr_may(*self))'),
                ('over', 'forall|c: spec_fn(PolicyID) -> bool, id: PolicyID| #[trigger] completed_reason(*self, c, id) ==> id_in(r.items(), id)', ['C13'])],
       proof_start='broadcast use lemma_id_in_concat; proof { lemma_nonempty_empty(sf(*self)); }',
       proof_tail='''proof {
            assert(yields_ids(__vx_r.items(), pr_may(*self)));
            assert forall|c: spec_fn(PolicyID) -> bool, id: PolicyID| #[trigger] completed_reason(*self, c, id) implies id_in(__vx_r.items(), id) by {
                if nonempty(sf(*self)) { let a = choose|a: PolicyID| sf(*self).contains(a); assert(c_sat_forbid(*self, c, a)); }
            }
        }'''),
    Fn(PR, 'impl PartialResponse > fn errors', wrap='impl PartialResponse',
       sig_rewrites=[(r'impl Iterator<Item = AuthorizationError>', 'VxIter<AuthorizationError>', 1)],
       rewrites=[
           ClosureRw(r'\(id, \(expr, _\)\)', '_vxp: (PolicyID, (Arc<Expr>, Arc<Annotations>))', ret='AuthorizationError',
                     ensures='r->id == _vxp.0', destructure='(id, (expr, _))'),
           (r'(self\s*\.residual_forbids.*\.collect::<Vec<_>>\(\))\s*\.into_iter\(\)', r'vx_vec_into_iter(\1)', 1),
       ],
       ensures=[('ids', 'ids_err(r.items()) == pr_error_ids(self)')]),
    Fn(PR, 'impl From<PartialResponse> for Response > fn from', name='from', wrap='impl From<PartialResponse> for Response', vis='',
       proof_start='broadcast use axiom_hashmap_order_ok; proof { lemma_nonempty_empty(sf(p)); }',
       proof_tail='''proof {
            let m = if sf(p) =~= SSet::<PolicyID>::empty() { p.satisfied_permits } else { p.satisfied_forbids };
            assert forall|id: PolicyID| m@.dom().contains(id) implies __vx_r.diagnostics.reason@.contains(id) by {
                assert(m.key_order().contains(id));
                let j = choose|j: int| 0 <= j < m.key_order().len() && m.key_order()[j] == id;
            }
        }''',
       ensures=[
           ('decision', 'r.decision == pr_decision(p)', ['C01']),
           ('reasons', 'r.diagnostics.reason@ =~= pr_reasons(p)', ['C01']),
           ('errors', 'ids_err(r.diagnostics.errors@) == pr_error_ids(p)', ['C01']),
       ]),

    # ---- Authorizer ----
    Fn(AUTHZ, 'impl Authorizer > fn is_authorized_core_internal', wrap='impl Authorizer',
       requires=[('distinct', 'pset.distinct_ids()')],
       ensures=[('rows', 'rows_ok(r, pset.policy_seq(), eval)')],
       proof_start='let ghost ps = pset.policy_seq();',
       loops={1: Loop(iter_suffix='.vx_for()', invariant=INV_CLAUSES,
                      proof_start='''let ghost g_tp = true_permits@; let ghost g_tf = true_forbids@; let ghost g_fp = false_permits@; let ghost g_ff = false_forbids@;
            let ghost g_rp = residual_permits@; let ghost g_rf = residual_forbids@; let ghost g_e = errors@;
            proof { lemma_step(ps, it_1.index@, eval); }''',
                      proof_end='''proof {
                lemma_grow(g_tp, true_permits@); lemma_grow(g_tf, true_forbids@); lemma_grow(g_rp, residual_permits@); lemma_grow(g_rf, residual_forbids@);
                lemma_grow_false(g_fp, false_permits@, ps, it_1.index@, eval, Effect::Permit);
                lemma_grow_false(g_ff, false_forbids@, ps, it_1.index@, eval, Effect::Forbid);
                lemma_grow_err(g_e, errors@);
            }''')},
       proof_tail='proof { lemma_rows(ps, eval, true_permits@, false_permits@, residual_permits@, true_forbids@, false_forbids@, residual_forbids@, errors@, __vx_r); }',
       ),
    Fn(AUTHZ, 'impl Authorizer > fn is_authorized_core', wrap='impl Authorizer',
       requires=[('distinct', 'pset.distinct_ids()')],
       ensures=[('rows', 'rows_ok(r, pset.policy_seq(), &spec_evaluator(q, entities, self.extensions))')]),
    Fn(AUTHZ, 'impl Authorizer > fn is_authorized', wrap='impl Authorizer',
       requires=[('distinct', 'pset.distinct_ids()')],
       ensures=[
           ('decision', 'r.decision == decide(pset.policy_seq(), &spec_evaluator(q, entities, self.extensions))', ['C01']),
           ('reasons', 'forall|id: PolicyID| r.diagnostics.reason@.contains(id) <==> is_reason(pset.policy_seq(), &spec_evaluator(q, entities, self.extensions), id)', ['C01']),
           ('errors_once', 'ids_err(r.diagnostics.errors@).no_duplicates()', ['C01']),
           ('errors', 'forall|id: PolicyID| ids_err(r.diagnostics.errors@).contains(id) <==> is_error_id(pset.policy_seq(), &spec_evaluator(q, entities, self.extensions), id)', ['C01']),
       ],
       rewrites=[(r'self\.is_authorized_core\(q, pset, entities\)\.concretize\(\)', '{ let __vx_pr = self.is_authorized_core(q, pset, entities); let ghost g_pr = __vx_pr; let __vx_resp = __vx_pr.concretize(); proof { lemma_final(g_pr, pset.policy_seq(), &spec_evaluator(q, entities, self.extensions), __vx_resp); } __vx_resp }', 1)],
       ),
    # ---- re-authorization (C13): the residual policy set and the call of the authorizer on it ----
] + [
    Fn(PR, f'impl PartialResponse > fn all_{eff.lower()}_residuals', wrap='impl PartialResponse',
       sig_rewrites=[(r"fn (all_\w+_residuals)\(&'_ self\) -> impl Iterator<Item = PolicyComponents<'_>>", r"fn \1<'a>(&'a self) -> VxIter<PolicyComponents<'a>>", 1)],
       rewrites=[
           ClosureRw(r'\(id, a\)', "_vxp: (&'a PolicyID, &'a Arc<Annotations>)", ret="(&'a PolicyID, (&'a Arc<Expr>, &'a Arc<Annotations>))", rname='o',
                     ensures='*o.0 == *_vxp.0 && *o.1.0 == self.true_expr && *o.1.1 == *_vxp.1', destructure='(id, a)'),
           ClosureRw(r'\(id, \(_, a\)\)', "_vxp: (&'a PolicyID, &'a (ErrorState, Arc<Annotations>))", ret="(&'a PolicyID, (&'a Arc<Expr>, &'a Arc<Annotations>))", rname='o',
                     ensures='*o.0 == *_vxp.0 && *o.1.0 == self.false_expr && *o.1.1 == _vxp.1.1', destructure='(id, (_, a))'),
           ClosureRw(r'\(id, \(r, a\)\)', "_vxp: (&'a PolicyID, &'a (Arc<Expr>, Arc<Annotations>))", ret="(&'a PolicyID, (&'a Arc<Expr>, &'a Arc<Annotations>))", rname='o',
                     ensures='*o.0 == *_vxp.0 && *o.1.0 == _vxp.1.0 && *o.1.1 == _vxp.1.1', destructure='(id, (r, a))', follow=r'\(id,'),
           ClosureRw(r'\(id, \(r, a\)\)', "_vxp: (&'a PolicyID, (&'a Arc<Expr>, &'a Arc<Annotations>))", ret="PolicyComponents<'a>", rname='o',
                     ensures=f'o.0 == Effect::{eff} && *o.1 == *_vxp.0 && *o.2 == *_vxp.1.0 && *o.3 == *_vxp.1.1', destructure='(id, (r, a))', follow=r'\(Effect'),
       ],
       ensures=[('exact', f'comps_ok(*self, r.items(), Effect::{eff})', ['C13'])],
       proof_start='broadcast use axiom_hashmap_order_ok;',
       proof_tail=f"""proof {{
            let s = __vx_r.items();
            let (m1, m2, m3) = (self.satisfied_{eff.lower()}s, self.false_{eff.lower()}s, self.residual_{eff.lower()}s);
            let (n1, n2) = (m1.key_order().len() as int, m2.key_order().len() as int);
            assert forall|i: int| 0 <= i < s.len() implies comp_ok(*self, #[trigger] s[i], Effect::{eff}) by {{
                if i < n1 {{ assert(m1@.dom().contains(m1.key_order()[i])); }}
                else if i < n1 + n2 {{ assert(m2@.dom().contains(m2.key_order()[i - n1])); }}
                else {{ assert(m3@.dom().contains(m3.key_order()[i - n1 - n2])); }}
            }}
            assert forall|id: PolicyID| in_buckets(*self, id, Effect::{eff}) implies #[trigger] comp_has(s, id) by {{
                if m1@.contains_key(id) {{ let j = choose|j: int| 0 <= j < n1 && m1.key_order()[j] == id; assert(*s[j].1 == id); }}
                else if m2@.contains_key(id) {{ let j = choose|j: int| 0 <= j < n2 && m2.key_order()[j] == id; assert(*s[n1 + j].1 == id); }}
                else {{ let j = choose|j: int| 0 <= j < m3.key_order().len() && m3.key_order()[j] == id; assert(*s[n1 + n2 + j].1 == id); }}
            }}
        }}""")
    for eff in ('Permit', 'Forbid')
] + [
    Fn(PR, 'impl PartialResponse > fn all_residual_policies', wrap='impl PartialResponse',
       sig_rewrites=[(r'fn all_residual_policies\(&self\)', "fn all_residual_policies<'a>(&'a self)", 1), (r'-> Result<', '-> std::result::Result<', 1)],
       rewrites=[ClosureRw(r'\(effect, id, expr, annotations\)', "_vxp: PolicyComponents<'a>", ret='Policy', rname='o',
                           ensures='o.spec_effect() == _vxp.0 && o.spec_id() == *_vxp.1 && o.spec_condition() == when_cond(**_vxp.2) && o.spec_env() == empty_env()',
                           destructure='(effect, id, expr, annotations)')],
       ensures=[('exact', 'r matches Ok(ps) ==> resid_set(*self, ps)', ['C13'])],
       proof_tail='''proof {
            if __vx_r is Ok {
                let ghost ps = __vx_r->Ok_0;
                assert forall|cp: Seq<PolicyComponents<'a>>, cf: Seq<PolicyComponents<'a>>, items: Seq<Policy>|
                    #![trigger comps_ok(*self, cp, Effect::Permit), comps_ok(*self, cf, Effect::Forbid), same_policies(ps.policy_seq(), items)]
                    comps_ok(*self, cp, Effect::Permit) && comps_ok(*self, cf, Effect::Forbid) && built_from(items, cp + cf) && same_policies(ps.policy_seq(), items)
                    implies resid_set(*self, ps) by { lemma_resid_set(*self, cp, cf, items, ps); }
            }
        }'''),
    Fn(PR, 'impl PartialResponse > fn reauthorize', wrap='impl PartialResponse',
       sig_rewrites=[(r'-> Result<', '-> std::result::Result<', 1)],
       rewrites=[(r'\|unknown_name: &str\| -> Option<Value> \{', '|unknown_name: &str| -> (o: Option<Value>) ensures o == str_lookup(*mapping, unknown_name) {', 1),
                 (r'mapping\.get\(unknown_name\)\.cloned\(\)', 'vx_map_get_str_cloned(mapping, unknown_name)', 1),
                 (r'Box::new\(unknowns_mapper\)', 'vx_box_mapper(unknowns_mapper, Ghost(*mapping))', 1)],
       ensures=[('reauth', """r matches Ok(pr) ==> (spec_concretize_request(*self, *mapping) matches Ok(q) && exists|ps: PolicySet| #[trigger] resid_set(*self, ps)
            && rows_ok(pr, ps.policy_seq(), &spec_with_mapper(spec_evaluator(q, es, auth.extensions), mapper_of(*mapping))))""", ['C13'])]),
    # ---- the remaining public bucket views (C13 response level) ----
    Fn(PR, 'impl PartialResponse > fn nontrivial_permits', wrap='impl PartialResponse',
       sig_rewrites=[ITER_RET], rewrites=[pol_closure('Permit', r'\(id, \(expr, annotations\)\)', T3, '(id, (expr, annotations))')],
       ensures=[('yields', yields('residual_permits', 'Permit'))],
       proof_tail='proof { lemma_yields_from_order(__vx_r.items(), self.residual_permits.key_order(), self.residual_permits@.dom(), Effect::Permit); }'),
    Fn(PR, 'impl PartialResponse > fn nontrivial_forbids', wrap='impl PartialResponse',
       sig_rewrites=[ITER_RET], rewrites=[pol_closure('Forbid', r'\(id, \(expr, annotations\)\)', T3, '(id, (expr, annotations))')],
       ensures=[('yields', yields('residual_forbids', 'Forbid'))],
       proof_tail='proof { lemma_yields_from_order(__vx_r.items(), self.residual_forbids.key_order(), self.residual_forbids@.dom(), Effect::Forbid); }'),
    Fn(PR, 'impl PartialResponse > fn nontrivial_residuals', wrap='impl PartialResponse',
       sig_rewrites=[(r"&'_ self", '&self', 1), ITER_RET],
       ensures=[('exact', 'forall|k: PolicyID| #[trigger] id_in(r.items(), k) <==> (self.residual_permits@.dom().contains(k) || self.residual_forbids@.dom().contains(k))', ['C13'])],
       proof_start='broadcast use lemma_id_in_concat;'),
    Fn(PR, 'impl PartialResponse > fn definitely_satisfied', wrap='impl PartialResponse',
       sig_rewrites=[ITER_RET],
       ensures=[('exact', 'forall|k: PolicyID| #[trigger] id_in(r.items(), k) <==> (self.satisfied_permits@.dom().contains(k) || self.satisfied_forbids@.dom().contains(k))', ['C13'])],
       proof_start='broadcast use lemma_id_in_concat;'),
    Fn(PR, 'impl PartialResponse > fn all_residuals', wrap='impl PartialResponse',
       sig_rewrites=[(r"&'_ self", "&self", 1), ITER_RET],
       ensures=[('exact', 'all_listed(*self, r.items())', ['C13'])],
       proof_tail="""proof {
            let items = __vx_r.items();
            assert forall|cp: Seq<PolicyComponents<'_>>, cf: Seq<PolicyComponents<'_>>|
                #![trigger comps_ok(*self, cp, Effect::Permit), comps_ok(*self, cf, Effect::Forbid)]
                comps_ok(*self, cp, Effect::Permit) && comps_ok(*self, cf, Effect::Forbid) && eff_id_from(items, cp + cf)
                implies all_listed(*self, items) by { lemma_all_listed(*self, cp, cf, items); }
        }"""),
]
CANARIES = ['is_authorized_core_internal', 'from']
# mechanisms of C13 at the response level that no unit covers: a change to them cannot be decided by this check
UNCOVERED = [('cedar-policy-core/src/authorizer/partial_response.rs', 'impl PartialResponse > fn concretize_request'),
             ('cedar-policy-core/src/authorizer/partial_response.rs', 'impl EntityUIDEntry > fn concretize'),
             ('cedar-policy-core/src/authorizer/partial_response.rs', 'impl PartialResponse > fn get'),
             ('cedar-policy-core/src/authorizer/partial_response.rs', 'impl PartialResponse > fn get_permit'),
             ('cedar-policy-core/src/authorizer/partial_response.rs', 'impl PartialResponse > fn get_forbid'),
             ('cedar-policy-core/src/authorizer/partial_response.rs', 'impl PartialResponse > fn definitely_errored'),
             ('cedar-policy-core/src/authorizer/partial_response.rs', 'impl PartialResponse > fn nontrivial_residual_ids')]
