"""Unit builder: the expression constructors (bool-literal folding of && / ||, the desugarings of != > >=), the scope constraints as
expressions, and the policy condition = scope && when/unless (C02 desugaring, C01 condition, C08 linking == substitution)."""
import re
from vx.assemble import Fn, Type, Raw, Loop, ClosureRw, FnRw, cmp_rw

PROPERTIES = ['C02', 'C01', 'C08']
HEADER = '#![feature(allocator_api)]'
STDMODEL = ['iter.rs', 'hash.rs', 'btree.rs', 'std.rs']
VALUE = 'cedar-policy-core/src/ast/value.rs'
LIT = 'cedar-policy-core/src/ast/literal.rs'
OPS = 'cedar-policy-core/src/ast/ops.rs'
EXPR = 'cedar-policy-core/src/ast/expr.rs'
EB = 'cedar-policy-core/src/expr_builder.rs'
PV = 'cedar-policy-core/src/ast/partial_value.rs'
ENTS = 'cedar-policy-core/src/entities.rs'
REQ = 'cedar-policy-core/src/ast/request.rs'
TYPES = 'cedar-policy-core/src/ast/types.rs'
ERR = 'cedar-policy-core/src/evaluator/err.rs'
POL = 'cedar-policy-core/src/ast/policy.rs'
ASSUMPTIONS = [
    'The meaning of an expression is the recursive spec `sem` of unit eval_node (the evaluator is proved against it there).',
    'Trait default methods of expr_builder::ExprBuilder are checked at the implementor ExprBuilder<T> (Self::Expr = Expr<T>, Self::Data = T).',
    'Extension-value ordering is a total order: ext_lt(y, x) == !ext_le(x, y) (axiom; the operations themselves: C07).',
]
DERIVE = ['derive(Clone, Copy, PartialEq, Eq)']
WB = 'impl<T: Default + Clone> ExprBuilder<T>'
TRAIT = 'trait ExprBuilder'
IMPL = 'impl<T: Default + Clone> expr_builder::ExprBuilder for ExprBuilder<T>'
TB = 'impl TemplateBody'
SELF = [(r'Self::Expr', 'Expr<T>', None), (r'Self::Data', 'T', None)]

ITEMS = [
    Raw(file='../_eval/base.rs', tag='prelude'),
    Raw(file='../eval_node/prelude.rs', tag='prelude'),
    Type(TYPES, 'enum Type'),
    Type(LIT, 'enum Literal'),
    Type(VALUE, 'enum ValueKind'),
    Type(VALUE, 'struct Value'),
    Type(OPS, 'enum UnaryOp', attrs=DERIVE),
    Type(OPS, 'enum BinaryOp', attrs=DERIVE),
    Type(EXPR, 'enum Var', attrs=DERIVE),
    Type(EXPR, 'struct Unknown'),
    Type(EXPR, 'struct Expr'),
    Type(EXPR, 'enum ExprKind'),
    Type(PV, 'enum PartialValue'),
    Type(ENTS, 'enum Dereference'),
    Type(REQ, 'enum EntityUIDEntry'),
    Type(ERR, 'enum EvaluationError', rewrites=[(r'evaluation_errors::', '', None)]),
    Type(ERR, 'mod evaluation_errors > enum IntegerOverflowError'),
    Type(ERR, 'mod evaluation_errors > struct BinaryOpOverflowError'),
    Type(ERR, 'mod evaluation_errors > struct UnaryOpOverflowError'),
    Raw(file='../_eval/set_spec.rs', tag='spec'),
    Raw(file='../_eval/sem_ops.rs', tag='spec'),
    Raw(file='../eval_node/spec.rs', tag='spec'),
    Type(EXPR, 'struct ExprBuilder'),
    Raw(file='spec.rs', tag='spec'),
    # --- the builder (generic in the data T): exact shape of what is built
    Fn(EXPR, 'impl<T> Expr<T> > fn new', name='Expr::new', wrap='impl<T> Expr<T>',
       ensures=[('fields', 'r.expr_kind == expr_kind && r.source_loc == source_loc && r.data == data')]),
    Fn(EXPR, 'impl<T> Expr<T> > fn with_maybe_source_loc', name='Expr::with_maybe_source_loc', wrap='impl<T> Expr<T>',
       ensures=[('kind', 'r.expr_kind == self.expr_kind && r.data == self.data && r.source_loc == source_loc')]),
    Fn(EXPR, 'impl<T> ExprBuilder<T> > fn with_expr_kind', name='ExprBuilder::with_expr_kind', wrap='impl<T> ExprBuilder<T>',
       ensures=[('built', 'r.expr_kind == expr_kind && r.source_loc == self.source_loc && r.data == self.data')]),
    Fn(EXPR, IMPL + ' > fn with_data', name='ExprBuilder::with_data', wrap=WB, ensures=[('fresh', 'r.source_loc is None && r.data == data')]),
    Fn(EB, TRAIT + ' > fn new', name='ExprBuilder::new', wrap=WB, rewrites=SELF + [(r'T::default\(\)', 'vx_default::<T>()', None)],
       ensures=[('fresh', 'r.source_loc is None')]),
    Fn(EXPR, IMPL + ' > fn val', name='ExprBuilder::val', wrap=WB, sig_rewrites=[(r'v: impl Into<Literal>', 'v: Literal', 1)], rewrites=[(r'v\.into\(\)', 'v', 1)],
       ensures=[('lit', 'r.expr_kind == ExprKind::<T>::Lit(v) && r.source_loc == self.source_loc')]),
    Fn(EXPR, IMPL + ' > fn var', name='ExprBuilder::var', wrap=WB, ensures=[('var', 'r.expr_kind == ExprKind::<T>::Var(v) && r.source_loc == self.source_loc')]),
    Fn(EXPR, IMPL + ' > fn slot', name='ExprBuilder::slot', wrap=WB, ensures=[('slot', 'r.expr_kind == ExprKind::<T>::Slot(s) && r.source_loc == self.source_loc')]),
    Fn(EXPR, IMPL + ' > fn not', name='ExprBuilder::not', wrap=WB,
       ensures=[('not', 'r.expr_kind == (ExprKind::UnaryApp { op: UnaryOp::Not, arg: Arc::new(e) })')]),
    Fn(EXPR, IMPL + ' > fn is_eq', name='ExprBuilder::is_eq', wrap=WB,
       ensures=[('eq', 'r.expr_kind == (ExprKind::BinaryApp { op: BinaryOp::Eq, arg1: Arc::new(e1), arg2: Arc::new(e2) })')]),
    Fn(EXPR, IMPL + ' > fn less', name='ExprBuilder::less', wrap=WB,
       ensures=[('less', 'r.expr_kind == (ExprKind::BinaryApp { op: BinaryOp::Less, arg1: Arc::new(e1), arg2: Arc::new(e2) })')]),
    Fn(EXPR, IMPL + ' > fn lesseq', name='ExprBuilder::lesseq', wrap=WB,
       ensures=[('lesseq', 'r.expr_kind == (ExprKind::BinaryApp { op: BinaryOp::LessEq, arg1: Arc::new(e1), arg2: Arc::new(e2) })')]),
    Fn(EXPR, IMPL + ' > fn is_in_arc', name='ExprBuilder::is_in_arc', wrap=WB,
       ensures=[('in', 'r.expr_kind == (ExprKind::BinaryApp { op: BinaryOp::In, arg1, arg2 })')]),
    Fn(EXPR, IMPL + ' > fn is_entity_type_arc', name='ExprBuilder::is_entity_type_arc', wrap=WB,
       ensures=[('is', 'r.expr_kind == (ExprKind::Is { expr, entity_type })')]),
    Fn(EXPR, IMPL + ' > fn and', name='ExprBuilder::and', wrap=WB,
       ensures=[('fold', 'r.expr_kind == fold_and(e1, e2)')]),
    Fn(EXPR, IMPL + ' > fn or', name='ExprBuilder::or', wrap=WB,
       ensures=[('fold', 'r.expr_kind == fold_or(e1, e2)')]),
    Fn(EB, TRAIT + ' > fn is_in', name='ExprBuilder::is_in', wrap=WB, rewrites=SELF,
       ensures=[('in', 'r.expr_kind == (ExprKind::BinaryApp { op: BinaryOp::In, arg1: Arc::new(e1), arg2: Arc::new(e2) })')]),
    Fn(EB, TRAIT + ' > fn is_entity_type', name='ExprBuilder::is_entity_type', wrap=WB, rewrites=SELF,
       ensures=[('is', 'r.expr_kind == (ExprKind::Is { expr: Arc::new(expr), entity_type })')]),
    Fn(EB, TRAIT + ' > fn noteq', name='ExprBuilder::noteq', wrap=WB, rewrites=SELF,
       ensures=[('desugar', 'is_not(r) && is_bin(*not_arg(r), BinaryOp::Eq, e1, e2)')]),
    Fn(EB, TRAIT + ' > fn greater', name='ExprBuilder::greater', wrap=WB, rewrites=SELF,
       ensures=[('desugar', 'is_not(r) && is_bin(*not_arg(r), BinaryOp::LessEq, e1, e2)')]),
    Fn(EB, TRAIT + ' > fn greatereq', name='ExprBuilder::greatereq', wrap=WB, rewrites=SELF,
       ensures=[('desugar', 'is_not(r) && is_bin(*not_arg(r), BinaryOp::Less, e1, e2)')]),
    # --- the constructors on Expr: what the built expression means
    Fn(EXPR, 'impl Expr > fn val', name='Expr::val', wrap='impl Expr', sig_rewrites=[(r'v: impl Into<Literal>', 'v: Literal', 1)],
       ensures=[('lit', 'r.expr_kind == ExprKind::<()>::Lit(v)')]),
    Fn(EXPR, 'impl Expr > fn var', name='Expr::var', wrap='impl Expr', ensures=[('var', 'r.expr_kind == ExprKind::<()>::Var(v)')]),
    Fn(EXPR, 'impl Expr > fn slot', name='Expr::slot', wrap='impl Expr', ensures=[('slot', 'r.expr_kind == ExprKind::<()>::Slot(s)')]),
    Fn(EXPR, 'impl Expr > fn not', name='Expr::not', wrap='impl Expr', ensures=[('not', 'r.expr_kind == (ExprKind::UnaryApp { op: UnaryOp::Not, arg: Arc::new(e) })')]),
    Fn(EXPR, 'impl Expr > fn is_eq', name='Expr::is_eq', wrap='impl Expr',
       ensures=[('eq', 'r.expr_kind == (ExprKind::BinaryApp { op: BinaryOp::Eq, arg1: Arc::new(e1), arg2: Arc::new(e2) })')]),
    Fn(EXPR, 'impl Expr > fn is_in', name='Expr::is_in', wrap='impl Expr',
       ensures=[('in', 'r.expr_kind == (ExprKind::BinaryApp { op: BinaryOp::In, arg1: Arc::new(e1), arg2: Arc::new(e2) })')]),
    Fn(EXPR, 'impl Expr > fn is_entity_type', name='Expr::is_entity_type', wrap='impl Expr',
       ensures=[('is', 'r.expr_kind == (ExprKind::Is { expr: Arc::new(expr), entity_type })')]),
    Fn(EXPR, 'impl Expr > fn less', name='Expr::less', wrap='impl Expr',
       ensures=[('less', 'r.expr_kind == (ExprKind::BinaryApp { op: BinaryOp::Less, arg1: Arc::new(e1), arg2: Arc::new(e2) })')]),
    Fn(EXPR, 'impl Expr > fn lesseq', name='Expr::lesseq', wrap='impl Expr',
       ensures=[('lesseq', 'r.expr_kind == (ExprKind::BinaryApp { op: BinaryOp::LessEq, arg1: Arc::new(e1), arg2: Arc::new(e2) })')]),
    Fn(EXPR, 'impl Expr > fn and', name='Expr::and', wrap='impl Expr',
       ensures=[('meaning', 'sem_same(r, and_e(e1, e2))')],
       proof_tail='proof { lemma_fold_and(__vx_r, e1, e2); }'),
    Fn(EXPR, 'impl Expr > fn or', name='Expr::or', wrap='impl Expr',
       ensures=[('meaning', 'sem_same(r, or_e(e1, e2))')],
       proof_tail='proof { lemma_fold_or(__vx_r, e1, e2); }'),
    Fn(EXPR, 'impl Expr > fn noteq', name='Expr::noteq', wrap='impl Expr',
       ensures=[('meaning', 'forall|ev: &Evaluator<\'_>, slots: SlotEnv| #[trigger] sem(ev, slots, r) == sem2(ev, slots, e1, e2, |a: ValueKind, b: ValueKind| Res::Val(vbool(!kind_eq(a, b))))')],
       proof_tail='proof { lemma_not_bin(__vx_r, BinaryOp::Eq, e1, e2); }'),
    Fn(EXPR, 'impl Expr > fn greater', name='Expr::greater', wrap='impl Expr',
       ensures=[('meaning', 'forall|ev: &Evaluator<\'_>, slots: SlotEnv| #[trigger] sem(ev, slots, r) == sem2(ev, slots, e1, e2, |a: ValueKind, b: ValueKind| sem_relation(BinaryOp::Less, vk(b), vk(a)))')],
       proof_tail='proof { lemma_not_bin(__vx_r, BinaryOp::LessEq, e1, e2); }'),
    Fn(EXPR, 'impl Expr > fn greatereq', name='Expr::greatereq', wrap='impl Expr',
       ensures=[('meaning', 'forall|ev: &Evaluator<\'_>, slots: SlotEnv| #[trigger] sem(ev, slots, r) == sem2(ev, slots, e1, e2, |a: ValueKind, b: ValueKind| sem_relation(BinaryOp::LessEq, vk(b), vk(a)))')],
       proof_tail='proof { lemma_not_bin(__vx_r, BinaryOp::Less, e1, e2); }'),
    # --- scope constraints as expressions, and the policy condition
    Type(POL, 'enum PrincipalOrResource', attrs=DERIVE),
    Type(POL, 'enum EntityReference'),
    Type(POL, 'enum PrincipalOrResourceConstraint'),
    Type(POL, 'struct PrincipalConstraint'),
    Type(POL, 'struct ResourceConstraint'),
    Type(POL, 'enum ActionConstraint'),
    Type(POL, 'struct TemplateBodyImpl'),
    Type(POL, 'enum TemplateBody'),
    Raw(file='spec2.rs', tag='spec'),
    Fn(EXPR, 'impl From<PrincipalOrResource> for Var > fn from', name='Var::from<PrincipalOrResource>', wrap='impl Var',
       sig_rewrites=[(r'fn from\(', 'fn from_por(', 1)], ensures=[('var', 'r == por_var(v)')]),
    Fn('cedar-policy-core/src/ast/name.rs', 'impl From<PrincipalOrResource> for SlotId > fn from', name='SlotId::from<PrincipalOrResource>', wrap='impl SlotId',
       sig_rewrites=[(r'fn from\(', 'fn from_por(', 1)], ensures=[('slot', 'r == por_slot(v)')]),
    Fn(LIT, 'impl From<bool> for Literal > fn from', name='Literal::from<bool>', wrap='impl Literal',
       sig_rewrites=[(r'fn from\(', 'fn from_bool(', 1)], ensures=[('lit', 'r == Literal::Bool(b)')]),
    Fn(LIT, 'impl From<Arc<EntityUID>> for Literal > fn from', name='Literal::from<Arc<EntityUID>>', wrap='impl Literal',
       sig_rewrites=[(r'fn from\(', 'fn from_arc_euid(', 1)], ensures=[('lit', 'r == Literal::EntityUID(ptr)')]),
    Fn(POL, 'impl EntityReference > fn into_expr', name='EntityReference::into_expr', wrap='impl EntityReference',
       rewrites=[(r'Expr::val\(euid\.clone\(\)\)', 'Expr::val(Literal::from_arc_euid(euid.clone()))', 1)],
       ensures=[('ref', 'r.expr_kind == ref_expr(*self, slot).expr_kind')]),
    Fn(POL, 'impl PrincipalOrResourceConstraint > fn as_expr', name='PrincipalOrResourceConstraint::as_expr', wrap='impl PrincipalOrResourceConstraint',
       rewrites=[(r'Expr::val\(true\)', 'Expr::val(Literal::from_bool(true))', 1),
                 (r'Expr::var\(v\.into\(\)\)', 'Expr::var(Var::from_por(v))', 5),
                 (r'into_expr\(v\.into\(\)\)', 'into_expr(SlotId::from_por(v))', 3)],
       ensures=[('meaning', 'sem_same(r, scope_expr(*self, v))')],
       proof_tail='proof { lemma_scope(__vx_r, *self, v); }'),
    Fn(POL, 'impl PrincipalConstraint > fn as_expr', name='PrincipalConstraint::as_expr', wrap='impl PrincipalConstraint',
       ensures=[('meaning', 'sem_same(r, scope_expr(self.constraint, PrincipalOrResource::Principal))')]),
    Fn(POL, 'impl ResourceConstraint > fn as_expr', name='ResourceConstraint::as_expr', wrap='impl ResourceConstraint',
       ensures=[('meaning', 'sem_same(r, scope_expr(self.constraint, PrincipalOrResource::Resource))')]),
    Fn(EXPR, IMPL + ' > fn set', name='ExprBuilder::set', wrap=WB, sig_rewrites=[(r'impl IntoIterator<Item = Expr<T>>', 'VxIter<Expr<T>>', 1)],
       ensures=[('set', 'r.expr_kind is Set && r.expr_kind->Set_0@ == exprs.items()')]),
    Fn(EXPR, 'impl Expr > fn set', name='Expr::set', wrap='impl Expr', sig_rewrites=[(r'impl IntoIterator<Item = Expr>', 'VxIter<Expr>', 1)],
       ensures=[('set', 'r.expr_kind is Set && r.expr_kind->Set_0@ == exprs.items()')]),
    Fn(POL, 'impl ActionConstraint > fn euids_into_expr', name='ActionConstraint::euids_into_expr', wrap='impl ActionConstraint',
       sig_rewrites=[(r'impl IntoIterator<Item = Arc<EntityUID>>', 'VxIter<Arc<EntityUID>>', 1)],
       rewrites=[(r'\.map\(Expr::val\)', '.map(|e: Arc<EntityUID>| -> (x: Expr) ensures x.expr_kind == ExprKind::<()>::Lit(Literal::EntityUID(e)) { Expr::val(Literal::from_arc_euid(e)) })', 1)],
       ensures=[('set', 'r.expr_kind is Set && r.expr_kind->Set_0@.len() == euids.items().len() && forall|i: int| 0 <= i < euids.items().len() ==> (#[trigger] r.expr_kind->Set_0@[i]).expr_kind == ExprKind::<()>::Lit(Literal::EntityUID(euids.items()[i]))')]),
    Fn(POL, 'impl ActionConstraint > fn as_expr', name='ActionConstraint::as_expr', wrap='impl ActionConstraint',
       rewrites=[(r'Expr::val\(true\)', 'Expr::val(Literal::from_bool(true))', 1),
                 (r'Expr::val\(euid\.clone\(\)\)', 'Expr::val(Literal::from_arc_euid(euid.clone()))', 1),
                 (r'euids\.iter\(\)\.cloned\(\)', 'vx_vec_iter(euids).cloned()', 1),
                 (r'"Invalid action constraint"\.to_string\(\)', 'vx_string("Invalid action constraint")', 1)],
       ensures=[('shape', 'is_action_expr(r, *self)')]),
    Fn(POL, TB + ' > fn loc', name='TemplateBody::loc', wrap=TB),
    Fn(POL, TB + ' > fn principal_constraint_expr', name='TemplateBody::principal_constraint_expr', wrap=TB,
       rewrites=[(r'DEFAULT_PRINCIPAL_CONSTRAINT\.as_expr\(\)', 'vx_default_principal_constraint().as_expr()', 1)],
       ensures=[('meaning', 'sem_same(r, scope_expr(self.pc(), PrincipalOrResource::Principal))')]),
    Fn(POL, TB + ' > fn resource_constraint_expr', name='TemplateBody::resource_constraint_expr', wrap=TB,
       rewrites=[(r'DEFAULT_RESOURCE_CONSTRAINT\.as_expr\(\)', 'vx_default_resource_constraint().as_expr()', 1)],
       ensures=[('meaning', 'sem_same(r, scope_expr(self.rc(), PrincipalOrResource::Resource))')]),
    Fn(POL, TB + ' > fn action_constraint_expr', name='TemplateBody::action_constraint_expr', wrap=TB,
       rewrites=[(r'DEFAULT_ACTION_CONSTRAINT\.as_expr\(\)', 'vx_default_action_constraint().as_expr()', 1)],
       ensures=[('shape', 'is_action_expr(r, self.ac())')]),
    Fn(POL, TB + ' > fn non_scope_constraints', name='TemplateBody::non_scope_constraints', wrap=TB,
       rewrites=[(r'non_scope_constraints\.as_ref\(\)\.map\(\|e\| e\.as_ref\(\)\)', 'vx_opt_arc_ref(non_scope_constraints)', 1),
                 (r'Some\(&DEFAULT_ERROR_EXPR\)', 'Some(vx_default_error_expr_ref())', 1)],
       ensures=[('ns', 'self is TemplateBody ==> r == (match self.ns() { Some(e) => Some(&*e), None => None::<&Expr> })'), ('error', 'self is TemplateBodyError ==> r is Some && r->Some_0.expr_kind is Error')]),
    Fn(POL, TB + ' > fn condition', name='TemplateBody::condition', wrap=TB,
       rewrites=[(r'self\.non_scope_constraints\(\)\s*\.cloned\(\)\s*\.unwrap_or_else\(\|\| Expr::val\((true|false)\)\)',
                  r'vx_opt_cloned(self.non_scope_constraints()).unwrap_or_else(|| -> (x: Expr) ensures x.expr_kind == ExprKind::<()>::Lit(Literal::Bool(\1)) { Expr::val(Literal::from_bool(\1)) })', 1),
                 (r'DEFAULT_ERROR_EXPR\.as_ref\(\)\.clone\(\)', 'vx_default_error_expr()', 1)],
       ensures=[('meaning', 'self is TemplateBody ==> exists|a: Expr| is_action_expr(a, self.ac()) && sem_same(r, cond_expr(self.pc(), a, self.rc(), self.ns()))'),
                ('error', 'self is TemplateBodyError ==> r.expr_kind is Error')],
       proof_tail='''proof {
            let pc = self.pc(); let rc = self.rc(); let ns = self.ns(); let ac = self.ac(); let r = __vx_r;
            assert forall|p: Expr, a: Expr, rr: Expr, n: Expr, x1: Expr, y1: Expr, x2: Expr, y2: Expr, x3: Expr|
                sem_same(p, scope_expr(pc, PrincipalOrResource::Principal)) && sem_same(rr, scope_expr(rc, PrincipalOrResource::Resource))
                && sem_same(n, ns_expr(ns))
                && #[trigger] sem_same(x1, and_e(rr, n)) && y1.expr_kind == x1.expr_kind && #[trigger] sem_same(x2, and_e(a, y1)) && y2.expr_kind == x2.expr_kind
                && #[trigger] sem_same(x3, and_e(p, y2)) && r.expr_kind == x3.expr_kind
                implies sem_same(r, cond_expr(pc, a, rc, ns)) by { lemma_cond(r, p, a, rr, n, x1, y1, x2, y2, x3, pc, rc, ns); }
        }'''),
]
