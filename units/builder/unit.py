"""Unit builder: the expression constructors (bool-literal folding of && / ||, the desugarings of != > >=), the scope constraints as
expressions, and the policy condition = scope && when/unless (C02 desugaring, C01 condition, C08 linking == substitution)."""
import re
from vx.assemble import Fn, Type, Raw, Loop, ClosureRw, FnRw, cmp_rw

PROPERTIES = ['C02', 'C01', 'C08']
HEADER = '#![feature(allocator_api)]'
STDMODEL = ['iter.rs', 'hash.rs', 'btree.rs', 'std.rs']
VALUE = 'cedar-policy-core/src/ast/value.rs'
LIT = 'cedar-policy-core/src/ast/literal.rs'
OPS = 'cedar-policy-core/src/ast/ops.rs'
EXPR = 'cedar-policy-core/src/ast/expr.rs'
EB = 'cedar-policy-core/src/expr_builder.rs'
PV = 'cedar-policy-core/src/ast/partial_value.rs'
ENTS = 'cedar-policy-core/src/entities.rs'
REQ = 'cedar-policy-core/src/ast/request.rs'
TYPES = 'cedar-policy-core/src/ast/types.rs'
ERR = 'cedar-policy-core/src/evaluator/err.rs'
POL = 'cedar-policy-core/src/ast/policy.rs'
ASSUMPTIONS = [
    'The meaning of an expression is the recursive spec `sem` of unit eval_node (the evaluator is proved against it there).',
    'Trait default methods of expr_builder::ExprBuilder are checked at the implementor ExprBuilder<T> (Self::Expr = Expr<T>, Self::Data = T).',
    'Extension-value ordering is a total order: ext_lt(y, x) == !ext_le(x, y) (axiom; the operations themselves: C07).',
]
DERIVE = ['derive(Clone, Copy, PartialEq, Eq)']
WB = 'impl<T: Default + Clone> ExprBuilder<T>'
TRAIT = 'trait ExprBuilder'
IMPL = 'impl<T: Default + Clone> expr_builder::ExprBuilder for ExprBuilder<T>'
SELF = [(r'Self::Expr', 'Expr<T>', None), (r'Self::Data', 'T', None)]

ITEMS = [
    Raw(file='../_eval/base.rs', tag='prelude'),
    Raw(file='../eval_node/prelude.rs', tag='prelude'),
    Type(TYPES, 'enum Type'),
    Type(LIT, 'enum Literal'),
    Type(VALUE, 'enum ValueKind'),
    Type(VALUE, 'struct Value'),
    Type(OPS, 'enum UnaryOp', attrs=DERIVE),
    Type(OPS, 'enum BinaryOp', attrs=DERIVE),
    Type(EXPR, 'enum Var', attrs=DERIVE),
    Type(EXPR, 'struct Unknown'),
    Type(EXPR, 'struct Expr'),
    Type(EXPR, 'enum ExprKind'),
    Type(PV, 'enum PartialValue'),
    Type(ENTS, 'enum Dereference'),
    Type(REQ, 'enum EntityUIDEntry'),
    Type(ERR, 'enum EvaluationError', rewrites=[(r'evaluation_errors::', '', None)]),
    Type(ERR, 'mod evaluation_errors > enum IntegerOverflowError'),
    Type(ERR, 'mod evaluation_errors > struct BinaryOpOverflowError'),
    Type(ERR, 'mod evaluation_errors > struct UnaryOpOverflowError'),
    Raw(file='../_eval/set_spec.rs', tag='spec'),
    Raw(file='../_eval/sem_ops.rs', tag='spec'),
    Raw(file='../eval_node/spec.rs', tag='spec'),
    Type(EXPR, 'struct ExprBuilder'),
    Raw(file='spec.rs', tag='spec'),
    # --- the builder (generic in the data T): exact shape of what is built
    Fn(EXPR, 'impl<T> Expr<T> > fn new', name='Expr::new', wrap='impl<T> Expr<T>',
       ensures=[('fields', 'r.expr_kind == expr_kind && r.source_loc == source_loc && r.data == data')]),
    Fn(EXPR, 'impl<T> Expr<T> > fn with_maybe_source_loc', name='Expr::with_maybe_source_loc', wrap='impl<T> Expr<T>',
       ensures=[('kind', 'r.expr_kind == self.expr_kind && r.data == self.data && r.source_loc == source_loc')]),
    Fn(EXPR, 'impl<T> ExprBuilder<T> > fn with_expr_kind', name='ExprBuilder::with_expr_kind', wrap='impl<T> ExprBuilder<T>',
       ensures=[('built', 'r.expr_kind == expr_kind && r.source_loc == self.source_loc && r.data == self.data')]),
    Fn(EXPR, IMPL + ' > fn with_data', name='ExprBuilder::with_data', wrap=WB, ensures=[('fresh', 'r.source_loc is None && r.data == data')]),
    Fn(EB, TRAIT + ' > fn new', name='ExprBuilder::new', wrap=WB, rewrites=SELF + [(r'T::default\(\)', 'vx_default::<T>()', None)],
       ensures=[('fresh', 'r.source_loc is None')]),
    Fn(EXPR, IMPL + ' > fn val', name='ExprBuilder::val', wrap=WB, sig_rewrites=[(r'v: impl Into<Literal>', 'v: Literal', 1)], rewrites=[(r'v\.into\(\)', 'v', 1)],
       ensures=[('lit', 'r.expr_kind == ExprKind::<T>::Lit(v) && r.source_loc == self.source_loc')]),
    Fn(EXPR, IMPL + ' > fn var', name='ExprBuilder::var', wrap=WB, ensures=[('var', 'r.expr_kind == ExprKind::<T>::Var(v) && r.source_loc == self.source_loc')]),
    Fn(EXPR, IMPL + ' > fn slot', name='ExprBuilder::slot', wrap=WB, ensures=[('slot', 'r.expr_kind == ExprKind::<T>::Slot(s) && r.source_loc == self.source_loc')]),
    Fn(EXPR, IMPL + ' > fn not', name='ExprBuilder::not', wrap=WB,
       ensures=[('not', 'r.expr_kind == (ExprKind::UnaryApp { op: UnaryOp::Not, arg: Arc::new(e) })')]),
    Fn(EXPR, IMPL + ' > fn is_eq', name='ExprBuilder::is_eq', wrap=WB,
       ensures=[('eq', 'r.expr_kind == (ExprKind::BinaryApp { op: BinaryOp::Eq, arg1: Arc::new(e1), arg2: Arc::new(e2) })')]),
    Fn(EXPR, IMPL + ' > fn less', name='ExprBuilder::less', wrap=WB,
       ensures=[('less', 'r.expr_kind == (ExprKind::BinaryApp { op: BinaryOp::Less, arg1: Arc::new(e1), arg2: Arc::new(e2) })')]),
    Fn(EXPR, IMPL + ' > fn lesseq', name='ExprBuilder::lesseq', wrap=WB,
       ensures=[('lesseq', 'r.expr_kind == (ExprKind::BinaryApp { op: BinaryOp::LessEq, arg1: Arc::new(e1), arg2: Arc::new(e2) })')]),
    Fn(EXPR, IMPL + ' > fn is_in_arc', name='ExprBuilder::is_in_arc', wrap=WB,
       ensures=[('in', 'r.expr_kind == (ExprKind::BinaryApp { op: BinaryOp::In, arg1, arg2 })')]),
    Fn(EXPR, IMPL + ' > fn is_entity_type_arc', name='ExprBuilder::is_entity_type_arc', wrap=WB,
       ensures=[('is', 'r.expr_kind == (ExprKind::Is { expr, entity_type })')]),
    Fn(EXPR, IMPL + ' > fn and', name='ExprBuilder::and', wrap=WB,
       ensures=[('fold', 'r.expr_kind == fold_and(e1, e2)')]),
    Fn(EXPR, IMPL + ' > fn or', name='ExprBuilder::or', wrap=WB,
       ensures=[('fold', 'r.expr_kind == fold_or(e1, e2)')]),
    Fn(EB, TRAIT + ' > fn is_in', name='ExprBuilder::is_in', wrap=WB, rewrites=SELF,
       ensures=[('in', 'r.expr_kind == (ExprKind::BinaryApp { op: BinaryOp::In, arg1: Arc::new(e1), arg2: Arc::new(e2) })')]),
    Fn(EB, TRAIT + ' > fn is_entity_type', name='ExprBuilder::is_entity_type', wrap=WB, rewrites=SELF,
       ensures=[('is', 'r.expr_kind == (ExprKind::Is { expr: Arc::new(expr), entity_type })')]),
    Fn(EB, TRAIT + ' > fn noteq', name='ExprBuilder::noteq', wrap=WB, rewrites=SELF,
       ensures=[('desugar', 'is_not(r) && is_bin(*not_arg(r), BinaryOp::Eq, e1, e2)')]),
    Fn(EB, TRAIT + ' > fn greater', name='ExprBuilder::greater', wrap=WB, rewrites=SELF,
       ensures=[('desugar', 'is_not(r) && is_bin(*not_arg(r), BinaryOp::LessEq, e1, e2)')]),
    Fn(EB, TRAIT + ' > fn greatereq', name='ExprBuilder::greatereq', wrap=WB, rewrites=SELF,
       ensures=[('desugar', 'is_not(r) && is_bin(*not_arg(r), BinaryOp::Less, e1, e2)')]),
    # --- the constructors on Expr: what the built expression means
    Fn(EXPR, 'impl Expr > fn val', name='Expr::val', wrap='impl Expr', sig_rewrites=[(r'v: impl Into<Literal>', 'v: Literal', 1)],
       ensures=[('lit', 'r.expr_kind == ExprKind::<()>::Lit(v)')]),
    Fn(EXPR, 'impl Expr > fn var', name='Expr::var', wrap='impl Expr', ensures=[('var', 'r.expr_kind == ExprKind::<()>::Var(v)')]),
    Fn(EXPR, 'impl Expr > fn slot', name='Expr::slot', wrap='impl Expr', ensures=[('slot', 'r.expr_kind == ExprKind::<()>::Slot(s)')]),
    Fn(EXPR, 'impl Expr > fn not', name='Expr::not', wrap='impl Expr', ensures=[('not', 'r.expr_kind == (ExprKind::UnaryApp { op: UnaryOp::Not, arg: Arc::new(e) })')]),
    Fn(EXPR, 'impl Expr > fn is_eq', name='Expr::is_eq', wrap='impl Expr',
       ensures=[('eq', 'r.expr_kind == (ExprKind::BinaryApp { op: BinaryOp::Eq, arg1: Arc::new(e1), arg2: Arc::new(e2) })')]),
    Fn(EXPR, 'impl Expr > fn is_in', name='Expr::is_in', wrap='impl Expr',
       ensures=[('in', 'r.expr_kind == (ExprKind::BinaryApp { op: BinaryOp::In, arg1: Arc::new(e1), arg2: Arc::new(e2) })')]),
    Fn(EXPR, 'impl Expr > fn is_entity_type', name='Expr::is_entity_type', wrap='impl Expr',
       ensures=[('is', 'r.expr_kind == (ExprKind::Is { expr: Arc::new(expr), entity_type })')]),
    Fn(EXPR, 'impl Expr > fn less', name='Expr::less', wrap='impl Expr',
       ensures=[('less', 'r.expr_kind == (ExprKind::BinaryApp { op: BinaryOp::Less, arg1: Arc::new(e1), arg2: Arc::new(e2) })')]),
    Fn(EXPR, 'impl Expr > fn lesseq', name='Expr::lesseq', wrap='impl Expr',
       ensures=[('lesseq', 'r.expr_kind == (ExprKind::BinaryApp { op: BinaryOp::LessEq, arg1: Arc::new(e1), arg2: Arc::new(e2) })')]),
    Fn(EXPR, 'impl Expr > fn and', name='Expr::and', wrap='impl Expr',
       ensures=[('meaning', 'sem_same(r, mk(ExprKind::And { left: Arc::new(e1), right: Arc::new(e2) }))')],
       proof_tail='proof { lemma_fold_and(__vx_r, e1, e2); }'),
    Fn(EXPR, 'impl Expr > fn or', name='Expr::or', wrap='impl Expr',
       ensures=[('meaning', 'sem_same(r, mk(ExprKind::Or { left: Arc::new(e1), right: Arc::new(e2) }))')],
       proof_tail='proof { lemma_fold_or(__vx_r, e1, e2); }'),
    Fn(EXPR, 'impl Expr > fn noteq', name='Expr::noteq', wrap='impl Expr',
       ensures=[('meaning', 'forall|ev: &Evaluator<\'_>, slots: SlotEnv| #[trigger] sem(ev, slots, r) == sem2(ev, slots, e1, e2, |a: ValueKind, b: ValueKind| Res::Val(vbool(!kind_eq(a, b))))')],
       proof_tail='proof { lemma_not_bin(__vx_r, BinaryOp::Eq, e1, e2); }'),
    Fn(EXPR, 'impl Expr > fn greater', name='Expr::greater', wrap='impl Expr',
       ensures=[('meaning', 'forall|ev: &Evaluator<\'_>, slots: SlotEnv| #[trigger] sem(ev, slots, r) == sem2(ev, slots, e1, e2, |a: ValueKind, b: ValueKind| sem_relation(BinaryOp::Less, vk(b), vk(a)))')],
       proof_tail='proof { lemma_not_bin(__vx_r, BinaryOp::LessEq, e1, e2); }'),
    Fn(EXPR, 'impl Expr > fn greatereq', name='Expr::greatereq', wrap='impl Expr',
       ensures=[('meaning', 'forall|ev: &Evaluator<\'_>, slots: SlotEnv| #[trigger] sem(ev, slots, r) == sem2(ev, slots, e1, e2, |a: ValueKind, b: ValueKind| sem_relation(BinaryOp::LessEq, vk(b), vk(a)))')],
       proof_tail='proof { lemma_not_bin(__vx_r, BinaryOp::Less, e1, e2); }'),
]
