"""Unit builder: the expression constructors (bool-literal folding of && / ||, the desugarings of != > >=), the scope constraints as
expressions, and the policy condition = scope && when/unless (C02 desugaring, C01 condition, C08 linking == substitution)."""
import re
from vx.assemble import Fn, Type, Raw, Loop, ClosureRw, FnRw, cmp_rw

PROPERTIES = ['C02', 'C01', 'C08']
HEADER = '#![feature(allocator_api)]'
STDMODEL = ['iter.rs', 'hash.rs', 'btree.rs', 'std.rs']
VALUE = 'cedar-policy-core/src/ast/value.rs'
LIT = 'cedar-policy-core/src/ast/literal.rs'
OPS = 'cedar-policy-core/src/ast/ops.rs'
EXPR = 'cedar-policy-core/src/ast/expr.rs'
EB = 'cedar-policy-core/src/expr_builder.rs'
PV = 'cedar-policy-core/src/ast/partial_value.rs'
ENTS = 'cedar-policy-core/src/entities.rs'
REQ = 'cedar-policy-core/src/ast/request.rs'
TYPES = 'cedar-policy-core/src/ast/types.rs'
ERR = 'cedar-policy-core/src/evaluator/err.rs'
POL = 'cedar-policy-core/src/ast/policy.rs'
ASSUMPTIONS = [
    'The meaning of an expression is the recursive spec `sem` of unit eval_node (the evaluator is proved against it there).',
    'Trait default methods of expr_builder::ExprBuilder are checked at the implementor ExprBuilder<T> (Self::Expr = Expr<T>, Self::Data = T).',
    'Extension-value ordering is a total order: ext_lt(y, x) == !ext_le(x, y) (axiom; the operations themselves: C07).',
]
DERIVE = ['derive(Clone, Copy, PartialEq, Eq)']
WB = 'impl<T: Default + Clone> ExprBuilder<T>'
TRAIT = 'trait ExprBuilder'
IMPL = 'impl<T: Default + Clone> expr_builder::ExprBuilder for ExprBuilder<T>'
SELF = [(r'Self::Expr', 'Expr<T>', None), (r'Self::Data', 'T', None)]

ITEMS = [
    Raw(file='../_eval/base.rs', tag='prelude'),
    Raw(file='../eval_node/prelude.rs', tag='prelude'),
    Type(TYPES, 'enum Type'),
    Type(LIT, 'enum Literal'),
    Type(VALUE, 'enum ValueKind'),
    Type(VALUE, 'struct Value'),
    Type(OPS, 'enum UnaryOp', attrs=DERIVE),
    Type(OPS, 'enum BinaryOp', attrs=DERIVE),
    Type(EXPR, 'enum Var', attrs=DERIVE),
    Type(EXPR, 'struct Unknown'),
    Type(EXPR, 'struct Expr'),
    Type(EXPR, 'enum ExprKind'),
    Type(PV, 'enum PartialValue'),
    Type(ENTS, 'enum Dereference'),
    Type(REQ, 'enum EntityUIDEntry'),
    Type(ERR, 'enum EvaluationError', rewrites=[(r'evaluation_errors::', '', None)]),
    Type(ERR, 'mod evaluation_errors > enum IntegerOverflowError'),
    Type(ERR, 'mod evaluation_errors > struct BinaryOpOverflowError'),
    Type(ERR, 'mod evaluation_errors > struct UnaryOpOverflowError'),
    Raw(file='../_eval/set_spec.rs', tag='spec'),
    Raw(file='../_eval/sem_ops.rs', tag='spec'),
    Raw(file='../eval_node/spec.rs', tag='spec'),
    Type(EXPR, 'struct ExprBuilder'),
    Raw(file='spec.rs', tag='spec'),
    # --- the builder (generic in the data T): exact shape of what is built
    Fn(EXPR, 'impl<T> Expr<T> > fn new', name='Expr::new', wrap='impl<T> Expr<T>',
       ensures=[('fields', 'r.expr_kind == expr_kind && r.source_loc == source_loc && r.data == data')]),
    Fn(EXPR, 'impl<T> Expr<T> > fn with_maybe_source_loc', name='Expr::with_maybe_source_loc', wrap='impl<T> Expr<T>',
       ensures=[('kind', 'r.expr_kind == self.expr_kind && r.data == self.data && r.source_loc == source_loc')]),
    Fn(EXPR, 'impl<T> ExprBuilder<T> > fn with_expr_kind', name='ExprBuilder::with_expr_kind', wrap='impl<T> ExprBuilder<T>',
       ensures=[('built', 'r.expr_kind == expr_kind && r.source_loc == self.source_loc && r.data == self.data')]),
    Fn(EXPR, IMPL + ' > fn with_data', name='ExprBuilder::with_data', wrap=WB, ensures=[('fresh', 'r.source_loc is None && r.data == data')]),
]
