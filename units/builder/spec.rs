// ---- meaning-level contracts for the expression constructors ----
