// ---- meaning-level contracts for the expression constructors ----
/// `&&` / `||` of two boolean literals is folded to the literal; anything else builds the node
pub open spec fn fold_and<T>(e1: Expr<T>, e2: Expr<T>) -> ExprKind<T> {
    match (e1.expr_kind, e2.expr_kind) {
        (ExprKind::Lit(Literal::Bool(b1)), ExprKind::Lit(Literal::Bool(b2))) => ExprKind::Lit(Literal::Bool(b1 && b2)),
        _ => ExprKind::And { left: Arc::new(e1), right: Arc::new(e2) },
    }
}
pub open spec fn fold_or<T>(e1: Expr<T>, e2: Expr<T>) -> ExprKind<T> {
    match (e1.expr_kind, e2.expr_kind) {
        (ExprKind::Lit(Literal::Bool(b1)), ExprKind::Lit(Literal::Bool(b2))) => ExprKind::Lit(Literal::Bool(b1 || b2)),
        _ => ExprKind::Or { left: Arc::new(e1), right: Arc::new(e2) },
    }
}
pub open spec fn is_not<T>(e: Expr<T>) -> bool { e.expr_kind is UnaryApp && e.expr_kind->UnaryApp_op == UnaryOp::Not }
pub open spec fn not_arg<T>(e: Expr<T>) -> Arc<Expr<T>> { e.expr_kind->UnaryApp_arg }
pub open spec fn is_bin<T>(e: Expr<T>, op: BinaryOp, a: Expr<T>, b: Expr<T>) -> bool {
    e.expr_kind == (ExprKind::BinaryApp { op, arg1: Arc::new(a), arg2: Arc::new(b) })
}
#[verifier::external_body] pub fn vx_default<T: Default>() -> (r: T) { unimplemented!() }
/// #[derive(Clone)] on ExprBuilder
impl<T: Clone> Clone for ExprBuilder<T> { #[verifier::external_body] fn clone(&self) -> (r: Self) ensures r.source_loc == self.source_loc { unimplemented!() } }
/// an expression node with this kind (source location and data are not semantic)
pub open spec fn mk(k: ExprKind) -> Expr { Expr { expr_kind: k, source_loc: None, data: () } }
/// evaluate both operands left to right, then combine the two values
pub open spec fn sem2(ev: &Evaluator<'_>, slots: SlotEnv, e1: Expr, e2: Expr, f: spec_fn(ValueKind, ValueKind) -> Res) -> Res {
    match sem(ev, slots, e1) { Res::Val(k1) => match sem(ev, slots, e2) { Res::Val(k2) => f(k1, k2), r => r }, r => r }
}
/// the ordering of comparable extension values is total (the operations themselves: C07)
pub broadcast axiom fn axiom_ext_total(x: RepresentableExtensionValue, y: RepresentableExtensionValue)
    ensures #![trigger ext_lt(y, x)] #![trigger ext_le(x, y)] ext_lt(y, x) == !ext_le(x, y);
pub open spec fn and_e(a: Expr, b: Expr) -> Expr { mk(ExprKind::And { left: Arc::new(a), right: Arc::new(b) }) }
pub open spec fn or_e(a: Expr, b: Expr) -> Expr { mk(ExprKind::Or { left: Arc::new(a), right: Arc::new(b) }) }
/// same meaning in every evaluator and slot environment
pub open spec fn sem_same(a: Expr, b: Expr) -> bool { forall|ev: &Evaluator<'_>, slots: SlotEnv| #[trigger] sem(ev, slots, a) == sem(ev, slots, b) }
pub proof fn lemma_fold_and(r: Expr, e1: Expr, e2: Expr)
    requires r.expr_kind == fold_and(e1, e2),
    ensures sem_same(r, and_e(e1, e2)),
{
    reveal_with_fuel(sem, 3);
    let a = mk(ExprKind::And { left: Arc::new(e1), right: Arc::new(e2) });
    assert forall|ev: &Evaluator<'_>, slots: SlotEnv| #[trigger] sem(ev, slots, r) == sem(ev, slots, a) by {
        let s1 = sem(ev, slots, e1); let s2 = sem(ev, slots, e2);
    }
}
pub proof fn lemma_fold_or(r: Expr, e1: Expr, e2: Expr)
    requires r.expr_kind == fold_or(e1, e2),
    ensures sem_same(r, or_e(e1, e2)),
{
    reveal_with_fuel(sem, 3);
    let a = mk(ExprKind::Or { left: Arc::new(e1), right: Arc::new(e2) });
    assert forall|ev: &Evaluator<'_>, slots: SlotEnv| #[trigger] sem(ev, slots, r) == sem(ev, slots, a) by {
        let s1 = sem(ev, slots, e1); let s2 = sem(ev, slots, e2);
    }
}
/// `!(e1 op e2)` for op in ==, <=, <  means  e1 != e2,  e1 > e2,  e1 >= e2
pub proof fn lemma_not_bin(r: Expr, op: BinaryOp, e1: Expr, e2: Expr)
    requires is_not(r), is_bin(*not_arg(r), op, e1, e2), op == BinaryOp::Eq || op == BinaryOp::LessEq || op == BinaryOp::Less,
    ensures forall|ev: &Evaluator<'_>, slots: SlotEnv| #[trigger] sem(ev, slots, r) == sem2(ev, slots, e1, e2, |a: ValueKind, b: ValueKind|
        if op == BinaryOp::Eq { Res::Val(vbool(!kind_eq(a, b))) } else if op == BinaryOp::LessEq { sem_relation(BinaryOp::Less, vk(b), vk(a)) } else { sem_relation(BinaryOp::LessEq, vk(b), vk(a)) }),
{
    reveal_with_fuel(sem, 3);
    broadcast use axiom_ext_total;
    assert forall|ev: &Evaluator<'_>, slots: SlotEnv| #[trigger] sem(ev, slots, r) == sem2(ev, slots, e1, e2, |a: ValueKind, b: ValueKind|
        if op == BinaryOp::Eq { Res::Val(vbool(!kind_eq(a, b))) } else if op == BinaryOp::LessEq { sem_relation(BinaryOp::Less, vk(b), vk(a)) } else { sem_relation(BinaryOp::LessEq, vk(b), vk(a)) }) by {
        let s1 = sem(ev, slots, e1); let s2 = sem(ev, slots, e2);
        let inner = sem(ev, slots, *not_arg(r));
    }
}
// ---- scope constraints and the policy condition ----
#[verifier::external_body] pub struct PolicyID { _p: u8 }
#[verifier::external_body] pub struct Annotations { _p: u8 }
#[derive(Clone, Copy, PartialEq, Eq)] pub enum Effect { Permit, Forbid }
impl SlotId {
    pub uninterp spec fn spec_principal() -> SlotId;
    pub uninterp spec fn spec_resource() -> SlotId;
    #[verifier::external_body] pub fn principal() -> (r: Self) ensures r == Self::spec_principal() { unimplemented!() }
    #[verifier::external_body] pub fn resource() -> (r: Self) ensures r == Self::spec_resource() { unimplemented!() }
}
