// ---- what a scope constraint means, as the Cedar expression the language reference gives for it ----
pub open spec fn por_var(v: PrincipalOrResource) -> Var { match v { PrincipalOrResource::Principal => Var::Principal, PrincipalOrResource::Resource => Var::Resource } }
pub open spec fn por_slot(v: PrincipalOrResource) -> SlotId { match v { PrincipalOrResource::Principal => SlotId::spec_principal(), PrincipalOrResource::Resource => SlotId::spec_resource() } }
/// `E` or `?principal` / `?resource`
pub open spec fn ref_expr(r: EntityReference, s: SlotId) -> Expr { match r { EntityReference::EUID(e) => mk(ExprKind::Lit(Literal::EntityUID(e))), EntityReference::Slot(_) => mk(ExprKind::Slot(s)) } }
pub open spec fn bin(op: BinaryOp, a: Expr, b: Expr) -> Expr { mk(ExprKind::BinaryApp { op, arg1: Arc::new(a), arg2: Arc::new(b) }) }
pub open spec fn true_e() -> Expr { mk(ExprKind::Lit(Literal::Bool(true))) }
/// `true`, `v == E`, `v in E`, `v is T`, `v is T && v in E`
pub open spec fn scope_expr(c: PrincipalOrResourceConstraint, v: PrincipalOrResource) -> Expr {
    let x = mk(ExprKind::Var(por_var(v)));
    match c {
        PrincipalOrResourceConstraint::Any => true_e(),
        PrincipalOrResourceConstraint::Eq(r) => bin(BinaryOp::Eq, x, ref_expr(r, por_slot(v))),
        PrincipalOrResourceConstraint::In(r) => bin(BinaryOp::In, x, ref_expr(r, por_slot(v))),
        PrincipalOrResourceConstraint::Is(t) => mk(ExprKind::Is { expr: Arc::new(x), entity_type: *t }),
        PrincipalOrResourceConstraint::IsIn(t, r) => and_e(mk(ExprKind::Is { expr: Arc::new(x), entity_type: *t }), bin(BinaryOp::In, x, ref_expr(r, por_slot(v)))),
    }
}
/// `true`, `action == E`, `action in [E1, ..]` (shape of the expression; the set literal lists the entities in order)
pub open spec fn is_action_expr(a: Expr, c: ActionConstraint) -> bool {
    match c {
        ActionConstraint::Any => a.expr_kind == ExprKind::<()>::Lit(Literal::Bool(true)),
        ActionConstraint::Eq(e) => a.expr_kind is BinaryApp && a.expr_kind->BinaryApp_op == BinaryOp::Eq
            && a.expr_kind->BinaryApp_arg1.expr_kind == ExprKind::<()>::Var(Var::Action) && a.expr_kind->BinaryApp_arg2.expr_kind == ExprKind::<()>::Lit(Literal::EntityUID(e)),
        ActionConstraint::In(es) => a.expr_kind is BinaryApp && a.expr_kind->BinaryApp_op == BinaryOp::In
            && a.expr_kind->BinaryApp_arg1.expr_kind == ExprKind::<()>::Var(Var::Action) && a.expr_kind->BinaryApp_arg2.expr_kind is Set
            && a.expr_kind->BinaryApp_arg2.expr_kind->Set_0@.len() == es@.len()
            && forall|i: int| 0 <= i < es@.len() ==> (#[trigger] a.expr_kind->BinaryApp_arg2.expr_kind->Set_0@[i]).expr_kind == ExprKind::<()>::Lit(Literal::EntityUID(es@[i])),
        ActionConstraint::ErrorConstraint => a.expr_kind is Error,
    }
}
/// the policy condition: principal scope && (action scope && (resource scope && when/unless))
pub open spec fn ns_expr(ns: Option<Arc<Expr>>) -> Expr { match ns { Some(e) => *e, None => true_e() } }
pub open spec fn cond_expr(p: PrincipalOrResourceConstraint, a: Expr, r: PrincipalOrResourceConstraint, ns: Option<Arc<Expr>>) -> Expr {
    and_e(scope_expr(p, PrincipalOrResource::Principal), and_e(a, and_e(scope_expr(r, PrincipalOrResource::Resource), ns_expr(ns))))
}
/// the same meaning in the same positions gives the same meaning
pub proof fn lemma_and_congr(a: Expr, a2: Expr, b: Expr, b2: Expr)
    requires sem_same(a, a2), sem_same(b, b2),
    ensures sem_same(and_e(a, b), and_e(a2, b2)),
{
    reveal_with_fuel(sem, 2);
    assert forall|ev: &Evaluator<'_>, slots: SlotEnv| #[trigger] sem(ev, slots, and_e(a, b)) == sem(ev, slots, and_e(a2, b2)) by {
        assert(sem(ev, slots, a) == sem(ev, slots, a2)); assert(sem(ev, slots, b) == sem(ev, slots, b2));
    }
}
pub proof fn lemma_same_kind(a: Expr, b: Expr) requires a.expr_kind == b.expr_kind ensures sem_same(a, b)
{
    reveal_with_fuel(sem, 2);
    assert forall|ev: &Evaluator<'_>, slots: SlotEnv| #[trigger] sem(ev, slots, a) == sem(ev, slots, b) by { lemma_sem_kind(ev, slots, a, b); }
}
pub proof fn lemma_sem_kind(ev: &Evaluator<'_>, slots: SlotEnv, a: Expr, b: Expr) requires a.expr_kind == b.expr_kind ensures sem(ev, slots, a) == sem(ev, slots, b)
{
    reveal_with_fuel(sem, 2);
    reveal_with_fuel(sem_items, 2);
    match a.expr_kind {
        ExprKind::Set(items) => { lemma_items_kind(ev, slots, a, b, items@.len()); },
        ExprKind::ExtensionFunctionApp { fn_name, args } => { lemma_items_kind(ev, slots, a, b, args@.len()); },
        ExprKind::Record(m) => { lemma_items_kind(ev, slots, a, b, m.key_order().len()); },
        _ => {},
    }
}
pub proof fn lemma_items_kind(ev: &Evaluator<'_>, slots: SlotEnv, a: Expr, b: Expr, n: nat) requires a.expr_kind == b.expr_kind ensures sem_items(ev, slots, a, n) == sem_items(ev, slots, b, n)
    decreases n
{
    reveal_with_fuel(sem_items, 2);
    if n > 0 && n <= node_items(a).len() { lemma_items_kind(ev, slots, a, b, (n - 1) as nat); }
}
/// what PrincipalOrResourceConstraint::as_expr builds means scope_expr
pub open spec fn scope_shape(r: Expr, c: PrincipalOrResourceConstraint, v: PrincipalOrResource) -> bool {
    let s = por_slot(v);
    match c {
        PrincipalOrResourceConstraint::Any => r.expr_kind == true_e().expr_kind,
        PrincipalOrResourceConstraint::Eq(rf) => r.expr_kind is BinaryApp && r.expr_kind->BinaryApp_op == BinaryOp::Eq
            && r.expr_kind->BinaryApp_arg1.expr_kind == ExprKind::<()>::Var(por_var(v)) && r.expr_kind->BinaryApp_arg2.expr_kind == ref_expr(rf, s).expr_kind,
        PrincipalOrResourceConstraint::In(rf) => r.expr_kind is BinaryApp && r.expr_kind->BinaryApp_op == BinaryOp::In
            && r.expr_kind->BinaryApp_arg1.expr_kind == ExprKind::<()>::Var(por_var(v)) && r.expr_kind->BinaryApp_arg2.expr_kind == ref_expr(rf, s).expr_kind,
        PrincipalOrResourceConstraint::Is(t) => r.expr_kind is Is && r.expr_kind->Is_entity_type == *t && r.expr_kind->Is_expr.expr_kind == ExprKind::<()>::Var(por_var(v)),
        PrincipalOrResourceConstraint::IsIn(t, rf) => exists|a: Expr, b: Expr| sem_same(r, and_e(a, b))
            && a.expr_kind is Is && a.expr_kind->Is_entity_type == *t && a.expr_kind->Is_expr.expr_kind == ExprKind::<()>::Var(por_var(v))
            && b.expr_kind is BinaryApp && b.expr_kind->BinaryApp_op == BinaryOp::In
            && b.expr_kind->BinaryApp_arg1.expr_kind == ExprKind::<()>::Var(por_var(v)) && b.expr_kind->BinaryApp_arg2.expr_kind == ref_expr(rf, s).expr_kind,
    }
}
pub proof fn lemma_bin_kind(r: Expr, op: BinaryOp, x: Expr, y: Expr)
    requires r.expr_kind is BinaryApp, r.expr_kind->BinaryApp_op == op, r.expr_kind->BinaryApp_arg1.expr_kind == x.expr_kind, r.expr_kind->BinaryApp_arg2.expr_kind == y.expr_kind,
    ensures sem_same(r, bin(op, x, y)),
{
    reveal_with_fuel(sem, 2);
    assert forall|ev: &Evaluator<'_>, slots: SlotEnv| #[trigger] sem(ev, slots, r) == sem(ev, slots, bin(op, x, y)) by {
        lemma_sem_kind(ev, slots, *r.expr_kind->BinaryApp_arg1, x); lemma_sem_kind(ev, slots, *r.expr_kind->BinaryApp_arg2, y);
    }
}
pub open spec fn is_e(x: Expr, t: Arc<EntityType>) -> Expr { mk(ExprKind::Is { expr: Arc::new(x), entity_type: *t }) }
pub proof fn lemma_is_kind(r: Expr, t: Arc<EntityType>, x: Expr)
    requires r.expr_kind is Is, r.expr_kind->Is_entity_type == *t, r.expr_kind->Is_expr.expr_kind == x.expr_kind,
    ensures sem_same(r, is_e(x, t)),
{
    reveal_with_fuel(sem, 2);
    assert forall|ev: &Evaluator<'_>, slots: SlotEnv| #[trigger] sem(ev, slots, r) == sem(ev, slots, is_e(x, t)) by {
        lemma_sem_kind(ev, slots, *r.expr_kind->Is_expr, x);
    }
}
pub proof fn lemma_sem_same_trans(a: Expr, b: Expr, c: Expr) requires sem_same(a, b), sem_same(b, c) ensures sem_same(a, c)
{
    assert forall|ev: &Evaluator<'_>, slots: SlotEnv| #[trigger] sem(ev, slots, a) == sem(ev, slots, c) by { assert(sem(ev, slots, a) == sem(ev, slots, b)); assert(sem(ev, slots, b) == sem(ev, slots, c)); }
}
pub proof fn lemma_scope(r: Expr, c: PrincipalOrResourceConstraint, v: PrincipalOrResource)
    requires scope_shape(r, c, v),
    ensures sem_same(r, scope_expr(c, v)),
{
    let x = mk(ExprKind::Var(por_var(v)));
    let s = por_slot(v);
    match c {
        PrincipalOrResourceConstraint::Any => { lemma_same_kind(r, true_e()); },
        PrincipalOrResourceConstraint::Eq(rf) => { lemma_bin_kind(r, BinaryOp::Eq, x, ref_expr(rf, s)); },
        PrincipalOrResourceConstraint::In(rf) => { lemma_bin_kind(r, BinaryOp::In, x, ref_expr(rf, s)); },
        PrincipalOrResourceConstraint::Is(t) => { lemma_is_kind(r, t, x); },
        PrincipalOrResourceConstraint::IsIn(t, rf) => {
            let (a, b) = choose|a: Expr, b: Expr| sem_same(r, and_e(a, b))
                && a.expr_kind is Is && a.expr_kind->Is_entity_type == *t && a.expr_kind->Is_expr.expr_kind == ExprKind::<()>::Var(por_var(v))
                && b.expr_kind is BinaryApp && b.expr_kind->BinaryApp_op == BinaryOp::In
                && b.expr_kind->BinaryApp_arg1.expr_kind == ExprKind::<()>::Var(por_var(v)) && b.expr_kind->BinaryApp_arg2.expr_kind == ref_expr(rf, s).expr_kind;
            lemma_is_kind(a, t, x); lemma_bin_kind(b, BinaryOp::In, x, ref_expr(rf, s));
            lemma_and_congr(a, is_e(x, t), b, bin(BinaryOp::In, x, ref_expr(rf, s)));
            lemma_sem_same_trans(r, and_e(a, b), scope_expr(c, v));
        },
    }
}
/// the lazily-initialised defaults used for a policy that failed to parse (tolerant-ast): opaque, except that the error expression is an Error node
#[verifier::external_body] pub fn vx_default_error_expr() -> (r: Expr) ensures r.expr_kind is Error { unimplemented!() }
#[verifier::external_body] pub fn vx_default_principal_constraint() -> (r: &'static PrincipalConstraint) ensures r.constraint is Any { unimplemented!() }
#[verifier::external_body] pub fn vx_default_resource_constraint() -> (r: &'static ResourceConstraint) ensures r.constraint is Any { unimplemented!() }
#[verifier::external_body] pub fn vx_default_action_constraint() -> (r: &'static ActionConstraint) ensures *r is Any { unimplemented!() }
/// `Arc<EntityUID>` clone shares the pointer
impl TemplateBody {
    pub open spec fn pc(&self) -> PrincipalOrResourceConstraint { match *self { TemplateBody::TemplateBody(b) => b.principal_constraint.constraint, _ => PrincipalOrResourceConstraint::Any } }
    pub open spec fn rc(&self) -> PrincipalOrResourceConstraint { match *self { TemplateBody::TemplateBody(b) => b.resource_constraint.constraint, _ => PrincipalOrResourceConstraint::Any } }
    pub open spec fn ac(&self) -> ActionConstraint { match *self { TemplateBody::TemplateBody(b) => b.action_constraint, _ => ActionConstraint::Any } }
    pub open spec fn ns(&self) -> Option<Arc<Expr>> { match *self { TemplateBody::TemplateBody(b) => b.non_scope_constraints, _ => None } }
}
#[verifier::external_body] pub fn vx_default_error_expr_ref() -> (r: &'static Expr) ensures r.expr_kind is Error { unimplemented!() }
#[verifier::external_body] pub fn vx_opt_arc_ref<'a, T>(o: &'a Option<Arc<T>>) -> (r: Option<&'a T>) ensures r == (match *o { Some(a) => Some(&*a), None => None::<&T> }) { unimplemented!() }
#[verifier::external_body] pub fn vx_string(s: &str) -> (r: String) { unimplemented!() }
#[verifier::external_body] pub fn vx_vec_iter<T>(v: &Vec<T>) -> (r: VxIter<&T>)
    ensures r.items().len() == v@.len(), forall|i: int| #![trigger r.items()[i]] #![trigger v@[i]] 0 <= i < v@.len() ==> *r.items()[i] == v@[i]
{ unimplemented!() }
impl AstExprErrorKind { #[verifier::external_body] #[allow(non_snake_case)] pub fn InvalidExpr(s: String) -> (r: Self) { unimplemented!() } }
#[verifier::external_body] pub fn vx_opt_cloned<T: Clone>(o: Option<&T>) -> (r: Option<T>) ensures r == (match o { Some(x) => Some(*x), None => None::<T> }) { unimplemented!() }
/// the nested conjunction built by TemplateBody::condition means cond_expr
pub proof fn lemma_cond(r: Expr, p: Expr, a: Expr, rr: Expr, n: Expr, x1: Expr, y1: Expr, x2: Expr, y2: Expr, x3: Expr,
    pc: PrincipalOrResourceConstraint, rc: PrincipalOrResourceConstraint, ns: Option<Arc<Expr>>)
    requires sem_same(p, scope_expr(pc, PrincipalOrResource::Principal)), sem_same(rr, scope_expr(rc, PrincipalOrResource::Resource)),
        sem_same(n, ns_expr(ns)),
        sem_same(x1, and_e(rr, n)), y1.expr_kind == x1.expr_kind, sem_same(x2, and_e(a, y1)), y2.expr_kind == x2.expr_kind, sem_same(x3, and_e(p, y2)), r.expr_kind == x3.expr_kind,
    ensures sem_same(r, cond_expr(pc, a, rc, ns)),
{
    let sp = scope_expr(pc, PrincipalOrResource::Principal); let sr = scope_expr(rc, PrincipalOrResource::Resource);
    let nn = ns_expr(ns);
    lemma_and_congr(rr, sr, n, nn);                       // and_e(rr, n) ~ and_e(sr, nn)
    lemma_sem_same_trans(x1, and_e(rr, n), and_e(sr, nn));
    lemma_same_kind(y1, x1); lemma_sem_same_trans(y1, x1, and_e(sr, nn));
    lemma_same_kind(a, a);
    lemma_and_congr(a, a, y1, and_e(sr, nn));
    lemma_sem_same_trans(x2, and_e(a, y1), and_e(a, and_e(sr, nn)));
    lemma_same_kind(y2, x2); lemma_sem_same_trans(y2, x2, and_e(a, and_e(sr, nn)));
    lemma_and_congr(p, sp, y2, and_e(a, and_e(sr, nn)));
    lemma_sem_same_trans(x3, and_e(p, y2), and_e(sp, and_e(a, and_e(sr, nn))));
    lemma_same_kind(r, x3); lemma_sem_same_trans(r, x3, cond_expr(pc, a, rc, ns));
}
// ---- C08: a linked policy means what the policy with the entity written in place of the slot means ----
pub open spec fn fill_ref(r: EntityReference, e: Arc<EntityUID>) -> EntityReference { match r { EntityReference::Slot(_) => EntityReference::EUID(e), x => x } }
pub open spec fn fill(c: PrincipalOrResourceConstraint, e: Arc<EntityUID>) -> PrincipalOrResourceConstraint {
    match c {
        PrincipalOrResourceConstraint::Any => PrincipalOrResourceConstraint::Any,
        PrincipalOrResourceConstraint::In(r) => PrincipalOrResourceConstraint::In(fill_ref(r, e)),
        PrincipalOrResourceConstraint::Eq(r) => PrincipalOrResourceConstraint::Eq(fill_ref(r, e)),
        PrincipalOrResourceConstraint::Is(t) => PrincipalOrResourceConstraint::Is(t),
        PrincipalOrResourceConstraint::IsIn(t, r) => PrincipalOrResourceConstraint::IsIn(t, fill_ref(r, e)),
    }
}
pub open spec fn has_slot_c(c: PrincipalOrResourceConstraint) -> bool {
    match c { PrincipalOrResourceConstraint::In(r) => r is Slot, PrincipalOrResourceConstraint::Eq(r) => r is Slot, PrincipalOrResourceConstraint::IsIn(_, r) => r is Slot, _ => false }
}
/// scope constraint with ?slot, evaluated with the link's binding  ==  the same constraint with the bound entity written in, evaluated with any binding
pub proof fn lemma_scope_substitution(ev: &Evaluator<'_>, slots: SlotEnv, slots2: SlotEnv, c: PrincipalOrResourceConstraint, v: PrincipalOrResource)
    requires has_slot_c(c) ==> slots@.contains_key(por_slot(v)),
    ensures sem(ev, slots, scope_expr(c, v)) == sem(ev, slots2, scope_expr(if has_slot_c(c) { fill(c, Arc::new(slots@[por_slot(v)])) } else { c }, v)),
{
    reveal_with_fuel(sem, 4);
    let x = mk(ExprKind::Var(por_var(v)));
    assert(sem(ev, slots, x) == sem(ev, slots2, x));
}
/// whole condition: principal and resource slots filled from the link's environment (when/unless clauses contain no slots: Template invariant, not re-proved here)
pub proof fn lemma_link_is_substitution(ev: &Evaluator<'_>, slots: SlotEnv, pc: PrincipalOrResourceConstraint, a: Expr, rc: PrincipalOrResourceConstraint, ns: Option<Arc<Expr>>)
    requires has_slot_c(pc) ==> slots@.contains_key(SlotId::spec_principal()), has_slot_c(rc) ==> slots@.contains_key(SlotId::spec_resource()),
    ensures sem(ev, slots, cond_expr(pc, a, rc, ns)) == sem(ev, slots, cond_expr(
        if has_slot_c(pc) { fill(pc, Arc::new(slots@[SlotId::spec_principal()])) } else { pc }, a,
        if has_slot_c(rc) { fill(rc, Arc::new(slots@[SlotId::spec_resource()])) } else { rc }, ns)),
{
    reveal_with_fuel(sem, 4);
    lemma_scope_substitution(ev, slots, slots, pc, PrincipalOrResource::Principal);
    lemma_scope_substitution(ev, slots, slots, rc, PrincipalOrResource::Resource);
}
