"""Unit api_loader: the adapter between the public EntityLoader and the core loader used by is_authorized_batched asks the public loader
exactly for the requested uids and hands back exactly its answer (C15, public API glue); TestEntityLoader answers from its store."""
import re
from vx.assemble import Fn, Type, Raw, Loop, ClosureRw, FnRw


def split_answer(text):
    rx = re.compile(r'self\.0\s*\.load_entities\(&ids\)\s*\.into_iter\(\)\s*(\.map\(.*\}\))\s*\.collect\(\)', re.S)
    def rep(m):
        return ('let __vx_ans = self.0.load_entities(&ids);\n        let ghost __vx_m = __vx_ans;\n        let __vx_it = __vx_ans.into_iter()' + m.group(1) + ';\n'
                '        let ghost __vx_items = __vx_it.items();\n        let __vx_r0: HashMap<ast::EntityUID, Option<ast::Entity>> = __vx_it.collect();\n'
                '        proof { lemma_answer(__vx_m, __vx_items, __vx_r0); }\n        __vx_r0')
    return rx.subn(rep, text, count=1)


PROPERTIES = ['C15']
HEADER = '#![feature(allocator_api)]'
STDMODEL = ['iter.rs', 'hash.rs', 'std.rs']
API = 'cedar-policy/src/api/tpe.rs'
ASSUMPTIONS = [
    'EntityLoaderWrapper holds `&mut dyn EntityLoader`; dyn Trait is unsupported by Verus, so the wrapper type is declared generic in the loader (prelude) and the extracted method is checked for every loader.',
    'EntityUid / Entity are newtypes over the core types; RefCast::ref_cast is the newtype view.',
]
ITEMS = [
    Raw(file='prelude.rs', tag='prelude'),
    Raw(text='''pub open spec fn unwrap_opt(o: Option<Entity>) -> Option<ast::Entity> { match o { Some(e) => Some(e.0), None => None::<ast::Entity> } }
/// collecting the unwrapped pairs of a map gives the map with unwrapped keys and values
pub proof fn lemma_answer(m: HashMap<EntityUid, Option<Entity>>, items: Seq<(ast::EntityUID, Option<ast::Entity>)>, r: HashMap<ast::EntityUID, Option<ast::Entity>>)
    requires m.order_ok(), items.len() == m.pairs().len(), forall|i: int| 0 <= i < items.len() ==> (#[trigger] items[i]).0 == m.pairs()[i].0.0 && items[i].1 == unwrap_opt(m.pairs()[i].1), r@ == vx_map_of(items)
    ensures forall|id: ast::EntityUID| #![trigger r@.contains_key(id)] (r@.contains_key(id) <==> m@.contains_key(EntityUid(id))) && (r@.contains_key(id) ==> r@[id] == unwrap_opt(m@[EntityUid(id)]))
{
    let ko = m.key_order();
    lemma_vx_map_of_dom(items);
    assert forall|a: int, b: int| 0 <= a < b < items.len() implies (#[trigger] items[a]).0 != (#[trigger] items[b]).0 by { assert(ko[a] != ko[b]); assert(m.pairs()[a].0 == ko[a]); assert(m.pairs()[b].0 == ko[b]); }
    assert forall|id: ast::EntityUID| #![trigger r@.contains_key(id)] (r@.contains_key(id) <==> m@.contains_key(EntityUid(id))) && (r@.contains_key(id) ==> r@[id] == unwrap_opt(m@[EntityUid(id)])) by {
        if r@.contains_key(id) {
            let i = choose|i: int| 0 <= i < items.len() && (#[trigger] items[i]).0 == id;
            assert(m.pairs()[i].0 == ko[i]); assert(ko[i] == EntityUid(id));
            lemma_vx_map_of_val(items, i);
        }
        if m@.contains_key(EntityUid(id)) {
            assert(ko.contains(EntityUid(id))); let i = choose|i: int| 0 <= i < ko.len() && ko[i] == EntityUid(id);
            assert(m.pairs()[i].0 == ko[i]); assert(items[i].0 == id);
            lemma_vx_map_of_val(items, i);
        }
    }
}
''', tag='spec'),
    Fn(API, "impl EntityLoaderInternal for EntityLoaderWrapper<'_> > fn load_entities", name='EntityLoaderWrapper::load_entities', wrap="impl<'a, L: EntityLoader> EntityLoaderWrapper<'a, L>", vis='pub',
       ensures=[('asks', 'final(self).0.asked().len() == old(self).0.asked().len() + 1 && final(self).0.asked().drop_last() == old(self).0.asked() && forall|u: EntityUid| #![trigger final(self).0.asked().last().contains(u)] final(self).0.asked().last().contains(u) <==> uids@.contains(u.0)'),
                ('answer', 'forall|id: ast::EntityUID| #![trigger r@.contains_key(id)] (r@.contains_key(id) <==> final(self).0.last_answer().contains_key(EntityUid(id))) && (r@.contains_key(id) ==> r@[id] == (match final(self).0.last_answer()[EntityUid(id)] { Some(e) => Some(e.0), None => None::<ast::Entity> }))')],
       rewrites=[ClosureRw(r'id', 'id: &ast::EntityUID', ret='EntityUid', ensures='x.0 == *id', rname='x'),
                 ClosureRw(r'\(uid, entity\)', '_vxp: (EntityUid, Option<Entity>)', ret='(ast::EntityUID, Option<ast::Entity>)', ensures='x.0 == _vxp.0.0 && x.1 == (match _vxp.1 { Some(e) => Some(e.0), None => None::<ast::Entity> })', rname='x', destructure='(uid, entity)'),
                 ClosureRw(r'e', 'e: Entity', ret='ast::Entity', ensures='y == e.0', rname='y'),
                 FnRw('statement split of the tail expression `self.0.load_entities(&ids).into_iter().map(..).collect()` (order preserved) and the map lemma', split_answer, 1)]),
]
VERUS_ARGS = ['--multiple-errors', '5']
CANARIES = []
# the public entry point itself (a pass-through to the core loop with the adapter above) takes `&mut dyn EntityLoader` and is not under contract
UNCOVERED = [('cedar-policy/src/api/tpe.rs', 'impl PolicySet > fn is_authorized_batched')]
