// ---- api_loader prelude (trusted declarations) ----
pub mod ast {
    use super::*;
    #[verifier::external_body] pub struct EntityUID { _p: u8 }
    #[verifier::external_body] pub struct Entity { _p: u8 }
}
/// api newtypes
pub struct EntityUid(pub ast::EntityUID);
impl Clone for EntityUid { #[verifier::external_body] fn clone(&self) -> (r: Self) ensures r == *self { unimplemented!() } }
impl EntityUid {
    /// `RefCast::ref_cast`: the api view of a core uid
    #[verifier::external_body] pub fn ref_cast(id: &ast::EntityUID) -> (r: &EntityUid) ensures r.0 == *id { unimplemented!() }
}
pub struct Entity(pub ast::Entity);
impl Clone for Entity { #[verifier::external_body] fn clone(&self) -> (r: Self) ensures r == *self { unimplemented!() } }
/// the public loader trait, with what it was asked for and what it last answered as ghost state
pub trait EntityLoader {
    spec fn asked(&self) -> Seq<SSet<EntityUid>>;
    spec fn last_answer(&self) -> Map<EntityUid, Option<Entity>>;
    fn load_entities(&mut self, uids: &HashSet<EntityUid>) -> (r: HashMap<EntityUid, Option<Entity>>)
        ensures final(self).asked() == old(self).asked().push(uids@), r@ == final(self).last_answer();
}
/// `struct EntityLoaderWrapper<'a>(&'a mut dyn EntityLoader)`: dyn Trait is unsupported by Verus, the wrapper is generic in the loader here
pub struct EntityLoaderWrapper<'a, L: EntityLoader>(pub &'a mut L);
#[verifier::external_body] pub struct Entities { _p: u8 }
impl Entities {
    pub uninterp spec fn spec_get(&self, u: EntityUid) -> Option<Entity>;
    #[verifier::external_body] pub fn get(&self, u: &EntityUid) -> (r: Option<&Entity>) ensures r == (match self.spec_get(*u) { Some(e) => Some(&e), None => None::<&Entity> }) { unimplemented!() }
}
