"""Unit store: the entity store's edits keep the stored ancestor sets equal to reachability over direct parents (C04, history part):
invariant preservation for Entities::add_entities (update_entity_map, touched-marking loop) given the assumed contract of repair_tc."""
import os, copy, importlib.util
from vx.assemble import Fn, Type, Raw, Loop, ClosureRw, FnRw, cmp_rw

PROPERTIES = ['C04', 'C13']
HEADER = '#![feature(allocator_api)]'
STDMODEL = ['iter.rs', 'hash.rs', 'hash_entry.rs', 'btree.rs', 'std.rs']
ENTS = 'cedar-policy-core/src/entities.rs'
ENT = 'cedar-policy-core/src/ast/entity.rs'
ASSUMPTIONS = [
    'ASSUMED contract of repair_tc (compute_tc_internal / add_ancestors / SCC): see units/store/prelude.rs. The closure computation itself is not verified.',
    'Entities handed to add_entities carry no precomputed indirect ancestors (the library computes the closure) and are well-formed (parents disjoint from indirect ancestors).',
    'Schema conformance checking (unit conformance) has no effect on the store; Entity::deep_eq implies equal uid and ancestor sets.',
    'EntityUID Eq/Hash agree with spec equality; HashMap / HashSet behave as the model incl. the Entry API.',
]
_eh = importlib.util.spec_from_file_location('vx_entity_hier_for_store', os.path.join(os.path.dirname(os.path.abspath(__file__)), '..', 'entity_hier', 'unit.py'))
_m = importlib.util.module_from_spec(_eh); _eh.loader.exec_module(_m)
def _rebased(items):
    out = []
    for it in items:
        it = copy.copy(it)
        if isinstance(it, Raw) and getattr(it, 'file', None) and not it.file.startswith('../'):
            it.file = '../entity_hier/' + it.file
        out.append(it)
    return out
W = 'impl Entities'
ITEMS = _rebased(_m.ITEMS) + [
    Type('cedar-policy-core/src/ast/types.rs', 'enum Type'),
    Raw(file='spec.rs', tag='spec'),
    Raw(file='prelude.rs', tag='prelude'),
    Type(ENTS, 'enum Dereference'),
    Type(ENTS, 'struct Entities'),
    Type(ENTS, 'enum TCComputation'),
    Fn(ENTS, 'fn update_entity_map',
       requires=[('keys', 'keys_ok(old(map)@) && entity_wf(*entity)')],
       ensures=[('keys', 'r is Ok ==> keys_ok(final(map)@)'), ('has', 'r is Ok ==> final(map)@.contains_key(entity.uid)'),
                ('kept', 'r is Ok && old(map)@.contains_key(entity.uid) && !allow_override ==> final(map)@ == old(map)@ && final(map)@[entity.uid].parents@ == entity.parents@ && final(map)@[entity.uid].indirect_ancestors@ == entity.indirect_ancestors@'),
                ('inserted', 'r is Ok && !(old(map)@.contains_key(entity.uid) && !allow_override) ==> final(map)@ == old(map)@.insert(entity.uid, entity)')]),

    Fn(ENTS, 'impl Entities > fn add_entities', name='Entities::add_entities', wrap=W,
       sig_rewrites=[(r'mut self,', 'self,', 1), (r'impl IntoIterator<Item = Arc<Entity>>', 'VxIter<Arc<Entity>>', 1), (r'Option<&impl Schema>', 'Option<&SchemaOpaque>', 1)],
       rewrites=[(r'\bself\.', 'this.', None), (r'Ok\(self\)', 'Ok(this)', 1), ClosureRw(r'schema', 'schema: &SchemaOpaque', "EntitySchemaConformanceChecker<'_>", count=1),
                 (r'\.map\(EntityUID::clone\)', '.cloned()', 1)],
       requires=[('store', 'keys_ok(self.entities@) && tc_ok(self.entities@)'),
                 ('fresh', 'forall|i: int| 0 <= i < collection.items().len() ==> entity_wf(*(#[trigger] collection.items()[i])) && collection.items()[i].indirect_ancestors@ =~= SSet::<EntityUID>::empty()')],
       ensures=[('closure', 'r is Ok && tc_computation is ComputeNow ==> keys_ok(r->Ok_0.entities@) && tc_ok(r->Ok_0.entities@)'),
                ('content', 'r is Ok && tc_computation is ComputeNow ==> (forall|k: EntityUID| #[trigger] self.entities@.contains_key(k) ==> r->Ok_0.entities@.contains_key(k) && r->Ok_0.entities@[k].parents@ == self.entities@[k].parents@) && (forall|i: int| 0 <= i < collection.items().len() ==> r->Ok_0.entities@.contains_key((#[trigger] collection.items()[i]).uid))')],
       proof_start='let mut this = self; let ghost g0 = this.entities@; broadcast use axiom_hashmap_order_ok;',
       loops={
           1: Loop(iter_suffix='.vx_for()', invariant=[
               ('items', 'it_1.snapshot@.remaining() == collection.items()'),
               ('fresh', 'forall|i: int| 0 <= i < collection.items().len() ==> entity_wf(*(#[trigger] collection.items()[i])) && collection.items()[i].indirect_ancestors@ =~= SSet::<EntityUID>::empty()'),
               ('store', 'keys_ok(this.entities@) && extends(g0, this.entities@)'),
               ('new_touched', 'forall|k: EntityUID| #[trigger] this.entities@.contains_key(k) && !g0.contains_key(k) ==> entities_touched@.contains(k)'),
               ('added', 'forall|i: int| 0 <= i < it_1.index@ ==> this.entities@.contains_key((#[trigger] collection.items()[i]).uid)'),
           ]),
           2: Loop(iter_suffix='.vx_for()', name='it_2', proof_before='let ghost t1 = entities_touched@; let ghost g = this.entities@;', invariant=[
               ('snapshot', 'this.entities@ == g && this.entities.order_ok() && it_2.snapshot@.remaining().len() == this.entities.key_order().len() && forall|i: int| 0 <= i < this.entities.key_order().len() ==> *(#[trigger] it_2.snapshot@.remaining()[i]) == g[this.entities.key_order()[i]]'),
               ('grows', 't1.subset_of(entities_touched@) && keys_ok(g)'),
               ('marked', 'forall|i: int| 0 <= i < it_2.index@ && !entities_touched@.contains(#[trigger] this.entities.key_order()[i]) ==> anc(g, this.entities.key_order()[i]).disjoint(t1)'),
           ], proof_start='proof { let k = this.entities.key_order()[it_2.index@]; assert(g.dom().contains(k)); assert(entity.uid == k); }'),
       },
       hints=[(r'(?=repair_tc\(&entities_touched, &mut this\.entities, true\)\?)', '''proof {
                    let g = this.entities@;
                    lemma_add_sound(g0, g);
                    assert forall|a: EntityUID| g.contains_key(a) && !entities_touched@.contains(a) implies #[trigger] complete_at(g, a) by {
                        assert(this.entities.key_order().contains(a));
                        let i = choose|i: int| 0 <= i < this.entities.key_order().len() && this.entities.key_order()[i] == a;
                        assert(anc(g, a).disjoint(t1));
                        assert(g0.contains_key(a));
                        assert forall|k: EntityUID| #[trigger] anc(g0, a).contains(k) && !g0.contains_key(k) implies !g.contains_key(k) by {
                            if g.contains_key(k) { assert(t1.contains(k)); assert(anc(g, a).contains(k)); }
                        }
                        lemma_add_complete(g0, g, a);
                    }
                }''')],
       ),
    Fn(ENTS, 'impl Entities > fn entity', name='Entities::entity', wrap=W, props=['C13', 'C04'],
       ensures=[('lookup', '''match r {
            Dereference::Data(e) => self.entities@.contains_key(*uid) && *e == *self.entities@[*uid],
            Dereference::NoSuchEntity => !self.entities@.contains_key(*uid) && self.mode == Mode::Concrete,
            Dereference::Residual(x) => !self.entities@.contains_key(*uid) && self.mode == Mode::Partial
                && x.spec_unknown() is Some && x.spec_unknown()->Some_0.type_annotation == Some(Type::Entity { ty: uid.spec_entity_type() }),
        }''')]),
]
# functions behind the ASSUMED repair_tc contract (reviewed, not verified): a change to them makes this unit's answer 'undecided'
WATCH = [('cedar-policy-core/src/transitive_closure.rs', 'fn repair_tc'), ('cedar-policy-core/src/transitive_closure.rs', 'fn compute_tc_internal'),
         ('cedar-policy-core/src/transitive_closure.rs', 'fn add_ancestors')]
# mechanisms of C04 that no unit covers (listed as such in DESIGN / MANIFEST): a change to them cannot be decided by this check
UNCOVERED = [('cedar-policy-core/src/entities.rs', 'impl Entities > fn upsert_entities'), ('cedar-policy-core/src/entities.rs', 'impl Entities > fn remove_entities'),
             ('cedar-policy-core/src/entities.rs', 'impl Entities > fn from_entities'),
             ('cedar-policy-core/src/transitive_closure.rs', 'fn compute_tc'), ('cedar-policy-core/src/transitive_closure.rs', 'fn cyclic_tc'), ('cedar-policy-core/src/transitive_closure.rs', 'fn cyclic_tc_internal')]
