// ---- store unit prelude (trusted declarations) ----
#[verifier::external_body] pub struct EntitiesError { _p: u8 }
#[verifier::external_body] pub struct TcErr { _p: u8 }
#[verifier::external_body] pub struct ConfErr { _p: u8 }
pub type Result<T> = std::result::Result<T, EntitiesError>;
impl EntitiesError { #[verifier::external_body] pub fn duplicate(euid: EntityUID) -> (r: Self) { unimplemented!() } }
impl vstd::std_specs::convert::FromSpecImpl<TcErr> for EntitiesError { open spec fn obeys_from_spec() -> bool { false } uninterp spec fn from_spec(v: TcErr) -> EntitiesError; }
impl From<TcErr> for EntitiesError { #[verifier::external_body] fn from(v: TcErr) -> (r: EntitiesError) { unimplemented!() } }
impl vstd::std_specs::convert::FromSpecImpl<ConfErr> for EntitiesError { open spec fn obeys_from_spec() -> bool { false } uninterp spec fn from_spec(v: ConfErr) -> EntitiesError; }
impl From<ConfErr> for EntitiesError { #[verifier::external_body] fn from(v: ConfErr) -> (r: EntitiesError) { unimplemented!() } }
#[derive(Clone, Copy, PartialEq, Eq)] pub enum Mode { Concrete, Partial }
#[verifier::external_body] pub struct Extensions<'a> { _p: &'a u8 }
#[verifier::external_body] pub struct SchemaOpaque { _p: u8 }
/// the schema conformance checker (unit conformance): no effect on the store
#[verifier::external_body] pub struct EntitySchemaConformanceChecker<'a> { _p: &'a u8 }
impl<'a> EntitySchemaConformanceChecker<'a> {
    #[verifier::external_body] pub fn new(schema: &'a SchemaOpaque, extensions: &'a Extensions<'a>) -> (r: Self) { unimplemented!() }
    #[verifier::external_body] pub fn validate_entity(&self, e: &Entity) -> (r: std::result::Result<(), ConfErr>) { unimplemented!() }
}
impl Entity {
    /// structural equality including the ancestor sets (Entity::deep_eq; trusted)
    #[verifier::external_body] pub fn deep_eq(&self, o: &Entity) -> (r: bool) ensures r ==> self.uid == o.uid && self.parents@ == o.parents@ && self.indirect_ancestors@ == o.indirect_ancestors@ { unimplemented!() }
}
/// ASSUMED contract of transitive_closure::repair_tc at K = EntityUID, V = Arc<Entity> (the SCC-based closure computation is not verified):
/// given a store without stale ancestors in which every entity outside `nodes_to_fix` already lists everything it reaches,
/// it completes the closure of the others, changes no direct-parent link, and fails only on a cycle.
#[verifier::external_body]
pub fn repair_tc(nodes_to_fix: &HashSet<EntityUID>, nodes: &mut HashMap<EntityUID, Arc<Entity>>, enforce_dag: bool) -> (r: std::result::Result<(), TcErr>)
    requires keys_ok(old(nodes)@), sound(old(nodes)@),
        forall|a: EntityUID| old(nodes)@.contains_key(a) && !nodes_to_fix@.contains(a) ==> #[trigger] complete_at(old(nodes)@, a),
    ensures r is Ok ==> keys_ok(final(nodes)@) && tc_ok(final(nodes)@) && final(nodes)@.dom() =~= old(nodes)@.dom()
        && forall|k: EntityUID| #[trigger] old(nodes)@.contains_key(k) ==> final(nodes)@[k].parents@ == old(nodes)@[k].parents@ && final(nodes)@[k].attrs == old(nodes)@[k].attrs && final(nodes)@[k].tags == old(nodes)@[k].tags,
{ unimplemented!() }
/// contract proved in unit tc_checks (generic form); here only its type
#[verifier::external_body] pub fn enforce_tc_and_dag(entities: &HashMap<EntityUID, Arc<Entity>>) -> (r: std::result::Result<(), TcErr>) { unimplemented!() }
impl<T> HashSet<T> {
    #[verifier::external_body] pub fn is_disjoint(&self, o: &HashSet<T>) -> (b: bool) ensures b == self.view().disjoint(o.view()) { unimplemented!() }
}
// ---- for Entities::entity (C13: a partial store answers a missing entity with a typed unknown) ----
#[verifier::external_body] pub struct Name { _p: u8 }
#[verifier::external_body] pub struct Expr { _p: u8 }
pub struct Unknown { pub name: SmolStr, pub type_annotation: Option<Type> }
impl Unknown {
    /// Unknown::new_with_type (ast/expr.rs): the annotation is the given type
    #[verifier::external_body] pub fn new_with_type(name: SmolStr, ty: Type) -> (r: Self) ensures r.name == name, r.type_annotation == Some(ty) { unimplemented!() }
}
impl Expr {
    pub uninterp spec fn spec_unknown(&self) -> Option<Unknown>;
    #[verifier::external_body] pub fn unknown(u: Unknown) -> (r: Self) ensures r.spec_unknown() == Some(u) { unimplemented!() }
}
impl Clone for EntityType { #[verifier::external_body] fn clone(&self) -> (r: Self) ensures r == *self { unimplemented!() } }
impl EntityUID {
    pub uninterp spec fn spec_to_smolstr(&self) -> SmolStr;
    #[verifier::external_body] pub fn to_smolstr(&self) -> (r: SmolStr) ensures r == self.spec_to_smolstr() { unimplemented!() }
}
