// ---- C04: the stored ancestor sets are exactly reachability over the direct-parent links ----
pub type Store = Map<EntityUID, Arc<Entity>>;
pub open spec fn parents_of(g: Store, a: EntityUID) -> SSet<EntityUID> { if g.contains_key(a) { g[a].parents@ } else { SSet::empty() } }
pub open spec fn anc(g: Store, a: EntityUID) -> SSet<EntityUID> { if g.contains_key(a) { ancestors_of(*g[a]) } else { SSet::empty() } }
/// b is reachable from a in exactly n >= 1 parent steps (parents without a record are leaves)
pub open spec fn dreach(g: Store, a: EntityUID, b: EntityUID, n: nat) -> bool
    decreases n
{
    if n == 0 { false } else if n == 1 { parents_of(g, a).contains(b) }
    else { exists|c: EntityUID| #[trigger] parents_of(g, a).contains(c) && dreach(g, c, b, (n - 1) as nat) }
}
pub open spec fn reachable(g: Store, a: EntityUID, b: EntityUID) -> bool { exists|n: nat| #[trigger] dreach(g, a, b, n) }
/// no stored ancestor without a path that justifies it
pub open spec fn sound(g: Store) -> bool { forall|a: EntityUID, b: EntityUID| #[trigger] anc(g, a).contains(b) ==> reachable(g, a, b) }
/// every reachable entity is a stored ancestor of a
pub open spec fn complete_at(g: Store, a: EntityUID) -> bool { forall|b: EntityUID, n: nat| #[trigger] dreach(g, a, b, n) ==> anc(g, a).contains(b) }
pub open spec fn tc_ok(g: Store) -> bool { sound(g) && forall|a: EntityUID| g.contains_key(a) ==> #[trigger] complete_at(g, a) }
pub open spec fn keys_ok(g: Store) -> bool { forall|k: EntityUID| #[trigger] g.contains_key(k) ==> g[k].uid == k && entity_wf(*g[k]) }

pub proof fn lemma_no_parents(g: Store, a: EntityUID, b: EntityUID, n: nat)
    requires parents_of(g, a) =~= SSet::<EntityUID>::empty(),
    ensures !dreach(g, a, b, n),
{
    if n > 1 { if dreach(g, a, b, n) { let c = choose|c: EntityUID| #[trigger] parents_of(g, a).contains(c) && dreach(g, c, b, (n - 1) as nat); } }
}
pub proof fn lemma_step(g: Store, a: EntityUID, c: EntityUID, b: EntityUID, n: nat)
    requires parents_of(g, a).contains(c), dreach(g, c, b, n),
    ensures dreach(g, a, b, n + 1),
{
    if n == 0 {} else { assert(((n + 1) - 1) as nat == n); }
}
/// records of g0 are kept in g: every g0 path is a g path
pub proof fn lemma_mono(g0: Store, g: Store, a: EntityUID, b: EntityUID, n: nat)
    requires forall|k: EntityUID| #[trigger] g0.contains_key(k) ==> g.contains_key(k) && g[k].parents@ == g0[k].parents@, dreach(g0, a, b, n),
    ensures dreach(g, a, b, n),
    decreases n
{
    if n > 1 {
        let c = choose|c: EntityUID| #[trigger] parents_of(g0, a).contains(c) && dreach(g0, c, b, (n - 1) as nat);
        lemma_mono(g0, g, c, b, (n - 1) as nat);
        assert(parents_of(g, a).contains(c));
    }
}
/// new records only under fresh keys: an old entity none of whose ancestors is new reaches exactly what it reached before
pub proof fn lemma_untouched(g0: Store, g: Store, a: EntityUID, b: EntityUID, n: nat)
    requires tc_ok(g0),
        forall|k: EntityUID| #[trigger] g0.contains_key(k) ==> g.contains_key(k) && g[k].parents@ == g0[k].parents@,
        g0.contains_key(a), forall|k: EntityUID| #[trigger] anc(g0, a).contains(k) && !g0.contains_key(k) ==> !g.contains_key(k),
        dreach(g, a, b, n),
    ensures dreach(g0, a, b, n),
    decreases n
{
    if n > 1 {
        let c = choose|c: EntityUID| #[trigger] parents_of(g, a).contains(c) && dreach(g, c, b, (n - 1) as nat);
        assert(parents_of(g0, a).contains(c));
        assert(anc(g0, a).contains(c));
        if g0.contains_key(c) {
            assert forall|k: EntityUID| #[trigger] anc(g0, c).contains(k) && !g0.contains_key(k) implies !g.contains_key(k) by {
                assert(sound(g0)); assert(reachable(g0, c, k));
                let m = choose|m: nat| #[trigger] dreach(g0, c, k, m);
                lemma_step(g0, a, c, k, m);
                assert(complete_at(g0, a));
                assert(anc(g0, a).contains(k));
            }
            lemma_untouched(g0, g, c, b, (n - 1) as nat);
        } else {
            assert(!g.contains_key(c));
            lemma_no_parents(g, c, b, (n - 1) as nat);
        }
    }
}
/// g extends g0 by records under fresh keys only, and the new records carry no precomputed indirect ancestors
pub open spec fn extends(g0: Store, g: Store) -> bool {
    (forall|k: EntityUID| #[trigger] g0.contains_key(k) ==> g.contains_key(k) && g[k].parents@ == g0[k].parents@ && g[k].indirect_ancestors@ == g0[k].indirect_ancestors@)
    && (forall|k: EntityUID| #[trigger] g.contains_key(k) && !g0.contains_key(k) ==> g[k].indirect_ancestors@ =~= SSet::<EntityUID>::empty())
}
pub proof fn lemma_add_sound(g0: Store, g: Store)
    requires tc_ok(g0), extends(g0, g),
    ensures sound(g),
{
    assert forall|a: EntityUID, b: EntityUID| #[trigger] anc(g, a).contains(b) implies reachable(g, a, b) by {
        if g0.contains_key(a) {
            assert(anc(g0, a).contains(b));
            let n = choose|n: nat| #[trigger] dreach(g0, a, b, n);
            lemma_mono(g0, g, a, b, n);
        } else {
            assert(g.contains_key(a));
            assert(g[a].parents@.contains(b));
            assert(dreach(g, a, b, 1));
        }
    }
}
pub proof fn lemma_add_complete(g0: Store, g: Store, a: EntityUID)
    requires tc_ok(g0), extends(g0, g), g0.contains_key(a),
        forall|k: EntityUID| #[trigger] anc(g0, a).contains(k) && !g0.contains_key(k) ==> !g.contains_key(k),
    ensures complete_at(g, a),
{
    assert forall|b: EntityUID, n: nat| #[trigger] dreach(g, a, b, n) implies anc(g, a).contains(b) by {
        lemma_untouched(g0, g, a, b, n);
        assert(complete_at(g0, a));
    }
}
