// ---- operator semantics of the Cedar language (C02), written from the language reference ----
/// the result the language prescribes: a value, or an error of a class
pub enum Res { Val(ValueKind), ErrType, ErrOverflow, ErrNoEntity, ErrNoAttr, ErrExt, ErrSlot, ErrOther, Unk }
/// an evaluation result agrees with the prescribed one (values are compared by their kind: source locations are not semantic)
pub open spec fn agrees(r: Result<Value>, s: Res) -> bool {
    match s {
        Res::Val(k) => r is Ok && r->Ok_0.value == k,
        Res::ErrType => r is Err && r->Err_0 is TypeError,
        Res::ErrOverflow => r is Err && r->Err_0 is IntegerOverflow,
        Res::ErrNoEntity => r is Err && r->Err_0 is EntityDoesNotExist,
        Res::ErrNoAttr => r is Err && (r->Err_0 is EntityAttrDoesNotExist || r->Err_0 is RecordAttrDoesNotExist),
        Res::ErrExt => r is Err && (r->Err_0 is FailedExtensionFunctionExecution || r->Err_0 is FailedExtensionFunctionLookup || r->Err_0 is WrongNumArguments),
        Res::ErrSlot => r is Err && r->Err_0 is UnlinkedSlot,
        Res::ErrOther => r is Err,
        Res::Unk => true,
    }
}
/// a value with this kind (source locations are not semantic: no operation observes them)
pub open spec fn vk(k: ValueKind) -> Value { Value { value: k, loc: None } }
/// structural equality of values: `impl PartialEq for Value` ignores the source location and compares kinds
pub uninterp spec fn kind_eq(a: ValueKind, b: ValueKind) -> bool;
pub open spec fn val_eq(a: Value, b: Value) -> bool { kind_eq(a.value, b.value) }
pub open spec fn vbool(b: bool) -> ValueKind { ValueKind::Lit(Literal::Bool(b)) }
pub open spec fn vlong(i: i64) -> ValueKind { ValueKind::Lit(Literal::Long(i)) }
pub open spec fn as_bool(v: Value) -> Option<bool> { match v.value { ValueKind::Lit(Literal::Bool(b)) => Some(b), _ => None } }
pub open spec fn as_long(v: Value) -> Option<i64> { match v.value { ValueKind::Lit(Literal::Long(i)) => Some(i), _ => None } }
/// `!b`, `-i` (checked), `s.isEmpty()`
pub open spec fn sem_unary(op: UnaryOp, arg: Value) -> Res {
    match op {
        UnaryOp::Not => match as_bool(arg) { Some(b) => Res::Val(vbool(!b)), None => Res::ErrType },
        UnaryOp::Neg => match as_long(arg) { Some(i) => if i == i64::MIN { Res::ErrOverflow } else { Res::Val(vlong((-i) as i64)) }, None => Res::ErrType },
        UnaryOp::IsEmpty => match arg.value { ValueKind::Set(s) => Res::Val(vbool(s.spec_len() == 0)), _ => Res::ErrType },
    }
}
/// checked 64-bit `+`, `-`, `*`: the mathematical result if representable, else an overflow error; a non-long operand is a type error
pub open spec fn sem_arith(op: BinaryOp, a: Value, b: Value) -> Res {
    match (as_long(a), as_long(b)) {
        (Some(x), Some(y)) => {
            let m: int = if op == BinaryOp::Add { x + y } else if op == BinaryOp::Sub { x - y } else { x * y };
            if i64::MIN <= m <= i64::MAX { Res::Val(vlong(m as i64)) } else { Res::ErrOverflow }
        },
        _ => Res::ErrType,
    }
}
/// `==` is total structural equality; `<`, `<=` on longs, or on two extension values of the same type that support comparison
pub open spec fn sem_relation(op: BinaryOp, a: Value, b: Value) -> Res {
    if op == BinaryOp::Eq { Res::Val(vbool(val_eq(a, b))) } else {
        match (a.value, b.value) {
            (ValueKind::Lit(Literal::Long(x)), ValueKind::Lit(Literal::Long(y))) => Res::Val(vbool(if op == BinaryOp::Less { x < y } else { x <= y })),
            (ValueKind::ExtensionValue(x), ValueKind::ExtensionValue(y)) =>
                if x.spec_overloads() && y.spec_overloads() && x.spec_typename() == y.spec_typename() {
                    Res::Val(vbool(if op == BinaryOp::Less { ext_lt(*x, *y) } else { ext_le(*x, *y) }))
                } else { Res::ErrType },
            _ => Res::ErrType,
        }
    }
}
