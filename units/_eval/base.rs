// ---- shared evaluator prelude (trusted declarations): opaque types, From conversions, error constructors ----
#[verifier::external_body] pub struct Loc { _p: u8 }
impl Clone for Loc { #[verifier::external_body] fn clone(&self) -> (r: Self) ensures r == *self { unimplemented!() } }
#[verifier::external_body] pub struct SmolStr { _p: u8 }
impl Clone for SmolStr { #[verifier::external_body] fn clone(&self) -> (r: Self) ensures r == *self { unimplemented!() } }
#[verifier::external_body] pub struct EntityUID { _p: u8 }
#[verifier::external_body] pub struct EntityType { _p: u8 }
#[verifier::external_body] pub struct Name { _p: u8 }
// `==` / `!=` on these opaque types: the derived (structural) PartialEq, i.e. spec equality (trusted, as for the vx_*_eq helpers)
impl vstd::std_specs::cmp::PartialEqSpecImpl for EntityType { open spec fn obeys_eq_spec() -> bool { true } open spec fn eq_spec(&self, other: &Self) -> bool { *self == *other } }
impl PartialEq for EntityType { #[verifier::external_body] fn eq(&self, other: &Self) -> (r: bool) { unimplemented!() } }
impl vstd::std_specs::cmp::PartialEqSpecImpl for EntityUID { open spec fn obeys_eq_spec() -> bool { true } open spec fn eq_spec(&self, other: &Self) -> bool { *self == *other } }
impl PartialEq for EntityUID { #[verifier::external_body] fn eq(&self, other: &Self) -> (r: bool) { unimplemented!() } }
impl vstd::std_specs::cmp::PartialEqSpecImpl for SmolStr { open spec fn obeys_eq_spec() -> bool { true } open spec fn eq_spec(&self, other: &Self) -> bool { *self == *other } }
impl PartialEq for SmolStr { #[verifier::external_body] fn eq(&self, other: &Self) -> (r: bool) { unimplemented!() } }
impl vstd::std_specs::cmp::PartialEqSpecImpl for Name { open spec fn obeys_eq_spec() -> bool { true } open spec fn eq_spec(&self, other: &Self) -> bool { *self == *other } }
impl PartialEq for Name { #[verifier::external_body] fn eq(&self, other: &Self) -> (r: bool) { unimplemented!() } }
impl Clone for Name { #[verifier::external_body] fn clone(&self) -> (r: Self) ensures r == *self { unimplemented!() } }
#[verifier::external_body] pub struct Extensions<'a> { _p: &'a u8 }
#[verifier::external_body] pub struct RepresentableExtensionValue { _p: u8 }
#[verifier::external_body] #[verifier::reject_recursive_types(T)] pub struct NonEmpty<T> { _p: std::marker::PhantomData<T> }
pub type Integer = i64;
pub type Result<T> = std::result::Result<T, EvaluationError>;

// ---- evaluation_errors payloads that the functions under contract only pass around ----
#[verifier::external_body] pub struct EntityDoesNotExistError { _p: u8 }
#[verifier::external_body] pub struct EntityAttrDoesNotExistError { _p: u8 }
#[verifier::external_body] pub struct RecordAttrDoesNotExistError { _p: u8 }
#[verifier::external_body] pub struct ExtensionFunctionLookupError { _p: u8 }
#[verifier::external_body] pub struct TypeError { _p: u8 }
#[verifier::external_body] pub struct WrongNumArgumentsError { _p: u8 }
#[verifier::external_body] pub struct UnlinkedSlotError { _p: u8 }
#[verifier::external_body] pub struct ExtensionFunctionExecutionError { _p: u8 }
#[verifier::external_body] pub struct NonValueError { _p: u8 }
pub struct ASTErrorExprError { pub source_loc: Option<Loc> }
pub use EvaluationError::ASTErrorExpr;
#[verifier::external_body] pub struct RecursionLimitError { _p: u8 }

// thiserror `#[from]` conversions, as declared on the enum (assumed)
impl vstd::std_specs::convert::FromSpecImpl<IntegerOverflowError> for EvaluationError {
    open spec fn obeys_from_spec() -> bool { true }
    open spec fn from_spec(v: IntegerOverflowError) -> EvaluationError { EvaluationError::IntegerOverflow(v) }
}
impl From<IntegerOverflowError> for EvaluationError { #[verifier::external_body] fn from(v: IntegerOverflowError) -> (r: EvaluationError) { unimplemented!() } }
impl vstd::std_specs::convert::FromSpecImpl<TypeError> for EvaluationError {
    open spec fn obeys_from_spec() -> bool { true }
    open spec fn from_spec(v: TypeError) -> EvaluationError { EvaluationError::TypeError(v) }
}
impl From<TypeError> for EvaluationError { #[verifier::external_body] fn from(v: TypeError) -> (r: EvaluationError) { unimplemented!() } }

// `impl<T: Into<Literal>> From<T> for Value` at the two instances used (value = the literal, no source location) (assumed)
impl vstd::std_specs::convert::FromSpecImpl<bool> for Value {
    open spec fn obeys_from_spec() -> bool { true }
    open spec fn from_spec(v: bool) -> Value { Value { value: ValueKind::Lit(Literal::Bool(v)), loc: None } }
}
impl From<bool> for Value { #[verifier::external_body] fn from(v: bool) -> (r: Value) { unimplemented!() } }
impl vstd::std_specs::convert::FromSpecImpl<i64> for Value {
    open spec fn obeys_from_spec() -> bool { true }
    open spec fn from_spec(v: i64) -> Value { Value { value: ValueKind::Lit(Literal::Long(v)), loc: None } }
}
impl From<i64> for Value { #[verifier::external_body] fn from(v: i64) -> (r: Value) { unimplemented!() } }

impl Value {
    #[verifier::external_body] pub fn value_kind(&self) -> (r: &ValueKind) ensures *r == self.value { unimplemented!() }
}
impl Type {
    #[verifier::external_body] pub fn entity_type(name: Name) -> (r: Type) { unimplemented!() }
}
impl Clone for EntityType { #[verifier::external_body] fn clone(&self) -> (r: Self) ensures r == *self { unimplemented!() } }
impl EvaluationError {
    /// assumed: builds a TypeError (evaluator/err.rs: `evaluation_errors::TypeError { .. }.into()`)
    #[verifier::external_body] pub fn type_error_single(expected: Type, actual: &Value) -> (r: EvaluationError) ensures r is TypeError { unimplemented!() }
    #[verifier::external_body] pub fn type_error_with_advice(expected: NonEmpty<Type>, actual: &Value, advice: String) -> (r: EvaluationError) ensures r is TypeError { unimplemented!() }
}
