// ---- cedar sets, abstractly (shared by eval_node, where Set is opaque, and value_set, where its representation is under contract) ----
/// the identity of a value as the language sees it: structural, source locations ignored
#[verifier::external_body] pub struct AbsVal { _p: u8 }
pub uninterp spec fn abs_kind(k: ValueKind) -> AbsVal;
/// membership, inclusion and disjointness are by value identity: sets are duplicate-free and order-insensitive
pub open spec fn set_mem(s: Set, k: ValueKind) -> bool { set_abs(s).contains(abs_kind(k)) }
pub open spec fn set_subset(a: Set, b: Set) -> bool { set_abs(a).subset_of(set_abs(b)) }
pub open spec fn set_disjoint(a: Set, b: Set) -> bool { set_abs(a).disjoint(set_abs(b)) }
