// ---- representation invariant of cedar's Set and its abstract content ----
/// abstract content: the identities of the elements of the authoritative collection
pub open spec fn set_abs(s: Set) -> SSet<AbsVal> { s.authoritative@ }
pub open spec fn all_lits(vs: Seq<Value>) -> bool { forall|i: int| 0 <= i < vs.len() ==> (#[trigger] vs[i]).value is Lit }
/// INVARIANT (FastRepr): `fast` is present exactly when every element is a literal, and then holds the same elements
pub open spec fn set_wf(s: Set) -> bool {
    (s.fast is Some <==> all_lits(s.authoritative.elems())) && (s.fast is Some ==> s.fast->Some_0@ =~= s.authoritative@)
}
/// a set with a non-literal element is neither a subset of nor equal to a set of literals
pub proof fn lemma_nonlit_not_subset(a: Set, b: Set)
    requires set_wf(a), set_wf(b), a.fast is None, b.fast is Some,
    ensures !set_subset(a, b), !(set_abs(a) =~= set_abs(b)), !(set_abs(b) =~= set_abs(a)),
{
    broadcast use axiom_abs_kind;
    let ea = a.authoritative.elems();
    let eb = b.authoritative.elems();
    let i = choose|i: int| 0 <= i < ea.len() && !((#[trigger] ea[i]).value is Lit);
    let k = ea[i].vx_key();
    lemma_keys_of(ea, k);
    lemma_keys_of(eb, k);
    if set_abs(b).contains(k) {
        let j = choose|j: int| 0 <= j < eb.len() && (#[trigger] eb[j]).vx_key() == k;
        assert(eb[j].value is Lit);
        assert(abs_kind(ea[i].value) == abs_kind(eb[j].value));
    }
    assert(set_abs(a).contains(k));
}
pub open spec fn lit_of(v: Value) -> Option<Literal> { if v.value is Lit { Some(v.value->Lit_0) } else { None } }
/// Set::new: the optional fast set built from the authoritative one satisfies the invariant
pub proof fn lemma_new(a: BTreeSet<Value>, o: Option<HashSet<Literal>>, y: Seq<Option<Literal>>)
    requires o.vx_built_from(y), y.len() == a.elems().len(), forall|i: int| 0 <= i < y.len() ==> #[trigger] y[i] == lit_of(a.elems()[i]),
    ensures o is Some <==> all_lits(a.elems()), o is Some ==> o->Some_0@ =~= a@,
{
    let e = a.elems();
    if o is Some {
        assert forall|i: int| 0 <= i < e.len() implies (#[trigger] e[i]).value is Lit by { assert(y[i] is Some); }
        let z = y.map_values(|x: Option<Literal>| x->Some_0);
        assert forall|i: int| 0 <= i < z.len() implies (#[trigger] z[i]).vx_key() == e[i].vx_key() by { assert(y[i] == lit_of(e[i])); }
        lemma_keys_pointwise(z, e);
    }
    if all_lits(e) { assert forall|i: int| 0 <= i < y.len() implies (#[trigger] y[i]) is Some by { assert(e[i].value is Lit); } }
}
/// Set::from_lits: the authoritative set built from the literals satisfies the invariant
pub proof fn lemma_from_lits(a: BTreeSet<Value>, f: HashSet<Literal>, m: Seq<Value>)
    requires a.vx_built_from(m), m.len() == f.elems().len(), forall|i: int| 0 <= i < m.len() ==> (#[trigger] m[i]).value == ValueKind::Lit(f.elems()[i]),
    ensures a@ =~= f@, all_lits(a.elems()),
{
    lemma_keys_pointwise(m, f.elems());
    assert forall|i: int| 0 <= i < a.elems().len() implies (#[trigger] a.elems()[i]).value is Lit by {
        let j = choose|j: int| 0 <= j < m.len() && a.elems()[i] == m[j];
        assert(m[j].value is Lit);
    }
}
pub open spec fn no_lits(vs: Seq<Value>) -> bool { forall|i: int| 0 <= i < vs.len() ==> !((#[trigger] vs[i]).value is Lit) }
/// FromIterator<Value>: the two halves of the partition
pub proof fn lemma_partition(items: Seq<Value>, a: Seq<Value>, b: Seq<Value>, l: BTreeSet<Value>, n: BTreeSet<Value>)
    requires l.vx_built_from(a), n.vx_built_from(b),
        forall|i: int| 0 <= i < a.len() ==> (#[trigger] a[i]).value is Lit && items.contains(a[i]),
        forall|i: int| 0 <= i < b.len() ==> !((#[trigger] b[i]).value is Lit) && items.contains(b[i]),
        forall|i: int| 0 <= i < items.len() ==> a.contains(#[trigger] items[i]) || b.contains(items[i]),
    ensures all_lits(l.elems()), no_lits(n.elems()), l@ + n@ =~= keys_of(items),
{
    assert forall|i: int| 0 <= i < l.elems().len() implies (#[trigger] l.elems()[i]).value is Lit by {
        let j = choose|j: int| 0 <= j < a.len() && l.elems()[i] == a[j]; assert(a[j].value is Lit);
    }
    assert forall|i: int| 0 <= i < n.elems().len() implies !((#[trigger] n.elems()[i]).value is Lit) by {
        let j = choose|j: int| 0 <= j < b.len() && n.elems()[i] == b[j]; assert(!(b[j].value is Lit));
    }
    assert forall|k: AbsVal| (l@ + n@).contains(k) <==> keys_of(items).contains(k) by {
        lemma_keys_of(a, k); lemma_keys_of(b, k); lemma_keys_of(items, k);
        if keys_of(a).contains(k) { let i = choose|i: int| 0 <= i < a.len() && (#[trigger] a[i]).vx_key() == k; assert(items.contains(a[i])); let j = choose|j: int| 0 <= j < items.len() && items[j] == a[i]; assert(items[j].vx_key() == k); }
        if keys_of(b).contains(k) { let i = choose|i: int| 0 <= i < b.len() && (#[trigger] b[i]).vx_key() == k; assert(items.contains(b[i])); let j = choose|j: int| 0 <= j < items.len() && items[j] == b[i]; assert(items[j].vx_key() == k); }
        if keys_of(items).contains(k) {
            let i = choose|i: int| 0 <= i < items.len() && (#[trigger] items[i]).vx_key() == k;
            if a.contains(items[i]) { let j = choose|j: int| 0 <= j < a.len() && a[j] == items[i]; assert(a[j].vx_key() == k); }
            else { assert(b.contains(items[i])); let j = choose|j: int| 0 <= j < b.len() && b[j] == items[i]; assert(b[j].vx_key() == k); }
        }
    }
}
/// a collection whose keys include the key of a non-literal holds a non-literal
pub proof fn lemma_has_nonlit(all: &BTreeSet<Value>, n: BTreeSet<Value>)
    requires n.elems().len() > 0, no_lits(n.elems()), n@.subset_of(all@),
    ensures !all_lits(all.elems()),
{
    broadcast use axiom_abs_kind;
    let v = n.elems()[0];
    lemma_keys_of(n.elems(), v.vx_key());
    lemma_keys_of(all.elems(), v.vx_key());
    assert(n@.contains(v.vx_key()));
    let j = choose|j: int| 0 <= j < all.elems().len() && (#[trigger] all.elems()[j]).vx_key() == v.vx_key();
    assert(abs_kind(all.elems()[j].value) == abs_kind(v.value));
    assert(!(all.elems()[j].value is Lit));
}
