"""Unit value_set: cedar's Set representation (authoritative BTreeSet + optional fast HashSet of literals) (C02: set semantics)."""
from vx.assemble import Fn, Type, Raw, Loop, ClosureRw, FnRw, cmp_rw

PROPERTIES = ['C02']
HEADER = '#![feature(allocator_api)]'
STDMODEL = ['iter.rs', 'std.rs']
VALUE = 'cedar-policy-core/src/ast/value.rs'
LIT = 'cedar-policy-core/src/ast/literal.rs'
ASSUMPTIONS = [
    'BTreeSet<Value> / HashSet<Literal> store elements identified by value identity abs_kind (Ord/Eq/Hash of Value ignore source locations and agree with structural equality); abs_kind separates literals from non-literals and is injective on literals (axiom_abs_kind).',
    'Record values and extension values are opaque here.',
]
W = 'impl Set'
ITEMS = [
    Raw(text='#[verifier::external_body] #[verifier::reject_recursive_types(K)] #[verifier::accept_recursive_types(V)] pub struct BTreeMap<K, V> { _k: std::marker::PhantomData<K>, _v: std::marker::PhantomData<V> }', tag='prelude'),
    Type(LIT, 'enum Literal'),
    Type(VALUE, 'enum ValueKind'),
    Type(VALUE, 'struct Value'),
    Type(VALUE, 'struct Set'),
    Raw(file='../_eval/set_spec.rs', tag='spec'),
    Raw(file='prelude.rs', tag='prelude'),
    Raw(file='spec.rs', tag='spec'),
    Fn(VALUE, 'impl Set > fn empty', wrap=W, ensures=[('wf', 'set_wf(r)'), ('empty', 'set_abs(r) =~= SSet::<AbsVal>::empty()')]),
    Fn(VALUE, 'impl ValueKind > fn try_as_lit', name='ValueKind::try_as_lit', wrap='impl ValueKind',
       ensures=[('lit', 'r == (if *self is Lit { Some(&self->Lit_0) } else { None::<&Literal> })')]),
    Fn(VALUE, 'impl Value > fn try_as_lit', name='Value::try_as_lit', wrap='impl Value',
       ensures=[('lit', 'r == (if self.value is Lit { Some(&self.value->Lit_0) } else { None::<&Literal> })')]),
    Fn(VALUE, 'impl Set > fn new', name='Set::new', wrap=W,
       sig_rewrites=[(r'impl IntoIterator<Item = Value>', 'VxIter<Value>', 1)],
       rewrites=[ClosureRw(r'v', 'v: &Value', 'Option<Literal>', ensures='o == lit_of(*v)', rname='o'),
                 (r'v\.try_as_lit\(\)\.cloned\(\)', 'vx_opt_cloned(v.try_as_lit())', 1),
                 (r'(?s)let fast: Option<Arc<HashSet<Literal>>> = (authoritative.*?)\s*\.map\(Arc::new\);', r'let fast: Option<Arc<HashSet<Literal>>> = vx_opt_arc(\1);', 1)],
       ensures=[('wf', 'set_wf(r)'), ('elements', 'set_abs(r) =~= keys_of(vals.items())')],
       hints=[(r'(?s)let fast: Option<Arc<HashSet<Literal>>> = .*?;\n', '''proof {
            assert forall|o: Option<HashSet<Literal>>, y: Seq<Option<Literal>>| (#[trigger] o.vx_built_from(y)) && y.len() == authoritative.elems().len()
                && (forall|i: int| 0 <= i < y.len() ==> #[trigger] y[i] == lit_of(authoritative.elems()[i]))
                implies (o is Some <==> all_lits(authoritative.elems())) && (o is Some ==> o->Some_0@ =~= authoritative@) by { lemma_new(authoritative, o, y); }
        }''')]),
    Fn(VALUE, 'impl Set > fn from_lits', name='Set::from_lits', wrap=W,
       sig_rewrites=[(r'impl IntoIterator<Item = Literal>', 'VxIter<Literal>', 1)],
       rewrites=[ClosureRw(r'lit', 'lit: &Literal', 'Value', ensures='o.value == ValueKind::Lit(*lit)', rname='o')],
       ensures=[('wf', 'set_wf(r)'), ('elements', 'set_abs(r) =~= keys_of(lits.items())')],
       hints=[(r'(?s)let authoritative: BTreeSet<Value> = .*?;\n', '''proof {
            assert forall|m: Seq<Value>| (#[trigger] authoritative.vx_built_from(m)) && m.len() == fast.elems().len()
                && (forall|i: int| 0 <= i < m.len() ==> (#[trigger] m[i]).value == ValueKind::Lit(fast.elems()[i]))
                implies authoritative@ =~= fast@ && all_lits(authoritative.elems()) by { lemma_from_lits(authoritative, fast, m); }
        }''')]),
    Fn(VALUE, 'impl FromIterator<Literal> for Set > fn from_iter', name='Set::from_iter<Literal>', wrap=W,
       sig_rewrites=[(r'fn from_iter<T: IntoIterator<Item = Literal>>\(iter: T\)', 'fn from_iter_lits(iter: VxIter<Literal>)', 1)],
       rewrites=[(r'\.map\(Into::into\)', '.map(vx_value_from_lit)', 1)],
       ensures=[('wf', 'set_wf(r)'), ('elements', 'set_abs(r) =~= keys_of(iter.items())')],
       hints=[(r'(?s)let fast: HashSet<Literal> = .*?;\n', '''proof {
            assert forall|a: BTreeSet<Value>, m: Seq<Value>| (#[trigger] a.vx_built_from(m)) && m.len() == fast.elems().len()
                && (forall|i: int| 0 <= i < m.len() ==> (#[trigger] m[i]).value == ValueKind::Lit(fast.elems()[i]))
                implies a@ =~= fast@ && all_lits(a.elems()) by { lemma_from_lits(a, fast, m); }
        }''')]),
    Fn(VALUE, 'impl FromIterator<Value> for Set > fn from_iter', name='Set::from_iter<Value>', wrap=W,
       sig_rewrites=[(r'fn from_iter<T: IntoIterator<Item = Value>>\(iter: T\)', 'fn from_iter(iter: VxIter<Value>)', 1)],
       rewrites=[ClosureRw(r'v', 'v: &Value', 'bool', ensures='b == (v.value is Lit)', rname='b', count=1, follow=r'matches!'),
                 ClosureRw(r'v', 'v: Value', 'Literal', requires='v.value is Lit', ensures='l == v.value->Lit_0', rname='l', count=1, follow=r'match v'),
                 (r'Self::from_iter\(', 'Self::from_iter_lits(', 1)],
       ensures=[('wf', 'set_wf(r)'), ('elements', 'set_abs(r) =~= keys_of(iter.items())')],
       hints=[(r'(?s)let \(literals, non_literals\).*?;', '''proof {
            assert forall|a: Seq<Value>, b: Seq<Value>| (#[trigger] literals.vx_built_from(a)) && (#[trigger] non_literals.vx_built_from(b))
                && (forall|i: int| 0 <= i < a.len() ==> (#[trigger] a[i]).value is Lit && iter.items().contains(a[i]))
                && (forall|i: int| 0 <= i < b.len() ==> !((#[trigger] b[i]).value is Lit) && iter.items().contains(b[i]))
                && (forall|i: int| 0 <= i < iter.items().len() ==> a.contains(#[trigger] iter.items()[i]) || b.contains(iter.items()[i]))
                implies all_lits(literals.elems()) && no_lits(non_literals.elems()) && literals@ + non_literals@ =~= keys_of(iter.items())
                by { lemma_partition(iter.items(), a, b, literals, non_literals); }
            assert forall|m: Seq<Literal>| m.len() == literals.elems().len() && (forall|i: int| 0 <= i < m.len() ==> (#[trigger] m[i]) == literals.elems()[i].value->Lit_0)
                && all_lits(literals.elems()) implies #[trigger] keys_of(m) =~= literals@ by { lemma_keys_pointwise(m, literals.elems()); }
        }''')],
       proof_tail='proof { if non_literals.elems().len() > 0 && no_lits(non_literals.elems()) && __vx_r.fast is None { lemma_has_nonlit(&*__vx_r.authoritative, non_literals); } }'),
    Fn(VALUE, 'impl ValueKind > fn empty_set', name='ValueKind::empty_set', wrap='impl ValueKind',
       ensures=[('empty', 'r is Set && set_wf(r->Set_0) && set_abs(r->Set_0) =~= SSet::<AbsVal>::empty()')]),
    Fn(VALUE, 'impl ValueKind > fn set', name='ValueKind::set', wrap='impl ValueKind',
       sig_rewrites=[(r'impl IntoIterator<Item = Value>', 'VxIter<Value>', 1)],
       ensures=[('elements', 'r is Set && set_wf(r->Set_0) && set_abs(r->Set_0) =~= keys_of(vals.items())')]),
    Fn(VALUE, 'impl ValueKind > fn set_of_lits', name='ValueKind::set_of_lits', wrap='impl ValueKind',
       sig_rewrites=[(r'impl IntoIterator<Item = Literal>', 'VxIter<Literal>', 1)],
       ensures=[('elements', 'r is Set && set_wf(r->Set_0) && set_abs(r->Set_0) =~= keys_of(lits.items())')]),
    Fn(VALUE, 'impl Value > fn empty_set', name='Value::empty_set', wrap='impl Value',
       ensures=[('empty', 'r.value is Set && set_wf(r.value->Set_0) && set_abs(r.value->Set_0) =~= SSet::<AbsVal>::empty()')]),
    Fn(VALUE, 'impl Value > fn set', name='Value::set', wrap='impl Value',
       sig_rewrites=[(r'impl IntoIterator<Item = Value>', 'VxIter<Value>', 1)],
       ensures=[('elements', 'r.value is Set && set_wf(r.value->Set_0) && set_abs(r.value->Set_0) =~= keys_of(vals.items())')]),
    Fn(VALUE, 'impl Value > fn set_of_lits', name='Value::set_of_lits', wrap='impl Value',
       sig_rewrites=[(r'impl IntoIterator<Item = Literal>', 'VxIter<Literal>', 1)],
       ensures=[('elements', 'r.value is Set && set_wf(r.value->Set_0) && set_abs(r.value->Set_0) =~= keys_of(lits.items())')]),
    Fn(VALUE, 'impl Set > fn len', wrap=W, ensures=[('len', 'r == self.authoritative.elems().len()')]),
    Fn(VALUE, 'impl Set > fn is_empty', wrap=W, ensures=[('empty', 'r == (self.authoritative.elems().len() == 0)')]),
    Fn(VALUE, 'impl Set > fn contains', wrap=W, requires=[('wf', 'set_wf(*self)')],
       ensures=[('member', 'r == set_mem(*self, value.value)')],
       proof_start='broadcast use axiom_abs_kind;'),
    Fn(VALUE, 'impl Set > fn is_subset', wrap=W, requires=[('wf', 'set_wf(*self) && set_wf(*other)')],
       ensures=[('subset', 'r == set_subset(*self, *other)')],
       proof_start='proof { if self.fast is None && other.fast is Some { lemma_nonlit_not_subset(*self, *other); } }'),
    Fn(VALUE, 'impl Set > fn is_disjoint', wrap=W, requires=[('wf', 'set_wf(*self) && set_wf(*other)')],
       ensures=[('disjoint', 'r == set_disjoint(*self, *other)')]),
    Fn(VALUE, 'impl PartialEq for Set > fn eq', name='Set::eq', wrap='impl Set', vis='pub',
       requires=[('wf', 'set_wf(*self) && set_wf(*other)')],
       rewrites=[(r'rc1 == rc2', 'vx_hashset_eq(rc1, rc2)', None),
                 (r'self\.authoritative\.as_ref\(\) == other\.authoritative\.as_ref\(\)', 'vx_btreeset_eq(self.authoritative.as_ref(), other.authoritative.as_ref())', None)],
       ensures=[('same_elements', 'r == (set_abs(*self) =~= set_abs(*other))')],
       proof_start='proof { if self.fast is None && other.fast is Some { lemma_nonlit_not_subset(*self, *other); } if other.fast is None && self.fast is Some { lemma_nonlit_not_subset(*other, *self); } }'),
]
ITEMS.append(
    Fn(VALUE, 'impl PartialEq for ValueKind > fn eq', name='ValueKind::eq', wrap='impl ValueKind', vis='pub',
       requires=[('wf', '(self is Set ==> set_wf(self->Set_0)) && (other is Set ==> set_wf(other->Set_0))')],
       rewrites=[(r'lit1 == lit2', 'vx_literal_eq(lit1, lit2)', 1), (r'set1 == set2', 'set1.eq(set2)', 1),
                 (r'r1 == r2', 'vx_record_eq(r1, r2)', 1), (r'ev1 == ev2', 'vx_ext_eq(ev1, ev2)', 1)],
       ensures=[('types', '!(self is Lit && other is Lit) && !(self is Set && other is Set) && !(self is Record && other is Record) && !(self is ExtensionValue && other is ExtensionValue) ==> !r'),
                ('sets', 'self is Set && other is Set ==> r == (set_abs(self->Set_0) =~= set_abs(other->Set_0))'),
                ('lits', 'self is Lit && other is Lit ==> r == lit_eq(self->Lit_0, other->Lit_0)')]))
CANARIES = ['contains', 'is_subset']
