// ---- value_set prelude: keyed collection model + opaque types ----
#[verifier::external_body] pub struct Loc { _p: u8 }
#[verifier::external_body] pub struct SmolStr { _p: u8 }
#[verifier::external_body] pub struct EntityUID { _p: u8 }
#[verifier::external_body] pub struct RepresentableExtensionValue { _p: u8 }
pub type Integer = i64;
impl Clone for Literal { #[verifier::external_body] fn clone(&self) -> (r: Self) ensures r == *self { unimplemented!() } }
/// the identity under which a collection stores its elements: Ord / Eq / Hash of T agree with equality of vx_key (trusted)
pub trait VxKeyed { type K; spec fn vx_key(&self) -> Self::K; }
impl VxKeyed for Value { type K = AbsVal; open spec fn vx_key(&self) -> AbsVal { abs_kind(self.value) } }
impl VxKeyed for Literal { type K = AbsVal; open spec fn vx_key(&self) -> AbsVal { abs_kind(ValueKind::Lit(*self)) } }
/// value identity separates literals from non-literals and is injective on literals
/// (`impl PartialEq for ValueKind`: different variants are unequal, literals compare by their derived equality; trusted)
pub broadcast axiom fn axiom_abs_kind(a: ValueKind, b: ValueKind)
    ensures #![trigger abs_kind(a), abs_kind(b)] abs_kind(a) == abs_kind(b) ==> ((a is Lit) == (b is Lit)) && (a is Lit ==> a->Lit_0 == b->Lit_0);
// model of std BTreeSet / HashSet as duplicate-free collections of elements identified by their key
#[verifier::external_body] #[verifier::accept_recursive_types(T)] pub struct BTreeSet<T> { _p: std::marker::PhantomData<T> }
#[verifier::external_body] #[verifier::reject_recursive_types(T)] pub struct HashSet<T> { _p: std::marker::PhantomData<T> }
pub open spec fn keys_of<T: VxKeyed>(s: Seq<T>) -> SSet<T::K> { s.map_values(|t: T| t.vx_key()).to_set() }
impl<T: VxKeyed> BTreeSet<T> {
    /// the stored elements (ascending; pairwise distinct keys)
    pub uninterp spec fn elems(&self) -> Seq<T>;
    pub open spec fn view(&self) -> SSet<T::K> { keys_of(self.elems()) }
    pub open spec fn distinct(&self) -> bool { forall|i: int, j: int| 0 <= i < j < self.elems().len() ==> (#[trigger] self.elems()[i]).vx_key() != (#[trigger] self.elems()[j]).vx_key() }
    #[verifier::external_body] pub fn new() -> (r: Self) ensures r.elems().len() == 0 { unimplemented!() }
    #[verifier::external_body] pub fn contains(&self, t: &T) -> (b: bool) ensures b == self.view().contains(t.vx_key()) { unimplemented!() }
    #[verifier::external_body] pub fn len(&self) -> (n: usize) ensures n == self.elems().len(), self.distinct() { unimplemented!() }
    #[verifier::external_body] pub fn is_empty(&self) -> (b: bool) ensures b == (self.elems().len() == 0) { unimplemented!() }
    #[verifier::external_body] pub fn iter(&self) -> (r: VxIter<&T>) ensures self.distinct(), r.items().len() == self.elems().len(),
        forall|i: int| #![trigger r.items()[i]] #![trigger self.elems()[i]] 0 <= i < r.items().len() ==> *r.items()[i] == self.elems()[i] { unimplemented!() }
    #[verifier::external_body] pub fn is_subset(&self, o: &BTreeSet<T>) -> (b: bool) ensures b == self.view().subset_of(o.view()) { unimplemented!() }
    #[verifier::external_body] pub fn is_disjoint(&self, o: &BTreeSet<T>) -> (b: bool) ensures b == self.view().disjoint(o.view()) { unimplemented!() }
    /// moves all elements of `o` into `self`
    #[verifier::external_body] pub fn append(&mut self, o: &mut BTreeSet<T>) ensures final(self).view() == old(self).view() + old(o).view(), final(o).elems().len() == 0,
        forall|i: int| 0 <= i < final(self).elems().len() ==> (exists|j: int| 0 <= j < old(self).elems().len() && #[trigger] final(self).elems()[i] == old(self).elems()[j]) || (exists|j: int| 0 <= j < old(o).elems().len() && final(self).elems()[i] == old(o).elems()[j]) { unimplemented!() }
}
/// `BTreeSet == BTreeSet` (element-wise by the elements' equality: same keys)
#[verifier::external_body] pub fn vx_btreeset_eq<T: VxKeyed>(a: &BTreeSet<T>, b: &BTreeSet<T>) -> (r: bool) ensures r == (a.view() =~= b.view()) { unimplemented!() }
impl<T: VxKeyed> HashSet<T> {
    pub uninterp spec fn elems(&self) -> Seq<T>;
    pub open spec fn view(&self) -> SSet<T::K> { keys_of(self.elems()) }
    #[verifier::external_body] pub fn new() -> (r: Self) ensures r.elems().len() == 0 { unimplemented!() }
    #[verifier::external_body] pub fn contains(&self, t: &T) -> (b: bool) ensures b == self.view().contains(t.vx_key()) { unimplemented!() }
    #[verifier::external_body] pub fn is_subset(&self, o: &HashSet<T>) -> (b: bool) ensures b == self.view().subset_of(o.view()) { unimplemented!() }
    #[verifier::external_body] pub fn is_disjoint(&self, o: &HashSet<T>) -> (b: bool) ensures b == self.view().disjoint(o.view()) { unimplemented!() }
    #[verifier::external_body] pub fn iter(&self) -> (r: VxIter<&T>) ensures r.items().len() == self.elems().len(),
        forall|i: int| #![trigger r.items()[i]] #![trigger self.elems()[i]] 0 <= i < r.items().len() ==> *r.items()[i] == self.elems()[i] { unimplemented!() }
}
/// `Arc<HashSet<Literal>> == Arc<HashSet<Literal>>`
#[verifier::external_body] pub fn vx_hashset_eq<T: VxKeyed>(a: &Arc<HashSet<T>>, b: &Arc<HashSet<T>>) -> (r: bool) ensures r == (a.view() =~= b.view()) { unimplemented!() }
/// collecting into a keyed set: exactly the keys of the items; every stored element is one of the items
impl<T: VxKeyed> VxFromIter<T> for BTreeSet<T> {
    open spec fn vx_built_from(&self, items: Seq<T>) -> bool {
        self.view() =~= keys_of(items) && forall|i: int| 0 <= i < self.elems().len() ==> exists|j: int| 0 <= j < items.len() && #[trigger] self.elems()[i] == items[j]
    }
}
impl<T: VxKeyed> VxFromIter<T> for HashSet<T> {
    open spec fn vx_built_from(&self, items: Seq<T>) -> bool {
        self.view() =~= keys_of(items) && forall|i: int| 0 <= i < self.elems().len() ==> exists|j: int| 0 <= j < items.len() && #[trigger] self.elems()[i] == items[j]
    }
}
/// `collect::<Option<HashSet<T>>>()`: None iff some item is None
impl<T: VxKeyed> VxFromIter<Option<T>> for Option<HashSet<T>> {
    open spec fn vx_built_from(&self, items: Seq<Option<T>>) -> bool {
        (*self is Some <==> forall|i: int| 0 <= i < items.len() ==> (#[trigger] items[i]) is Some)
        && (*self is Some ==> self->Some_0.vx_built_from(items.map_values(|o: Option<T>| o->Some_0)))
    }
}
pub proof fn lemma_keys_of<T: VxKeyed>(s: Seq<T>, k: T::K)
    ensures keys_of(s).contains(k) <==> exists|i: int| 0 <= i < s.len() && (#[trigger] s[i]).vx_key() == k
{
    let m = s.map_values(|t: T| t.vx_key());
    if keys_of(s).contains(k) { assert(m.contains(k)); let i = choose|i: int| 0 <= i < m.len() && m[i] == k; assert(s[i].vx_key() == k); }
    if exists|i: int| 0 <= i < s.len() && (#[trigger] s[i]).vx_key() == k { let i = choose|i: int| 0 <= i < s.len() && (#[trigger] s[i]).vx_key() == k; assert(m[i] == k); assert(m.contains(k)); }
}
/// `Option<&Literal>::cloned()` (Literal::clone returns an equal literal)
#[verifier::external_body] pub fn vx_opt_cloned<T: Clone>(o: Option<&T>) -> (r: Option<T>) ensures r == (match o { Some(x) => Some(*x), None => None }) { unimplemented!() }
#[verifier::external_body] pub fn vx_opt_arc<T>(o: Option<T>) -> (r: Option<Arc<T>>) ensures r == (match o { Some(x) => Some(Arc::new(x)), None => None }) { unimplemented!() }
pub proof fn lemma_keys_pointwise<A: VxKeyed, B: VxKeyed<K = A::K>>(s1: Seq<A>, s2: Seq<B>)
    requires s1.len() == s2.len(), forall|i: int| 0 <= i < s1.len() ==> (#[trigger] s1[i]).vx_key() == s2[i].vx_key(),
    ensures keys_of(s1) =~= keys_of(s2),
{
    assert forall|k: A::K| keys_of(s1).contains(k) <==> keys_of(s2).contains(k) by {
        lemma_keys_of(s1, k); lemma_keys_of(s2, k);
        if keys_of(s1).contains(k) { let i = choose|i: int| 0 <= i < s1.len() && (#[trigger] s1[i]).vx_key() == k; assert(s2[i].vx_key() == k); }
        if keys_of(s2).contains(k) { let i = choose|i: int| 0 <= i < s2.len() && (#[trigger] s2[i]).vx_key() == k; assert(s1[i].vx_key() == k); }
    }
}
/// contract of `impl<T: Into<Literal>> From<T> for Value` at T = Literal, used as the function value `Into::into` (trusted)
#[verifier::external_body] pub fn vx_value_from_lit(l: Literal) -> (v: Value) ensures v.value == ValueKind::Lit(l) { unimplemented!() }
pub uninterp spec fn vx_part<T, F>(s: Seq<T>, f: F, which: bool) -> Seq<T>;
impl<T> VxIter<T> {
    /// `Iterator::partition`: every item goes to exactly the side the predicate selects
    #[verifier::external_body]
    pub fn partition<B: VxFromIter<T>, F: Fn(&T) -> bool>(self, f: F) -> (r: (B, B))
        requires forall|i: int| 0 <= i < self.items().len() ==> f.requires((&#[trigger] self.items()[i],)),
        ensures ({ let a = vx_part(self.items(), f, true); let b = vx_part(self.items(), f, false);
            r.0.vx_built_from(a) && r.1.vx_built_from(b)
            && (forall|i: int| 0 <= i < a.len() ==> f.ensures((&#[trigger] a[i],), true) && self.items().contains(a[i]))
            && (forall|i: int| 0 <= i < b.len() ==> f.ensures((&#[trigger] b[i],), false) && self.items().contains(b[i]))
            && (forall|i: int| 0 <= i < self.items().len() ==> a.contains(#[trigger] self.items()[i]) || b.contains(self.items()[i])) }),
    { unimplemented!() }
}
impl<T: VxKeyed> BTreeSet<T> {
    #[verifier::external_body] pub fn into_iter(self) -> (r: VxIter<T>) ensures r.items() == self.elems() { unimplemented!() }
}
/// derived / library equalities on the payloads that are opaque here
pub uninterp spec fn lit_eq(a: Literal, b: Literal) -> bool;
#[verifier::external_body] pub fn vx_literal_eq(a: &Literal, b: &Literal) -> (r: bool) ensures r == lit_eq(*a, *b) { unimplemented!() }
#[verifier::external_body] pub fn vx_record_eq(a: &Arc<BTreeMap<SmolStr, Value>>, b: &Arc<BTreeMap<SmolStr, Value>>) -> (r: bool) { unimplemented!() }
#[verifier::external_body] pub fn vx_ext_eq(a: &Arc<RepresentableExtensionValue>, b: &Arc<RepresentableExtensionValue>) -> (r: bool) { unimplemented!() }
