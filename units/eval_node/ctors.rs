// ---- expression constructors used for residuals (shape = what the AST builder produces: and / or / is_entity_type are proved in unit builder, the others assumed) ----
impl Expr {
    #[verifier::external_body] pub fn and(e1: Expr, e2: Expr) -> (r: Expr) ensures r.expr_kind == (match (e1.expr_kind, e2.expr_kind) { (ExprKind::Lit(Literal::Bool(b1)), ExprKind::Lit(Literal::Bool(b2))) => ExprKind::Lit(Literal::Bool(b1 && b2)), _ => ExprKind::And { left: Arc::new(e1), right: Arc::new(e2) } }) { unimplemented!() }
    #[verifier::external_body] pub fn or(e1: Expr, e2: Expr) -> (r: Expr) ensures r.expr_kind == (match (e1.expr_kind, e2.expr_kind) { (ExprKind::Lit(Literal::Bool(b1)), ExprKind::Lit(Literal::Bool(b2))) => ExprKind::Lit(Literal::Bool(b1 || b2)), _ => ExprKind::Or { left: Arc::new(e1), right: Arc::new(e2) } }) { unimplemented!() }
    #[verifier::external_body] pub fn val_bool(v: bool) -> (r: Expr) ensures r.expr_kind == ExprKind::<()>::Lit(Literal::Bool(v)) { unimplemented!() }
    #[verifier::external_body] pub fn val_str(v: SmolStr) -> (r: Expr) ensures r.expr_kind == ExprKind::<()>::Lit(Literal::String(v)) { unimplemented!() }
    #[verifier::external_body] pub fn unary_app(op: UnaryOp, e: Expr) -> (r: Expr) ensures r.expr_kind == (ExprKind::UnaryApp { op, arg: Arc::new(e) }) { unimplemented!() }
    #[verifier::external_body] pub fn binary_app(op: BinaryOp, e1: Expr, e2: Expr) -> (r: Expr) ensures r.expr_kind == (ExprKind::BinaryApp { op, arg1: Arc::new(e1), arg2: Arc::new(e2) }) { unimplemented!() }
    #[verifier::external_body] pub fn get_tag(e1: Expr, e2: Expr) -> (r: Expr) ensures r.expr_kind == (ExprKind::BinaryApp { op: BinaryOp::GetTag, arg1: Arc::new(e1), arg2: Arc::new(e2) }) { unimplemented!() }
    #[verifier::external_body] pub fn has_tag(e1: Expr, e2: Expr) -> (r: Expr) ensures r.expr_kind == (ExprKind::BinaryApp { op: BinaryOp::HasTag, arg1: Arc::new(e1), arg2: Arc::new(e2) }) { unimplemented!() }
    #[verifier::external_body] pub fn call_extension_fn(n: Name, args: Vec<Expr>) -> (r: Expr) ensures r.expr_kind == (ExprKind::ExtensionFunctionApp { fn_name: n, args: Arc::new(args) }) { unimplemented!() }
    #[verifier::external_body] pub fn has_attr(e: Expr, a: SmolStr) -> (r: Expr) ensures r.expr_kind == (ExprKind::HasAttr { expr: Arc::new(e), attr: a }) { unimplemented!() }
    #[verifier::external_body] pub fn get_attr(e: Expr, a: SmolStr) -> (r: Expr) ensures r.expr_kind == (ExprKind::GetAttr { expr: Arc::new(e), attr: a }) { unimplemented!() }
    #[verifier::external_body] pub fn like(e: Expr, p: Pattern) -> (r: Expr) ensures r.expr_kind == (ExprKind::Like { expr: Arc::new(e), pattern: p }) { unimplemented!() }
    #[verifier::external_body] pub fn is_entity_type(e: Expr, t: EntityType) -> (r: Expr) ensures r.expr_kind == (ExprKind::Is { expr: Arc::new(e), entity_type: t }) { unimplemented!() }
    #[verifier::external_body] pub fn set(es: VxIter<Expr>) -> (r: Expr) ensures r.expr_kind is Set && r.expr_kind->Set_0@ == es.items() { unimplemented!() }
    #[verifier::external_body] pub fn record(es: VxIter<(SmolStr, Expr)>) -> (r: std::result::Result<Expr, ExpressionConstructionError>)
        ensures (forall|i: int, j: int| 0 <= i < j < es.items().len() ==> es.items()[i].0 != es.items()[j].0) ==> r is Ok { unimplemented!() }
    #[verifier::external_body] pub fn record_arc(m: Arc<BTreeMap<SmolStr, Expr>>) -> (r: Expr) ensures r.expr_kind == ExprKind::<()>::Record(m) { unimplemented!() }
    #[verifier::external_body] pub fn ite_arc(a: Arc<Expr>, b: Arc<Expr>, c: Arc<Expr>) -> (r: Expr) ensures r.expr_kind == (ExprKind::If { test_expr: a, then_expr: b, else_expr: c }) { unimplemented!() }
    #[verifier::external_body] pub fn unknown(u: Unknown) -> (r: Expr) ensures r.expr_kind == ExprKind::<()>::Unknown(u) { unimplemented!() }
}
