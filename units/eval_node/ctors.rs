// ---- expression constructors used for residuals (shape = what the AST builder produces: and / or / is_entity_type are proved in unit builder, the others assumed) ----
// the expression kinds the constructors produce, as named functions (the rules of psound.rs trigger on them)
pub open spec fn and_kind(e1: Expr, e2: Expr) -> ExprKind { match (e1.expr_kind, e2.expr_kind) { (ExprKind::Lit(Literal::Bool(b1)), ExprKind::Lit(Literal::Bool(b2))) => ExprKind::Lit(Literal::Bool(b1 && b2)), _ => ExprKind::And { left: Arc::new(e1), right: Arc::new(e2) } } }
pub open spec fn or_kind(e1: Expr, e2: Expr) -> ExprKind { match (e1.expr_kind, e2.expr_kind) { (ExprKind::Lit(Literal::Bool(b1)), ExprKind::Lit(Literal::Bool(b2))) => ExprKind::Lit(Literal::Bool(b1 || b2)), _ => ExprKind::Or { left: Arc::new(e1), right: Arc::new(e2) } } }
pub open spec fn k_unary(op: UnaryOp, e: Expr) -> ExprKind { ExprKind::UnaryApp { op, arg: Arc::new(e) } }
pub open spec fn k_binary(op: BinaryOp, e1: Expr, e2: Expr) -> ExprKind { ExprKind::BinaryApp { op, arg1: Arc::new(e1), arg2: Arc::new(e2) } }
pub open spec fn k_hasattr(e: Expr, a: SmolStr) -> ExprKind { ExprKind::HasAttr { expr: Arc::new(e), attr: a } }
pub open spec fn k_getattr(e: Expr, a: SmolStr) -> ExprKind { ExprKind::GetAttr { expr: Arc::new(e), attr: a } }
pub open spec fn k_like(e: Expr, p: Pattern) -> ExprKind { ExprKind::Like { expr: Arc::new(e), pattern: p } }
pub open spec fn k_is(e: Expr, t: EntityType) -> ExprKind { ExprKind::Is { expr: Arc::new(e), entity_type: t } }
pub open spec fn k_ite(a: Expr, b: Expr, c: Expr) -> ExprKind { ExprKind::If { test_expr: Arc::new(a), then_expr: Arc::new(b), else_expr: Arc::new(c) } }
impl Expr {
    #[verifier::external_body] pub fn and(e1: Expr, e2: Expr) -> (r: Expr) ensures r.expr_kind == and_kind(e1, e2) { unimplemented!() }
    #[verifier::external_body] pub fn or(e1: Expr, e2: Expr) -> (r: Expr) ensures r.expr_kind == or_kind(e1, e2) { unimplemented!() }
    #[verifier::external_body] pub fn val_bool(v: bool) -> (r: Expr) ensures r.expr_kind == ExprKind::<()>::Lit(Literal::Bool(v)) { unimplemented!() }
    #[verifier::external_body] pub fn val_str(v: SmolStr) -> (r: Expr) ensures r.expr_kind == ExprKind::<()>::Lit(Literal::String(v)) { unimplemented!() }
    #[verifier::external_body] pub fn unary_app(op: UnaryOp, e: Expr) -> (r: Expr) ensures r.expr_kind == k_unary(op, e) { unimplemented!() }
    #[verifier::external_body] pub fn binary_app(op: BinaryOp, e1: Expr, e2: Expr) -> (r: Expr) ensures r.expr_kind == k_binary(op, e1, e2) { unimplemented!() }
    #[verifier::external_body] pub fn get_tag(e1: Expr, e2: Expr) -> (r: Expr) ensures r.expr_kind == k_binary(BinaryOp::GetTag, e1, e2) { unimplemented!() }
    #[verifier::external_body] pub fn has_tag(e1: Expr, e2: Expr) -> (r: Expr) ensures r.expr_kind == k_binary(BinaryOp::HasTag, e1, e2) { unimplemented!() }
    #[verifier::external_body] pub fn call_extension_fn(n: Name, args: Vec<Expr>) -> (r: Expr) ensures r.expr_kind == (ExprKind::ExtensionFunctionApp { fn_name: n, args: Arc::new(args) }) { unimplemented!() }
    #[verifier::external_body] pub fn has_attr(e: Expr, a: SmolStr) -> (r: Expr) ensures r.expr_kind == k_hasattr(e, a) { unimplemented!() }
    #[verifier::external_body] pub fn get_attr(e: Expr, a: SmolStr) -> (r: Expr) ensures r.expr_kind == k_getattr(e, a) { unimplemented!() }
    #[verifier::external_body] pub fn like(e: Expr, p: Pattern) -> (r: Expr) ensures r.expr_kind == k_like(e, p) { unimplemented!() }
    #[verifier::external_body] pub fn is_entity_type(e: Expr, t: EntityType) -> (r: Expr) ensures r.expr_kind == k_is(e, t) { unimplemented!() }
    #[verifier::external_body] pub fn set(es: VxIter<Expr>) -> (r: Expr) ensures r.expr_kind is Set && r.expr_kind->Set_0@ == es.items() { unimplemented!() }
    /// builds the map from the pairs; fails on a duplicate key.  (If the keys are the key order of some map, they are the key order of the result.)
    #[verifier::external_body] pub fn record(es: VxIter<(SmolStr, Expr)>) -> (r: std::result::Result<Expr, ExpressionConstructionError>)
        ensures (forall|i: int, j: int| 0 <= i < j < es.items().len() ==> es.items()[i].0 != es.items()[j].0) ==> r is Ok,
            r is Ok ==> r->Ok_0.expr_kind is Record && (forall|m0: BTreeMap<SmolStr, Expr>| (#[trigger] m0.key_order()).len() == es.items().len() && (forall|i: int| 0 <= i < es.items().len() ==> m0.key_order()[i] == es.items()[i].0) ==> {
                let m = r->Ok_0.expr_kind->Record_0;
                m.key_order() == m0.key_order() && forall|i: int| 0 <= i < es.items().len() ==> m@[#[trigger] m.key_order()[i]] == es.items()[i].1
            }) { unimplemented!() }
    #[verifier::external_body] pub fn record_arc(m: Arc<BTreeMap<SmolStr, Expr>>) -> (r: Expr) ensures r.expr_kind == ExprKind::<()>::Record(m) { unimplemented!() }
    #[verifier::external_body] pub fn ite_arc(a: Arc<Expr>, b: Arc<Expr>, c: Arc<Expr>) -> (r: Expr) ensures r.expr_kind == k_ite(*a, *b, *c) { unimplemented!() }
    #[verifier::external_body] pub fn unknown(u: Unknown) -> (r: Expr) ensures r.expr_kind == ExprKind::<()>::Unknown(u) { unimplemented!() }
}
