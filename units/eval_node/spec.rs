// ---- expression semantics of the Cedar language (C02), written from the language reference ----
// sem() gives, for an expression under an evaluation environment (request variables, entity store, slot bindings),
// the value kind or error class the language prescribes; Res::Unk where evaluation meets an unknown (partial evaluation)
// or a construct this spec does not pin down (the result of an extension call).  Source locations are not semantic.
#[verifier::external_body] pub fn vx_in_advice(e: EvaluationError, arg2: &Value) -> (r: EvaluationError) ensures r.same_class(e) { unimplemented!() }
pub trait VxClonedExt<T, E> { fn vx_cloned(self) -> std::result::Result<T, E>; }
impl<'a, E> VxClonedExt<PartialValue, E> for std::result::Result<&'a PartialValue, E> {
    #[verifier::external_body] fn vx_cloned(self) -> (r: std::result::Result<PartialValue, E>)
        ensures r == (match self { Ok(t) => Ok::<PartialValue, E>(*t), Err(e) => Err::<PartialValue, E>(e) }) { unimplemented!() }
}

/// a (partial) evaluation result agrees with the prescribed one.  The recursion-limit error of the stack check may
/// surface at any node; where the semantics is Unk nothing is required.
pub open spec fn agrees_pv(r: Result<PartialValue>, s: Res) -> bool {
    (r is Err && r->Err_0 is RecursionLimit) || match s {
        Res::Val(k) => r is Ok && r->Ok_0 is Value && r->Ok_0->Value_0.value == k,
        Res::ErrType => r is Err && r->Err_0 is TypeError,
        Res::ErrOverflow => r is Err && r->Err_0 is IntegerOverflow,
        Res::ErrNoEntity => r is Err && r->Err_0 is EntityDoesNotExist,
        Res::ErrNoAttr => r is Err && (r->Err_0 is EntityAttrDoesNotExist || r->Err_0 is RecordAttrDoesNotExist),
        Res::ErrExt => r is Err && (r->Err_0 is FailedExtensionFunctionExecution || r->Err_0 is FailedExtensionFunctionLookup || r->Err_0 is WrongNumArguments),
        Res::ErrSlot => r is Err && r->Err_0 is UnlinkedSlot,
        Res::ErrOther => r is Err,
        Res::Unk => true,
    }
}
pub open spec fn pv_res(pv: PartialValue) -> Res { match pv { PartialValue::Value(v) => Res::Val(v.value), PartialValue::Residual(_) => Res::Unk } }
/// a boolean is required: anything else is a type error
pub open spec fn want_bool(r: Res) -> Res {
    match r { Res::Val(k) => match k { ValueKind::Lit(Literal::Bool(_)) => r, _ => Res::ErrType }, _ => r }
}
pub open spec fn uid_kind(u: EntityUID) -> ValueKind { ValueKind::Lit(Literal::EntityUID(Arc::new(u))) }
pub open spec fn sem_unknown(ev: &Evaluator<'_>, u: Unknown) -> Res {
    match ev.spec_unknown(u.name) {
        None => Res::Unk,
        Some(v) => match u.type_annotation { None => Res::Val(v.value), Some(t) => if v.spec_type_of() == t { Res::Val(v.value) } else { Res::ErrType } },
    }
}
/// `u1 in k2`: reflexive membership in the ancestor set of u1's entity (an absent entity has no ancestors), also against a set of entities
pub open spec fn sem_in(u1: EntityUID, ent: Option<Entity>, k2: ValueKind) -> Res {
    match k2 {
        ValueKind::Lit(Literal::EntityUID(u2)) => Res::Val(vbool(u1 == *u2 || (ent is Some && ent->Some_0.spec_ancestors().contains(*u2)))),
        ValueKind::Set(s) => match entity_elems(s) {
            Some(us) => Res::Val(vbool(exists|i: int| 0 <= i < us.len() && (u1 == #[trigger] us[i] || (ent is Some && ent->Some_0.spec_ancestors().contains(us[i]))))),
            None => Res::ErrType,
        },
        _ => Res::ErrType,
    }
}
pub open spec fn sem_binary(ev: &Evaluator<'_>, op: BinaryOp, k1: ValueKind, k2: ValueKind) -> Res {
    let ents = ev.spec_entities();
    match op {
        BinaryOp::Eq | BinaryOp::Less | BinaryOp::LessEq => sem_relation(op, vk(k1), vk(k2)),
        BinaryOp::Add | BinaryOp::Sub | BinaryOp::Mul => sem_arith(op, vk(k1), vk(k2)),
        BinaryOp::In => match k1 {
            ValueKind::Lit(Literal::EntityUID(u1)) => if ents.spec_entity_residual(*u1) is Some { Res::Unk } else { sem_in(*u1, ents.spec_entity(*u1), k2) },
            _ => Res::ErrType,
        },
        BinaryOp::Contains => match k1 { ValueKind::Set(s) => Res::Val(vbool(set_mem(s, k2))), _ => Res::ErrType },
        BinaryOp::ContainsAll => match (k1, k2) { (ValueKind::Set(s1), ValueKind::Set(s2)) => Res::Val(vbool(set_subset(s2, s1))), _ => Res::ErrType },
        BinaryOp::ContainsAny => match (k1, k2) { (ValueKind::Set(s1), ValueKind::Set(s2)) => Res::Val(vbool(!set_disjoint(s1, s2))), _ => Res::ErrType },
        BinaryOp::GetTag => match (k1, k2) {
            (ValueKind::Lit(Literal::EntityUID(u)), ValueKind::Lit(Literal::String(t))) =>
                if ents.spec_entity_residual(*u) is Some { Res::Unk } else { match ents.spec_entity(*u) {
                    None => Res::ErrNoEntity,
                    Some(e) => if e.spec_tags().contains_key(t) { pv_res(e.spec_tags()[t]) } else { Res::ErrNoAttr },
                } },
            _ => Res::ErrType,
        },
        BinaryOp::HasTag => match (k1, k2) {
            (ValueKind::Lit(Literal::EntityUID(u)), ValueKind::Lit(Literal::String(t))) =>
                if ents.spec_entity_residual(*u) is Some { Res::Unk } else { match ents.spec_entity(*u) {
                    None => Res::Val(vbool(false)),
                    Some(e) => Res::Val(vbool(e.spec_tags().contains_key(t))),
                } },
            _ => Res::ErrType,
        },
    }
}
/// `k.attr` on a record or an entity
pub open spec fn sem_get_attr(ev: &Evaluator<'_>, k: ValueKind, attr: SmolStr) -> Res {
    let ents = ev.spec_entities();
    match k {
        ValueKind::Record(m) => if m@.contains_key(attr) { Res::Val(m@[attr].value) } else { Res::ErrNoAttr },
        ValueKind::Lit(Literal::EntityUID(u)) => if ents.spec_entity_residual(*u) is Some { Res::Unk } else { match ents.spec_entity(*u) {
            None => Res::ErrNoEntity,
            Some(e) => if e.spec_attrs().contains_key(attr) { match e.spec_attrs()[attr] {
                    PartialValue::Value(v) => Res::Val(v.value),
                    PartialValue::Residual(x) => match x.expr_kind { ExprKind::Unknown(u) => sem_unknown(ev, u), _ => Res::Unk },
                } } else { Res::ErrNoAttr },
        } },
        _ => Res::ErrType,
    }
}
/// `k has attr`: false for an absent entity
pub open spec fn sem_has_attr(ev: &Evaluator<'_>, k: ValueKind, attr: SmolStr) -> Res {
    let ents = ev.spec_entities();
    match k {
        ValueKind::Record(m) => Res::Val(vbool(m@.contains_key(attr))),
        ValueKind::Lit(Literal::EntityUID(u)) => if ents.spec_entity_residual(*u) is Some { Res::Unk } else { match ents.spec_entity(*u) {
            None => Res::Val(vbool(false)),
            Some(e) => Res::Val(vbool(e.spec_attrs().contains_key(attr))),
        } },
        _ => Res::ErrType,
    }
}
pub enum ListRes { Vals(Seq<ValueKind>), Stop(Res) }
/// the attribute initialisers of a record literal in key order (the order the evaluator visits them)
pub open spec fn rec_items(m: BTreeMap<SmolStr, Expr>) -> Seq<Expr> { Seq::new(m.key_order().len(), |i: int| m@[m.key_order()[i]]) }
pub open spec fn rec_pairs(keys: Seq<SmolStr>, ks: Seq<ValueKind>) -> Seq<(SmolStr, ValueKind)> { Seq::new(ks.len(), |i: int| (keys[i], ks[i])) }
pub open spec fn node_items(e: Expr) -> Seq<Expr> {
    match e.expr_kind { ExprKind::Set(items) => items@, ExprKind::ExtensionFunctionApp { args, .. } => args@, ExprKind::Record(m) => rec_items(*m), _ => Seq::empty() }
}
/// the language semantics of an expression: left to right, short-circuiting &&, ||, if
pub open spec fn sem(ev: &Evaluator<'_>, slots: SlotEnv, e: Expr) -> Res
    decreases e, 1nat, 0nat
{
    match e.expr_kind {
        ExprKind::Lit(l) => Res::Val(ValueKind::Lit(l)),
        ExprKind::Var(v) => pv_res(ev.spec_var(v)),
        ExprKind::Slot(id) => if slots@.contains_key(id) { Res::Val(uid_kind(slots@[id])) } else { Res::ErrSlot },
        ExprKind::Unknown(u) => sem_unknown(ev, u),
        ExprKind::If { test_expr, then_expr, else_expr } => match want_bool(sem(ev, slots, *test_expr)) {
            Res::Val(k) => if k == vbool(true) { sem(ev, slots, *then_expr) } else { sem(ev, slots, *else_expr) },
            r => r,
        },
        ExprKind::And { left, right } => match want_bool(sem(ev, slots, *left)) {
            Res::Val(k) => if k == vbool(false) { Res::Val(vbool(false)) } else { want_bool(sem(ev, slots, *right)) },
            r => r,
        },
        ExprKind::Or { left, right } => match want_bool(sem(ev, slots, *left)) {
            Res::Val(k) => if k == vbool(true) { Res::Val(vbool(true)) } else { want_bool(sem(ev, slots, *right)) },
            r => r,
        },
        ExprKind::UnaryApp { op, arg } => match sem(ev, slots, *arg) { Res::Val(k) => sem_unary(op, vk(k)), r => r },
        ExprKind::BinaryApp { op, arg1, arg2 } => match sem(ev, slots, *arg1) {
            Res::Val(k1) => match sem(ev, slots, *arg2) { Res::Val(k2) => sem_binary(ev, op, k1, k2), r => r },
            r => r,
        },
        ExprKind::ExtensionFunctionApp { fn_name, args } => match sem_items(ev, slots, e, args@.len()) {
            ListRes::Stop(r) => r,
            // dispatch to the extension function on the evaluated arguments (the functions themselves: C07)
            ListRes::Vals(_) => Res::Unk,
        },
        ExprKind::GetAttr { expr, attr } => match sem(ev, slots, *expr) { Res::Val(k) => sem_get_attr(ev, k, attr), r => r },
        ExprKind::HasAttr { expr, attr } => match sem(ev, slots, *expr) { Res::Val(k) => sem_has_attr(ev, k, attr), r => r },
        ExprKind::Like { expr, pattern } => match sem(ev, slots, *expr) {
            Res::Val(k) => match k { ValueKind::Lit(Literal::String(s)) => Res::Val(vbool(pattern.spec_match(s))), _ => Res::ErrType },
            r => r,
        },
        ExprKind::Is { expr, entity_type } => match sem(ev, slots, *expr) {
            Res::Val(k) => match k { ValueKind::Lit(Literal::EntityUID(u)) => Res::Val(vbool(u.spec_type() == entity_type)), _ => Res::ErrType },
            r => r,
        },
        ExprKind::Set(items) => match sem_items(ev, slots, e, items@.len()) {
            ListRes::Stop(r) => r,
            ListRes::Vals(ks) => Res::Val(mk_set(ks)),
        },
        // record literals: the initialisers are evaluated in key order; the first error or unknown is the result
        ExprKind::Record(m) => match sem_items(ev, slots, e, m.key_order().len()) {
            ListRes::Stop(r) => r,
            ListRes::Vals(ks) => Res::Val(mk_record(rec_pairs(m.key_order(), ks))),
        },
        ExprKind::Error { .. } => Res::ErrOther,
    }
}
/// the first n items of a set literal / argument list, left to right; stops at the first error or unknown
pub open spec fn sem_items(ev: &Evaluator<'_>, slots: SlotEnv, e: Expr, n: nat) -> ListRes
    decreases e, 0nat, n
{
    if n == 0 || n > node_items(e).len() { ListRes::Vals(Seq::empty()) } else {
        match sem_items(ev, slots, e, (n - 1) as nat) {
            ListRes::Vals(ks) => match e.expr_kind {
                ExprKind::Set(items) => match sem(ev, slots, items@[n - 1]) { Res::Val(k) => ListRes::Vals(ks.push(k)), r => ListRes::Stop(r) },
                ExprKind::ExtensionFunctionApp { args, .. } => match sem(ev, slots, args@[n - 1]) { Res::Val(k) => ListRes::Vals(ks.push(k)), r => ListRes::Stop(r) },
                ExprKind::Record(m) => if m@.contains_key(m.key_order()[n - 1]) {
                        match sem(ev, slots, m@[m.key_order()[n - 1]]) { Res::Val(k) => ListRes::Vals(ks.push(k)), r => ListRes::Stop(r) }
                    } else { ListRes::Vals(ks) },
                _ => ListRes::Vals(ks),
            },
            stop => stop,
        }
    }
}

// ---- C13: what the typed-unknown short cuts may conclude ----
/// the entity type annotation of a typed unknown
pub open spec fn typed_unknown(e: Expr) -> Option<EntityType> {
    match e.expr_kind { ExprKind::Unknown(Unknown { type_annotation: Some(Type::Entity { ty }), .. }) => Some(ty), _ => None }
}
/// a concrete answer for `x == y` is sound when every pair of entities of the declared types gives it
pub open spec fn sound_eq_answer(r: Option<PartialValue>, left: spec_fn(EntityUID) -> bool, right: spec_fn(EntityUID) -> bool) -> bool {
    match r {
        None => true,
        Some(pv) => exists|b: bool| pv == pv_bool(b) && forall|x: EntityUID, y: EntityUID| #![trigger left(x), right(y)] left(x) && right(y) ==> (x == y) == b,
    }
}
