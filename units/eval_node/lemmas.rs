// ---- lemmas about item lists (set literals, extension-call arguments) ----
pub open spec fn list_res(l: ListRes) -> Res { match l { ListRes::Stop(r) => r, ListRes::Vals(_) => Res::Unk } }
pub open spec fn is_limit(r: Result<PartialValue>) -> bool { r is Err && r->Err_0 is RecursionLimit }
/// once the scan has stopped it stays stopped
pub proof fn lemma_items_stop(ev: &Evaluator<'_>, slots: SlotEnv, e: Expr, n: nat, m: nat)
    requires n <= m <= node_items(e).len(), sem_items(ev, slots, e, n) is Stop
    ensures sem_items(ev, slots, e, m) == sem_items(ev, slots, e, n)
    decreases m
{
    if m > n { lemma_items_stop(ev, slots, e, n, (m - 1) as nat); }
}
/// the scan of the first n items when the first n evaluation results are all Ok
pub proof fn lemma_items_prefix(ev: &Evaluator<'_>, slots: SlotEnv, e: Expr, rs: Seq<Result<PartialValue>>, n: nat)
    requires e.expr_kind is Set || e.expr_kind is ExtensionFunctionApp || e.expr_kind is Record,
        rs.len() == node_items(e).len(), n <= rs.len(),
        forall|i: int| 0 <= i < rs.len() ==> agrees_pv(#[trigger] rs[i], sem(ev, slots, node_items(e)[i])),
        forall|j: int| 0 <= j < n ==> (#[trigger] rs[j]) is Ok,
    ensures match sem_items(ev, slots, e, n) {
        ListRes::Stop(r) => r is Unk,
        ListRes::Vals(ks) => ks.len() == n && forall|j: int| 0 <= j < n ==> (#[trigger] rs[j])->Ok_0 is Value && rs[j]->Ok_0->Value_0.value == ks[j],
    }
    decreases n
{
    broadcast use axiom_btreemap_order_ok;
    if n > 0 {
        lemma_items_prefix(ev, slots, e, rs, (n - 1) as nat);
        if e.expr_kind is Record {
            let m = *e.expr_kind->Record_0;
            assert(m.order_ok());
            assert(m@.dom().contains(m.key_order()[n - 1]));
            assert(node_items(e)[n - 1] == m@[m.key_order()[n - 1]]);
        }
        assert(rs[n - 1] is Ok);
        assert(agrees_pv(rs[n - 1], sem(ev, slots, node_items(e)[n - 1])));
    }
}
/// what `collect::<Result<Vec<_>>>()` of the item results means for the semantics of the whole list
pub proof fn lemma_items(ev: &Evaluator<'_>, slots: SlotEnv, e: Expr, rs: Seq<Result<PartialValue>>, c: Result<Vec<PartialValue>>)
    requires e.expr_kind is Set || e.expr_kind is ExtensionFunctionApp || e.expr_kind is Record,
        rs.len() == node_items(e).len(),
        forall|i: int| 0 <= i < rs.len() ==> agrees_pv(#[trigger] rs[i], sem(ev, slots, node_items(e)[i])),
        c.vx_built_from(rs),
    ensures match c {
        Err(err) => err is RecursionLimit || (sem_items(ev, slots, e, rs.len()) is Stop && agrees_pv(Err::<PartialValue, EvaluationError>(err), list_res(sem_items(ev, slots, e, rs.len())))),
        Ok(v) => v@.len() == rs.len() && match sem_items(ev, slots, e, rs.len()) {
            ListRes::Stop(r) => r is Unk,
            ListRes::Vals(ks) => ks.len() == rs.len() && forall|j: int| 0 <= j < rs.len() ==> (#[trigger] v@[j]) is Value && v@[j]->Value_0.value == ks[j],
        },
    }
{
    broadcast use axiom_btreemap_order_ok;
    let len = rs.len();
    if forall|i: int| 0 <= i < rs.len() ==> (#[trigger] rs[i]) is Ok {
        lemma_items_prefix(ev, slots, e, rs, len);
        let v = c->Ok_0;
        match sem_items(ev, slots, e, len) {
            ListRes::Vals(ks) => {
                assert forall|j: int| 0 <= j < len implies (#[trigger] v@[j]) is Value && v@[j]->Value_0.value == ks[j] by {
                    assert(rs[j] == Ok::<PartialValue, EvaluationError>(v@[j]));
                }
            },
            _ => {},
        }
    } else {
        let err = c->Err_0;
        let i = choose|i: int| 0 <= i < rs.len() && #[trigger] rs[i] == Err::<PartialValue, EvaluationError>(err) && forall|j: int| 0 <= j < i ==> (#[trigger] rs[j]) is Ok;
        if !(err is RecursionLimit) {
            lemma_items_prefix(ev, slots, e, rs, i as nat);
            assert(agrees_pv(rs[i], sem(ev, slots, node_items(e)[i])));
            if e.expr_kind is Record {
                let m = *e.expr_kind->Record_0;
                assert(m.order_ok());
                assert(m@.dom().contains(m.key_order()[i]));
                assert(node_items(e)[i] == m@[m.key_order()[i]]);
            }
            if sem_items(ev, slots, e, i as nat) is Stop {
                lemma_items_stop(ev, slots, e, i as nat, len);
            } else {
                assert(sem_items(ev, slots, e, (i + 1) as nat) is Stop);
                lemma_items_stop(ev, slots, e, (i + 1) as nat, len);
            }
        }
    }
}

/// record literals: the per-attribute results (name, value) of the key-ordered scan
pub open spec fn snd_results(rs: Seq<Result<(SmolStr, PartialValue)>>) -> Seq<Result<PartialValue>> {
    Seq::new(rs.len(), |i: int| match rs[i] { Ok(p) => Ok::<PartialValue, EvaluationError>(p.1), Err(err) => Err::<PartialValue, EvaluationError>(err) })
}
pub proof fn lemma_items_rec(ev: &Evaluator<'_>, slots: SlotEnv, e: Expr, rs: Seq<Result<(SmolStr, PartialValue)>>, c: Result<Vec<(SmolStr, PartialValue)>>)
    requires e.expr_kind is Record,
        rs.len() == node_items(e).len(),
        forall|i: int| 0 <= i < rs.len() ==> agrees_pv(#[trigger] snd_results(rs)[i], sem(ev, slots, node_items(e)[i])),
        forall|i: int| 0 <= i < rs.len() && (#[trigger] rs[i]) is Ok ==> rs[i]->Ok_0.0 == e.expr_kind->Record_0.key_order()[i],
        c.vx_built_from(rs),
    ensures match c {
        Err(err) => err is RecursionLimit || (sem_items(ev, slots, e, rs.len()) is Stop && agrees_pv(Err::<PartialValue, EvaluationError>(err), list_res(sem_items(ev, slots, e, rs.len())))),
        Ok(v) => v@.len() == rs.len() && (forall|j: int| 0 <= j < rs.len() ==> (#[trigger] v@[j]).0 == e.expr_kind->Record_0.key_order()[j]) && match sem_items(ev, slots, e, rs.len()) {
            ListRes::Stop(r) => r is Unk,
            ListRes::Vals(ks) => ks.len() == rs.len() && forall|j: int| 0 <= j < rs.len() ==> (#[trigger] v@[j]).1 is Value && v@[j].1->Value_0.value == ks[j],
        },
    }
{
    broadcast use axiom_btreemap_order_ok;
    let len = rs.len();
    let rs2 = snd_results(rs);
    if forall|i: int| 0 <= i < rs.len() ==> (#[trigger] rs[i]) is Ok {
        assert forall|j: int| 0 <= j < len implies (#[trigger] rs2[j]) is Ok by { assert(rs[j] is Ok); }
        lemma_items_prefix(ev, slots, e, rs2, len);
        let v = c->Ok_0;
        assert forall|j: int| 0 <= j < len implies (#[trigger] v@[j]).0 == e.expr_kind->Record_0.key_order()[j] by {
            assert(rs[j] == Ok::<(SmolStr, PartialValue), EvaluationError>(v@[j]));
        }
        match sem_items(ev, slots, e, len) {
            ListRes::Vals(ks) => {
                assert forall|j: int| 0 <= j < len implies (#[trigger] v@[j]).1 is Value && v@[j].1->Value_0.value == ks[j] by {
                    assert(rs[j] == Ok::<(SmolStr, PartialValue), EvaluationError>(v@[j]));
                    assert(rs2[j] == Ok::<PartialValue, EvaluationError>(v@[j].1));
                }
            },
            _ => {},
        }
    } else {
        let err = c->Err_0;
        let i = choose|i: int| 0 <= i < rs.len() && #[trigger] rs[i] == Err::<(SmolStr, PartialValue), EvaluationError>(err) && forall|j: int| 0 <= j < i ==> (#[trigger] rs[j]) is Ok;
        if !(err is RecursionLimit) {
            assert forall|j: int| 0 <= j < i implies (#[trigger] rs2[j]) is Ok by { assert(rs[j] is Ok); }
            lemma_items_prefix(ev, slots, e, rs2, i as nat);
            assert(rs2[i] == Err::<PartialValue, EvaluationError>(err));
            assert(agrees_pv(rs2[i], sem(ev, slots, node_items(e)[i])));
            let m = *e.expr_kind->Record_0;
            assert(m.order_ok());
            assert(m@.dom().contains(m.key_order()[i]));
            assert(node_items(e)[i] == m@[m.key_order()[i]]);
            if sem_items(ev, slots, e, i as nat) is Stop {
                lemma_items_stop(ev, slots, e, i as nat, len);
            } else {
                assert(sem_items(ev, slots, e, (i + 1) as nat) is Stop);
                lemma_items_stop(ev, slots, e, (i + 1) as nat, len);
            }
        }
    }
}
