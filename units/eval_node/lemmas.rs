// ---- lemmas about item lists (set literals, extension-call arguments) ----
pub open spec fn list_res(l: ListRes) -> Res { match l { ListRes::Stop(r) => r, ListRes::Vals(_) => Res::Unk } }
pub open spec fn is_limit(r: Result<PartialValue>) -> bool { r is Err && r->Err_0 is RecursionLimit }
/// once the scan has stopped it stays stopped
pub proof fn lemma_items_stop(ev: &Evaluator<'_>, slots: SlotEnv, e: Expr, n: nat, m: nat)
    requires n <= m <= node_items(e).len(), sem_items(ev, slots, e, n) is Stop
    ensures sem_items(ev, slots, e, m) == sem_items(ev, slots, e, n)
    decreases m
{
    if m > n { lemma_items_stop(ev, slots, e, n, (m - 1) as nat); }
}
/// the scan of the first n items when the first n evaluation results are all Ok
pub proof fn lemma_items_prefix(ev: &Evaluator<'_>, slots: SlotEnv, e: Expr, rs: Seq<Result<PartialValue>>, n: nat)
    requires e.expr_kind is Set || e.expr_kind is ExtensionFunctionApp,
        rs.len() == node_items(e).len(), n <= rs.len(),
        forall|i: int| 0 <= i < rs.len() ==> agrees_pv(#[trigger] rs[i], sem(ev, slots, node_items(e)[i])),
        forall|j: int| 0 <= j < n ==> (#[trigger] rs[j]) is Ok,
    ensures match sem_items(ev, slots, e, n) {
        ListRes::Stop(r) => r is Unk,
        ListRes::Vals(ks) => ks.len() == n && forall|j: int| 0 <= j < n ==> (#[trigger] rs[j])->Ok_0 is Value && rs[j]->Ok_0->Value_0.value == ks[j],
    }
    decreases n
{
    if n > 0 {
        lemma_items_prefix(ev, slots, e, rs, (n - 1) as nat);
        assert(rs[n - 1] is Ok);
        assert(agrees_pv(rs[n - 1], sem(ev, slots, node_items(e)[n - 1])));
    }
}
/// what `collect::<Result<Vec<_>>>()` of the item results means for the semantics of the whole list
pub proof fn lemma_items(ev: &Evaluator<'_>, slots: SlotEnv, e: Expr, rs: Seq<Result<PartialValue>>, c: Result<Vec<PartialValue>>)
    requires e.expr_kind is Set || e.expr_kind is ExtensionFunctionApp,
        rs.len() == node_items(e).len(),
        forall|i: int| 0 <= i < rs.len() ==> agrees_pv(#[trigger] rs[i], sem(ev, slots, node_items(e)[i])),
        c.vx_built_from(rs),
    ensures match c {
        Err(err) => err is RecursionLimit || (sem_items(ev, slots, e, rs.len()) is Stop && agrees_pv(Err::<PartialValue, EvaluationError>(err), list_res(sem_items(ev, slots, e, rs.len())))),
        Ok(v) => v@.len() == rs.len() && match sem_items(ev, slots, e, rs.len()) {
            ListRes::Stop(r) => r is Unk,
            ListRes::Vals(ks) => ks.len() == rs.len() && forall|j: int| 0 <= j < rs.len() ==> (#[trigger] v@[j]) is Value && v@[j]->Value_0.value == ks[j],
        },
    }
{
    let len = rs.len();
    if forall|i: int| 0 <= i < rs.len() ==> (#[trigger] rs[i]) is Ok {
        lemma_items_prefix(ev, slots, e, rs, len);
        let v = c->Ok_0;
        match sem_items(ev, slots, e, len) {
            ListRes::Vals(ks) => {
                assert forall|j: int| 0 <= j < len implies (#[trigger] v@[j]) is Value && v@[j]->Value_0.value == ks[j] by {
                    assert(rs[j] == Ok::<PartialValue, EvaluationError>(v@[j]));
                }
            },
            _ => {},
        }
    } else {
        let err = c->Err_0;
        let i = choose|i: int| 0 <= i < rs.len() && #[trigger] rs[i] == Err::<PartialValue, EvaluationError>(err) && forall|j: int| 0 <= j < i ==> (#[trigger] rs[j]) is Ok;
        if !(err is RecursionLimit) {
            lemma_items_prefix(ev, slots, e, rs, i as nat);
            assert(agrees_pv(rs[i], sem(ev, slots, node_items(e)[i])));
            if sem_items(ev, slots, e, i as nat) is Stop {
                lemma_items_stop(ev, slots, e, i as nat, len);
            } else {
                assert(sem_items(ev, slots, e, (i + 1) as nat) is Stop);
                lemma_items_stop(ev, slots, e, (i + 1) as nat, len);
            }
        }
    }
}
