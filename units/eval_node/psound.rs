// ---- C13: soundness of partial evaluation against every completion of the unknowns ----
// A completion `ev2` of an evaluation environment `ev` gives a value to every unknown, request variable and entity that
// `ev` leaves open, and keeps everything `ev` already knows (refines).  Completions substitute values "of the declared
// kinds": kinds_ok() says every typed unknown got a value of its declared type.  The property, for an expression e and
// the result r of partially evaluating it under ev (psound):
//   r is a value v      -> every completion evaluates e to v                       (pval)
//   r is a residual x   -> every completion evaluates x to what it evaluates e to   (pres)
//   r is an error       -> no completion evaluates e to a value                     (perr)
// where "evaluates" is the language semantics sem() of spec.rs and Res::Unk (the result of an extension call, which sem
// does not pin down) is compatible with anything.  The three predicates are opaque in the evaluator's function bodies: the
// bodies are checked against the inference rules of node_rules(), and every rule is proved sound below from the
// definitions.  A result that no rule justifies fails the `residual` postcondition.

pub open spec fn agree3(a: Res, b: Res) -> bool { a is Unk || b is Unk || a == b }
pub open spec fn is_boolk(k: ValueKind) -> bool { k is Lit && k->Lit_0 is Bool }
/// the completion gives this unknown a value of the declared type
pub open spec fn unknown_ok(ev2: &Evaluator<'_>, u: Unknown) -> bool {
    match (ev2.spec_unknown(u.name), u.type_annotation) { (Some(v), Some(t)) => v.spec_type_of() == t, _ => true }
}
/// every unknown node of the expression is unknown_ok
pub open spec fn kinds_ok(ev2: &Evaluator<'_>, e: Expr) -> bool
    decreases e
{
    match e.expr_kind {
        ExprKind::Unknown(u) => unknown_ok(ev2, u),
        ExprKind::If { test_expr, then_expr, else_expr } => kinds_ok(ev2, *test_expr) && kinds_ok(ev2, *then_expr) && kinds_ok(ev2, *else_expr),
        ExprKind::And { left, right } => kinds_ok(ev2, *left) && kinds_ok(ev2, *right),
        ExprKind::Or { left, right } => kinds_ok(ev2, *left) && kinds_ok(ev2, *right),
        ExprKind::UnaryApp { arg, .. } => kinds_ok(ev2, *arg),
        ExprKind::BinaryApp { arg1, arg2, .. } => kinds_ok(ev2, *arg1) && kinds_ok(ev2, *arg2),
        ExprKind::ExtensionFunctionApp { args, .. } => forall|i: int| 0 <= i < args@.len() ==> kinds_ok(ev2, #[trigger] args@[i]),
        ExprKind::GetAttr { expr, .. } => kinds_ok(ev2, *expr),
        ExprKind::HasAttr { expr, .. } => kinds_ok(ev2, *expr),
        ExprKind::Like { expr, .. } => kinds_ok(ev2, *expr),
        ExprKind::Is { expr, .. } => kinds_ok(ev2, *expr),
        ExprKind::Set(items) => forall|i: int| 0 <= i < items@.len() ==> kinds_ok(ev2, #[trigger] items@[i]),
        ExprKind::Record(m) => forall|k: SmolStr| m@.contains_key(k) ==> kinds_ok(ev2, #[trigger] m@[k]),
        _ => true,
    }
}
pub open spec fn pv_kinds_ok(ev2: &Evaluator<'_>, pv: PartialValue) -> bool { match pv { PartialValue::Value(_) => true, PartialValue::Residual(x) => kinds_ok(ev2, x) } }
/// the residuals stored in an entity's attributes and tags respect the declared kinds
pub open spec fn entity_kinds_ok(ev2: &Evaluator<'_>, e: Entity) -> bool {
    &&& forall|a: SmolStr| e.spec_attrs().contains_key(a) ==> pv_kinds_ok(ev2, #[trigger] e.spec_attrs()[a])
    &&& forall|t: SmolStr| e.spec_tags().contains_key(t) ==> pv_kinds_ok(ev2, #[trigger] e.spec_tags()[t])
}
/// a completion leaves nothing open
pub open spec fn total(ev2: &Evaluator<'_>) -> bool {
    &&& forall|n: SmolStr| (#[trigger] ev2.spec_unknown(n)) is Some
    &&& forall|v: Var| (#[trigger] ev2.spec_var(v)) is Value
    &&& forall|uid: EntityUID| (#[trigger] ev2.spec_entities().spec_entity_residual(uid)) is None
}
/// a residual that is a record literal stands for a record value with the same attribute names
pub open spec fn rec_shape(x: Expr, s: Res) -> bool {
    x.expr_kind is Record && s is Val ==> s->Val_0 is Record && s->Val_0->Record_0@.dom() =~= x.expr_kind->Record_0@.dom()
}
/// ev2 completes ev
#[verifier::opaque]
pub open spec fn refines(ev: &Evaluator<'_>, slots: SlotEnv, ev2: &Evaluator<'_>) -> bool {
    &&& total(ev2)
    &&& forall|n: SmolStr| #![trigger ev.spec_unknown(n)] #![trigger ev2.spec_unknown(n)] ev.spec_unknown(n) is Some ==> ev2.spec_unknown(n) == ev.spec_unknown(n)
    &&& forall|v: Var| #![trigger ev.spec_var(v)] #![trigger ev2.spec_var(v)] match ev.spec_var(v) {
            PartialValue::Value(_) => ev2.spec_var(v) == ev.spec_var(v),
            // an unknown request variable is the residual x: the completion evaluates x to what it gives the variable
            PartialValue::Residual(x) => kinds_ok(ev2, x) && agree3(sem(ev2, slots, x), pv_res(ev2.spec_var(v))) && rec_shape(x, pv_res(ev2.spec_var(v))),
        }
    &&& forall|uid: EntityUID| #![trigger ev.spec_entities().spec_entity_residual(uid)] #![trigger ev2.spec_entities().spec_entity(uid)]
        match ev.spec_entities().spec_entity_residual(uid) {
            None => ev2.spec_entities().spec_entity(uid) == ev.spec_entities().spec_entity(uid)
                && (ev.spec_entities().spec_entity(uid) is Some ==> entity_kinds_ok(ev2, ev.spec_entities().spec_entity(uid)->Some_0)),
            // an entity a partial store does not hold dereferences to the residual r: the completion evaluates r to that entity
            Some(r) => kinds_ok(ev2, r) && agree3(sem(ev2, slots, r), Res::Val(uid_kind(uid))) && !(r.expr_kind is Record),
        }
}
#[verifier::opaque]
pub open spec fn pval(ev: &Evaluator<'_>, slots: SlotEnv, e: Expr, k: ValueKind) -> bool {
    forall|ev2: &Evaluator<'_>| #[trigger] refines(ev, slots, ev2) && kinds_ok(ev2, e) ==> agree3(Res::Val(k), sem(ev2, slots, e))
}
#[verifier::opaque]
pub open spec fn pres(ev: &Evaluator<'_>, slots: SlotEnv, e: Expr, x: Expr) -> bool {
    forall|ev2: &Evaluator<'_>| #[trigger] refines(ev, slots, ev2) && kinds_ok(ev2, e) ==> kinds_ok(ev2, x) && agree3(sem(ev2, slots, x), sem(ev2, slots, e)) && rec_shape(x, sem(ev2, slots, e))
}
#[verifier::opaque]
pub open spec fn perr(ev: &Evaluator<'_>, slots: SlotEnv, e: Expr) -> bool {
    forall|ev2: &Evaluator<'_>| #[trigger] refines(ev, slots, ev2) && kinds_ok(ev2, e) ==> !(sem(ev2, slots, e) is Val)
}
/// the C13 property for one partial-evaluation result (the recursion-limit error of the stack check may surface anywhere)
pub open spec fn psound(ev: &Evaluator<'_>, slots: SlotEnv, e: Expr, r: Result<PartialValue>) -> bool {
    match r {
        Ok(PartialValue::Value(v)) => pval(ev, slots, e, v.value),
        Ok(PartialValue::Residual(x)) => pres(ev, slots, e, x),
        Err(err) => err is RecursionLimit || perr(ev, slots, e),
    }
}
/// the C13 property for the condition of one policy (`partial_evaluate`): a definite answer is every completion's answer,
/// a residual condition is satisfied / unsatisfied / erroring under a completion exactly when the policy is, an error means
/// the policy errors under every completion
pub open spec fn ppolicy(ev: &Evaluator<'_>, slots: SlotEnv, cond: Expr, r: Result<Either<bool, Expr>>) -> bool {
    forall|ev2: &Evaluator<'_>| #[trigger] refines(ev, slots, ev2) && kinds_ok(ev2, cond) ==> match r {
        Ok(Either::Left(b)) => agree3(Res::Val(vbool(b)), want_bool(sem(ev2, slots, cond))),
        Ok(Either::Right(x)) => kinds_ok(ev2, x) && agree3(want_bool(sem(ev2, slots, x)), want_bool(sem(ev2, slots, cond))),
        Err(err) => err is RecursionLimit || !(want_bool(sem(ev2, slots, cond)) is Val),
    }
}
/// the node's own semantics S, computed from its operands' values under ev, is what every completion gives
pub open spec fn resv(ev: &Evaluator<'_>, slots: SlotEnv, e: Expr, s: Res) -> bool {
    match s { Res::Val(k) => pval(ev, slots, e, k), Res::Unk => true, _ => perr(ev, slots, e) }
}
/// resolving one unknown under ev is sound for every completion
pub open spec fn usound(ev: &Evaluator<'_>, u: Unknown, r: Result<PartialValue>) -> bool {
    forall|slots: SlotEnv, ev2: &Evaluator<'_>| #[trigger] refines(ev, slots, ev2) && unknown_ok(ev2, u) ==> match r {
        Ok(PartialValue::Value(v)) => agree3(Res::Val(v.value), sem_unknown(ev2, u)),
        Ok(PartialValue::Residual(x)) => x.expr_kind == ExprKind::<()>::Unknown(u),
        Err(_) => !(sem_unknown(ev2, u) is Val),
    }
}
/// `Expr::is_projectable`: only literals, variables, unknowns, sets and records
pub open spec fn projectable(e: Expr) -> bool
    decreases e
{
    match e.expr_kind {
        ExprKind::Lit(_) => true, ExprKind::Var(_) => true, ExprKind::Unknown(_) => true,
        ExprKind::Set(items) => forall|i: int| 0 <= i < items@.len() ==> projectable(#[trigger] items@[i]),
        ExprKind::Record(m) => forall|k: SmolStr| m@.contains_key(k) ==> projectable(#[trigger] m@[k]),
        _ => false,
    }
}
/// the answer a type-based short cut gives for `==`: a concrete answer is sound when every pair of entities of the
/// declared types (resp. the given entity) gives it.  One predicate per operand shape (value/residual).
pub open spec fn sc_vr(v1: Value, e2: Expr, op: BinaryOp, pv: PartialValue) -> bool {
    op == BinaryOp::Eq && typed_unknown(e2) is Some && v1.value is Lit && v1.value->Lit_0 is EntityUID
    && exists|b: bool| pv == pv_bool(b) && forall|y: EntityUID| #[trigger] y.spec_type() == typed_unknown(e2)->Some_0 ==> (*v1.value->Lit_0->EntityUID_0 == y) == b
}
pub open spec fn sc_rv(e1: Expr, v2: Value, op: BinaryOp, pv: PartialValue) -> bool {
    op == BinaryOp::Eq && typed_unknown(e1) is Some && v2.value is Lit && v2.value->Lit_0 is EntityUID
    && exists|b: bool| pv == pv_bool(b) && forall|x: EntityUID| #[trigger] x.spec_type() == typed_unknown(e1)->Some_0 ==> (x == *v2.value->Lit_0->EntityUID_0) == b
}
pub open spec fn sc_rr(e1: Expr, e2: Expr, op: BinaryOp, pv: PartialValue) -> bool {
    op == BinaryOp::Eq && typed_unknown(e1) is Some && typed_unknown(e2) is Some
    && exists|b: bool| pv == pv_bool(b) && forall|x: EntityUID, y: EntityUID| #![trigger x.spec_type(), y.spec_type()] x.spec_type() == typed_unknown(e1)->Some_0 && y.spec_type() == typed_unknown(e2)->Some_0 ==> (x == y) == b
}
/// the partial values of a node's items (set elements, call arguments, record initialisers) are sound item by item
pub open spec fn pvs_sound(ev: &Evaluator<'_>, slots: SlotEnv, e: Expr, pvs: Seq<PartialValue>) -> bool {
    pvs.len() == node_items(e).len() && forall|i: int| 0 <= i < pvs.len() ==> match #[trigger] pvs[i] {
        PartialValue::Value(v) => pval(ev, slots, node_items(e)[i], v.value),
        PartialValue::Residual(x) => pres(ev, slots, node_items(e)[i], x),
    }
}
pub open spec fn list_like(e: Expr, z: Expr) -> bool {
    match (e.expr_kind, z.expr_kind) {
        (ExprKind::Set(_), ExprKind::Set(_)) => true,
        (ExprKind::ExtensionFunctionApp { fn_name: n1, .. }, ExprKind::ExtensionFunctionApp { fn_name: n2, .. }) => n1 == n2,
        (ExprKind::Record(m1), ExprKind::Record(m2)) => m1.key_order() == m2.key_order(),
        _ => false,
    }
}
pub open spec fn arc_e(a: &Arc<Expr>) -> Expr { **a }
pub open spec fn if_of(e: Expr, g: Expr, c: Expr, a: Expr) -> bool { e.expr_kind == k_ite(g, c, a) }
pub open spec fn ga_of(e: Expr, a: Expr, attr: SmolStr) -> bool { e.expr_kind == k_getattr(a, attr) }
/// no unknown of the expression is typed (what an extension function may return as a residual)
pub open spec fn closed_kinds(x: Expr) -> bool { forall|ev2: &Evaluator<'_>| #[trigger] kinds_ok(ev2, x) }

// ---- the inference rules of partial evaluation, per node kind ----
pub open spec fn rules_if(ev: &Evaluator<'_>, slots: SlotEnv, e: Expr, g: Expr, c: Expr, a: Expr) -> bool {
    &&& perr(ev, slots, g) ==> perr(ev, slots, e)
    &&& forall|k: ValueKind| #[trigger] pval(ev, slots, g, k) ==> {
            &&& k == vbool(true) ==> forall|r: Result<PartialValue>| #[trigger] psound(ev, slots, c, r) ==> psound(ev, slots, e, r)
            &&& k == vbool(false) ==> forall|r: Result<PartialValue>| #[trigger] psound(ev, slots, a, r) ==> psound(ev, slots, e, r)
            &&& !is_boolk(k) ==> perr(ev, slots, e)
        }
    &&& forall|x: Expr, y: Expr, w: Expr, z: Expr| #![trigger k_ite(x, y, w), pres(ev, slots, e, z)]
            pres(ev, slots, g, x) && pres(ev, slots, c, y) && pres(ev, slots, a, w) && z.expr_kind == k_ite(x, y, w) ==> pres(ev, slots, e, z)
}
pub open spec fn rules_andor(ev: &Evaluator<'_>, slots: SlotEnv, e: Expr, l: Expr, r: Expr, is_and: bool) -> bool {
    &&& perr(ev, slots, l) ==> perr(ev, slots, e)
    &&& forall|k: ValueKind| #[trigger] pval(ev, slots, l, k) ==> {
            &&& k == vbool(!is_and) ==> pval(ev, slots, e, vbool(!is_and))
            &&& !is_boolk(k) ==> perr(ev, slots, e)
            &&& k == vbool(is_and) ==> {
                &&& perr(ev, slots, r) ==> perr(ev, slots, e)
                &&& forall|k2: ValueKind| #[trigger] pval(ev, slots, r, k2) ==> if is_boolk(k2) { pval(ev, slots, e, k2) } else { perr(ev, slots, e) }
            }
        }
    &&& forall|x: Expr, y: Expr, z: Expr| #![trigger and_kind(x, y), pres(ev, slots, e, z)] #![trigger or_kind(x, y), pres(ev, slots, e, z)]
            pres(ev, slots, l, x) && pres(ev, slots, r, y) && z.expr_kind == (if is_and { and_kind(x, y) } else { or_kind(x, y) }) ==> pres(ev, slots, e, z)
}
pub open spec fn rules_unary(ev: &Evaluator<'_>, slots: SlotEnv, e: Expr, op: UnaryOp, a: Expr) -> bool {
    &&& perr(ev, slots, a) ==> perr(ev, slots, e)
    &&& forall|k: ValueKind| #[trigger] pval(ev, slots, a, k) ==> resv(ev, slots, e, sem_unary(op, vk(k)))
    &&& forall|x: Expr, z: Expr| #![trigger k_unary(op, x), pres(ev, slots, e, z)] pres(ev, slots, a, x) && z.expr_kind == k_unary(op, x) ==> pres(ev, slots, e, z)
}
pub open spec fn tag_residual(ev: &Evaluator<'_>, op: BinaryOp, k1: ValueKind, k2: ValueKind, x: Expr) -> bool {
    op == BinaryOp::GetTag && match (k1, k2) {
        (ValueKind::Lit(Literal::EntityUID(u)), ValueKind::Lit(Literal::String(t))) => {
            let ents = ev.spec_entities();
            ents.spec_entity_residual(*u) is None && ents.spec_entity(*u) is Some && ents.spec_entity(*u)->Some_0.spec_tags().contains_key(t)
            && ents.spec_entity(*u)->Some_0.spec_tags()[t] == PartialValue::Residual(x)
        },
        _ => false,
    }
}
pub open spec fn rules_binary(ev: &Evaluator<'_>, slots: SlotEnv, e: Expr, op: BinaryOp, a1: Expr, a2: Expr) -> bool {
    &&& perr(ev, slots, a1) ==> perr(ev, slots, e)
    &&& perr(ev, slots, a2) ==> perr(ev, slots, e)
    &&& forall|k1: ValueKind, k2: ValueKind| #![trigger pval(ev, slots, a1, k1), pval(ev, slots, a2, k2)]
            pval(ev, slots, a1, k1) && pval(ev, slots, a2, k2) ==> resv(ev, slots, e, sem_binary(ev, op, k1, k2))
    &&& forall|x: Expr, y: Expr, z: Expr| #![trigger k_binary(op, x, y), pres(ev, slots, e, z)]
            pres(ev, slots, a1, x) && pres(ev, slots, a2, y) && z.expr_kind == k_binary(op, x, y) ==> pres(ev, slots, e, z)
    // a tag that holds a residual
    &&& forall|k1: ValueKind, k2: ValueKind, x: Expr| #![trigger pval(ev, slots, a1, k1), pval(ev, slots, a2, k2), pres(ev, slots, e, x)]
            pval(ev, slots, a1, k1) && pval(ev, slots, a2, k2) && tag_residual(ev, op, k1, k2, x) ==> pres(ev, slots, e, x)
    // the type-based short cuts for `==`
    &&& forall|v1: Value, x: Expr, pv: PartialValue| #![trigger sc_vr(v1, x, op, pv)]
            sc_vr(v1, x, op, pv) && pval(ev, slots, a1, v1.value) && pres(ev, slots, a2, x) ==> pv is Value && pval(ev, slots, e, pv->Value_0.value)
    &&& forall|x: Expr, v2: Value, pv: PartialValue| #![trigger sc_rv(x, v2, op, pv)]
            sc_rv(x, v2, op, pv) && pres(ev, slots, a1, x) && pval(ev, slots, a2, v2.value) ==> pv is Value && pval(ev, slots, e, pv->Value_0.value)
    &&& forall|x: Expr, y: Expr, pv: PartialValue| #![trigger sc_rr(x, y, op, pv)]
            sc_rr(x, y, op, pv) && pres(ev, slots, a1, x) && pres(ev, slots, a2, y) ==> pv is Value && pval(ev, slots, e, pv->Value_0.value)
}
pub open spec fn attr_residual(ev: &Evaluator<'_>, k: ValueKind, attr: SmolStr, z: Expr) -> bool {
    match k {
        ValueKind::Lit(Literal::EntityUID(u)) => {
            let ents = ev.spec_entities();
            ents.spec_entity_residual(*u) is None && ents.spec_entity(*u) is Some && ents.spec_entity(*u)->Some_0.spec_attrs().contains_key(attr)
            && ents.spec_entity(*u)->Some_0.spec_attrs()[attr] is Residual && ents.spec_entity(*u)->Some_0.spec_attrs()[attr]->Residual_0.expr_kind == z.expr_kind
        },
        _ => false,
    }
}
pub open spec fn attr_unknown(ev: &Evaluator<'_>, k: ValueKind, attr: SmolStr, u: Unknown) -> bool {
    match k {
        ValueKind::Lit(Literal::EntityUID(uid)) => {
            let ents = ev.spec_entities();
            ents.spec_entity_residual(*uid) is None && ents.spec_entity(*uid) is Some && ents.spec_entity(*uid)->Some_0.spec_attrs().contains_key(attr)
            && ents.spec_entity(*uid)->Some_0.spec_attrs()[attr] is Residual && ents.spec_entity(*uid)->Some_0.spec_attrs()[attr]->Residual_0.expr_kind == ExprKind::<()>::Unknown(u)
        },
        _ => false,
    }
}
pub open spec fn rules_getattr(ev: &Evaluator<'_>, slots: SlotEnv, e: Expr, a: Expr, attr: SmolStr) -> bool {
    &&& perr(ev, slots, a) ==> perr(ev, slots, e)
    &&& forall|k: ValueKind| #[trigger] pval(ev, slots, a, k) ==> resv(ev, slots, e, sem_get_attr(ev, k, attr))
    &&& forall|k: ValueKind, z: Expr| #![trigger pval(ev, slots, a, k), pres(ev, slots, e, z)] pval(ev, slots, a, k) && attr_residual(ev, k, attr, z) ==> pres(ev, slots, e, z)
    &&& forall|x: Expr, z: Expr| #![trigger k_getattr(x, attr), pres(ev, slots, e, z)] pres(ev, slots, a, x) && z.expr_kind == k_getattr(x, attr) ==> pres(ev, slots, e, z)
    // an entity attribute that holds an unknown: whatever resolving the unknown soundly gives
    &&& forall|k: ValueKind, u: Unknown, r: Result<PartialValue>| #![trigger pval(ev, slots, a, k), usound(ev, u, r)]
            pval(ev, slots, a, k) && attr_unknown(ev, k, attr, u) && usound(ev, u, r) ==> psound(ev, slots, e, r)
    // projection out of a residual record literal
    &&& forall|x: Expr| #[trigger] pres(ev, slots, a, x) && x.expr_kind is Record ==> {
            let m = x.expr_kind->Record_0;
            &&& !m@.contains_key(attr) ==> perr(ev, slots, e)
            &&& projectable(x) && m@.contains_key(attr) ==> forall|r: Result<PartialValue>| #[trigger] psound(ev, slots, m@[attr], r) ==> psound(ev, slots, e, r)
        }
}
pub open spec fn rules_hasattr(ev: &Evaluator<'_>, slots: SlotEnv, e: Expr, a: Expr, attr: SmolStr) -> bool {
    &&& perr(ev, slots, a) ==> perr(ev, slots, e)
    &&& forall|k: ValueKind| #[trigger] pval(ev, slots, a, k) ==> resv(ev, slots, e, sem_has_attr(ev, k, attr))
    &&& forall|x: Expr, z: Expr| #![trigger k_hasattr(x, attr), pres(ev, slots, e, z)] pres(ev, slots, a, x) && z.expr_kind == k_hasattr(x, attr) ==> pres(ev, slots, e, z)
    &&& forall|x: Expr| #[trigger] pres(ev, slots, a, x) && x.expr_kind is Record && projectable(x) ==> pval(ev, slots, e, vbool(x.expr_kind->Record_0@.contains_key(attr)))
}
pub open spec fn sem_like(k: ValueKind, p: Pattern) -> Res { match k { ValueKind::Lit(Literal::String(s)) => Res::Val(vbool(p.spec_match(s))), _ => Res::ErrType } }
pub open spec fn sem_is(k: ValueKind, t: EntityType) -> Res { match k { ValueKind::Lit(Literal::EntityUID(u)) => Res::Val(vbool(u.spec_type() == t)), _ => Res::ErrType } }
pub open spec fn rules_like(ev: &Evaluator<'_>, slots: SlotEnv, e: Expr, a: Expr, p: Pattern) -> bool {
    &&& perr(ev, slots, a) ==> perr(ev, slots, e)
    &&& forall|k: ValueKind| #[trigger] pval(ev, slots, a, k) ==> resv(ev, slots, e, sem_like(k, p))
    &&& forall|x: Expr, z: Expr| #![trigger k_like(x, p), pres(ev, slots, e, z)] pres(ev, slots, a, x) && z.expr_kind == k_like(x, p) ==> pres(ev, slots, e, z)
}
pub open spec fn rules_is(ev: &Evaluator<'_>, slots: SlotEnv, e: Expr, a: Expr, t: EntityType) -> bool {
    &&& perr(ev, slots, a) ==> perr(ev, slots, e)
    &&& forall|k: ValueKind| #[trigger] pval(ev, slots, a, k) ==> resv(ev, slots, e, sem_is(k, t))
    &&& forall|x: Expr, z: Expr| #![trigger k_is(x, t), pres(ev, slots, e, z)] pres(ev, slots, a, x) && z.expr_kind == k_is(x, t) ==> pres(ev, slots, e, z)
    // `is` on a typed unknown is decided by the declared type
    &&& forall|x: Expr| #[trigger] pres(ev, slots, a, x) && typed_unknown(x) is Some ==> pval(ev, slots, e, vbool(typed_unknown(x)->Some_0 == t))
}
pub open spec fn all_values(pvs: Seq<PartialValue>, ks: Seq<ValueKind>) -> bool {
    ks.len() == pvs.len() && forall|i: int| 0 <= i < pvs.len() ==> (#[trigger] pvs[i]) is Value && pvs[i]->Value_0.value == ks[i]
}
pub open spec fn rules_list(ev: &Evaluator<'_>, slots: SlotEnv, e: Expr) -> bool {
    // every item a value
    &&& forall|pvs: Seq<PartialValue>, ks: Seq<ValueKind>| #![trigger pvs_sound(ev, slots, e, pvs), all_values(pvs, ks)] pvs_sound(ev, slots, e, pvs) && all_values(pvs, ks) ==> match e.expr_kind {
            ExprKind::Set(_) => pval(ev, slots, e, mk_set(ks)),
            ExprKind::Record(m) => pval(ev, slots, e, mk_record(rec_pairs(m.key_order(), ks))),
            // the result of the extension call is not pinned down by sem: anything without typed unknowns is compatible
            _ => perr(ev, slots, e) && (forall|k: ValueKind| #[trigger] pval(ev, slots, e, k)) && (forall|x: Expr| closed_kinds(x) && !(x.expr_kind is Record) ==> #[trigger] pres(ev, slots, e, x)),
        }
    // the same node over the items' partial values as expressions
    &&& forall|pvs: Seq<PartialValue>, z: Expr| #![trigger pvs_sound(ev, slots, e, pvs), pres(ev, slots, e, z)]
            pvs_sound(ev, slots, e, pvs) && list_like(e, z) && node_items(z).len() == pvs.len() && (forall|i: int| 0 <= i < pvs.len() ==> #[trigger] node_items(z)[i] == expr_of_pv(pvs[i]))
            ==> pres(ev, slots, e, z)
}
pub open spec fn node_rules(ev: &Evaluator<'_>, slots: SlotEnv, e: Expr) -> bool {
    match e.expr_kind {
        ExprKind::Lit(l) => pval(ev, slots, e, ValueKind::Lit(l)),
        ExprKind::Slot(id) => if slots@.contains_key(id) { pval(ev, slots, e, uid_kind(slots@[id])) } else { perr(ev, slots, e) },
        ExprKind::Var(v) => match ev.spec_var(v) { PartialValue::Value(val) => pval(ev, slots, e, val.value), PartialValue::Residual(x) => pres(ev, slots, e, x) },
        ExprKind::Unknown(u) => forall|r: Result<PartialValue>| #[trigger] usound(ev, u, r) ==> psound(ev, slots, e, r),
        ExprKind::If { test_expr, then_expr, else_expr } => rules_if(ev, slots, e, *test_expr, *then_expr, *else_expr),
        ExprKind::And { left, right } => rules_andor(ev, slots, e, *left, *right, true),
        ExprKind::Or { left, right } => rules_andor(ev, slots, e, *left, *right, false),
        ExprKind::UnaryApp { op, arg } => rules_unary(ev, slots, e, op, *arg),
        ExprKind::BinaryApp { op, arg1, arg2 } => rules_binary(ev, slots, e, op, *arg1, *arg2),
        ExprKind::GetAttr { expr, attr } => rules_getattr(ev, slots, e, *expr, attr),
        ExprKind::HasAttr { expr, attr } => rules_hasattr(ev, slots, e, *expr, attr),
        ExprKind::Like { expr, pattern } => rules_like(ev, slots, e, *expr, pattern),
        ExprKind::Is { expr, entity_type } => rules_is(ev, slots, e, *expr, entity_type),
        ExprKind::ExtensionFunctionApp { .. } => rules_list(ev, slots, e),
        ExprKind::Set(_) => rules_list(ev, slots, e),
        ExprKind::Record(_) => rules_list(ev, slots, e),
        ExprKind::Error { .. } => perr(ev, slots, e),
    }
}
/// rules that relate the three predicates to each other (for any expression a)
pub open spec fn aux_rules(ev: &Evaluator<'_>, slots: SlotEnv) -> bool {
    // an expression is a sound residual of itself
    &&& forall|a: Expr| #[trigger] pres(ev, slots, a, a)
    // a value as an expression, a literal as an expression
    &&& forall|a: Expr, v: Value| pval(ev, slots, a, v.value) ==> #[trigger] pres(ev, slots, a, expr_of_value(v))
    &&& forall|a: Expr, y: Expr| y.expr_kind is Lit && pval(ev, slots, a, ValueKind::Lit(y.expr_kind->Lit_0)) ==> #[trigger] pres(ev, slots, a, y)
    // an entity the partial store does not hold stands for the residual it dereferences to
    &&& forall|a: Expr, k: ValueKind, u: EntityUID| #![trigger pval(ev, slots, a, k), ev.spec_entities().spec_entity_residual(u)]
            k == uid_kind(u) && pval(ev, slots, a, k) && ev.spec_entities().spec_entity_residual(u) is Some ==> pres(ev, slots, a, ev.spec_entities().spec_entity_residual(u)->Some_0)
}
/// only the expression kind matters (source locations and data are not semantic)
pub open spec fn kind_rules(ev: &Evaluator<'_>, slots: SlotEnv) -> bool {
    forall|a: Expr, x: Expr, y: Expr| #![trigger pres(ev, slots, a, x), pres(ev, slots, a, y)] x.expr_kind == y.expr_kind && pres(ev, slots, a, x) ==> pres(ev, slots, a, y)
}
