"""Unit eval_node: the expression evaluator (partial_interpret & friends) against the expression semantics (C02, C13)."""
import re
from vx.assemble import Fn, Type, Raw, Loop, ClosureRw, FnRw, cmp_rw

PROPERTIES = ['C02', 'C13']
HEADER = '#![feature(allocator_api)]'
STDMODEL = ['iter.rs', 'hash.rs', 'btree.rs', 'std.rs']
EVAL = 'cedar-policy-core/src/evaluator.rs'
ERR = 'cedar-policy-core/src/evaluator/err.rs'
VALUE = 'cedar-policy-core/src/ast/value.rs'
LIT = 'cedar-policy-core/src/ast/literal.rs'
OPS = 'cedar-policy-core/src/ast/ops.rs'
EXPR = 'cedar-policy-core/src/ast/expr.rs'
PV = 'cedar-policy-core/src/ast/partial_value.rs'
ENTS = 'cedar-policy-core/src/entities.rs'
REQ = 'cedar-policy-core/src/ast/request.rs'
TYPES = 'cedar-policy-core/src/ast/types.rs'
ASSUMPTIONS = [
    'The Evaluator struct is opaque (it holds a Box<dyn Fn> unknowns mapper): field reads are rewritten to accessor functions with uninterpreted spec views (request variables, entity store, extensions, unknowns mapper).',
    'Callees are represented by their contracts: unary_app / binary_relation / binary_arith / Value::get_as_* (proved in unit eval_ops), Entity::is_descendant_of (unit entity_hier), Pattern::wildcard_match (unit pattern), Set::contains/is_subset/is_disjoint (spec functions set_mem/set_subset/set_disjoint), Entities::entity, extension function lookup and call, split(), Expr constructors (result shape), From conversions, error constructors (variant only).',
    'Recursion is admitted without a decreases clause (exec_allows_no_decreases_clause): termination is not proved; stack_size_check may report the recursion limit at any node (agrees always allows RecursionLimit).',
    'The advice-decorating closure of the `in` arm is replaced by an opaque class-preserving function.',
    'C13 (psound.rs / rules.rs), assumed facts about values: the expression a value converts to (From<Value> for Expr) evaluates to that value under every environment, contains no unknown and is a record literal only for a record value with the same attribute names; a value whose type_of() is an entity type is an entity literal of that type; `==` on two entity literals is equality of the uids; mk_record (Value::record) of distinct (name, value) pairs is the record with exactly those attributes.',
    'C13, assumed contracts: Expr::subexpressions() yields exactly the nodes of the expression tree (is_sub; the ExprIterator stack loop itself is not under contract), from which Expr::is_projectable is PROVED to be the recursive predicate projectable(); a residual returned by an extension function (the `unknown` constructor) has no typed unknown and is not a record literal; Expr::record over pairs whose names are the key order of some map yields a map with that key order and those values; the residual-building constructors (Expr::and/or/unary_app/binary_app/get_attr/has_attr/like/is_entity_type/ite_arc/set/call_extension_fn/unknown) produce the expression kind named in ctors.rs (and/or/is_entity_type: proved in unit builder).',
    'C13, scope of the statement: a completion is total and of the declared kinds (refines / kinds_ok in psound.rs); the residual an environment holds for an unknown request variable or for an entity missing from a partial store is assumed to evaluate, under the completion, to the value the completion gives that variable / entity (this is how unknowns are named by EntityUIDEntry::evaluate and Entities::entity; those two functions are represented by uninterpreted views).',
]
DERIVE = ['derive(Clone, Copy, PartialEq, Eq)']
W = "impl<'e> Evaluator<'e>"
NODEC = ['verifier::exec_allows_no_decreases_clause']


def split_collect(var):
    def f(text):
        rx = re.compile(r'let ' + var + r' = (vx_arc_vec_iter\(\w+\)\s*\.map\(.*?\}\))\s*\.collect::<Result<Vec<_>>>\(\)\?;', re.S)
        def rep(m):
            return ('let __vx_it = ' + m.group(1) + ';\n                let ghost __vx_rs = __vx_it.items();\n'
                    '                let __vx_c = __vx_it.collect::<Result<Vec<_>>>();\n'
                    '                proof { lemma_items(self, *slots, *expr, __vx_rs, __vx_c); lemma_list_results(self, *slots, *expr, __vx_rs, __vx_c); }\n'
                    '                let ' + var + ' = __vx_c?;\n                let ghost __vx_pvs = ' + var + '@;')
        return rx.subn(rep, text, count=1)
    return f

def split_collect_rec(text):
    rx = re.compile(r'let map = (map\s*\.iter\(\)\s*\.map\(.*?\}\))\s*\.collect::<Result<Vec<_>>>\(\)\?;', re.S)
    def rep(m):
        return ('let __vx_it = ' + m.group(1) + ';\n                let ghost __vx_rs = __vx_it.items();\n'
                '                let __vx_c = __vx_it.collect::<Result<Vec<_>>>();\n'
                '                proof {\n'
                '                    assert forall|i: int| 0 <= i < __vx_rs.len() implies agrees_pv(#[trigger] snd_results(__vx_rs)[i], sem(self, *slots, node_items(*expr)[i])) by {}\n'
                '                    lemma_items_rec(self, *slots, *expr, __vx_rs, __vx_c);\n'
                '                    assert forall|i: int| 0 <= i < __vx_rs.len() implies psound(self, *slots, node_items(*expr)[i], #[trigger] snd_results(__vx_rs)[i]) by {}\n'
                '                    lemma_list_results_rec(self, *slots, *expr, __vx_rs, __vx_c);\n                }\n'
                '                let map = __vx_c?;')
    return rx.subn(rep, text, count=1)

def split_record_value(text):
    rx = re.compile(r'Ok\(Value::record\((names\.into_iter\(\)\.zip\(vals\)), loc\.cloned\(\)\)\.into\(\)\)')
    rep = '''let ghost __vx_vs = vals.items();
                        let __vx_pairs = vx_zip(names, vals);
                        proof {
                            let n = node_items(*expr).len(); let ko = expr.expr_kind->Record_0.key_order();
                            if sem_items(self, *slots, *expr, n) is Vals {
                                let ks = sem_items(self, *slots, *expr, n)->Vals_0;
                                assert forall|j: int| 0 <= j < ks.len() implies #[trigger] pair_kinds(__vx_pairs.items())[j] == rec_pairs(ko, ks)[j] by {
                                    assert(__vx_map@[j] == (__vx_names@[j], __vx_evalled@[j]));
                                    assert(__vx_evalled@[j] == PartialValue::Value(__vx_vs[j]));
                                }
                                assert(pair_kinds(__vx_pairs.items()) =~= rec_pairs(ko, ks));
                            }
                            let ks2 = kinds_of(__vx_vs);
                            assert forall|j: int| 0 <= j < ks2.len() implies #[trigger] pair_kinds(__vx_pairs.items())[j] == rec_pairs(ko, ks2)[j] && (#[trigger] __vx_evalled@[j]) is Value && __vx_evalled@[j]->Value_0.value == ks2[j] by {
                                assert(__vx_map@[j] == (__vx_names@[j], __vx_evalled@[j]));
                                assert(__vx_evalled@[j] == PartialValue::Value(__vx_vs[j]));
                            }
                            assert(pair_kinds(__vx_pairs.items()) =~= rec_pairs(ko, ks2));
                            assert(all_values(__vx_evalled@, ks2));
                        }
                        Ok(Value::record(__vx_pairs, loc.cloned()).into())'''
    return rx.subn(lambda m: rep, text, count=1)

FIELDS = [
    (r'self\.principal\.evaluate', 'self.vx_principal().evaluate', None),
    (r'self\.action\.evaluate', 'self.vx_action().evaluate', None),
    (r'self\.resource\.evaluate', 'self.vx_resource().evaluate', None),
    (r'self\.context\.clone\(\)', 'self.vx_context().clone()', None),
    (r'self\.entities\b', 'self.vx_entities()', None),
    (r'self\.extensions\b', 'self.vx_extensions()', None),
]
MAP_INTO_PV = (r'\.map\(Into::into\)', '.map(|v: Value| -> (r: PartialValue) ensures r == PartialValue::Value(v) { v.into() })')

ITEMS = [
    Raw(file='../_eval/base.rs', tag='prelude'),
    Raw(file='prelude.rs', tag='prelude'),
    Raw(file='ctors.rs', tag='prelude'),
    Type(TYPES, 'enum Type'),
    Type(LIT, 'enum Literal'),
    Type(VALUE, 'enum ValueKind'),
    Type(VALUE, 'struct Value'),
    Type(OPS, 'enum UnaryOp', attrs=DERIVE),
    Type(OPS, 'enum BinaryOp', attrs=DERIVE),
    Type(EXPR, 'enum Var', attrs=DERIVE),
    Type(EXPR, 'struct Unknown'),
    Type(EXPR, 'struct Expr'),
    Type(EXPR, 'enum ExprKind'),
    Type(PV, 'enum PartialValue'),
    Type(ENTS, 'enum Dereference'),
    Type(REQ, 'enum EntityUIDEntry'),
    Type(ERR, 'enum EvaluationError', rewrites=[(r'evaluation_errors::', '', None)]),
    Type(ERR, 'mod evaluation_errors > enum IntegerOverflowError'),
    Type(ERR, 'mod evaluation_errors > struct BinaryOpOverflowError'),
    Type(ERR, 'mod evaluation_errors > struct UnaryOpOverflowError'),
    Raw(file='../_eval/set_spec.rs', tag='spec'),
    Raw(file='../_eval/sem_ops.rs', tag='spec'),
    Raw(file='spec.rs', tag='spec'),
    Raw(file='lemmas.rs', tag='spec'),
    Raw(file='psound.rs', tag='spec'),
    Raw(file='rules.rs', tag='spec'),

    Fn(EXPR, 'impl<T> Expr<T> > fn is_projectable', name='Expr::is_projectable', wrap='impl Expr', props=['C13'],
       ensures=[('projectable', 'r == projectable(*self)')],
       proof_start='proof { lemma_projectable_subs(*self); }',
       rewrites=[ClosureRw(r'e', 'e: &Expr', ret='bool', ensures='b == proj_kind(e.expr_kind)', rname='b')]),
    Fn(EVAL, "impl<'e> Evaluator<'e> > fn interpret", wrap=W,
       ensures=[('sem', 'match sem(self, *slots, *e) { Res::Val(k) => (r is Ok && r->Ok_0.value == k) || (r is Err && r->Err_0 is RecursionLimit), Res::Unk => true, s => r is Err && agrees_pv(Err::<PartialValue, EvaluationError>(r->Err_0), s) }')]),
    Fn(EVAL, "impl<'e> Evaluator<'e> > fn evaluate", wrap=W, props=['C02', 'C01'],
       ensures=[('policy', '''match want_bool(sem(self, p.spec_env(), p.spec_condition())) {
            Res::Val(k) => (r is Ok && r->Ok_0 == (k == vbool(true))) || (r is Err && r->Err_0 is RecursionLimit),
            Res::Unk => true,
            _ => r is Err,
        }''')]),
    Fn(EVAL, "impl<'e> Evaluator<'e> > fn partial_evaluate", wrap=W, props=['C02', 'C01', 'C13'],
       rewrites=[(r'v\.get_as_bool\(\)\.map\(Either::Left\)', r'v.get_as_bool().map(|b: bool| -> (r: Either<bool, Expr>) ensures r == Either::<bool, Expr>::Left(b) { Either::Left(b) })', 1)],
       ensures=[('policy', '''match want_bool(sem(self, p.spec_env(), p.spec_condition())) {
            Res::Val(k) => (r is Ok && r->Ok_0 == Either::<bool, Expr>::Left(k == vbool(true))) || (r is Err && r->Err_0 is RecursionLimit),
            Res::Unk => true,
            _ => r is Err,
        }'''), ('residual', 'ppolicy(self, p.spec_env(), p.spec_condition(), r)')],
       proof_start='proof { reveal(pval); reveal(pres); reveal(perr); }'),
    Fn(EVAL, "impl<'e> Evaluator<'e> > fn partial_interpret", wrap=W, attrs=NODEC, props=['C02', 'C13'],
       ensures=[('sem', 'agrees_pv(r, sem(self, *slots, *expr))'), ('residual', 'psound(self, *slots, *expr, r)')],
       proof_start='proof { lemma_kind_rules(self, *slots); }',
       rewrites=[
           ClosureRw(r'pval', 'pval: PartialValue', ret='PartialValue', ensures='pval is Value <==> r is Value, pval is Value ==> r->Value_0.value == pval->Value_0.value, pval is Residual ==> r->Residual_0.expr_kind == pval->Residual_0.expr_kind'),
           ClosureRw(r'err', 'err: EvaluationError', ret='EvaluationError', ensures='r.same_class(err)'),
       ]),
    Fn(EVAL, "impl<'e> Evaluator<'e> > fn partial_interpret_internal", wrap=W, attrs=NODEC + ['verifier::rlimit(300)', 'verifier::spinoff_prover'], props=['C02', 'C13'],
       ensures=[('sem', 'agrees_pv(r, sem(self, *slots, *expr))'), ('residual', 'psound(self, *slots, *expr, r)')],
       proof_start="""broadcast use axiom_btreemap_order_ok, axiom_ext_residual;
        proof {
            lemma_node_rules(self, *slots, *expr); lemma_aux_rules(self, *slots);
            // the terms the contracts of eval_if / get_attr trigger on
            if expr.expr_kind is If { assert(if_of(*expr, *expr.expr_kind->test_expr, *expr.expr_kind->then_expr, *expr.expr_kind->else_expr)); }
            if expr.expr_kind is GetAttr { assert(ga_of(*expr, *expr.expr_kind->GetAttr_expr, expr.expr_kind->GetAttr_attr)); }
        }""",
       hints=[(r'let map = __vx_c\?;', 'let ghost __vx_map = map;'),
              (r'let vals: Vec<_> = vals\.collect\(\);', '''proof {
                            assert forall|j: int| 0 <= j < __vx_pvs.len() implies (#[trigger] __vx_pvs[j]) is Value && __vx_pvs[j]->Value_0.value == kinds_of(vals@)[j] by { assert(__vx_pvs[j] == PartialValue::Value(vals@[j])); }
                            assert(all_values(__vx_pvs, kinds_of(vals@)));
                        }'''),
              (r'let \(names, evalled\): \(Vec<SmolStr>, Vec<PartialValue>\) = vx_unzip\(map\);', '''let ghost __vx_names = names; let ghost __vx_evalled = evalled;
                proof {
                    let ko = expr.expr_kind->Record_0.key_order();
                    assert(names@.len() == ko.len());
                    assert forall|i: int| 0 <= i < ko.len() implies #[trigger] names@[i] == ko[i] by { assert(map@[i] == (names@[i], evalled@[i])); }
                    assert forall|i: int, j: int| 0 <= i < j < names@.len() implies names@[i] != names@[j] by { assert(ko[i] != ko[j]); }
                    assert forall|i: int| 0 <= i < evalled@.len() implies #[trigger] evalled@[i] == __vx_map@[i].1 by { assert(__vx_map@[i] == (names@[i], evalled@[i])); }
                    assert(pvs_sound(self, *slots, *expr, evalled@));
                    if exists|k: int| 0 <= k < evalled@.len() && evalled@[k] is Residual {
                        let k = choose|k: int| 0 <= k < evalled@.len() && evalled@[k] is Residual;
                        assert(__vx_map@[k].1 is Residual);
                        assert(sem(self, *slots, *expr) is Unk);
                    }
                }''')],
       rewrites=FIELDS + [
           (r'err::EvaluationError', 'EvaluationError', None),
           (r'\.ok_or_else\(\|\| EvaluationError::unlinked_slot\(\*id, loc\.cloned\(\)\)\)', '.ok_or_else(|| -> (e: EvaluationError) ensures e is UnlinkedSlot { EvaluationError::unlinked_slot(*id, loc.cloned()) })', 1),
           ClosureRw(r'euid', 'euid: &EntityUID', ret='PartialValue', ensures='r == pv_of_uid(*euid)'),
           (r'\.map_or_else\(\|_\| right\.as_ref\(\)\.clone\(\), Into::into\)',
            '.map_or_else(|_vx: EvaluationError| -> (r: Expr) ensures r == **right { right.as_ref().clone() }, |pv: PartialValue| -> (r: Expr) ensures r == expr_of_pv(pv) { pv.into() })', 2),
           (r'\.ok_or_else\(\|\| \{(\s*)EvaluationError::entity_tag_does_not_exist\(', r'.ok_or_else(|| -> (e: EvaluationError) ensures e is EntityAttrDoesNotExist {\1EvaluationError::entity_tag_does_not_exist(', 1),
           (r'Expr::val\(true\)', 'Expr::val_bool(true)', None), (r'Expr::val\(false\)', 'Expr::val_bool(false)', None),
           (r'Expr::val\(tag\.clone\(\)\)', 'Expr::val_str(tag.clone())', None),
           (MAP_INTO_PV[0], MAP_INTO_PV[1], None),
           FnRw('replace the advice-decorating closure of `arg1.get_as_entity().map_err(|mut e| {..})` by vx_in_advice (class-preserving, opaque)',
                lambda t: re.subn(r'\.map_err\(\|mut e\|\s*\{.*?\n\s*e\n\s*\}\)\?', '.map_err(|e: EvaluationError| -> (r: EvaluationError) ensures r.same_class(e) { vx_in_advice(e, &arg2) })?', t, count=1, flags=re.S), 1),
           (r'\.cloned\(\),\n(\s*)\}\n(\s*)\}\n(\s*)BinaryOp::HasTag', r'.vx_cloned(),\n\1}\n\2}\n\3BinaryOp::HasTag', 1),
           (r'args\s*\.iter\(\)', 'vx_arc_vec_iter(args)', 1), (r'items\s*\.iter\(\)', 'vx_arc_vec_iter(items)', 1),
           ClosureRw(r'arg', 'arg: &Expr', ret='Result<PartialValue>', requires='true', ensures='agrees_pv(r, sem(self, *slots, *arg)) && psound(self, *slots, *arg, r)'),
           ClosureRw(r'item', 'item: &Expr', ret='Result<PartialValue>', requires='true', ensures='agrees_pv(r, sem(self, *slots, *item)) && psound(self, *slots, *item, r)'),
           ClosureRw(r'\(k, v\)', '_vxp: (&SmolStr, &Expr)', ret='Result<(SmolStr, PartialValue)>', requires='true', destructure='(k, v)',
                     ensures='(r is Ok ==> r->Ok_0.0 == *_vxp.0) && agrees_pv(match r { Ok(p) => Ok::<PartialValue, EvaluationError>(p.1), Err(err) => Err::<PartialValue, EvaluationError>(err) }, sem(self, *slots, *_vxp.1)) && psound(self, *slots, *_vxp.1, match r { Ok(p) => Ok::<PartialValue, EvaluationError>(p.1), Err(err) => Err::<PartialValue, EvaluationError>(err) })'),
           FnRw('statement split of `let map = map.iter().map(..).collect::<Result<Vec<_>>>()?;` in the Record arm (order preserved) and the list lemma', split_collect_rec, 1),
           FnRw('statement split of `Ok(Value::record(ZIP, loc.cloned()).into())`: the zipped pairs are bound to a local first', split_record_value, 1),
           FnRw('bind the sub-expressions of `let args = ITER.map(..).collect::<Result<Vec<_>>>()?;` to locals (statement split, order preserved) and insert the list lemma', split_collect('args'), 1),
           FnRw('same statement split for `let vals = ..collect()?;` in the Set arm', split_collect('vals'), 1),
           (r'Either::Left\(vals\) => Ok\(Value::set\(vals, loc\.cloned\(\)\)\.into\(\)\),',
            '''Either::Left(vals) => { proof {
                        let n = node_items(*expr).len();
                        if sem_items(self, *slots, *expr, n) is Vals {
                            let ks = sem_items(self, *slots, *expr, n)->Vals_0; let vs = vals.items();
                            assert(vs.len() == ks.len());
                            assert forall|j: int| 0 <= j < ks.len() implies kinds_of(vs)[j] == ks[j] by { assert(__vx_pvs[j] == PartialValue::Value(vs[j])); }
                            assert(kinds_of(vs) =~= ks);
                        }
                        assert forall|j: int| 0 <= j < __vx_pvs.len() implies (#[trigger] __vx_pvs[j]) is Value && __vx_pvs[j]->Value_0.value == kinds_of(vals.items())[j] by { assert(__vx_pvs[j] == PartialValue::Value(vals.items()[j])); }
                        assert(all_values(__vx_pvs, kinds_of(vals.items())));
                    } Ok(Value::set(vals, loc.cloned()).into()) },''', 1),
           (r'map\.into_iter\(\)\.unzip\(\)', 'vx_unzip(map)', 1),
           (r'names\.into_iter\(\)\.zip\((\w+)\)', r'vx_zip(names, \1)', 1),
           (r'nonempty!\[\s*Type::Record,\s*Type::entity_type\(names::ANY_ENTITY_TYPE\.clone\(\)\)\s*\]', 'nonempty2(Type::Record, Type::entity_type(names::any_entity_type()))', 1),
           cmp_rw(r'type_of_unknown', r'entity_type', 'vx_etype'),
           cmp_rw(r'v\.get_as_entity\(\)\?\.entity_type\(\)', r'entity_type', 'vx_etype'),
           (r'efunc\.call\(&vals\)', 'efunc.call(vals.as_slice())', 1),
       ]),
    Fn(EVAL, "impl<'e> Evaluator<'e> > fn unknown_to_partialvalue", wrap=W, props=['C02', 'C13'],
       ensures=[('sem', 'agrees_pv(r, sem_unknown(self, *u))'), ('residual', 'usound(self, *u, r)')],
       proof_start='proof { assert forall|slots: SlotEnv, ev2: &Evaluator<\'_>| #[trigger] refines(self, slots, ev2) implies (self.spec_unknown(u.name) is Some ==> ev2.spec_unknown(u.name) == self.spec_unknown(u.name)) && ev2.spec_unknown(u.name) is Some by { reveal(refines); } }',
       rewrites=[(r'self\.unknowns_mapper\.as_ref\(\)\(&u\.name\)', 'self.vx_map_unknown(&u.name)', 1),
                 cmp_rw(r'v\.type_of\(\)', r'\*t', 'vx_type', rhs_out='t')]),
    Fn(EVAL, "impl<'e> Evaluator<'e> > fn eval_in", wrap=W, attrs=['verifier::loop_isolation(false)'],
       ensures=[('sem', 'agrees_pv(r, sem_in(*uid1, (match entity1 { Some(e) => Some(*e), None => None }), arg2.value))')],
       rewrites=[cmp_rw(r'uid1', r'uid2', 'vx_uid'),
                 ClosureRw(r'e1', 'e1: &Entity', ret='bool', ensures='r == e1.spec_ancestors().contains(*uid2)'),
                 (r'nonempty!\[Type::Set, Type::entity_type\(names::ANY_ENTITY_TYPE\.clone\(\)\)\]', 'nonempty2(Type::Set, Type::entity_type(names::any_entity_type()))', 1)],
       loops={1: Loop(
           proof_before='let ghost us = rhs@;',
           invariant=[
               ('snapshot', 'it_1.snapshot@.remaining() == us'),
               ('none_yet', 'forall|i: int| 0 <= i < it_1.index@ ==> !(*uid1 == *(#[trigger] us[i]) || (entity1 is Some && entity1->Some_0.spec_ancestors().contains(*us[i])))'),
           ],
           proof_start='proof { let k = it_1.index@; assert(*uid2 == *us[k]); if arg2.value is Set { let es = entity_elems(arg2.value->Set_0)->Some_0; assert(es[k] == *us[k]); } }')},
       proof_tail='''proof {
            if arg2.value is Set { let es = entity_elems(arg2.value->Set_0)->Some_0;
                    assert forall|i: int| 0 <= i < es.len() implies !(*uid1 == #[trigger] es[i] || (entity1 is Some && entity1->Some_0.spec_ancestors().contains(es[i]))) by { assert(*us[i] == es[i]); } }
            else { assert(us.len() == 1); assert(!(*uid1 == *us[0] || (entity1 is Some && entity1->Some_0.spec_ancestors().contains(*us[0])))); }
        }'''),
    Fn(EVAL, "impl<'e> Evaluator<'e> > fn eval_if", wrap=W, attrs=NODEC,
       ensures=[('sem', 'agrees_pv(r, match want_bool(sem(self, *slots, *guard)) { Res::Val(k) => if k == vbool(true) { sem(self, *slots, **consequent) } else { sem(self, *slots, **alternative) }, x => x })'),
                ('residual', 'forall|e: Expr| #[trigger] if_of(e, *guard, **consequent, **alternative) ==> psound(self, *slots, e, r)')],
       proof_start="""proof {
            lemma_aux_rules(self, *slots);
            assert forall|e: Expr| #[trigger] if_of(e, *guard, **consequent, **alternative) implies rules_if(self, *slots, e, *guard, **consequent, **alternative) by {
                lemma_rules_if(self, *slots, e, *guard, arc_e(consequent), arc_e(alternative));
            }
        }""",
       rewrites=[
           ClosureRw(r'r', 'r: PartialValue', ret='Arc<Expr>', ensures='*res == expr_of_pv(r)', count=2, rname='res'),
           (r'\.unwrap_or_else\(\|_\| consequent\.clone\(\)\)', '.unwrap_or_else(|_vx: EvaluationError| -> (res: Arc<Expr>) ensures res == *consequent { consequent.clone() })', 1),
           (r'\.unwrap_or_else\(\|_\| alternative\.clone\(\)\)', '.unwrap_or_else(|_vx: EvaluationError| -> (res: Arc<Expr>) ensures res == *alternative { alternative.clone() })', 1),
       ]),
    Fn(EVAL, "impl<'e> Evaluator<'e> > fn get_attr", wrap=W, attrs=NODEC, props=['C02', 'C13'],
       ensures=[('sem', 'agrees_pv(r, match sem(self, *slots, *expr) { Res::Val(k) => sem_get_attr(self, k, *attr), x => x })'),
                ('residual', 'forall|e: Expr| #[trigger] ga_of(e, *expr, *attr) ==> psound(self, *slots, e, r)')],
       proof_start="""proof {
            lemma_aux_rules(self, *slots); lemma_kind_rules(self, *slots);
            assert forall|e: Expr| #[trigger] ga_of(e, *expr, *attr) implies rules_getattr(self, *slots, e, *expr, *attr) by { lemma_rules_getattr(self, *slots, e, *expr, *attr); }
        }""",
       rewrites=FIELDS[4:5] + [
           (r'map\.as_ref\(\)\s*\.iter\(\)', 'map.as_ref().iter()', 1),
           ClosureRw(r'\(k, v\)', '_vxp: (&SmolStr, &Expr)', ret='Option<&Expr>', ensures='r == (if *_vxp.0 == *attr { Some(_vxp.1) } else { None })', destructure='(k, v)'),
           
           ClosureRw(r'e', 'e: &Expr', ret='Result<PartialValue>', requires='true', ensures='psound(self, *slots, *e, r)'),
           ClosureRw(r'k', 'k: &SmolStr', ret='bool', ensures='r == (*k == *attr)'),
           cmp_rw(r'\bk', r'attr\b', 'vx_smolstr'),
           ClosureRw(r'v', 'v: &Value', ret='PartialValue', ensures='r == PartialValue::Value(*v)'),
           ClosureRw(r'pv', 'pv: &PartialValue', ret='Result<PartialValue>', requires='true',
                     ensures='agrees_pv(r, match *pv { PartialValue::Value(v) => Res::Val(v.value), PartialValue::Residual(x) => match x.expr_kind { ExprKind::Unknown(u) => sem_unknown(self, u), _ => Res::Unk } }) && (match *pv { PartialValue::Value(_) => r == Ok::<PartialValue, EvaluationError>(*pv), PartialValue::Residual(x) => match x.expr_kind { ExprKind::Unknown(u) => usound(self, u, r), _ => r == Ok::<PartialValue, EvaluationError>(*pv) } })'),
           (r'\.ok_or_else\(\|\| \{(\s*)EvaluationError::record_attr_does_not_exist\(', r'.ok_or_else(|| -> (e: EvaluationError) ensures e is RecordAttrDoesNotExist {\1EvaluationError::record_attr_does_not_exist(', 2),
           (r'\.ok_or_else\(\|\| \{(\s*)EvaluationError::entity_attr_does_not_exist\(', r'.ok_or_else(|| -> (e: EvaluationError) ensures e is EntityAttrDoesNotExist {\1EvaluationError::entity_attr_does_not_exist(', 1),
           (r'nonempty!\[\s*Type::Record,\s*Type::entity_type\(names::ANY_ENTITY_TYPE\.clone\(\)\),\s*\]', 'nonempty2(Type::Record, Type::entity_type(names::any_entity_type()))', 1),
       ]),
    Fn(EVAL, "impl<'e> Evaluator<'e> > fn short_circuit_residual_and_value", wrap=W, props=['C13'],
       ensures=[('sound', 'r is Some ==> sc_rv(*e1, *v2, op, r->Some_0)')]),
    Fn(EVAL, "impl<'e> Evaluator<'e> > fn short_circuit_value_and_residual", wrap=W, props=['C13'],
       ensures=[('sound', 'r is Some ==> sc_vr(*v1, *e2, op, r->Some_0)')],
       rewrites=[cmp_rw(r'uid1\.entity_type\(\)', r'type_of_unknown', 'vx_etype')]),
    Fn(EVAL, "impl<'e> Evaluator<'e> > fn short_circuit_two_typed_residuals", wrap=W, props=['C13'],
       ensures=[('sound', 'r is Some ==> sc_rr(*e1, *e2, op, r->Some_0)')],
       rewrites=[cmp_rw(r'\bt1', r't2\b', 'vx_etype')]),
]
VERUS_ARGS = ['--multiple-errors', '3']
CANARIES = ['get_attr', 'lemmas:canaries.rs']
# functions this unit only ASSUMES contracts for (reviewed, not verified here): a change to them makes the unit's answer 'undecided'
WATCH = [('cedar-policy-core/src/ast/expr_iterator.rs', "impl<'a, T> Iterator for ExprIterator<'a, T> > fn next"),
         ('cedar-policy-core/src/ast/partial_value.rs', 'fn split'),
         ('cedar-policy-core/src/ast/request.rs', 'impl EntityUIDEntry > fn evaluate')]
