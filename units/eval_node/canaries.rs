// ---- deliberately unsound inference rules: each of these lemmas must FAIL (vacuity guard for psound.rs / rules.rs) ----
// (if `refines` were unsatisfiable, or pval/pres/perr trivially true, these would be provable)
/// `true && <residual>` may not be simplified to `<residual>` (the residual must still be type-checked as a boolean)
pub proof fn canary_and_true_residual(ev: &Evaluator<'_>, slots: SlotEnv, e: Expr, l: Expr, r: Expr)
    requires e.expr_kind == (ExprKind::And { left: Arc::new(l), right: Arc::new(r) })
    ensures forall|x: Expr| pres(ev, slots, r, x) && pval(ev, slots, l, vbool(true)) ==> pres(ev, slots, e, x)
{
    reveal(pval); reveal(pres); reveal(perr);
}
/// a value of the left operand does not make the conjunction that value
pub proof fn canary_and_left_value(ev: &Evaluator<'_>, slots: SlotEnv, e: Expr, l: Expr, r: Expr)
    requires e.expr_kind == (ExprKind::And { left: Arc::new(l), right: Arc::new(r) })
    ensures pval(ev, slots, l, vbool(true)) ==> pval(ev, slots, e, vbool(true))
{
    reveal(pval); reveal(pres); reveal(perr);
}
/// projecting an attribute out of a residual record literal is unsound when the record is not projectable
pub proof fn canary_project_any_record(ev: &Evaluator<'_>, slots: SlotEnv, e: Expr, a: Expr, attr: SmolStr, x: Expr, r: Result<PartialValue>)
    requires e.expr_kind == k_getattr(a, attr), pres(ev, slots, a, x), x.expr_kind is Record, x.expr_kind->Record_0@.contains_key(attr),
        psound(ev, slots, x.expr_kind->Record_0@[attr], r)
    ensures psound(ev, slots, e, r)
{
    reveal(pval); reveal(pres); reveal(perr);
    if projectable(x) { lemma_rules_getattr(ev, slots, e, a, attr); }
}
/// an error of partial evaluation is not a value under some completion: a value result does not imply an error result
pub proof fn canary_value_is_error(ev: &Evaluator<'_>, slots: SlotEnv, e: Expr)
    requires e.expr_kind is Lit
    ensures perr(ev, slots, e)
{
    reveal(pval); reveal(pres); reveal(perr);
}
