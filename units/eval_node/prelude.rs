// ---- eval_node prelude (trusted declarations): the callees of the expression evaluator ----
#[verifier::external_body] pub struct Pattern { _p: u8 }
impl Clone for Pattern { #[verifier::external_body] fn clone(&self) -> (r: Self) ensures r == *self { unimplemented!() } }
#[verifier::external_body] pub struct Entity { _p: u8 }
#[verifier::external_body] pub struct Entities { _p: u8 }
#[verifier::external_body] pub struct SlotId { _p: u8 }
impl Clone for SlotId { #[verifier::external_body] fn clone(&self) -> (r: Self) ensures r == *self { unimplemented!() } }
impl Copy for SlotId {}
#[verifier::external_body] pub struct AstExprErrorKind { _p: u8 }
#[verifier::external_body] pub struct Set { _p: u8 }
pub type SlotEnv = HashMap<SlotId, EntityUID>;
pub enum Either<L, R> { Left(L), Right(R) }
impl Clone for EntityUID { #[verifier::external_body] fn clone(&self) -> (r: Self) ensures r == *self { unimplemented!() } }
impl Clone for Literal { #[verifier::external_body] fn clone(&self) -> (r: Self) ensures r == *self { unimplemented!() } }
impl Clone for Value { #[verifier::external_body] fn clone(&self) -> (r: Self) ensures r == *self { unimplemented!() } }
impl Clone for Unknown { #[verifier::external_body] fn clone(&self) -> (r: Self) ensures r == *self { unimplemented!() } }
impl Clone for PartialValue { #[verifier::external_body] fn clone(&self) -> (r: Self) ensures r == *self { unimplemented!() } }
impl<T> Clone for Expr<T> { #[verifier::external_body] fn clone(&self) -> (r: Self) ensures r == *self { unimplemented!() } }
impl Clone for Type { #[verifier::external_body] fn clone(&self) -> (r: Self) ensures r == *self { unimplemented!() } }

/// the evaluation environment: request variables, entity store, extensions, unknowns mapper.
/// (The real struct holds a `Box<dyn Fn>` unknowns mapper, which Verus cannot express: the struct is opaque here and
/// its fields are reached through the accessor functions below; rewrite `self.FIELD` -> `self.vx_FIELD()` is listed.)
#[verifier::external_body] pub struct Evaluator<'e> { _p: &'e u8 }
impl<'e> Evaluator<'e> {
    pub uninterp spec fn spec_var(&self, v: Var) -> PartialValue;
    pub uninterp spec fn spec_entities(&self) -> &'e Entities;
    /// value the unknowns mapper assigns to a name (None: not recognised)
    pub uninterp spec fn spec_unknown(&self, name: SmolStr) -> Option<Value>;
    #[verifier::external_body] pub fn vx_principal(&self) -> (r: &EntityUIDEntry) ensures r.spec_evaluate(Var::Principal) == self.spec_var(Var::Principal) { unimplemented!() }
    #[verifier::external_body] pub fn vx_action(&self) -> (r: &EntityUIDEntry) ensures r.spec_evaluate(Var::Action) == self.spec_var(Var::Action) { unimplemented!() }
    #[verifier::external_body] pub fn vx_resource(&self) -> (r: &EntityUIDEntry) ensures r.spec_evaluate(Var::Resource) == self.spec_var(Var::Resource) { unimplemented!() }
    #[verifier::external_body] pub fn vx_context(&self) -> (r: &PartialValue) ensures *r == self.spec_var(Var::Context) { unimplemented!() }
    #[verifier::external_body] pub fn vx_entities(&self) -> (r: &'e Entities) ensures r == self.spec_entities() { unimplemented!() }
    #[verifier::external_body] pub fn vx_extensions(&self) -> (r: &'e Extensions<'e>) { unimplemented!() }
    /// `self.unknowns_mapper.as_ref()(&u.name)`
    #[verifier::external_body] pub fn vx_map_unknown(&self, name: &SmolStr) -> (r: Option<Value>) ensures r == self.spec_unknown(*name) { unimplemented!() }
}
impl EntityUIDEntry {
    pub uninterp spec fn spec_evaluate(&self, v: Var) -> PartialValue;
    /// assumed: a known uid evaluates to the entity literal, an unknown one to an (optionally typed) unknown
    #[verifier::external_body] pub fn evaluate(&self, v: Var) -> (r: PartialValue) ensures r == self.spec_evaluate(v) { unimplemented!() }
}

// ---- entity store ----
impl Entities {
    /// what the store knows about a uid: absent, present with its data, or (partial stores) unknown
    pub uninterp spec fn spec_entity(&self, uid: EntityUID) -> Option<Entity>;
    pub uninterp spec fn spec_entity_residual(&self, uid: EntityUID) -> Option<Expr>;
    #[verifier::external_body] pub fn entity(&self, uid: &EntityUID) -> (r: Dereference<'_, Entity>)
        ensures match r {
            Dereference::NoSuchEntity => self.spec_entity(*uid) is None && self.spec_entity_residual(*uid) is None,
            Dereference::Residual(e) => self.spec_entity_residual(*uid) == Some(e),
            Dereference::Data(ent) => self.spec_entity(*uid) == Some(*ent) && self.spec_entity_residual(*uid) is None,
        }
    { unimplemented!() }
}
impl Entity {
    pub uninterp spec fn spec_ancestors(&self) -> SSet<EntityUID>;
    pub uninterp spec fn spec_attrs(&self) -> Map<SmolStr, PartialValue>;
    pub uninterp spec fn spec_tags(&self) -> Map<SmolStr, PartialValue>;
    /// contract proved in unit entity_hier
    #[verifier::external_body] pub fn is_descendant_of(&self, u: &EntityUID) -> (r: bool) ensures r == self.spec_ancestors().contains(*u) { unimplemented!() }
    #[verifier::external_body] pub fn get_tag(&self, t: &SmolStr) -> (r: Option<&PartialValue>) ensures r == (if self.spec_tags().contains_key(*t) { Some(&self.spec_tags()[*t]) } else { None }) { unimplemented!() }
    #[verifier::external_body] pub fn get(&self, t: &SmolStr) -> (r: Option<&PartialValue>) ensures r == (if self.spec_attrs().contains_key(*t) { Some(&self.spec_attrs()[*t]) } else { None }) { unimplemented!() }
    #[verifier::external_body] pub fn tag_keys(&self) -> (r: VxIter<&SmolStr>) { unimplemented!() }
    #[verifier::external_body] pub fn keys(&self) -> (r: VxIter<&SmolStr>) { unimplemented!() }
    #[verifier::external_body] pub fn tags_len(&self) -> (r: usize) { unimplemented!() }
    #[verifier::external_body] pub fn attrs_len(&self) -> (r: usize) { unimplemented!() }
}
impl EntityUID {
    pub uninterp spec fn spec_type(&self) -> EntityType;
    #[verifier::external_body] pub fn entity_type(&self) -> (r: &EntityType) ensures *r == self.spec_type() { unimplemented!() }
}
/// derived PartialEq on these types is spec equality (trusted)
#[verifier::external_body] pub fn vx_uid_eq(a: &EntityUID, b: &EntityUID) -> (r: bool) ensures r == (*a == *b) { unimplemented!() }
#[verifier::external_body] pub fn vx_uid_ne(a: &EntityUID, b: &EntityUID) -> (r: bool) ensures r == (*a != *b) { unimplemented!() }
#[verifier::external_body] pub fn vx_type_ne(a: Type, b: &Type) -> (r: bool) ensures r == (a != *b) { unimplemented!() }
#[verifier::external_body] pub fn vx_smolstr_ne(a: &SmolStr, b: &SmolStr) -> (r: bool) ensures r == (*a != *b) { unimplemented!() }
#[verifier::external_body] pub fn vx_etype_eq(a: &EntityType, b: &EntityType) -> (r: bool) ensures r == (*a == *b) { unimplemented!() }
#[verifier::external_body] pub fn vx_etype_ne(a: &EntityType, b: &EntityType) -> (r: bool) ensures r == (*a != *b) { unimplemented!() }
#[verifier::external_body] pub fn vx_type_eq(a: Type, b: &Type) -> (r: bool) ensures r == (a == *b) { unimplemented!() }
#[verifier::external_body] pub fn vx_smolstr_eq(a: &SmolStr, b: &SmolStr) -> (r: bool) ensures r == (*a == *b) { unimplemented!() }

// ---- values ----
impl Value {
    pub uninterp spec fn spec_type_of(&self) -> Type;
    #[verifier::external_body] pub fn type_of(&self) -> (r: Type) ensures r == self.spec_type_of() { unimplemented!() }
    #[verifier::external_body] pub fn source_loc(&self) -> (r: Option<&Loc>) { unimplemented!() }
    /// Value::set: the set of the given values (unit value_set), with the given location
    #[verifier::external_body] pub fn set(vals: VxIter<Value>, loc: Option<Loc>) -> (r: Value) ensures r.value == mk_set(kinds_of(vals.items())) { unimplemented!() }
    #[verifier::external_body] pub fn record(pairs: VxIter<(SmolStr, Value)>, loc: Option<Loc>) -> (r: Value) ensures r.value == mk_record(pair_kinds(pairs.items())) { unimplemented!() }
    // the get_as_* contracts are proved in unit eval_ops (same text)
    #[verifier::external_body] pub fn get_as_bool(&self) -> (r: Result<bool>)
        ensures match self.value { ValueKind::Lit(Literal::Bool(b)) => r is Ok && r->Ok_0 == b, _ => r is Err && r->Err_0 is TypeError } { unimplemented!() }
    #[verifier::external_body] pub fn get_as_string(&self) -> (r: Result<&SmolStr>)
        ensures match self.value { ValueKind::Lit(Literal::String(s)) => r is Ok && *r->Ok_0 == s, _ => r is Err && r->Err_0 is TypeError } { unimplemented!() }
    #[verifier::external_body] pub fn get_as_set(&self) -> (r: Result<&Set>)
        ensures match self.value { ValueKind::Set(s) => r is Ok && *r->Ok_0 == s, _ => r is Err && r->Err_0 is TypeError } { unimplemented!() }
    #[verifier::external_body] pub fn get_as_entity(&self) -> (r: Result<&EntityUID>)
        ensures match self.value { ValueKind::Lit(Literal::EntityUID(uid)) => r is Ok && *r->Ok_0 == *uid, _ => r is Err && r->Err_0 is TypeError } { unimplemented!() }
    /// assumed: a set whose elements are all entity literals yields their uids (in the set's order), anything else is a type error
    #[verifier::external_body] pub fn get_as_entity_set(&self) -> (r: Result<Vec<&EntityUID>>)
        ensures match self.value {
            ValueKind::Set(s) => match entity_elems(s) { Some(us) => r is Ok && r->Ok_0@.len() == us.len() && (forall|i: int| 0 <= i < us.len() ==> *(#[trigger] r->Ok_0@[i]) == us[i]), None => r is Err && r->Err_0 is TypeError },
            _ => r is Err && r->Err_0 is TypeError }
    { unimplemented!() }
}
/// the elements of a cedar Set, as the sequence of its (distinct) values in the set's internal order
pub uninterp spec fn set_elems(s: Set) -> Seq<Value>;
/// the set / record value built from element kinds (determined, up to source locations which no operation observes, by the kinds)
pub uninterp spec fn mk_set(ks: Seq<ValueKind>) -> ValueKind;
pub open spec fn kinds_of(vs: Seq<Value>) -> Seq<ValueKind> { vs.map_values(|v: Value| v.value) }
pub uninterp spec fn mk_record(ks: Seq<(SmolStr, ValueKind)>) -> ValueKind;
pub open spec fn pair_kinds(s: Seq<(SmolStr, Value)>) -> Seq<(SmolStr, ValueKind)> { s.map_values(|p: (SmolStr, Value)| (p.0, p.1.value)) }
/// Some(uids) if every element of the set is an entity literal
pub uninterp spec fn entity_elems(s: Set) -> Option<Seq<EntityUID>>;
/// the abstract content of a cedar Set (its representation is under contract in unit value_set, same contract text)
pub uninterp spec fn set_abs(s: Set) -> SSet<AbsVal>;
impl Set {
    #[verifier::external_body] pub fn contains(&self, v: &Value) -> (r: bool) ensures r == set_mem(*self, v.value) { unimplemented!() }
    #[verifier::external_body] pub fn is_subset(&self, o: &Set) -> (r: bool) ensures r == set_subset(*self, *o) { unimplemented!() }
    #[verifier::external_body] pub fn is_disjoint(&self, o: &Set) -> (r: bool) ensures r == set_disjoint(*self, *o) { unimplemented!() }
    // len / is_empty: proved in unit value_set (number of elements of the authoritative set)
    #[verifier::external_body] pub fn len(&self) -> (r: usize) ensures r == self.spec_len() { unimplemented!() }
    #[verifier::external_body] pub fn is_empty(&self) -> (r: bool) ensures r == (self.spec_len() == 0) { unimplemented!() }
}
impl Pattern {
    pub uninterp spec fn spec_match(&self, t: SmolStr) -> bool;
    /// contract proved in unit pattern (there: r == wc_match(elems, text))
    #[verifier::external_body] pub fn wildcard_match(&self, t: &SmolStr) -> (r: bool) ensures r == self.spec_match(*t) { unimplemented!() }
}

// ---- operator helpers: contracts proved in unit eval_ops (same text) ----
pub uninterp spec fn ext_lt(a: RepresentableExtensionValue, b: RepresentableExtensionValue) -> bool;
pub uninterp spec fn ext_le(a: RepresentableExtensionValue, b: RepresentableExtensionValue) -> bool;
impl RepresentableExtensionValue {
    pub uninterp spec fn spec_overloads(&self) -> bool;
    pub uninterp spec fn spec_typename(&self) -> Name;
}
impl Set { pub uninterp spec fn spec_len(&self) -> nat; }
#[verifier::external_body] pub fn unary_app(op: UnaryOp, arg: Value, loc: Option<&Loc>) -> (r: Result<Value>)
    ensures agrees(r, sem_unary(op, arg)) { unimplemented!() }
#[verifier::external_body] pub fn binary_relation(op: BinaryOp, arg1: &Value, arg2: &Value, extensions: &Extensions<'_>) -> (r: Result<Value>)
    requires op == BinaryOp::Eq || op == BinaryOp::Less || op == BinaryOp::LessEq
    ensures agrees(r, sem_relation(op, *arg1, *arg2)) { unimplemented!() }
#[verifier::external_body] pub fn binary_arith(op: BinaryOp, arg1: Value, arg2: Value, loc: Option<&Loc>) -> (r: Result<Value>)
    requires op == BinaryOp::Add || op == BinaryOp::Sub || op == BinaryOp::Mul
    ensures agrees(r, sem_arith(op, arg1, arg2)) { unimplemented!() }

// ---- extension functions (C07 covers the functions themselves) ----
#[verifier::external_body] pub struct ExtensionFunction { _p: u8 }
pub uninterp spec fn ext_call(exts: &Extensions<'_>, name: Name, args: Seq<Value>) -> Result<PartialValue>;
impl ExtensionFunction {
    pub uninterp spec fn spec_name(&self) -> Name;
    pub uninterp spec fn spec_exts<'a>(&self) -> &'a Extensions<'a>;
    #[verifier::external_body] pub fn call(&self, args: &[Value]) -> (r: Result<PartialValue>) ensures r == ext_call(self.spec_exts(), self.spec_name(), args@),
            // a residual an extension function returns (the `unknown` constructor): see axiom_ext_residual in rules.rs
            r is Ok && r->Ok_0 is Residual ==> ext_residual(r->Ok_0->Residual_0) { unimplemented!() }
}
/// what an extension function may return as a residual expression
pub uninterp spec fn ext_residual(x: Expr) -> bool;
impl<'a> Extensions<'a> {
    pub uninterp spec fn spec_has_func(&self, n: Name) -> bool;
    #[verifier::external_body] pub fn func(&self, n: &Name) -> (r: std::result::Result<&ExtensionFunction, ExtensionFunctionLookupError>)
        ensures r is Ok <==> self.spec_has_func(*n), r is Ok ==> r->Ok_0.spec_name() == *n
    { unimplemented!() }
}
impl vstd::std_specs::convert::FromSpecImpl<ExtensionFunctionLookupError> for EvaluationError {
    open spec fn obeys_from_spec() -> bool { true }
    open spec fn from_spec(v: ExtensionFunctionLookupError) -> EvaluationError { EvaluationError::FailedExtensionFunctionLookup(v) }
}
impl From<ExtensionFunctionLookupError> for EvaluationError { #[verifier::external_body] fn from(v: ExtensionFunctionLookupError) -> (r: EvaluationError) { unimplemented!() } }

// ---- expression accessors ----
impl Expr {
    #[verifier::external_body] pub fn source_loc(&self) -> (r: Option<&Loc>) ensures r == (match self.source_loc { Some(l) => Some(&l), None => None }) { unimplemented!() }
    #[verifier::external_body] pub fn expr_kind(&self) -> (r: &ExprKind) ensures *r == self.expr_kind { unimplemented!() }
    /// "guaranteed never to error on evaluation" (ast/expr.rs; not verified)
    /// `expr_iterator::ExprIterator::new(self)` (assumed): yields exactly the nodes of the expression tree (is_sub), each as a reference
    #[verifier::external_body] pub fn subexpressions(&self) -> (r: VxIter<&Expr>)
        ensures forall|i: int| 0 <= i < r.items().len() ==> is_sub(*#[trigger] r.items()[i], *self),
            forall|x: Expr| is_sub(x, *self) ==> exists|i: int| 0 <= i < r.items().len() && *#[trigger] r.items()[i] == x,
    { unimplemented!() }
}
/// x is a node of the expression tree e (e itself, or a node of one of its operands / items / initialisers)
pub open spec fn is_sub(x: Expr, e: Expr) -> bool
    decreases e
{
    x == e || match e.expr_kind {
        ExprKind::If { test_expr, then_expr, else_expr } => is_sub(x, *test_expr) || is_sub(x, *then_expr) || is_sub(x, *else_expr),
        ExprKind::And { left, right } => is_sub(x, *left) || is_sub(x, *right),
        ExprKind::Or { left, right } => is_sub(x, *left) || is_sub(x, *right),
        ExprKind::UnaryApp { arg, .. } => is_sub(x, *arg),
        ExprKind::BinaryApp { arg1, arg2, .. } => is_sub(x, *arg1) || is_sub(x, *arg2),
        ExprKind::ExtensionFunctionApp { args, .. } => exists|i: int| 0 <= i < args@.len() && is_sub(x, #[trigger] args@[i]),
        ExprKind::GetAttr { expr, .. } => is_sub(x, *expr),
        ExprKind::HasAttr { expr, .. } => is_sub(x, *expr),
        ExprKind::Like { expr, .. } => is_sub(x, *expr),
        ExprKind::Is { expr, .. } => is_sub(x, *expr),
        ExprKind::Set(items) => exists|i: int| 0 <= i < items@.len() && is_sub(x, #[trigger] items@[i]),
        ExprKind::Record(m) => exists|k: SmolStr| m@.contains_key(k) && is_sub(x, #[trigger] m@[k]),
        _ => false,
    }
}
#[verifier::external_body] pub struct ExpressionConstructionError { _p: u8 }
impl std::fmt::Debug for ExpressionConstructionError { #[verifier::external_body] fn fmt(&self, f: &mut std::fmt::Formatter<'_>) -> std::fmt::Result { unimplemented!() } }

// ---- conversions between values, partial values and expressions (assumed shapes) ----
pub open spec fn pv_bool(b: bool) -> PartialValue { PartialValue::Value(Value { value: ValueKind::Lit(Literal::Bool(b)), loc: None }) }
impl vstd::std_specs::convert::FromSpecImpl<bool> for PartialValue {
    open spec fn obeys_from_spec() -> bool { true }
    open spec fn from_spec(v: bool) -> PartialValue { pv_bool(v) }
}
impl From<bool> for PartialValue { #[verifier::external_body] fn from(v: bool) -> (r: Self) { unimplemented!() } }
impl vstd::std_specs::convert::FromSpecImpl<Value> for PartialValue {
    open spec fn obeys_from_spec() -> bool { true }
    open spec fn from_spec(v: Value) -> PartialValue { PartialValue::Value(v) }
}
impl From<Value> for PartialValue { #[verifier::external_body] fn from(v: Value) -> (r: Self) { unimplemented!() } }
impl vstd::std_specs::convert::FromSpecImpl<Expr> for PartialValue {
    open spec fn obeys_from_spec() -> bool { true }
    open spec fn from_spec(v: Expr) -> PartialValue { PartialValue::Residual(v) }
}
impl From<Expr> for PartialValue { #[verifier::external_body] fn from(v: Expr) -> (r: Self) { unimplemented!() } }
impl vstd::std_specs::convert::FromSpecImpl<Literal> for PartialValue {
    open spec fn obeys_from_spec() -> bool { true }
    open spec fn from_spec(v: Literal) -> PartialValue { PartialValue::Value(Value { value: ValueKind::Lit(v), loc: None }) }
}
impl From<Literal> for PartialValue { #[verifier::external_body] fn from(v: Literal) -> (r: Self) { unimplemented!() } }
impl vstd::std_specs::convert::FromSpecImpl<EntityUID> for PartialValue {
    open spec fn obeys_from_spec() -> bool { true }
    open spec fn from_spec(v: EntityUID) -> PartialValue { pv_of_uid(v) }
}
impl From<EntityUID> for PartialValue { #[verifier::external_body] fn from(v: EntityUID) -> (r: Self) { unimplemented!() } }
pub open spec fn pv_of_uid(v: EntityUID) -> PartialValue { PartialValue::Value(Value { value: ValueKind::Lit(Literal::EntityUID(Arc::new(v))), loc: None }) }
pub open spec fn expr_of_pv(v: PartialValue) -> Expr { match v { PartialValue::Value(x) => expr_of_value(x), PartialValue::Residual(e) => e } }
/// the expression denoting a value / partial value (opaque: only its evaluation matters, see spec)
pub uninterp spec fn expr_of_value(v: Value) -> Expr;
impl vstd::std_specs::convert::FromSpecImpl<Value> for Expr {
    open spec fn obeys_from_spec() -> bool { true }
    open spec fn from_spec(v: Value) -> Expr { expr_of_value(v) }
}
impl From<Value> for Expr { #[verifier::external_body] fn from(v: Value) -> (r: Self) { unimplemented!() } }
impl vstd::std_specs::convert::FromSpecImpl<PartialValue> for Expr {
    open spec fn obeys_from_spec() -> bool { true }
    open spec fn from_spec(v: PartialValue) -> Expr { expr_of_pv(v) }
}
impl From<PartialValue> for Expr { #[verifier::external_body] fn from(v: PartialValue) -> (r: Self) { unimplemented!() } }
impl PartialValue {
    #[verifier::external_body] pub fn with_maybe_source_loc(self, loc: Option<Loc>) -> (r: Self)
        ensures self is Value <==> r is Value, self is Value ==> r->Value_0.value == self->Value_0.value,
            self is Residual ==> r->Residual_0.expr_kind == self->Residual_0.expr_kind
    { unimplemented!() }
}
impl EvaluationError {
    pub open spec fn same_class(self, o: EvaluationError) -> bool {
        (self is EntityDoesNotExist <==> o is EntityDoesNotExist) && (self is EntityAttrDoesNotExist <==> o is EntityAttrDoesNotExist)
        && (self is RecordAttrDoesNotExist <==> o is RecordAttrDoesNotExist) && (self is FailedExtensionFunctionLookup <==> o is FailedExtensionFunctionLookup)
        && (self is TypeError <==> o is TypeError) && (self is WrongNumArguments <==> o is WrongNumArguments) && (self is IntegerOverflow <==> o is IntegerOverflow)
        && (self is UnlinkedSlot <==> o is UnlinkedSlot) && (self is FailedExtensionFunctionExecution <==> o is FailedExtensionFunctionExecution)
        && (self is NonValue <==> o is NonValue) && (self is ASTErrorExpr <==> o is ASTErrorExpr) && (self is RecursionLimit <==> o is RecursionLimit)
    }
    #[verifier::external_body] pub fn source_loc(&self) -> (r: Option<&Loc>) { unimplemented!() }
    /// assumed (evaluator/err.rs): only the source location changes, never the variant
    #[verifier::external_body] pub fn with_maybe_source_loc(self, loc: Option<Loc>) -> (r: Self) ensures r.same_class(self) { unimplemented!() }
    #[verifier::external_body] pub fn unlinked_slot(s: SlotId, l: Option<Loc>) -> (r: Self) ensures r is UnlinkedSlot { unimplemented!() }
    #[verifier::external_body] pub fn type_error(t: NonEmpty<Type>, v: &Value) -> (r: Self) ensures r is TypeError { unimplemented!() }
    #[verifier::external_body] pub fn record_attr_does_not_exist(a: SmolStr, k: VxIter<&SmolStr>, n: usize, l: Option<Loc>) -> (r: Self) ensures r is RecordAttrDoesNotExist { unimplemented!() }
    #[verifier::external_body] pub fn entity_does_not_exist(u: Arc<EntityUID>, l: Option<Loc>) -> (r: Self) ensures r is EntityDoesNotExist { unimplemented!() }
    #[verifier::external_body] pub fn entity_tag_does_not_exist(u: Arc<EntityUID>, t: SmolStr, k: VxIter<&SmolStr>, b: bool, n: usize, l: Option<Loc>) -> (r: Self) ensures r is EntityAttrDoesNotExist { unimplemented!() }
    #[verifier::external_body] pub fn entity_attr_does_not_exist(u: Arc<EntityUID>, t: SmolStr, k: VxIter<&SmolStr>, b: bool, n: usize, l: Option<Loc>) -> (r: Self) ensures r is EntityAttrDoesNotExist { unimplemented!() }
    #[verifier::external_body] pub fn non_value(e: Expr) -> (r: Self) ensures r is NonValue { unimplemented!() }
}
/// the stack check either passes or reports the recursion limit
#[verifier::external_body] pub fn stack_size_check() -> (r: Result<()>) ensures r is Err ==> r->Err_0 is RecursionLimit { unimplemented!() }
#[verifier::external_body] pub fn nonempty2(a: Type, b: Type) -> (r: NonEmpty<Type>) { unimplemented!() }
pub mod names { use super::*;
    #[verifier::external_body] pub fn any_entity_type() -> (r: Name) { unimplemented!() }
}
/// ast::partial_value::split: all values (in order) if every item is a value, else all items as expressions (in order)
#[verifier::external_body] pub fn split(i: Vec<PartialValue>) -> (r: Either<VxIter<Value>, VxIter<Expr>>)
    ensures match r {
        Either::Left(vs) => vs.items().len() == i@.len() && forall|k: int| 0 <= k < i@.len() ==> #[trigger] i@[k] == PartialValue::Value(vs.items()[k]),
        Either::Right(es) => es.items().len() == i@.len() && (exists|k: int| 0 <= k < i@.len() && i@[k] is Residual)
            && forall|k: int| 0 <= k < i@.len() ==> #[trigger] es.items()[k] == (match i@[k] { PartialValue::Value(x) => expr_of_value(x), PartialValue::Residual(e) => e }),
    }
{ unimplemented!() }
// ---- a policy as the evaluator sees it: its condition and its slot environment (Policy::{condition, env}: proved in unit linking) ----
#[verifier::external_body] pub struct Policy { _p: u8 }
impl Policy {
    pub uninterp spec fn spec_condition(&self) -> Expr;
    pub uninterp spec fn spec_env(&self) -> SlotEnv;
    #[verifier::external_body] pub fn condition(&self) -> (r: Expr) ensures r == self.spec_condition() { unimplemented!() }
    #[verifier::external_body] pub fn env(&self) -> (r: &SlotEnv) ensures *r == self.spec_env() { unimplemented!() }
}
