// ---- soundness of the rules of psound.rs (each lemma unfolds the opaque predicates and the semantics) ----
// assumed facts about values (trusted: Value::type_of, the educe-derived PartialEq, From<Value> for Expr, Value::record)
/// a value of an entity type is an entity literal of that type
pub broadcast axiom fn axiom_type_of_entity(v: Value)
    requires #[trigger] v.spec_type_of() is Entity
    ensures v.value is Lit && v.value->Lit_0 is EntityUID && v.value->Lit_0->EntityUID_0.spec_type() == v.spec_type_of()->ty;
/// equality of entity literals is equality of the uids
pub broadcast axiom fn axiom_kind_eq_uid(a: EntityUID, b: EntityUID)
    ensures #[trigger] kind_eq(uid_kind(a), uid_kind(b)) == (a == b);
/// the expression a value converts to evaluates to that value, contains no unknown, and is a record literal only for a record
pub broadcast axiom fn axiom_expr_of_value(ev: &Evaluator<'_>, slots: SlotEnv, v: Value)
    ensures #[trigger] sem(ev, slots, expr_of_value(v)) == Res::Val(v.value);
pub broadcast axiom fn axiom_expr_of_value_kinds(ev: &Evaluator<'_>, v: Value)
    ensures #[trigger] kinds_ok(ev, expr_of_value(v));
pub broadcast axiom fn axiom_expr_of_value_shape(v: Value)
    ensures (#[trigger] expr_of_value(v)).expr_kind is Record ==> v.value is Record && v.value->Record_0@.dom() =~= expr_of_value(v).expr_kind->Record_0@.dom();
/// the record value built from distinct (name, value) pairs has exactly those attributes
pub broadcast axiom fn axiom_mk_record(ps: Seq<(SmolStr, ValueKind)>)
    requires forall|i: int, j: int| 0 <= i < j < ps.len() ==> ps[i].0 != ps[j].0
    ensures (#[trigger] mk_record(ps)) is Record,
        forall|a: SmolStr| #![trigger mk_record(ps)->Record_0@.contains_key(a)] mk_record(ps)->Record_0@.contains_key(a) <==> exists|i: int| 0 <= i < ps.len() && (#[trigger] ps[i]).0 == a,
        forall|i: int| 0 <= i < ps.len() ==> mk_record(ps)->Record_0@[(#[trigger] ps[i]).0].value == ps[i].1;

/// assumed: a residual an extension function returns (the `unknown` constructor) carries no type annotation and is not a record literal
pub broadcast axiom fn axiom_ext_residual(x: Expr)
    requires #[trigger] ext_residual(x)
    ensures closed_kinds(x), !(x.expr_kind is Record);
// ---- sem and kinds_ok look at the expression kind only ----
pub proof fn lemma_sem_kind_items(ev: &Evaluator<'_>, slots: SlotEnv, a: Expr, b: Expr, n: nat)
    requires a.expr_kind == b.expr_kind
    ensures sem_items(ev, slots, a, n) == sem_items(ev, slots, b, n)
    decreases n
{
    if n > 0 && n <= node_items(a).len() { lemma_sem_kind_items(ev, slots, a, b, (n - 1) as nat); }
}
pub proof fn lemma_sem_kind(ev: &Evaluator<'_>, slots: SlotEnv, a: Expr, b: Expr)
    requires a.expr_kind == b.expr_kind
    ensures sem(ev, slots, a) == sem(ev, slots, b), kinds_ok(ev, a) == kinds_ok(ev, b)
{
    lemma_sem_kind_items(ev, slots, a, b, node_items(a).len());
}

// ---- simple nodes ----
pub proof fn lemma_rules_unary(ev: &Evaluator<'_>, slots: SlotEnv, e: Expr, op: UnaryOp, a: Expr)
    requires e.expr_kind == k_unary(op, a)
    ensures rules_unary(ev, slots, e, op, a)
{
    reveal(pval); reveal(pres); reveal(perr);
}
pub proof fn lemma_rules_like(ev: &Evaluator<'_>, slots: SlotEnv, e: Expr, a: Expr, p: Pattern)
    requires e.expr_kind == k_like(a, p)
    ensures rules_like(ev, slots, e, a, p)
{
    reveal(pval); reveal(pres); reveal(perr);
}
pub proof fn lemma_rules_is(ev: &Evaluator<'_>, slots: SlotEnv, e: Expr, a: Expr, t: EntityType)
    requires e.expr_kind == k_is(a, t)
    ensures rules_is(ev, slots, e, a, t)
{
    reveal(pval); reveal(pres); reveal(perr);
    assert forall|x: Expr| #[trigger] pres(ev, slots, a, x) && typed_unknown(x) is Some implies pval(ev, slots, e, vbool(typed_unknown(x)->Some_0 == t)) by {
        assert forall|ev2: &Evaluator<'_>| #[trigger] refines(ev, slots, ev2) && kinds_ok(ev2, e) implies agree3(Res::Val(vbool(typed_unknown(x)->Some_0 == t)), sem(ev2, slots, e)) by {
            lemma_typed_unknown(ev, slots, ev2, x);
        }
    }
}
/// under a completion a typed unknown evaluates to an entity of the declared type
pub proof fn lemma_typed_unknown(ev: &Evaluator<'_>, slots: SlotEnv, ev2: &Evaluator<'_>, x: Expr)
    requires refines(ev, slots, ev2), kinds_ok(ev2, x), typed_unknown(x) is Some
    ensures sem(ev2, slots, x) is Val, sem(ev2, slots, x)->Val_0 is Lit, sem(ev2, slots, x)->Val_0->Lit_0 is EntityUID,
        sem(ev2, slots, x)->Val_0->Lit_0->EntityUID_0.spec_type() == typed_unknown(x)->Some_0
{
    broadcast use axiom_type_of_entity;
    reveal(refines);
    let u = x.expr_kind->Unknown_0;
    assert(ev2.spec_unknown(u.name) is Some);
    assert(unknown_ok(ev2, u));
}
pub proof fn lemma_rules_if(ev: &Evaluator<'_>, slots: SlotEnv, e: Expr, g: Expr, c: Expr, a: Expr)
    requires e.expr_kind == k_ite(g, c, a)
    ensures rules_if(ev, slots, e, g, c, a)
{
    reveal(pval); reveal(pres); reveal(perr);
}
pub proof fn lemma_rules_and(ev: &Evaluator<'_>, slots: SlotEnv, e: Expr, l: Expr, r: Expr)
    requires e.expr_kind == (ExprKind::And { left: Arc::new(l), right: Arc::new(r) })
    ensures rules_andor(ev, slots, e, l, r, true)
{
    reveal(pval); reveal(pres); reveal(perr);
}
pub proof fn lemma_rules_or(ev: &Evaluator<'_>, slots: SlotEnv, e: Expr, l: Expr, r: Expr)
    requires e.expr_kind == (ExprKind::Or { left: Arc::new(l), right: Arc::new(r) })
    ensures rules_andor(ev, slots, e, l, r, false)
{
    reveal(pval); reveal(pres); reveal(perr);
}
pub proof fn lemma_rules_leaf(ev: &Evaluator<'_>, slots: SlotEnv, e: Expr)
    requires e.expr_kind is Lit || e.expr_kind is Slot || e.expr_kind is Var || e.expr_kind is Unknown || e.expr_kind is Error
    ensures node_rules(ev, slots, e)
{
    reveal(pval); reveal(pres); reveal(perr); reveal(refines);
}

// ---- binary operators ----
/// the operator semantics on two values is the same under a completion, where ev determines it
pub proof fn lemma_binary_refines(ev: &Evaluator<'_>, slots: SlotEnv, ev2: &Evaluator<'_>, op: BinaryOp, k1: ValueKind, k2: ValueKind)
    requires refines(ev, slots, ev2)
    ensures sem_binary(ev, op, k1, k2) is Unk || sem_binary(ev2, op, k1, k2) == sem_binary(ev, op, k1, k2)
{
    reveal(refines);
}
pub proof fn lemma_rules_binary(ev: &Evaluator<'_>, slots: SlotEnv, e: Expr, op: BinaryOp, a1: Expr, a2: Expr)
    requires e.expr_kind == k_binary(op, a1, a2)
    ensures rules_binary(ev, slots, e, op, a1, a2)
{
    reveal(pval); reveal(pres); reveal(perr);
    assert forall|k1: ValueKind, k2: ValueKind| #![trigger pval(ev, slots, a1, k1), pval(ev, slots, a2, k2)]
        pval(ev, slots, a1, k1) && pval(ev, slots, a2, k2) implies resv(ev, slots, e, sem_binary(ev, op, k1, k2)) by {
        assert forall|ev2: &Evaluator<'_>| #[trigger] refines(ev, slots, ev2) && kinds_ok(ev2, e) implies
            sem(ev2, slots, e) is Unk || sem_binary(ev, op, k1, k2) is Unk || sem(ev2, slots, e) == sem_binary(ev, op, k1, k2) by {
            lemma_binary_refines(ev, slots, ev2, op, k1, k2);
        }
    }
    assert forall|k1: ValueKind, k2: ValueKind, x: Expr| #![trigger pval(ev, slots, a1, k1), pval(ev, slots, a2, k2), pres(ev, slots, e, x)]
        pval(ev, slots, a1, k1) && pval(ev, slots, a2, k2) && tag_residual(ev, op, k1, k2, x) implies pres(ev, slots, e, x) by {
        assert forall|ev2: &Evaluator<'_>| #[trigger] refines(ev, slots, ev2) && kinds_ok(ev2, e) implies
            kinds_ok(ev2, x) && agree3(sem(ev2, slots, x), sem(ev2, slots, e)) && rec_shape(x, sem(ev2, slots, e)) by {
            lemma_tag_residual(ev, slots, ev2, op, k1, k2, x);
        }
    }
    assert forall|v1: Value, x: Expr, pv: PartialValue| #![trigger sc_vr(v1, x, op, pv)]
        sc_vr(v1, x, op, pv) && pval(ev, slots, a1, v1.value) && pres(ev, slots, a2, x) implies pv is Value && pval(ev, slots, e, pv->Value_0.value) by {
        let b = choose|b: bool| pv == pv_bool(b);
        assert forall|ev2: &Evaluator<'_>| #[trigger] refines(ev, slots, ev2) && kinds_ok(ev2, e) implies agree3(Res::Val(vbool(b)), sem(ev2, slots, e)) by {
            lemma_typed_unknown(ev, slots, ev2, x);
            lemma_eq_uids(*v1.value->Lit_0->EntityUID_0, *sem(ev2, slots, x)->Val_0->Lit_0->EntityUID_0);
        }
    }
    assert forall|x: Expr, v2: Value, pv: PartialValue| #![trigger sc_rv(x, v2, op, pv)]
        sc_rv(x, v2, op, pv) && pres(ev, slots, a1, x) && pval(ev, slots, a2, v2.value) implies pv is Value && pval(ev, slots, e, pv->Value_0.value) by {
        let b = choose|b: bool| pv == pv_bool(b);
        assert forall|ev2: &Evaluator<'_>| #[trigger] refines(ev, slots, ev2) && kinds_ok(ev2, e) implies agree3(Res::Val(vbool(b)), sem(ev2, slots, e)) by {
            lemma_typed_unknown(ev, slots, ev2, x);
            lemma_eq_uids(*sem(ev2, slots, x)->Val_0->Lit_0->EntityUID_0, *v2.value->Lit_0->EntityUID_0);
        }
    }
    assert forall|x: Expr, y: Expr, pv: PartialValue| #![trigger sc_rr(x, y, op, pv)]
        sc_rr(x, y, op, pv) && pres(ev, slots, a1, x) && pres(ev, slots, a2, y) implies pv is Value && pval(ev, slots, e, pv->Value_0.value) by {
        let b = choose|b: bool| pv == pv_bool(b);
        assert forall|ev2: &Evaluator<'_>| #[trigger] refines(ev, slots, ev2) && kinds_ok(ev2, e) implies agree3(Res::Val(vbool(b)), sem(ev2, slots, e)) by {
            lemma_typed_unknown(ev, slots, ev2, x);
            lemma_typed_unknown(ev, slots, ev2, y);
            lemma_eq_uids(*sem(ev2, slots, x)->Val_0->Lit_0->EntityUID_0, *sem(ev2, slots, y)->Val_0->Lit_0->EntityUID_0);
        }
    }
}
pub proof fn lemma_eq_uids(a: EntityUID, b: EntityUID)
    ensures sem_relation(BinaryOp::Eq, vk(uid_kind(a)), vk(uid_kind(b))) == Res::Val(vbool(a == b))
{
    broadcast use axiom_kind_eq_uid;
}
pub proof fn lemma_tag_residual(ev: &Evaluator<'_>, slots: SlotEnv, ev2: &Evaluator<'_>, op: BinaryOp, k1: ValueKind, k2: ValueKind, x: Expr)
    requires refines(ev, slots, ev2), tag_residual(ev, op, k1, k2, x)
    ensures kinds_ok(ev2, x), sem_binary(ev2, op, k1, k2) is Unk, !(x.expr_kind is Record) || true
{
    reveal(refines);
    let u = *k1->Lit_0->EntityUID_0; let t = k2->Lit_0->String_0;
    let ent = ev.spec_entities().spec_entity(u)->Some_0;
    assert(entity_kinds_ok(ev2, ent));
    assert(pv_kinds_ok(ev2, ent.spec_tags()[t]));
}

// ---- item lists and records under one environment ----
/// a scan that did not stop evaluated every item to a value
pub proof fn lemma_items_vals(ev: &Evaluator<'_>, slots: SlotEnv, e: Expr, n: nat)
    requires e.expr_kind is Set || e.expr_kind is ExtensionFunctionApp || e.expr_kind is Record, n <= node_items(e).len()
    ensures match sem_items(ev, slots, e, n) {
        ListRes::Vals(ks) => ks.len() == n && forall|i: int| 0 <= i < n ==> sem(ev, slots, #[trigger] node_items(e)[i]) == Res::Val(ks[i]),
        ListRes::Stop(r) => !(r is Val) && exists|i: int| 0 <= i < n && sem(ev, slots, #[trigger] node_items(e)[i]) == r,
    }
    decreases n
{
    broadcast use axiom_btreemap_order_ok;
    if n > 0 {
        lemma_items_vals(ev, slots, e, (n - 1) as nat);
        if e.expr_kind is Record {
            let m = *e.expr_kind->Record_0;
            assert(m.order_ok());
            assert(m@.dom().contains(m.key_order()[n - 1]));
            assert(node_items(e)[n - 1] == m@[m.key_order()[n - 1]]);
        }
        match sem_items(ev, slots, e, (n - 1) as nat) {
            ListRes::Vals(ks) => {
                match sem_items(ev, slots, e, n) {
                    ListRes::Vals(ks2) => { assert(ks2 == ks.push(sem(ev, slots, node_items(e)[n - 1])->Val_0)); },
                    ListRes::Stop(r) => { assert(sem(ev, slots, node_items(e)[n - 1]) == r); },
                }
            },
            ListRes::Stop(r) => {},
        }
    }
}
/// a record literal that evaluates to a value: the record of its initialisers' values
pub proof fn lemma_record_val(ev: &Evaluator<'_>, slots: SlotEnv, x: Expr)
    requires x.expr_kind is Record, sem(ev, slots, x) is Val
    ensures sem(ev, slots, x)->Val_0 is Record,
        sem(ev, slots, x)->Val_0->Record_0@.dom() =~= x.expr_kind->Record_0@.dom(),
        forall|k: SmolStr| x.expr_kind->Record_0@.contains_key(k) ==> sem(ev, slots, #[trigger] x.expr_kind->Record_0@[k]) == Res::Val(sem(ev, slots, x)->Val_0->Record_0@[k].value),
{
    broadcast use axiom_btreemap_order_ok;
    let m = *x.expr_kind->Record_0;
    let ko = m.key_order();
    assert(m.order_ok());
    lemma_items_vals(ev, slots, x, ko.len());
    let ks = sem_items(ev, slots, x, ko.len())->Vals_0;
    let ps = rec_pairs(ko, ks);
    assert forall|i: int, j: int| 0 <= i < j < ps.len() implies ps[i].0 != ps[j].0 by { assert(ko[i] != ko[j]); }
    axiom_mk_record(ps);
    let rec = mk_record(ps)->Record_0;
    assert forall|k: SmolStr| rec@.contains_key(k) <==> m@.contains_key(k) by {
        if rec@.contains_key(k) { let i = choose|i: int| 0 <= i < ps.len() && (#[trigger] ps[i]).0 == k; assert(ko[i] == k); }
        if m@.contains_key(k) { assert(ko.contains(k)); let i = choose|i: int| 0 <= i < ko.len() && ko[i] == k; assert(ps[i].0 == k); }
    }
    assert forall|k: SmolStr| m@.contains_key(k) implies sem(ev, slots, #[trigger] m@[k]) == Res::Val(rec@[k].value) by {
        assert(ko.contains(k)); let i = choose|i: int| 0 <= i < ko.len() && ko[i] == k;
        assert(node_items(x)[i] == m@[k]);
        assert(ps[i].0 == k);
    }
}
/// a projectable expression (literals, variables, unknowns, sets, records) evaluates to a value under every completion
pub proof fn lemma_projectable_val(ev: &Evaluator<'_>, slots: SlotEnv, ev2: &Evaluator<'_>, x: Expr)
    requires refines(ev, slots, ev2), kinds_ok(ev2, x), projectable(x)
    ensures sem(ev2, slots, x) is Val
    decreases x
{
    broadcast use axiom_btreemap_order_ok;
    match x.expr_kind {
        ExprKind::Set(items) => {
            let n = items@.len();
            lemma_items_vals(ev2, slots, x, n);
            if sem_items(ev2, slots, x, n) is Stop {
                let i = choose|i: int| 0 <= i < n && sem(ev2, slots, #[trigger] node_items(x)[i]) == sem_items(ev2, slots, x, n)->Stop_0;
                lemma_projectable_val(ev, slots, ev2, items@[i]);
            }
        },
        ExprKind::Record(m) => {
            let n = m.key_order().len();
            assert(m.order_ok());
            lemma_items_vals(ev2, slots, x, n);
            if sem_items(ev2, slots, x, n) is Stop {
                let i = choose|i: int| 0 <= i < n && sem(ev2, slots, #[trigger] node_items(x)[i]) == sem_items(ev2, slots, x, n)->Stop_0;
                assert(m@.dom().contains(m.key_order()[i]));
                assert(node_items(x)[i] == m@[m.key_order()[i]]);
                lemma_projectable_val(ev, slots, ev2, m@[m.key_order()[i]]);
            }
        },
        _ => { reveal(refines); },
    }
}

// ---- attribute access ----
pub proof fn lemma_getattr_refines(ev: &Evaluator<'_>, slots: SlotEnv, ev2: &Evaluator<'_>, k: ValueKind, attr: SmolStr)
    requires refines(ev, slots, ev2)
    ensures sem_get_attr(ev, k, attr) is Unk || sem_get_attr(ev2, k, attr) == sem_get_attr(ev, k, attr),
        sem_has_attr(ev, k, attr) is Unk || sem_has_attr(ev2, k, attr) == sem_has_attr(ev, k, attr),
{
    reveal(refines);
    if k is Lit && k->Lit_0 is EntityUID {
        let u = *k->Lit_0->EntityUID_0;
        if ev.spec_entities().spec_entity_residual(u) is None && ev.spec_entities().spec_entity(u) is Some {
            let ent = ev.spec_entities().spec_entity(u)->Some_0;
            if ent.spec_attrs().contains_key(attr) && ent.spec_attrs()[attr] is Residual && ent.spec_attrs()[attr]->Residual_0.expr_kind is Unknown {
                let un = ent.spec_attrs()[attr]->Residual_0.expr_kind->Unknown_0;
                assert(ev.spec_unknown(un.name) is Some ==> ev2.spec_unknown(un.name) == ev.spec_unknown(un.name));
            }
        }
    }
}
pub proof fn lemma_attr_residual(ev: &Evaluator<'_>, slots: SlotEnv, ev2: &Evaluator<'_>, k: ValueKind, attr: SmolStr, z: Expr)
    requires refines(ev, slots, ev2), attr_residual(ev, k, attr, z)
    ensures kinds_ok(ev2, z), agree3(sem(ev2, slots, z), sem_get_attr(ev2, k, attr)), !(z.expr_kind is Record) || sem_get_attr(ev2, k, attr) is Unk
{
    reveal(refines);
    let u = *k->Lit_0->EntityUID_0;
    let ent = ev.spec_entities().spec_entity(u)->Some_0;
    assert(entity_kinds_ok(ev2, ent));
    assert(pv_kinds_ok(ev2, ent.spec_attrs()[attr]));
    lemma_sem_kind(ev2, slots, z, ent.spec_attrs()[attr]->Residual_0);
}
pub proof fn lemma_rules_getattr(ev: &Evaluator<'_>, slots: SlotEnv, e: Expr, a: Expr, attr: SmolStr)
    requires e.expr_kind == k_getattr(a, attr)
    ensures rules_getattr(ev, slots, e, a, attr)
{
    reveal(pval); reveal(pres); reveal(perr);
    assert forall|k: ValueKind| #[trigger] pval(ev, slots, a, k) implies resv(ev, slots, e, sem_get_attr(ev, k, attr)) by {
        assert forall|ev2: &Evaluator<'_>| #[trigger] refines(ev, slots, ev2) && kinds_ok(ev2, e) implies
            sem(ev2, slots, e) is Unk || sem_get_attr(ev, k, attr) is Unk || sem(ev2, slots, e) == sem_get_attr(ev, k, attr) by {
            lemma_getattr_refines(ev, slots, ev2, k, attr);
        }
    }
    assert forall|k: ValueKind, z: Expr| #![trigger pval(ev, slots, a, k), pres(ev, slots, e, z)] pval(ev, slots, a, k) && attr_residual(ev, k, attr, z) implies pres(ev, slots, e, z) by {
        assert forall|ev2: &Evaluator<'_>| #[trigger] refines(ev, slots, ev2) && kinds_ok(ev2, e) implies
            kinds_ok(ev2, z) && agree3(sem(ev2, slots, z), sem(ev2, slots, e)) && rec_shape(z, sem(ev2, slots, e)) by {
            lemma_attr_residual(ev, slots, ev2, k, attr, z);
        }
    }
    assert forall|k: ValueKind, u: Unknown, r: Result<PartialValue>| #![trigger pval(ev, slots, a, k), usound(ev, u, r)]
            pval(ev, slots, a, k) && attr_unknown(ev, k, attr, u) && usound(ev, u, r) implies psound(ev, slots, e, r) by {
        assert forall|ev2: &Evaluator<'_>| #[trigger] refines(ev, slots, ev2) && kinds_ok(ev2, e) implies
            unknown_ok(ev2, u) && (sem(ev2, slots, e) is Unk || sem(ev2, slots, e) == sem_unknown(ev2, u)) by {
            lemma_attr_unknown(ev, slots, ev2, k, attr, u);
        }
        match r {
            Ok(PartialValue::Residual(x)) => {
                assert forall|ev2: &Evaluator<'_>| #[trigger] refines(ev, slots, ev2) && kinds_ok(ev2, e) implies
                    kinds_ok(ev2, x) && agree3(sem(ev2, slots, x), sem(ev2, slots, e)) && rec_shape(x, sem(ev2, slots, e)) by {}
            },
            _ => {},
        }
    }
    assert forall|x: Expr| #[trigger] pres(ev, slots, a, x) && x.expr_kind is Record implies ({
            let m = x.expr_kind->Record_0;
            &&& !m@.contains_key(attr) ==> perr(ev, slots, e)
            &&& projectable(x) && m@.contains_key(attr) ==> forall|r: Result<PartialValue>| #[trigger] psound(ev, slots, m@[attr], r) ==> psound(ev, slots, e, r)
        }) by {
        let m = x.expr_kind->Record_0;
        if !m@.contains_key(attr) {
            assert forall|ev2: &Evaluator<'_>| #[trigger] refines(ev, slots, ev2) && kinds_ok(ev2, e) implies !(sem(ev2, slots, e) is Val) by {
                if sem(ev2, slots, x) is Val { lemma_record_val(ev2, slots, x); }
            }
        }
        if projectable(x) && m@.contains_key(attr) {
            assert forall|r: Result<PartialValue>| #[trigger] psound(ev, slots, m@[attr], r) implies psound(ev, slots, e, r) by {
                assert forall|ev2: &Evaluator<'_>| #[trigger] refines(ev, slots, ev2) && kinds_ok(ev2, e) implies
                    kinds_ok(ev2, m@[attr]) && (sem(ev2, slots, e) is Unk || sem(ev2, slots, e) == sem(ev2, slots, m@[attr])) && sem(ev2, slots, m@[attr]) is Val by {
                    lemma_projectable_val(ev, slots, ev2, x);
                    lemma_record_val(ev2, slots, x);
                }
            }
        }
    }
}
pub proof fn lemma_rules_hasattr(ev: &Evaluator<'_>, slots: SlotEnv, e: Expr, a: Expr, attr: SmolStr)
    requires e.expr_kind == k_hasattr(a, attr)
    ensures rules_hasattr(ev, slots, e, a, attr)
{
    reveal(pval); reveal(pres); reveal(perr);
    assert forall|k: ValueKind| #[trigger] pval(ev, slots, a, k) implies resv(ev, slots, e, sem_has_attr(ev, k, attr)) by {
        assert forall|ev2: &Evaluator<'_>| #[trigger] refines(ev, slots, ev2) && kinds_ok(ev2, e) implies
            sem(ev2, slots, e) is Unk || sem_has_attr(ev, k, attr) is Unk || sem(ev2, slots, e) == sem_has_attr(ev, k, attr) by {
            lemma_getattr_refines(ev, slots, ev2, k, attr);
        }
    }
    assert forall|x: Expr| #[trigger] pres(ev, slots, a, x) && x.expr_kind is Record && projectable(x) implies pval(ev, slots, e, vbool(x.expr_kind->Record_0@.contains_key(attr))) by {
        assert forall|ev2: &Evaluator<'_>| #[trigger] refines(ev, slots, ev2) && kinds_ok(ev2, e) implies agree3(Res::Val(vbool(x.expr_kind->Record_0@.contains_key(attr))), sem(ev2, slots, e)) by {
            lemma_projectable_val(ev, slots, ev2, x);
            lemma_record_val(ev2, slots, x);
        }
    }
}

// ---- sets, extension calls, record literals ----
pub open spec fn list_agree(a: ListRes, b: ListRes) -> bool {
    match (a, b) { (ListRes::Stop(Res::Unk), _) => true, (_, ListRes::Stop(Res::Unk)) => true, _ => a == b }
}
/// item lists whose items agree pointwise scan to agreeing results
pub proof fn lemma_items_agree(ev: &Evaluator<'_>, slots: SlotEnv, a: Expr, b: Expr, n: nat)
    requires a.expr_kind is Set || a.expr_kind is ExtensionFunctionApp || a.expr_kind is Record, list_like(a, b),
        node_items(a).len() == node_items(b).len(), n <= node_items(a).len(),
        forall|i: int| 0 <= i < node_items(a).len() ==> agree3(sem(ev, slots, #[trigger] node_items(a)[i]), sem(ev, slots, node_items(b)[i])),
    ensures list_agree(sem_items(ev, slots, a, n), sem_items(ev, slots, b, n))
    decreases n
{
    broadcast use axiom_btreemap_order_ok;
    if n > 0 {
        lemma_items_agree(ev, slots, a, b, (n - 1) as nat);
        assert(agree3(sem(ev, slots, node_items(a)[n - 1]), sem(ev, slots, node_items(b)[n - 1])));
        if a.expr_kind is Record {
            let ma = *a.expr_kind->Record_0; let mb = *b.expr_kind->Record_0;
            assert(ma.order_ok()); assert(mb.order_ok());
            assert(ma@.dom().contains(ma.key_order()[n - 1])); assert(mb@.dom().contains(mb.key_order()[n - 1]));
            assert(node_items(a)[n - 1] == ma@[ma.key_order()[n - 1]]); assert(node_items(b)[n - 1] == mb@[mb.key_order()[n - 1]]);
        }
    }
}
/// a non-value item makes the whole node a non-value
pub proof fn lemma_items_nonval(ev: &Evaluator<'_>, slots: SlotEnv, e: Expr, i: int)
    requires e.expr_kind is Set || e.expr_kind is ExtensionFunctionApp || e.expr_kind is Record, 0 <= i < node_items(e).len(), !(sem(ev, slots, node_items(e)[i]) is Val)
    ensures !(sem(ev, slots, e) is Val)
{
    broadcast use axiom_btreemap_order_ok;
    lemma_items_vals(ev, slots, e, node_items(e).len());
}
/// kinds_ok of a list node is kinds_ok of its items
pub proof fn lemma_kinds_items(ev2: &Evaluator<'_>, e: Expr)
    requires e.expr_kind is Set || e.expr_kind is ExtensionFunctionApp || e.expr_kind is Record
    ensures kinds_ok(ev2, e) <==> forall|i: int| 0 <= i < node_items(e).len() ==> kinds_ok(ev2, #[trigger] node_items(e)[i])
{
    broadcast use axiom_btreemap_order_ok;
    if e.expr_kind is Set {
        let items = e.expr_kind->Set_0;
        if kinds_ok(ev2, e) { assert forall|i: int| 0 <= i < node_items(e).len() implies kinds_ok(ev2, #[trigger] node_items(e)[i]) by { assert(kinds_ok(ev2, items@[i])); } }
        if forall|i: int| 0 <= i < node_items(e).len() ==> kinds_ok(ev2, #[trigger] node_items(e)[i]) {
            assert forall|i: int| 0 <= i < items@.len() implies kinds_ok(ev2, #[trigger] items@[i]) by { assert(kinds_ok(ev2, node_items(e)[i])); }
        }
    }
    if e.expr_kind is ExtensionFunctionApp {
        let items = e.expr_kind->args;
        if kinds_ok(ev2, e) { assert forall|i: int| 0 <= i < node_items(e).len() implies kinds_ok(ev2, #[trigger] node_items(e)[i]) by { assert(kinds_ok(ev2, items@[i])); } }
        if forall|i: int| 0 <= i < node_items(e).len() ==> kinds_ok(ev2, #[trigger] node_items(e)[i]) {
            assert forall|i: int| 0 <= i < items@.len() implies kinds_ok(ev2, #[trigger] items@[i]) by { assert(kinds_ok(ev2, node_items(e)[i])); }
        }
    }
    if e.expr_kind is Record {
        let m = *e.expr_kind->Record_0;
        assert(m.order_ok());
        if kinds_ok(ev2, e) {
            assert forall|i: int| 0 <= i < node_items(e).len() implies kinds_ok(ev2, #[trigger] node_items(e)[i]) by { assert(m@.dom().contains(m.key_order()[i])); }
        }
        if forall|i: int| 0 <= i < node_items(e).len() ==> kinds_ok(ev2, #[trigger] node_items(e)[i]) {
            assert forall|k: SmolStr| m@.contains_key(k) implies kinds_ok(ev2, #[trigger] m@[k]) by {
                assert(m.key_order().contains(k)); let i = choose|i: int| 0 <= i < m.key_order().len() && m.key_order()[i] == k;
                assert(node_items(e)[i] == m@[k]);
            }
        }
    }
}
pub proof fn lemma_rules_list(ev: &Evaluator<'_>, slots: SlotEnv, e: Expr)
    requires e.expr_kind is Set || e.expr_kind is ExtensionFunctionApp || e.expr_kind is Record
    ensures rules_list(ev, slots, e)
{
    broadcast use axiom_btreemap_order_ok, axiom_expr_of_value, axiom_expr_of_value_kinds, axiom_expr_of_value_shape;
    reveal(pval); reveal(pres); reveal(perr);
    let n = node_items(e).len();
    assert forall|pvs: Seq<PartialValue>, ks: Seq<ValueKind>| #![trigger pvs_sound(ev, slots, e, pvs), all_values(pvs, ks)] pvs_sound(ev, slots, e, pvs) && all_values(pvs, ks) implies match e.expr_kind {
            ExprKind::Set(_) => pval(ev, slots, e, mk_set(ks)),
            ExprKind::Record(m) => pval(ev, slots, e, mk_record(rec_pairs(m.key_order(), ks))),
            _ => perr(ev, slots, e) && (forall|k: ValueKind| #[trigger] pval(ev, slots, e, k)) && (forall|x: Expr| closed_kinds(x) && !(x.expr_kind is Record) ==> #[trigger] pres(ev, slots, e, x)),
        } by {
        // under a completion every item is the value ks[i] or Unk, so the scan gives exactly ks or stops at an Unk
        assert forall|ev2: &Evaluator<'_>| #[trigger] refines(ev, slots, ev2) && kinds_ok(ev2, e) implies
            (match sem_items(ev2, slots, e, n) { ListRes::Vals(ks2) => ks2 == ks, ListRes::Stop(r) => r is Unk }) by {
            lemma_kinds_items(ev2, e);
            lemma_items_vals(ev2, slots, e, n);
            assert forall|i: int| 0 <= i < n implies agree3(Res::Val(ks[i]), sem(ev2, slots, #[trigger] node_items(e)[i])) by {
                assert(pvs[i] is Value); assert(kinds_ok(ev2, node_items(e)[i]));
            }
            match sem_items(ev2, slots, e, n) {
                ListRes::Vals(ks2) => {
                    assert forall|i: int| 0 <= i < n implies ks2[i] == ks[i] by {
                        assert(sem(ev2, slots, node_items(e)[i]) == Res::Val(ks2[i]));
                        assert(agree3(Res::Val(ks[i]), sem(ev2, slots, node_items(e)[i])));
                    }
                    assert(ks2 =~= ks);
                },
                ListRes::Stop(r) => {
                    let i = choose|i: int| 0 <= i < n && sem(ev2, slots, #[trigger] node_items(e)[i]) == r;
                    assert(agree3(Res::Val(ks[i]), sem(ev2, slots, node_items(e)[i])));
                },
            }
        }
        assert(forall|x: Expr| closed_kinds(x) ==> forall|ev2: &Evaluator<'_>| kinds_ok(ev2, x));
    }
    assert forall|pvs: Seq<PartialValue>, z: Expr| #![trigger pvs_sound(ev, slots, e, pvs), pres(ev, slots, e, z)]
            pvs_sound(ev, slots, e, pvs) && list_like(e, z) && node_items(z).len() == pvs.len() && (forall|i: int| 0 <= i < pvs.len() ==> #[trigger] node_items(z)[i] == expr_of_pv(pvs[i]))
            implies pres(ev, slots, e, z) by {
        assert forall|ev2: &Evaluator<'_>| #[trigger] refines(ev, slots, ev2) && kinds_ok(ev2, e) implies
            kinds_ok(ev2, z) && agree3(sem(ev2, slots, z), sem(ev2, slots, e)) && rec_shape(z, sem(ev2, slots, e)) by {
            lemma_kinds_items(ev2, e);
            lemma_kinds_items(ev2, z);
            assert forall|i: int| 0 <= i < n implies kinds_ok(ev2, #[trigger] node_items(z)[i]) && agree3(sem(ev2, slots, node_items(z)[i]), sem(ev2, slots, node_items(e)[i])) by {
                assert(node_items(z)[i] == expr_of_pv(pvs[i]));
                assert(kinds_ok(ev2, node_items(e)[i]));
                match pvs[i] { PartialValue::Value(v) => {}, PartialValue::Residual(x) => {} }
            }
            lemma_items_agree(ev2, slots, z, e, n);
            if e.expr_kind is Record && sem(ev2, slots, e) is Val {
                lemma_record_val(ev2, slots, e);
                let m1 = *e.expr_kind->Record_0; let m2 = *z.expr_kind->Record_0;
                assert(m1.order_ok()); assert(m2.order_ok());
                assert forall|k: SmolStr| m1@.dom().contains(k) <==> m2@.dom().contains(k) by {
                    assert(m1.key_order().contains(k) <==> m2.key_order().contains(k));
                }
                assert(m1@.dom() =~= m2@.dom());
            }
        }
    }
}

// ---- rules relating the predicates ----
pub proof fn lemma_aux_rules(ev: &Evaluator<'_>, slots: SlotEnv)
    ensures aux_rules(ev, slots)
{
    broadcast use axiom_expr_of_value, axiom_expr_of_value_kinds, axiom_expr_of_value_shape;
    reveal(pval); reveal(pres); reveal(perr);
    assert forall|a: Expr| #[trigger] pres(ev, slots, a, a) by {
        assert forall|ev2: &Evaluator<'_>| #[trigger] refines(ev, slots, ev2) && kinds_ok(ev2, a) implies rec_shape(a, sem(ev2, slots, a)) by {
            if a.expr_kind is Record && sem(ev2, slots, a) is Val { lemma_record_val(ev2, slots, a); }
        }
    }
    assert forall|a: Expr, k: ValueKind, u: EntityUID| #![trigger pval(ev, slots, a, k), ev.spec_entities().spec_entity_residual(u)]
        k == uid_kind(u) && pval(ev, slots, a, k) && ev.spec_entities().spec_entity_residual(u) is Some implies pres(ev, slots, a, ev.spec_entities().spec_entity_residual(u)->Some_0) by {
        reveal(refines);
    }
}
pub proof fn lemma_kind_rules(ev: &Evaluator<'_>, slots: SlotEnv)
    ensures kind_rules(ev, slots)
{
    reveal(pres);
    assert forall|a: Expr, x: Expr, y: Expr| #![trigger pres(ev, slots, a, x), pres(ev, slots, a, y)] x.expr_kind == y.expr_kind && pres(ev, slots, a, x) implies pres(ev, slots, a, y) by {
        assert forall|ev2: &Evaluator<'_>| #[trigger] refines(ev, slots, ev2) && kinds_ok(ev2, a) implies sem(ev2, slots, x) == sem(ev2, slots, y) && kinds_ok(ev2, x) == kinds_ok(ev2, y) by {
            lemma_sem_kind(ev2, slots, x, y);
        }
    }
}
/// the rules of one node (all kinds)
pub proof fn lemma_node_rules(ev: &Evaluator<'_>, slots: SlotEnv, e: Expr)
    ensures node_rules(ev, slots, e)
{
    let k = e.expr_kind;
    if k is If { let g = *k->test_expr; let c = *k->then_expr; let a = *k->else_expr; lemma_rules_if(ev, slots, e, g, c, a); }
    else if k is And { let l = *k->And_left; let r = *k->And_right; lemma_rules_and(ev, slots, e, l, r); }
    else if k is Or { let l = *k->Or_left; let r = *k->Or_right; lemma_rules_or(ev, slots, e, l, r); }
    else if k is UnaryApp { let op = match k { ExprKind::UnaryApp { op, .. } => op, _ => arbitrary() }; let a = *k->arg; lemma_rules_unary(ev, slots, e, op, a); }
    else if k is BinaryApp { let op = match k { ExprKind::BinaryApp { op, .. } => op, _ => arbitrary() }; let a1 = *k->arg1; let a2 = *k->arg2; lemma_rules_binary(ev, slots, e, op, a1, a2); }
    else if k is GetAttr { let a = *k->GetAttr_expr; let attr = k->GetAttr_attr; lemma_rules_getattr(ev, slots, e, a, attr); }
    else if k is HasAttr { let a = *k->HasAttr_expr; let attr = k->HasAttr_attr; lemma_rules_hasattr(ev, slots, e, a, attr); }
    else if k is Like { let a = *k->Like_expr; let p = k->pattern; lemma_rules_like(ev, slots, e, a, p); }
    else if k is Is { let a = *k->Is_expr; let t = k->entity_type; lemma_rules_is(ev, slots, e, a, t); }
    else if k is ExtensionFunctionApp || k is Set || k is Record { lemma_rules_list(ev, slots, e); }
    else { lemma_rules_leaf(ev, slots, e); }
}
/// collect::<Result<Vec<_>>>() over item results that are sound one by one: an error of the whole is sound, and the
/// collected partial values are sound item by item
pub proof fn lemma_list_results(ev: &Evaluator<'_>, slots: SlotEnv, e: Expr, rs: Seq<Result<PartialValue>>, c: Result<Vec<PartialValue>>)
    requires e.expr_kind is Set || e.expr_kind is ExtensionFunctionApp || e.expr_kind is Record,
        rs.len() == node_items(e).len(),
        forall|i: int| 0 <= i < rs.len() ==> psound(ev, slots, node_items(e)[i], #[trigger] rs[i]),
        c.vx_built_from(rs),
    ensures match c { Err(err) => err is RecursionLimit || perr(ev, slots, e), Ok(v) => pvs_sound(ev, slots, e, v@) }
{
    if forall|i: int| 0 <= i < rs.len() ==> (#[trigger] rs[i]) is Ok {
        let v = c->Ok_0;
        assert forall|i: int| 0 <= i < v@.len() implies match #[trigger] v@[i] {
            PartialValue::Value(x) => pval(ev, slots, node_items(e)[i], x.value),
            PartialValue::Residual(x) => pres(ev, slots, node_items(e)[i], x),
        } by { assert(rs[i] == Ok::<PartialValue, EvaluationError>(v@[i])); }
    } else {
        let err = c->Err_0;
        let i = choose|i: int| 0 <= i < rs.len() && #[trigger] rs[i] == Err::<PartialValue, EvaluationError>(err) && forall|j: int| 0 <= j < i ==> (#[trigger] rs[j]) is Ok;
        if !(err is RecursionLimit) {
            assert(psound(ev, slots, node_items(e)[i], rs[i]));
            reveal(perr);
            assert forall|ev2: &Evaluator<'_>| #[trigger] refines(ev, slots, ev2) && kinds_ok(ev2, e) implies !(sem(ev2, slots, e) is Val) by {
                lemma_kinds_items(ev2, e);
                assert(kinds_ok(ev2, node_items(e)[i]));
                lemma_items_nonval(ev2, slots, e, i);
            }
        }
    }
}

/// the same for the (name, partial value) results of a record literal
pub proof fn lemma_list_results_rec(ev: &Evaluator<'_>, slots: SlotEnv, e: Expr, rs: Seq<Result<(SmolStr, PartialValue)>>, c: Result<Vec<(SmolStr, PartialValue)>>)
    requires e.expr_kind is Record,
        rs.len() == node_items(e).len(),
        forall|i: int| 0 <= i < rs.len() ==> psound(ev, slots, node_items(e)[i], #[trigger] snd_results(rs)[i]),
        c.vx_built_from(rs),
    ensures match c {
        Err(err) => err is RecursionLimit || perr(ev, slots, e),
        Ok(v) => forall|pvs: Seq<PartialValue>| pvs.len() == v@.len() && (forall|i: int| 0 <= i < pvs.len() ==> #[trigger] pvs[i] == v@[i].1) ==> #[trigger] pvs_sound(ev, slots, e, pvs),
    }
{
    let rs2 = snd_results(rs);
    if forall|i: int| 0 <= i < rs.len() ==> (#[trigger] rs[i]) is Ok {
        let v = c->Ok_0;
        assert forall|pvs: Seq<PartialValue>| pvs.len() == v@.len() && (forall|i: int| 0 <= i < pvs.len() ==> #[trigger] pvs[i] == v@[i].1) implies #[trigger] pvs_sound(ev, slots, e, pvs) by {
            assert forall|i: int| 0 <= i < pvs.len() implies match #[trigger] pvs[i] {
                PartialValue::Value(x) => pval(ev, slots, node_items(e)[i], x.value),
                PartialValue::Residual(x) => pres(ev, slots, node_items(e)[i], x),
            } by {
                assert(rs[i] == Ok::<(SmolStr, PartialValue), EvaluationError>(v@[i]));
                assert(rs2[i] == Ok::<PartialValue, EvaluationError>(pvs[i]));
                assert(psound(ev, slots, node_items(e)[i], rs2[i]));
            }
        }
    } else {
        let err = c->Err_0;
        let i = choose|i: int| 0 <= i < rs.len() && #[trigger] rs[i] == Err::<(SmolStr, PartialValue), EvaluationError>(err) && forall|j: int| 0 <= j < i ==> (#[trigger] rs[j]) is Ok;
        if !(err is RecursionLimit) {
            assert(rs2[i] == Err::<PartialValue, EvaluationError>(err));
            assert(psound(ev, slots, node_items(e)[i], rs2[i]));
            reveal(perr);
            assert forall|ev2: &Evaluator<'_>| #[trigger] refines(ev, slots, ev2) && kinds_ok(ev2, e) implies !(sem(ev2, slots, e) is Val) by {
                lemma_kinds_items(ev2, e);
                assert(kinds_ok(ev2, node_items(e)[i]));
                lemma_items_nonval(ev2, slots, e, i);
            }
        }
    }
}

pub proof fn lemma_attr_unknown(ev: &Evaluator<'_>, slots: SlotEnv, ev2: &Evaluator<'_>, k: ValueKind, attr: SmolStr, u: Unknown)
    requires refines(ev, slots, ev2), attr_unknown(ev, k, attr, u)
    ensures unknown_ok(ev2, u), sem_get_attr(ev2, k, attr) == sem_unknown(ev2, u)
{
    reveal(refines);
    let uid = *k->Lit_0->EntityUID_0;
    let ent = ev.spec_entities().spec_entity(uid)->Some_0;
    assert(entity_kinds_ok(ev2, ent));
    assert(pv_kinds_ok(ev2, ent.spec_attrs()[attr]));
}

// ---- Expr::is_projectable ----
/// the node kinds `is_projectable` accepts
pub open spec fn proj_kind(k: ExprKind) -> bool { k is Lit || k is Unknown || k is Set || k is Var || k is Record }
/// "every node of the tree is of an accepted kind" is the recursive predicate projectable()
pub proof fn lemma_projectable_subs(e: Expr)
    ensures projectable(e) <==> forall|x: Expr| is_sub(x, e) ==> proj_kind(#[trigger] x.expr_kind)
    decreases e
{
    if projectable(e) {
        assert forall|x: Expr| is_sub(x, e) implies proj_kind(#[trigger] x.expr_kind) by {
            if x != e {
                match e.expr_kind {
                    ExprKind::Set(items) => { let i = choose|i: int| 0 <= i < items@.len() && is_sub(x, #[trigger] items@[i]); lemma_projectable_subs(items@[i]); },
                    ExprKind::Record(m) => { let k = choose|k: SmolStr| m@.contains_key(k) && is_sub(x, #[trigger] m@[k]); lemma_projectable_subs(m@[k]); },
                    _ => {},
                }
            }
        }
    }
    if forall|x: Expr| is_sub(x, e) ==> proj_kind(#[trigger] x.expr_kind) {
        assert(is_sub(e, e));
        match e.expr_kind {
            ExprKind::Set(items) => {
                assert forall|i: int| 0 <= i < items@.len() implies projectable(#[trigger] items@[i]) by {
                    lemma_projectable_subs(items@[i]);
                    assert forall|x: Expr| is_sub(x, items@[i]) implies proj_kind(#[trigger] x.expr_kind) by { assert(is_sub(x, e)); }
                }
            },
            ExprKind::Record(m) => {
                assert forall|k: SmolStr| m@.contains_key(k) implies projectable(#[trigger] m@[k]) by {
                    lemma_projectable_subs(m@[k]);
                    assert forall|x: Expr| is_sub(x, m@[k]) implies proj_kind(#[trigger] x.expr_kind) by { assert(is_sub(x, e)); }
                }
            },
            _ => {},
        }
    }
}
