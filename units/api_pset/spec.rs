// ---- the wrapper invariant: the wrapper's own maps agree with the core policy set ----
/// `policies` lists exactly the core set's links (static policies and template-linked policies); every entry of `templates` is a core
/// template that is not the template half of a static policy (the core may hold further templates: a slot-less entry of the
/// `templates` section of a JSON / protobuf policy set is kept by the core only); each entry is the core object under the same id
pub open spec fn winv(s: PolicySet) -> bool {
    let t = s.ast.vt(); let l = s.ast.vl();
    &&& ast::inv(s.ast)
    &&& forall|k: PolicyId| #[trigger] s.policies@.contains_key(k) <==> l.contains_key(k.0)
    &&& forall|k: PolicyId| #[trigger] s.templates@.contains_key(k) ==> t.contains_key(k.0) && !l.contains_key(k.0)
    &&& forall|k: PolicyId| #[trigger] s.policies@.contains_key(k) ==> s.policies@[k].ast == l[k.0]
    &&& forall|k: PolicyId| #[trigger] s.templates@.contains_key(k) ==> s.templates@[k].ast == *t[k.0]
}
/// nothing observable changed (iteration order of the LinkedHashMaps aside)
pub open spec fn wsame(a: PolicySet, b: PolicySet) -> bool {
    ast::same(a.ast, b.ast) && a.policies@ =~= b.policies@ && a.templates@ =~= b.templates@
}
