// ---- the wrapper invariant: the wrapper's own maps agree with the core policy set ----
/// `policies` lists exactly the core set's links (static policies and template-linked policies), `templates` exactly the
/// core templates that are not the template half of a static policy, and each entry is the core object under the same id
pub open spec fn winv(s: PolicySet) -> bool {
    let t = s.ast.vt(); let l = s.ast.vl();
    &&& ast::inv(s.ast)
    &&& forall|k: PolicyId| #[trigger] s.policies@.contains_key(k) <==> l.contains_key(k.0)
    &&& forall|k: PolicyId| #[trigger] s.templates@.contains_key(k) <==> t.contains_key(k.0) && !l.contains_key(k.0)
    &&& forall|k: PolicyId| #[trigger] s.policies@.contains_key(k) ==> s.policies@[k].ast == l[k.0]
    &&& forall|k: PolicyId| #[trigger] s.templates@.contains_key(k) ==> s.templates@[k].ast == *t[k.0] && t[k.0].spec_has_slots()
}
/// nothing observable changed (iteration order of the LinkedHashMaps aside)
pub open spec fn wsame(a: PolicySet, b: PolicySet) -> bool {
    ast::same(a.ast, b.ast) && a.policies@ =~= b.policies@ && a.templates@ =~= b.templates@
}
