// ---- api_pset prelude (trusted declarations for the public wrapper types) ----
#[verifier::external_body] pub struct LosslessPolicy { _p: u8 }
#[verifier::external_body] pub struct LosslessTemplate { _p: u8 }
#[verifier::external_body] pub struct SlotId { _p: u8 }
#[verifier::external_body] pub struct EntityUid { _p: u8 }
#[verifier::external_body] pub struct PolicySetError { _p: u8 }
/// error constructors of cedar_policy::PolicySetError (payloads are not semantic here)
pub mod policy_set_errors {
    use vstd::prelude::*; use super::*;
    #[verifier::external_body] pub fn expected_static() -> (r: PolicySetError) { unimplemented!() }
}
impl Clone for ast::Policy { #[verifier::external_body] fn clone(&self) -> (r: Self) ensures r == *self { unimplemented!() } }
impl Clone for ast::Template { #[verifier::external_body] fn clone(&self) -> (r: Self) ensures r == *self { unimplemented!() } }
impl Clone for LosslessTemplate { #[verifier::external_body] fn clone(&self) -> (r: Self) ensures r == *self { unimplemented!() } }
#[verifier::external_body] pub fn vx_pse() -> (r: PolicySetError) { unimplemented!() }
impl vstd::std_specs::convert::FromSpecImpl<ast::PolicySetError> for PolicySetError { open spec fn obeys_from_spec() -> bool { false } uninterp spec fn from_spec(v: ast::PolicySetError) -> PolicySetError; }
impl From<ast::PolicySetError> for PolicySetError { #[verifier::external_body] fn from(v: ast::PolicySetError) -> (r: PolicySetError) { unimplemented!() } }
impl vstd::std_specs::convert::FromSpecImpl<ast::LinkingError> for PolicySetError { open spec fn obeys_from_spec() -> bool { false } uninterp spec fn from_spec(v: ast::LinkingError) -> PolicySetError; }
impl From<ast::LinkingError> for PolicySetError { #[verifier::external_body] fn from(v: ast::LinkingError) -> (r: PolicySetError) { unimplemented!() } }
/// PolicyId is a newtype over the core id; these conversions are the identity on it (string round trip; trusted)
impl PolicyId {
    #[verifier::external_body] pub fn new(id: ast::PolicyID) -> (r: Self) ensures r.0 == id { unimplemented!() }
    #[verifier::external_body] pub fn into_core(self) -> (r: ast::PolicyID) ensures r == self.0 { unimplemented!() }
}
impl Clone for PolicyId { #[verifier::external_body] fn clone(&self) -> (r: Self) ensures r == *self { unimplemented!() } }
impl ast::PolicyID { #[verifier::external_body] pub fn from_string(id: &PolicyId) -> (r: ast::PolicyID) ensures r == id.0 { unimplemented!() } }
/// conversion of the API-level slot bindings to core types (not semantic for the bookkeeping)
#[verifier::external_body] pub fn vx_unwrap_vals(vals: HashMap<SlotId, EntityUid>) -> (r: HashMap<ast::SlotId, ast::EntityUID>) { unimplemented!() }
impl Clone for HashMap<ast::SlotId, ast::EntityUID> { #[verifier::external_body] fn clone(&self) -> (r: Self) ensures r == *self { unimplemented!() } }
/// LosslessTemplate::link(..).expect(..): assumed not to fail after the core link succeeded (as the code comments state)
#[verifier::external_body] pub fn vx_lossless_link(t: &LosslessTemplate, new_id: ast::PolicyID, vals: &HashMap<ast::SlotId, ast::EntityUID>) -> (r: LosslessPolicy) { unimplemented!() }
