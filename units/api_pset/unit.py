"""Unit api_pset: the public cedar_policy::PolicySet wrapper keeps its own maps consistent with the core policy set (C08):
add / add_template / remove_static / remove_template / link / unlink preserve the wrapper invariant, a failed operation changes nothing
(neither the core set nor the wrapper maps), and both panic! arms are unreachable."""
import os, re, importlib.util
from vx.assemble import Fn, Type, Raw, Loop, ClosureRw, FnRw, cmp_rw

PROPERTIES = ['C08']
HEADER = '#![feature(allocator_api)]'
STDMODEL = ['iter.rs', 'hash.rs', 'linked.rs', 'std.rs']
API = 'cedar-policy/src/api.rs'
IDS = 'cedar-policy/src/api/id.rs'
ASSUMPTIONS = [
    'The core ast::PolicySet is represented by its abstract view (templates / links / reverse index) and the contracts of its operations are the ones PROVED in unit policyset: '
    'their text is generated from units/policyset/unit.py on every run (field views renamed to spec accessors), so the two units cannot drift apart.',
    'PolicyId is a newtype over ast::PolicyID; PolicyId::new(id) / ast::PolicyID::from_string(&id) / into() are the identity on the underlying id (string round trip).',
    'The lossless (EST/PST) halves of Policy / Template and the slot-value conversions are opaque; LosslessPolicy::link is assumed to succeed when ast link succeeded (as the code comments state) - it is an `expect` whose failure would be a panic, listed under C20 as not proved.',
    'LinkedHashMap iteration order is not part of the view (a failed remove re-inserts the entry at the end of the order).',
]
_ps = importlib.util.spec_from_file_location('vx_policyset_for_api', os.path.join(os.path.dirname(os.path.abspath(__file__)), '..', 'policyset', 'unit.py'))
_m = importlib.util.module_from_spec(_ps); _ps.loader.exec_module(_m)
_D = os.path.join(os.path.dirname(os.path.abspath(__file__)), '..', 'policyset')

def _abs(text):
    text = re.sub(r'\.templates\.view\(\)', '.vt()', text)
    text = re.sub(r'\.links\.view\(\)', '.vl()', text)
    text = re.sub(r'\.template_to_links_map\.view\(\)', '.vm()', text)
    return text

SIGS = {
    'add': 'pub fn add(&mut self, policy: Policy) -> (r: std::result::Result<(), PolicySetError>)',
    'add_template': 'pub fn add_template(&mut self, t: Template) -> (r: std::result::Result<(), PolicySetError>)',
    'remove_static': 'pub fn remove_static(&mut self, policy_id: &PolicyID) -> (r: std::result::Result<Policy, PolicySetPolicyRemovalError>)',
    'remove_template': 'pub fn remove_template(&mut self, policy_id: &PolicyID) -> (r: std::result::Result<Template, PolicySetTemplateRemovalError>)',
    'unlink': 'pub fn unlink(&mut self, policy_id: &PolicyID) -> (r: std::result::Result<Policy, PolicySetUnlinkError>)',
    'link': 'pub fn link(&mut self, template_id: PolicyID, new_id: PolicyID, values: HashMap<SlotId, EntityUID>) -> (r: std::result::Result<&Policy, LinkingError>)',
}

def _core_model():
    prelude = open(os.path.join(_D, 'prelude.rs')).read()
    spec = _abs(open(os.path.join(_D, 'spec.rs')).read())
    out = ['pub mod ast {', 'use vstd::prelude::*; use super::*; use std::sync::Arc;', prelude,
           '/// abstract view of the core policy set (the three maps of cedar-policy-core/src/ast/policy_set.rs)',
           '#[verifier::external_body] pub struct PolicySet { _p: u8 }',
           'impl PolicySet {',
           '    pub uninterp spec fn vt(&self) -> Map<PolicyID, Arc<Template>>;',
           '    pub uninterp spec fn vl(&self) -> Map<PolicyID, Policy>;',
           '    pub uninterp spec fn vm(&self) -> Map<PolicyID, LinkedHashSet<PolicyID>>;',
           '}',
           '#[verifier::external_body] pub struct PolicySetError { _p: u8 }',
           'pub enum PolicySetUnlinkError { UnlinkingError(PolicyID), NotLinkError(PolicyID) }',
           'pub enum PolicySetTemplateRemovalError { RemovePolicyNoTemplateError(PolicyID), RemoveTemplateWithLinksError(PolicyID), NotTemplateError(PolicyID) }',
           '#[verifier::external_body] pub struct PolicySetPolicyRemovalError { _p: u8 }',
           spec, 'impl PolicySet {']
    by = {it.name.split('::')[-1]: it for it in _m.ITEMS if isinstance(it, Fn)}
    for nm, sig in SIGS.items():
        it = by[nm]
        req = ', '.join(_abs(c.text) for c in it.requires)
        ens = ', '.join(_abs(c.text) for c in it.ensures)
        out.append(f'    /// contract proved in unit policyset ({nm})')
        out.append(f'    #[verifier::external_body] {sig}\n        requires {req}\n        ensures {ens}\n    {{ unimplemented!() }}')
    out.append('}')
    out.append('}')
    return '\n'.join(out)

W = 'impl PolicySet'
ITEMS = [
    Raw(text=_core_model(), tag='prelude'),
    Raw(file='prelude.rs', tag='prelude'),
    Type(IDS, 'struct PolicyId'),
    Type(API, 'struct Policy'),
    Type(API, 'struct Template'),
    Type(API, 'struct PolicySet'),
    Raw(file='spec.rs', tag='spec'),
    Fn(API, 'impl Policy > fn is_static', name='Policy::is_static', wrap='impl Policy',
       ensures=[('static', 'r == self.ast.spec_is_static()')]),
    Fn(API, 'impl PolicySet > fn add', name='PolicySet::add', wrap=W,
       requires=[('inv', 'winv(*old(self))')],
       proof_start='broadcast use ast::axiom_static_id;',
       rewrites=[(r'PolicySetError::ExpectedStatic\(\s*policy_set_errors::ExpectedStatic::new\(\),?\s*\)', 'vx_pse()', 1)],
       ensures=[('inv', 'winv(*final(self))'),
                ('ok_iff', 'r is Ok <==> policy.ast.spec_is_static() && !old(self).ast.vl().contains_key(policy.ast.spec_id()) && !old(self).ast.vt().contains_key(policy.ast.spec_id())'),
                ('effect', 'r is Ok ==> final(self).policies@ == old(self).policies@.insert(PolicyId(policy.ast.spec_id()), policy) && final(self).templates@ == old(self).templates@ && final(self).ast.vl() == old(self).ast.vl().insert(policy.ast.spec_id(), policy.ast)'),
                ('unchanged_on_error', 'r is Err ==> wsame(*final(self), *old(self))')]),
    Fn(API, 'impl PolicySet > fn add_template', name='PolicySet::add_template', wrap=W,
       requires=[('inv', 'winv(*old(self))')],
       ensures=[('inv', 'winv(*final(self))'),
                ('ok_iff', 'r is Ok <==> !old(self).ast.vl().contains_key(template.ast.spec_id()) && !old(self).ast.vt().contains_key(template.ast.spec_id())'),
                ('effect', 'r is Ok ==> final(self).templates@ == old(self).templates@.insert(PolicyId(template.ast.spec_id()), template) && final(self).policies@ == old(self).policies@'),
                ('unchanged_on_error', 'r is Err ==> wsame(*final(self), *old(self))')]),
    Fn(API, 'impl PolicySet > fn remove_static', name='PolicySet::remove_static', wrap=W,
       requires=[('inv', 'winv(*old(self))')],
       rewrites=[(r'PolicySetError::PolicyNonexistent\(\s*policy_set_errors::PolicyNonexistentError \{ policy_id \},?\s*\)', 'vx_pse()', 2)],
       ensures=[('inv', 'winv(*final(self))'),
                ('ok_iff', 'r is Ok <==> old(self).ast.vt().contains_key(policy_id.0) && old(self).ast.vl().contains_key(policy_id.0)'),
                ('effect', 'r is Ok ==> final(self).policies@ == old(self).policies@.remove(policy_id) && final(self).templates@ == old(self).templates@ && r->Ok_0 == old(self).policies@[policy_id]'),
                ('unchanged_on_error', 'r is Err ==> wsame(*final(self), *old(self))')]),
    Fn(API, 'impl PolicySet > fn remove_template', name='PolicySet::remove_template', wrap=W,
       requires=[('inv', 'winv(*old(self))')],
       rewrites=[(r'PolicySetError::\w+\(\s*policy_set_errors::\w+ \{ template_id \},?\s*\)', 'vx_pse()', 3)],
       ensures=[('inv', 'winv(*final(self))'),
                ('ok_iff', 'r is Ok <==> old(self).templates@.contains_key(template_id) && old(self).ast.vm()[template_id.0].view() =~= SSet::<ast::PolicyID>::empty()'),
                ('effect', 'r is Ok ==> final(self).templates@ == old(self).templates@.remove(template_id) && final(self).policies@ == old(self).policies@ && r->Ok_0 == old(self).templates@[template_id]'),
                ('unchanged_on_error', 'r is Err ==> wsame(*final(self), *old(self))')]),
    Fn(API, 'impl PolicySet > fn unlink', name='PolicySet::unlink', wrap=W,
       requires=[('inv', 'winv(*old(self))')],
       rewrites=[(r'PolicySetError::\w+\(\s*policy_set_errors::\w+ \{ policy_id \},?\s*\)', 'vx_pse()', 2)],
       ensures=[('inv', 'winv(*final(self))'),
                ('ok_iff', 'r is Ok <==> old(self).ast.vl().contains_key(policy_id.0) && !old(self).ast.vt().contains_key(policy_id.0)'),
                ('effect', 'r is Ok ==> final(self).policies@ == old(self).policies@.remove(policy_id) && final(self).templates@ == old(self).templates@ && r->Ok_0 == old(self).policies@[policy_id]'),
                ('unchanged_on_error', 'r is Err ==> wsame(*final(self), *old(self))')]),
    Fn(API, 'impl PolicySet > fn link', name='PolicySet::link', wrap=W,
       requires=[('inv', 'winv(*old(self))')],
       rewrites=[(r'(?s)let unwrapped_vals: HashMap<ast::SlotId, ast::EntityUID> = vals\s*\.into_iter\(\)\s*\.map\(\|\(key, value\)\| \(key\.into\(\), value\.into\(\)\)\)\s*\.collect\(\);', 'let unwrapped_vals: HashMap<ast::SlotId, ast::EntityUID> = vx_unwrap_vals(vals);', 1),
                 (r'policy_set_errors::ExpectedTemplate::new\(\)\.into\(\)', 'vx_pse()', None),
                 (r'(?s)policy_set_errors::LinkingError \{\s*inner: ast::LinkingError::NoSuchTemplate \{\s*id: template_id(\.clone\(\))?\.into\(\),\s*\},\s*\}\s*\.into\(\)', 'vx_pse()', None),
                 (r'\b(template_id|new_id)(\.clone\(\))?\.into\(\)', r'\1\2.into_core()', None),
                 (r'(?s)let linked_lossless = template\s*\.lossless\s*\.clone\(\)\s*\.link\(.*?\.expect\("ast\.link\(\) didn.t fail above, so this shouldn.t fail"\);', 'let linked_lossless = vx_lossless_link(&template.lossless, new_id.clone().into_core(), &unwrapped_vals);', 1)],
       ensures=[('inv', 'winv(*final(self))'),
                ('ok_needs', 'r is Ok ==> old(self).templates@.contains_key(template_id) && !old(self).ast.vl().contains_key(new_id.0) && !old(self).ast.vt().contains_key(new_id.0)'),
                ('effect', 'r is Ok ==> final(self).templates@ == old(self).templates@ && final(self).policies@.dom() =~= old(self).policies@.dom().insert(new_id) && final(self).policies@[new_id].ast.spec_template() == *old(self).ast.vt()[template_id.0] && (forall|k: PolicyId| k != new_id && #[trigger] old(self).policies@.contains_key(k) ==> final(self).policies@[k] == old(self).policies@[k])'),
                ('unchanged_on_error', 'r is Err ==> wsame(*final(self), *old(self))')]),
]
CANARIES = ['PolicySet::link', 'PolicySet::remove_template']
# accessors of the public wrapper that belong to C08's "a linked policy presents its template's data" but are outside every contract (string keys are parsed)
UNCOVERED = [('cedar-policy/src/api.rs', 'impl PolicySet > fn annotation'), ('cedar-policy/src/api.rs', 'impl PolicySet > fn template_annotation')]
