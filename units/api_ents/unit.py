"""Unit api_ents: the public cedar_policy::Entities wrappers run the core store operations on the unwrapped data with the closure
computed by the library (TCComputation::ComputeNow) - the mode the history part of C04 is about."""
import re
from vx.assemble import Fn, Type, Raw, Loop, ClosureRw, FnRw, cmp_rw

PROPERTIES = ['C04']
HEADER = '#![feature(allocator_api)]'
STDMODEL = ['iter.rs', 'std.rs']
API = 'cedar-policy/src/api.rs'
ASSUMPTIONS = [
    'The core operations Entities::{from_entities, add_entities, upsert_entities, remove_entities} are uninterpreted functions of their inputs including the TCComputation mode; what they do under ComputeNow is the subject of units store, tc_checks, entity_hier (add_entities proved given the assumed repair_tc contract; upsert / remove / from_entities and the closure computation itself are NOT under contract).',
    'Entity / EntityUid / Schema / Entities are newtypes; Extensions::all_available() is not part of the view.',
]
W = 'impl Entities'
P = 'cedar_policy_core::'
COMMON = [
    (r'cedar_policy_core::entities::Entities::', 'ast::Entities::', None),
    (r'cedar_policy_core::entities::TCComputation::', 'ast::TCComputation::', None),
    (r'cedar_policy_core::validator::CoreSchema::new', 'ast::CoreSchema::new', None),
    (r'Extensions::all_available\(\)', 'ast::Extensions::all_available()', None),
    ClosureRw(r's', 's: &Schema', ret="ast::CoreSchema<'_>", ensures='r.spec_of() == s.0'),
]
SIG_E = (r'entities: impl IntoIterator<Item = Entity>', 'entities: VxIter<Entity>', 1)

ITEMS = [
    Raw(file='prelude.rs', tag='prelude'),
    Fn(API, 'impl Entities > fn from_entities', name='Entities::from_entities', wrap=W, sig_rewrites=[SIG_E],
       ensures=[('compute_now', 'forall|s: Seq<ast::Entity>| s.len() == entities.items().len() && (forall|i: int| 0 <= i < s.len() ==> s[i] == entities.items()[i].0) ==> match #[trigger] ast::spec_from(s, opt_vschema(schema), ast::TCComputation::ComputeNow) { Ok(c) => r is Ok && r->Ok_0.0 == c, Err(_) => r is Err }')],
       rewrites=COMMON + [ClosureRw(r'e', 'e: Entity', ret='ast::Entity', ensures='r == e.0'), (r'\.map\(Entities\)', '.map(|c: ast::Entities| -> (r: Entities) ensures r.0 == c { Entities(c) })', 1)]),
    Fn(API, 'impl Entities > fn add_entities', name='Entities::add_entities', wrap=W, sig_rewrites=[SIG_E],
       ensures=[('compute_now', 'forall|s: Seq<ast::Entity>| s.len() == entities.items().len() && (forall|i: int| 0 <= i < s.len() ==> s[i] == entities.items()[i].0) ==> match #[trigger] ast::spec_add(self.0, s, opt_vschema(schema), ast::TCComputation::ComputeNow) { Ok(c) => r is Ok && r->Ok_0.0 == c, Err(_) => r is Err }')],
       rewrites=COMMON + [ClosureRw(r'e', 'e: Entity', ret='Arc<ast::Entity>', ensures='*r == e.0')]),
    Fn(API, 'impl Entities > fn upsert_entities', name='Entities::upsert_entities', wrap=W, sig_rewrites=[SIG_E],
       ensures=[('compute_now', 'forall|s: Seq<ast::Entity>| s.len() == entities.items().len() && (forall|i: int| 0 <= i < s.len() ==> s[i] == entities.items()[i].0) ==> match #[trigger] ast::spec_upsert(self.0, s, opt_vschema(schema), ast::TCComputation::ComputeNow) { Ok(c) => r is Ok && r->Ok_0.0 == c, Err(_) => r is Err }')],
       rewrites=COMMON + [ClosureRw(r'e', 'e: Entity', ret='Arc<ast::Entity>', ensures='*r == e.0')]),
    Fn(API, 'impl Entities > fn remove_entities', name='Entities::remove_entities', wrap=W,
       sig_rewrites=[(r'entity_ids: impl IntoIterator<Item = EntityUid>', 'entity_ids: VxIter<EntityUid>', 1)],
       ensures=[('compute_now', 'forall|s: Seq<ast::EntityUID>| s.len() == entity_ids.items().len() && (forall|i: int| 0 <= i < s.len() ==> s[i] == entity_ids.items()[i].0) ==> match #[trigger] ast::spec_remove(self.0, s, ast::TCComputation::ComputeNow) { Ok(c) => r is Ok && r->Ok_0.0 == c, Err(_) => r is Err }')],
       rewrites=COMMON[:2] + [ClosureRw(r'euid', 'euid: EntityUid', ret='ast::EntityUID', ensures='r == euid.0')]),
]
VERUS_ARGS = ['--multiple-errors', '5']
CANARIES = ['Entities::remove_entities']
