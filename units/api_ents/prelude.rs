// ---- api_ents prelude (trusted declarations): the public Entities newtype over the core entity store ----
#[derive(Clone, Copy, PartialEq, Eq, Structural)] pub enum TCComputation { AssumeAlreadyComputed, EnforceAlreadyComputed, ComputeNow }
pub mod ast {
    use super::*;
    #[verifier::external_body] pub struct Entity { _p: u8 }
    #[verifier::external_body] pub struct EntityUID { _p: u8 }
    #[verifier::external_body] pub struct Entities { _p: u8 }
    #[verifier::external_body] pub struct CoreSchema<'a> { _p: &'a u8 }
    #[verifier::external_body] pub struct ValidatorSchema { _p: u8 }
    pub use super::TCComputation;
    #[verifier::external_body] pub struct Extensions<'a> { _p: &'a u8 }
    impl Extensions<'static> { #[verifier::external_body] pub fn all_available() -> (r: &'static Extensions<'static>) { unimplemented!() } }
    impl<'a> CoreSchema<'a> {
        pub uninterp spec fn spec_of(&self) -> ValidatorSchema;
        #[verifier::external_body] pub fn new(s: &'a ValidatorSchema) -> (r: Self) ensures r.spec_of() == *s { unimplemented!() }
    }
    pub open spec fn opt_schema(s: Option<&CoreSchema<'_>>) -> Option<ValidatorSchema> { match s { Some(c) => Some(c.spec_of()), None => None } }
    // the core store operations as functions of their inputs INCLUDING the closure mode (what they do under ComputeNow is units store / tc_checks / entity_hier)
    pub uninterp spec fn spec_from(items: Seq<Entity>, schema: Option<ValidatorSchema>, mode: TCComputation) -> std::result::Result<Entities, EntitiesError>;
    pub uninterp spec fn spec_add(e: Entities, items: Seq<Entity>, schema: Option<ValidatorSchema>, mode: TCComputation) -> std::result::Result<Entities, EntitiesError>;
    pub uninterp spec fn spec_upsert(e: Entities, items: Seq<Entity>, schema: Option<ValidatorSchema>, mode: TCComputation) -> std::result::Result<Entities, EntitiesError>;
    pub uninterp spec fn spec_remove(e: Entities, items: Seq<EntityUID>, mode: TCComputation) -> std::result::Result<Entities, EntitiesError>;
    pub open spec fn unarc(s: Seq<Arc<Entity>>) -> Seq<Entity> { s.map_values(|a: Arc<Entity>| *a) }
    impl Entities {
        #[verifier::external_body] pub fn from_entities(entities: VxIter<Entity>, schema: Option<&CoreSchema<'_>>, tc: TCComputation, ext: &Extensions<'_>) -> (r: std::result::Result<Entities, EntitiesError>)
            ensures forall|s: Seq<Entity>| s.len() == entities.items().len() && (forall|i: int| 0 <= i < s.len() ==> s[i] == entities.items()[i]) ==> r == #[trigger] spec_from(s, opt_schema(schema), tc) { unimplemented!() }
        #[verifier::external_body] pub fn add_entities(self, entities: VxIter<Arc<Entity>>, schema: Option<&CoreSchema<'_>>, tc: TCComputation, ext: &Extensions<'_>) -> (r: std::result::Result<Entities, EntitiesError>)
            ensures forall|s: Seq<Entity>| s.len() == entities.items().len() && (forall|i: int| 0 <= i < s.len() ==> s[i] == *entities.items()[i]) ==> r == #[trigger] spec_add(self, s, opt_schema(schema), tc) { unimplemented!() }
        #[verifier::external_body] pub fn upsert_entities(self, entities: VxIter<Arc<Entity>>, schema: Option<&CoreSchema<'_>>, tc: TCComputation, ext: &Extensions<'_>) -> (r: std::result::Result<Entities, EntitiesError>)
            ensures forall|s: Seq<Entity>| s.len() == entities.items().len() && (forall|i: int| 0 <= i < s.len() ==> s[i] == *entities.items()[i]) ==> r == #[trigger] spec_upsert(self, s, opt_schema(schema), tc) { unimplemented!() }
        #[verifier::external_body] pub fn remove_entities(self, uids: VxIter<EntityUID>, tc: TCComputation) -> (r: std::result::Result<Entities, EntitiesError>)
            ensures forall|s: Seq<EntityUID>| s.len() == uids.items().len() && (forall|i: int| 0 <= i < s.len() ==> s[i] == uids.items()[i]) ==> r == #[trigger] spec_remove(self, s, tc) { unimplemented!() }
    }
}
#[verifier::external_body] pub struct EntitiesError { _p: u8 }
pub struct Entity(pub ast::Entity);
pub struct EntityUid(pub ast::EntityUID);
pub struct Schema(pub ast::ValidatorSchema);
pub struct Entities(pub ast::Entities);
pub open spec fn unwrap_ents(s: Seq<Entity>) -> Seq<ast::Entity> { s.map_values(|e: Entity| e.0) }
pub open spec fn unwrap_uids(s: Seq<EntityUid>) -> Seq<ast::EntityUID> { s.map_values(|e: EntityUid| e.0) }
pub open spec fn opt_vschema(s: Option<&Schema>) -> Option<ast::ValidatorSchema> { match s { Some(x) => Some(x.0), None => None } }
