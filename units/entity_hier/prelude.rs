// ---- entity_hier prelude ----
#[verifier::external_body] pub struct EntityUID { _p: u8 }
impl Clone for EntityUID { #[verifier::external_body] fn clone(&self) -> (r: Self) ensures r == *self { unimplemented!() } }
#[verifier::external_body] pub struct EntityType { _p: u8 }
#[verifier::external_body] pub struct Eid { _p: u8 }
/// the read-only API of EntityUID, opaque: code that consults it gets no information beyond determinism
impl EntityUID {
    pub uninterp spec fn spec_is_action(&self) -> bool;
    pub uninterp spec fn spec_entity_type(&self) -> EntityType;
    pub uninterp spec fn spec_eid(&self) -> Eid;
    #[verifier::external_body] pub fn is_action(&self) -> (r: bool) ensures r == self.spec_is_action() { unimplemented!() }
    #[verifier::external_body] pub fn entity_type(&self) -> (r: &EntityType) ensures *r == self.spec_entity_type() { unimplemented!() }
    #[verifier::external_body] pub fn eid(&self) -> (r: &Eid) ensures *r == self.spec_eid() { unimplemented!() }
}
#[verifier::external_body] pub struct SmolStr { _p: u8 }
#[verifier::external_body] pub struct PartialValue { _p: u8 }
