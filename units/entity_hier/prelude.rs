// ---- entity_hier prelude ----
#[verifier::external_body] pub struct EntityUID { _p: u8 }
impl Clone for EntityUID { #[verifier::external_body] fn clone(&self) -> (r: Self) ensures r == *self { unimplemented!() } }
#[verifier::external_body] pub struct SmolStr { _p: u8 }
#[verifier::external_body] pub struct PartialValue { _p: u8 }
