// ---- per-entity view of the hierarchy (C04): ancestors = parents + indirect ancestors, kept disjoint ----
pub open spec fn ancestors_of(e: Entity) -> SSet<EntityUID> { e.parents@ + e.indirect_ancestors@ }
pub open spec fn entity_wf(e: Entity) -> bool { e.parents@.disjoint(e.indirect_ancestors@) }
