"""Unit entity_hier: Entity's ancestor bookkeeping and its TCNode implementation (C04; `in` membership is over these sets)."""
from vx.assemble import Fn, Type, Raw, Loop, ClosureRw

PROPERTIES = ['C04']
HEADER = '#![feature(allocator_api)]'
STDMODEL = ['iter.rs', 'hash.rs', 'btree.rs', 'std.rs']
ENT = 'cedar-policy-core/src/ast/entity.rs'
ASSUMPTIONS = [
    'EntityUID equality/hash agree with spec equality; HashSet behaves as the model.',
    'impl TCNode for Arc<Entity> (Arc::make_mut) is not covered; only impl TCNode for Entity is.',
]
W = 'impl Entity'
WT = 'impl TCNode<EntityUID> for Entity'
ITER = (r'impl Iterator<Item = &EntityUID>', 'VxIter<&EntityUID>', 1)
BOX = (r"Box<dyn Iterator<Item = &EntityUID> \+ '_>", 'VxIter<&EntityUID>', 1)
UNBOX = (r'Box::new\((self\.\w+\(\))\)', r'\1', 1)
FRAME = 'final(self).uid == old(self).uid && final(self).attrs == old(self).attrs && final(self).tags == old(self).tags'
ITEMS = [
    Raw(file='prelude.rs', tag='prelude'),
    Raw(file='../_tc/tcnode.rs', tag='prelude'),
    Type(ENT, 'struct Entity'),
    Raw(file='spec.rs', tag='spec'),
    Fn(ENT, 'impl Entity > fn uid', wrap=W, ensures=[('uid', '*r == self.uid')]),
    Fn(ENT, 'impl Entity > fn is_descendant_of', wrap=W, ensures=[('member', 'r == ancestors_of(*self).contains(*e)')]),
    Fn(ENT, 'impl Entity > fn is_indirect_descendant_of', wrap=W, ensures=[('member', 'r == self.indirect_ancestors@.contains(*e)')]),
    Fn(ENT, 'impl Entity > fn is_child_of', wrap=W, ensures=[('member', 'r == self.parents@.contains(*e)')]),
    Fn(ENT, 'impl Entity > fn ancestors', wrap=W, sig_rewrites=[ITER],
       ensures=[('members', 'forall|i: int| 0 <= i < r.items().len() ==> ancestors_of(*self).contains(*(#[trigger] r.items()[i]))'),
                ('all', 'forall|k: EntityUID| ancestors_of(*self).contains(k) ==> exists|i: int| 0 <= i < r.items().len() && *(#[trigger] r.items()[i]) == k')],
       proof_tail='''proof {
            let po = self.parents.elem_order(); let io = self.indirect_ancestors.elem_order();
            assert forall|k: EntityUID| ancestors_of(*self).contains(k) implies exists|i: int| 0 <= i < __vx_r.items().len() && *(#[trigger] __vx_r.items()[i]) == k by {
                if self.parents@.contains(k) {
                    assert(po.contains(k)); let i = choose|i: int| 0 <= i < po.len() && po[i] == k; assert(*__vx_r.items()[i] == k);
                } else {
                    assert(io.contains(k)); let j = choose|j: int| 0 <= j < io.len() && io[j] == k; assert(*__vx_r.items()[po.len() + j] == k);
                }
            }
        }'''),
    Fn(ENT, 'impl Entity > fn parents', wrap=W, sig_rewrites=[ITER],
       ensures=[('members', 'forall|i: int| 0 <= i < r.items().len() ==> self.parents@.contains(*(#[trigger] r.items()[i]))'),
                ('all', 'forall|k: EntityUID| self.parents@.contains(k) ==> exists|i: int| 0 <= i < r.items().len() && *(#[trigger] r.items()[i]) == k')]),
    Fn(ENT, 'impl Entity > fn add_indirect_ancestor', wrap=W, requires=[('wf', 'entity_wf(*old(self))')],
       ensures=[('wf', 'entity_wf(*final(self))'), ('ancestors', 'ancestors_of(*final(self)) =~= ancestors_of(*old(self)).insert(uid)'),
                ('parents', 'final(self).parents@ == old(self).parents@'), ('frame', FRAME)]),
    Fn(ENT, 'impl Entity > fn add_parent', wrap=W, requires=[('wf', 'entity_wf(*old(self))')],
       ensures=[('wf', 'entity_wf(*final(self))'), ('ancestors', 'ancestors_of(*final(self)) =~= ancestors_of(*old(self)).insert(uid)'),
                ('parents', 'final(self).parents@ == old(self).parents@.insert(uid)'), ('frame', FRAME)]),
    Fn(ENT, 'impl Entity > fn remove_indirect_ancestor', wrap=W, requires=[('wf', 'entity_wf(*old(self))')],
       ensures=[('wf', 'entity_wf(*final(self))'), ('indirect', 'final(self).indirect_ancestors@ == old(self).indirect_ancestors@.remove(*uid)'),
                ('parents', 'final(self).parents@ == old(self).parents@'), ('frame', FRAME)]),
    Fn(ENT, 'impl Entity > fn remove_parent', wrap=W, requires=[('wf', 'entity_wf(*old(self))')],
       ensures=[('wf', 'entity_wf(*final(self))'), ('parents', 'final(self).parents@ == old(self).parents@.remove(*uid)'),
                ('indirect', 'final(self).indirect_ancestors@ == old(self).indirect_ancestors@'), ('frame', FRAME)]),
    Fn(ENT, 'impl Entity > fn remove_all_indirect_ancestors', wrap=W, requires=[('wf', 'entity_wf(*old(self))')],
       ensures=[('wf', 'entity_wf(*final(self))'), ('ancestors', 'ancestors_of(*final(self)) =~= old(self).parents@'),
                ('parents', 'final(self).parents@ == old(self).parents@'), ('frame', FRAME)]),
    # the TCNode implementation, checked against the trait contract used by unit tc_checks
    Raw(text='''impl TCNode<EntityUID> for Entity {
    open spec fn edges(&self) -> SSet<EntityUID> { ancestors_of(*self) }
    open spec fn key(&self) -> EntityUID { self.uid }
    open spec fn node_wf(&self) -> bool { entity_wf(*self) }
    open spec fn direct(&self) -> SSet<EntityUID> { self.parents@ }
''', tag='spec'),
    Fn(ENT, 'impl TCNode<EntityUID> for Entity > fn get_key', name='TCNode::get_key', vis='', ret=None),
    Fn(ENT, 'impl TCNode<EntityUID> for Entity > fn add_edge_to', name='TCNode::add_edge_to', vis='', ret=None),
    Fn(ENT, 'impl TCNode<EntityUID> for Entity > fn out_edges', name='TCNode::out_edges', vis='', ret=None, sig_rewrites=[BOX], rewrites=[UNBOX]),
    Fn(ENT, 'impl TCNode<EntityUID> for Entity > fn has_edge_to', name='TCNode::has_edge_to', vis='', ret=None),
    Fn(ENT, 'impl TCNode<EntityUID> for Entity > fn reset_edges', name='TCNode::reset_edges', vis='', ret=None),
    Fn(ENT, 'impl TCNode<EntityUID> for Entity > fn direct_edges', name='TCNode::direct_edges', vis='', ret=None, sig_rewrites=[BOX], rewrites=[UNBOX]),
    Raw(text='}', tag='spec'),
]
CANARIES = ['add_parent']
