// ---- eval_ops prelude: cedar's Set is opaque here (its operations are under contract in unit value_set) ----
#[verifier::external_body] pub struct Set { _p: u8 }
impl Set {
    /// number of (distinct) elements
    pub uninterp spec fn spec_len(&self) -> nat;
    /// assumed contract (proved in unit value_set)
    #[verifier::external_body] pub fn is_empty(&self) -> (r: bool) ensures r == (self.spec_len() == 0) { unimplemented!() }
}
/// `impl PartialEq for Value` (educe-derived, ignores source locations; trusted): see val_eq / kind_eq
#[verifier::external_body] pub fn vx_value_eq(a: &Value, b: &Value) -> (r: bool) ensures r == val_eq(*a, *b) { unimplemented!() }
impl RepresentableExtensionValue {
    pub uninterp spec fn spec_overloads(&self) -> bool;
    pub uninterp spec fn spec_typename(&self) -> Name;
    #[verifier::external_body] pub fn supports_operator_overloading(&self) -> (r: bool) ensures r == self.spec_overloads() { unimplemented!() }
    #[verifier::external_body] pub fn typename(&self) -> (r: Name) ensures r == self.spec_typename() { unimplemented!() }
}
/// `Name == Name` (derived PartialEq; trusted to be spec equality)
#[verifier::external_body] pub fn vx_name_eq(a: Name, b: Name) -> (r: bool) ensures r == (a == b) { unimplemented!() }
/// the derived `Ord` of extension values (datetime, duration, decimal: order of the represented value; trusted, see C07)
pub uninterp spec fn ext_lt(a: RepresentableExtensionValue, b: RepresentableExtensionValue) -> bool;
pub uninterp spec fn ext_le(a: RepresentableExtensionValue, b: RepresentableExtensionValue) -> bool;
#[verifier::external_body] pub fn vx_ext_lt(a: &Arc<RepresentableExtensionValue>, b: &Arc<RepresentableExtensionValue>) -> (r: bool) ensures r == ext_lt(**a, **b) { unimplemented!() }
#[verifier::external_body] pub fn vx_ext_le(a: &Arc<RepresentableExtensionValue>, b: &Arc<RepresentableExtensionValue>) -> (r: bool) ensures r == ext_le(**a, **b) { unimplemented!() }
#[verifier::external_body] pub fn valid_comparison_op_types(extensions: &Extensions<'_>) -> (r: NonEmpty<Type>) { unimplemented!() }
impl<T> Clone for NonEmpty<T> { #[verifier::external_body] fn clone(&self) -> (r: Self) { unimplemented!() } }
#[verifier::external_body] pub fn vx_fmt() -> (r: String) { unimplemented!() }
pub mod names { use super::*;
    #[verifier::external_body] pub fn any_entity_type() -> (r: Name) { unimplemented!() }
}
impl Clone for Value { #[verifier::external_body] fn clone(&self) -> (r: Self) ensures r == *self { unimplemented!() } }
