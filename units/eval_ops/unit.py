"""Unit eval_ops: unary_app, binary_relation, binary_arith, Value::get_as_* against the operator semantics (C02)."""
import re
from vx.assemble import Fn, Type, Raw, Loop, ClosureRw, FnRw

PROPERTIES = ['C02']
HEADER = '#![feature(allocator_api)]'
STDMODEL = ['iter.rs', 'btree.rs', 'std.rs']
EVAL = 'cedar-policy-core/src/evaluator.rs'
ERR = 'cedar-policy-core/src/evaluator/err.rs'
VALUE = 'cedar-policy-core/src/ast/value.rs'
LIT = 'cedar-policy-core/src/ast/literal.rs'
OPS = 'cedar-policy-core/src/ast/ops.rs'
ASSUMPTIONS = [
    'impl PartialEq for Value (educe-derived, ignores source locations) is the uninterpreted spec function val_eq; the derived Ord on extension values is ext_lt/ext_le; Name equality is spec equality.',
    'From<bool>/From<i64> for Value produce the literal value without source location; thiserror #[from] conversions into EvaluationError produce the corresponding variant.',
    'EvaluationError::type_error_single / type_error_with_advice build a TypeError (constructors not extracted in this unit).',
    'cedar Set is opaque here: Set::is_empty <=> length 0 (proved in unit value_set).',
]
DERIVE = ['derive(Clone, Copy, PartialEq, Eq)']


def inline_cmp_closures(text):
    """`let long_op = if C { |x, y| A } else { |x, y| B };` ... `long_op(x, y)`  ==>  `(if C { A } else { B })` at the call site,
    with the closure parameters dereferenced (`x` -> `*x`) for long_op and the comparison operator mapped one-to-one to
    vx_ext_lt / vx_ext_le (and > / >= to vx_ext_gt / vx_ext_ge) for ext_op.  A, B and C are carried over from the source text."""
    n = 0
    for name in ('long_op', 'ext_op'):
        m = re.search(r'let ' + name + r' = if (matches!\([^)]*\)) \{\s*\|x, y\| ([^{}]*?)\s*\} else \{\s*\|x, y\| ([^{}]*?)\s*\};', text, re.S)
        if not m:
            return text, n
        c, a, b = m.group(1), m.group(2), m.group(3)
        if name == 'long_op':
            tr = lambda e: re.sub(r'\b([xy])\b', r'*\1', e)
        else:
            def tr(e):
                mm = re.fullmatch(r'\s*x\s*(<=|>=|<|>|==|!=)\s*y\s*', e)
                if not mm:
                    return 'vx_unsupported_ext_cmp()'
                return {'<': 'vx_ext_lt', '<=': 'vx_ext_le', '>': 'vx_ext_gt', '>=': 'vx_ext_ge', '==': 'vx_ext_eq', '!=': 'vx_ext_ne'}[mm.group(1)] + '(x, y)'
        text = text[:m.start()] + text[m.end():]
        call = name + '(x, y)'
        k = text.count(call)
        if k != 1:
            return text, n
        text = text.replace(call, f'(if {c} {{ {tr(a)} }} else {{ {tr(b)} }})')
        n += 1
    return text, n


def getter(name, ok_pat, ok_val, ret_deref=True):
    return Fn(EVAL, f'impl Value > fn {name}', wrap='impl Value',
              ensures=[('spec', f'match self.value {{ {ok_pat} => r is Ok && {ok_val}, _ => r is Err && r->Err_0 is TypeError }}')])


ITEMS = [
    Raw(file='../_eval/base.rs', tag='prelude'),
    Raw(file='prelude.rs', tag='prelude'),
    Type(LIT, 'enum Literal'),
    Type(VALUE, 'enum ValueKind'),
    Type(VALUE, 'struct Value'),
    Type('cedar-policy-core/src/ast/types.rs', 'enum Type'),
    Type(OPS, 'enum UnaryOp', attrs=DERIVE),
    Type(OPS, 'enum BinaryOp', attrs=DERIVE),
    Type(ERR, 'enum EvaluationError', rewrites=[(r'evaluation_errors::', '', None)]),
    Type(ERR, 'mod evaluation_errors > enum IntegerOverflowError'),
    Type(ERR, 'mod evaluation_errors > struct BinaryOpOverflowError'),
    Type(ERR, 'mod evaluation_errors > struct UnaryOpOverflowError'),
    Raw(file='../_eval/sem_ops.rs', tag='spec'),

    getter('get_as_bool', 'ValueKind::Lit(Literal::Bool(b))', 'r->Ok_0 == b'),
    getter('get_as_long', 'ValueKind::Lit(Literal::Long(i))', 'r->Ok_0 == i'),
    getter('get_as_string', 'ValueKind::Lit(Literal::String(s))', '*r->Ok_0 == s'),
    getter('get_as_set', 'ValueKind::Set(s)', '*r->Ok_0 == s'),
    getter('get_as_record', 'ValueKind::Record(m)', '*r->Ok_0 == m'),
    Fn(EVAL, 'impl Value > fn get_as_entity', wrap='impl Value',
       rewrites=[(r'names::ANY_ENTITY_TYPE\.clone\(\)', 'names::any_entity_type()', 1)],
       ensures=[('spec', 'match self.value { ValueKind::Lit(Literal::EntityUID(uid)) => r is Ok && *r->Ok_0 == *uid, _ => r is Err && r->Err_0 is TypeError }')]),

    Fn(EVAL, 'fn unary_app', ensures=[('sem', 'agrees(r, sem_unary(op, arg))')]),
    Fn(EVAL, 'fn binary_relation',
       requires=[('op', 'op == BinaryOp::Eq || op == BinaryOp::Less || op == BinaryOp::LessEq')],
       ensures=[('sem', 'agrees(r, sem_relation(op, *arg1, *arg2))')],
       rewrites=[
           FnRw('inline the two comparison closures long_op/ext_op at their single call sites (R3 variant; bodies carried over, operators mapped one-to-one)', inline_cmp_closures, 2),
           (r'\(arg1 == arg2\)', 'vx_value_eq(arg1, arg2)', 1),
           (r'x\.typename\(\) == y\.typename\(\)', 'vx_name_eq(x.typename(), y.typename())', 1),
           (r'format!\(.*?\),\n', 'vx_fmt(),\n', 1),
       ]),
    Fn(EVAL, 'fn binary_arith',
       requires=[('op', 'op == BinaryOp::Add || op == BinaryOp::Sub || op == BinaryOp::Mul')],
       ensures=[('sem', 'agrees(r, sem_arith(op, arg1, arg2))')]),
]
CANARIES = ['binary_arith', 'binary_relation']
