// ---- what it means for an entity to conform to a schema (C11), written from the property statement ----
/// an entity uid is admissible: of an enumerated type only with a declared id; of an action type only if the action is declared
pub open spec fn euid_ok<S: Schema>(schema: &S, u: EntityUID) -> bool {
    (match schema.sp_entity_type(u.spec_type()) {
        Some(d) => match d.sp_enum() { Some(cs) => exists|i: int| 0 <= i < cs@.len() && #[trigger] cs@[i] == u.spec_eid(), None => true },
        None => true,
    }) && (u.spec_type().spec_is_action() ==> schema.sp_action(u) is Some)
}
/// required attributes present; no undeclared attribute unless the type is open; every value of its declared type;
/// every entity uid inside a value admissible
pub open spec fn attrs_ok<S: Schema, D: EntityTypeDescription>(schema: &S, d: D, attrs: Map<SmolStr, PartialValue>, exts: &Extensions<'_>) -> bool {
    (forall|a: SmolStr| d.sp_required().contains(a) ==> #[trigger] attrs.contains_key(a))
    && (forall|a: SmolStr| #[trigger] attrs.contains_key(a) ==>
        (match d.sp_attr_type(a) { None => d.sp_open(), Some(t) => has_type(attrs[a], t, exts) }) && euids_valid(schema, attrs[a]))
}
/// every ancestor admissible and of a permitted (transitively member-of) type
pub open spec fn ancestors_ok<S: Schema, D: EntityTypeDescription>(schema: &S, d: D, ancs: SSet<EntityUID>) -> bool {
    forall|u: EntityUID| #[trigger] ancs.contains(u) ==> euid_ok(schema, u) && d.sp_parents().contains(u.spec_type())
}
/// tags only if the type declares tags, each of the declared type, uids inside admissible
pub open spec fn tags_ok<S: Schema, D: EntityTypeDescription>(schema: &S, d: D, tags: Map<SmolStr, PartialValue>, exts: &Extensions<'_>) -> bool {
    (match d.sp_tag_type() { None => forall|k: SmolStr| !#[trigger] tags.contains_key(k), Some(t) => forall|k: SmolStr| #[trigger] tags.contains_key(k) ==> has_type(tags[k], t, exts) })
    && (forall|k: SmolStr| #[trigger] tags.contains_key(k) ==> euids_valid(schema, tags[k]))
}
pub open spec fn conforms<S: Schema>(schema: &S, e: Entity, exts: &Extensions<'_>) -> bool {
    let uid = e.spec_uid();
    if uid.spec_type().spec_is_action() {
        schema.sp_action(uid) is Some && e.spec_deep_eq(*schema.sp_action(uid)->Some_0)
    } else {
        schema.sp_entity_type(uid.spec_type()) is Some && {
            let d = schema.sp_entity_type(uid.spec_type())->Some_0;
            euid_ok(schema, uid) && attrs_ok(schema, d, e.spec_attrs(), exts) && ancestors_ok(schema, d, e.spec_ancestors()) && tags_ok(schema, d, e.spec_tags(), exts)
        }
    }
}

/// one attribute entry complies
pub open spec fn entry_ok<S: Schema, D: EntityTypeDescription>(schema: &S, d: D, a: SmolStr, v: PartialValue, exts: &Extensions<'_>) -> bool {
    (match d.sp_attr_type(a) { None => d.sp_open(), Some(t) => has_type(v, t, exts) }) && euids_valid(schema, v)
}
/// the map collected from the entries is the entity's attribute map seen through references
pub open spec fn collected(items: Seq<(&SmolStr, &PartialValue)>, hm: Map<&SmolStr, &PartialValue>) -> bool {
    (forall|i: int| 0 <= i < items.len() ==> hm.contains_key((#[trigger] items[i]).0) && hm[items[i].0] == items[i].1)
    && (forall|k: &SmolStr| hm.contains_key(k) ==> exists|i: int| 0 <= i < items.len() && (#[trigger] items[i]).0 == k)
}
pub proof fn lemma_collected(items: Seq<(&SmolStr, &PartialValue)>, hm: Map<&SmolStr, &PartialValue>)
    requires hm == vx_map_of(items), exists|m: Map<SmolStr, PartialValue>| pairs_of(items, m)
    ensures collected(items, hm)
{
    let m = choose|m: Map<SmolStr, PartialValue>| pairs_of(items, m);
    lemma_vx_map_of_dom(items);
    assert forall|i: int| 0 <= i < items.len() implies hm.contains_key((#[trigger] items[i]).0) && hm[items[i].0] == items[i].1 by {
        assert forall|a: int, b: int| 0 <= a < b < items.len() implies (#[trigger] items[a]).0 != (#[trigger] items[b]).0 by { assert(*items[a].0 != *items[b].0); }
        lemma_vx_map_of_val(items, i);
    }
}
pub proof fn lemma_attrs_done<S: Schema, D: EntityTypeDescription>(schema: &S, d: D, items: Seq<(&SmolStr, &PartialValue)>, hm: Map<&SmolStr, &PartialValue>, ko: Seq<&SmolStr>, exts: &Extensions<'_>)
    requires collected(items, hm),
        ko.no_duplicates(), forall|k: &SmolStr| #![trigger hm.dom().contains(k)] #![trigger ko.contains(k)] hm.dom().contains(k) <==> ko.contains(k),
        forall|a: SmolStr| d.sp_required().contains(a) ==> hm.contains_key(&a),
        forall|i: int| 0 <= i < ko.len() ==> entry_ok(schema, d, *(#[trigger] ko[i]), *hm[ko[i]], exts),
    ensures forall|m: Map<SmolStr, PartialValue>| pairs_of(items, m) ==> attrs_ok(schema, d, m, exts)
{
    assert forall|m: Map<SmolStr, PartialValue>| pairs_of(items, m) implies attrs_ok(schema, d, m, exts) by {
        assert forall|a: SmolStr| d.sp_required().contains(a) implies #[trigger] m.contains_key(a) by {
            assert(hm.contains_key(&a));
            let i = choose|i: int| 0 <= i < items.len() && (#[trigger] items[i]).0 == &a;
        }
        assert forall|a: SmolStr| #[trigger] m.contains_key(a) implies entry_ok(schema, d, a, m[a], exts) by {
            let i = choose|i: int| 0 <= i < items.len() && *(#[trigger] items[i]).0 == a;
            assert(hm.contains_key(items[i].0));
            assert(ko.contains(items[i].0));
            let j = choose|j: int| 0 <= j < ko.len() && ko[j] == items[i].0;
            assert(entry_ok(schema, d, *ko[j], *hm[ko[j]], exts));
        }
    }
}

/// the collected map and the entity's map agree
pub proof fn lemma_link(items: Seq<(&SmolStr, &PartialValue)>, hm: Map<&SmolStr, &PartialValue>, m: Map<SmolStr, PartialValue>)
    requires collected(items, hm), pairs_of(items, m)
    ensures forall|a: SmolStr| #![trigger m.contains_key(a)] (hm.contains_key(&a) <==> m.contains_key(a)) && (m.contains_key(a) ==> *hm[&a] == m[a])
{
    assert forall|a: SmolStr| #![trigger m.contains_key(a)] (hm.contains_key(&a) <==> m.contains_key(a)) && (m.contains_key(a) ==> *hm[&a] == m[a]) by {
        if hm.contains_key(&a) { let i = choose|i: int| 0 <= i < items.len() && (#[trigger] items[i]).0 == &a; assert(m.contains_key(*items[i].0)); }
        if m.contains_key(a) { let i = choose|i: int| 0 <= i < items.len() && *(#[trigger] items[i]).0 == a; assert(hm.contains_key(items[i].0)); assert(m[*items[i].0] == *items[i].1); }
    }
}
pub proof fn lemma_err_missing<S: Schema, D: EntityTypeDescription>(schema: &S, d: D, items: Seq<(&SmolStr, &PartialValue)>, hm: Map<&SmolStr, &PartialValue>, a: SmolStr, exts: &Extensions<'_>)
    requires collected(items, hm), d.sp_required().contains(a), !hm.contains_key(&a)
    ensures forall|m: Map<SmolStr, PartialValue>| pairs_of(items, m) ==> !attrs_ok(schema, d, m, exts)
{
    assert forall|m: Map<SmolStr, PartialValue>| pairs_of(items, m) implies !attrs_ok(schema, d, m, exts) by { lemma_link(items, hm, m); assert(!m.contains_key(a)); }
}
pub proof fn lemma_err_entry<S: Schema, D: EntityTypeDescription>(schema: &S, d: D, items: Seq<(&SmolStr, &PartialValue)>, hm: Map<&SmolStr, &PartialValue>, k: &SmolStr, exts: &Extensions<'_>)
    requires collected(items, hm), hm.contains_key(k), !entry_ok(schema, d, *k, *hm[k], exts)
    ensures forall|m: Map<SmolStr, PartialValue>| pairs_of(items, m) ==> !attrs_ok(schema, d, m, exts)
{
    assert forall|m: Map<SmolStr, PartialValue>| pairs_of(items, m) implies !attrs_ok(schema, d, m, exts) by { lemma_link(items, hm, m); assert(m.contains_key(*k)); }
}

pub proof fn lemma_err_tag_present<S: Schema, D: EntityTypeDescription>(schema: &S, d: D, items: Seq<(&SmolStr, &PartialValue)>, hm: Map<&SmolStr, &PartialValue>, k: &SmolStr, exts: &Extensions<'_>)
    requires collected(items, hm), hm.contains_key(k), d.sp_tag_type() is None
    ensures forall|m: Map<SmolStr, PartialValue>| pairs_of(items, m) ==> !tags_ok(schema, d, m, exts)
{
    assert forall|m: Map<SmolStr, PartialValue>| pairs_of(items, m) implies !tags_ok(schema, d, m, exts) by { lemma_link(items, hm, m); assert(m.contains_key(*k)); }
}
pub proof fn lemma_err_tag_type<S: Schema, D: EntityTypeDescription>(schema: &S, d: D, items: Seq<(&SmolStr, &PartialValue)>, hm: Map<&SmolStr, &PartialValue>, k: &SmolStr, exts: &Extensions<'_>)
    requires collected(items, hm), hm.contains_key(k), d.sp_tag_type() is Some, !has_type(*hm[k], d.sp_tag_type()->Some_0, exts)
    ensures forall|m: Map<SmolStr, PartialValue>| pairs_of(items, m) ==> !tags_ok(schema, d, m, exts)
{
    assert forall|m: Map<SmolStr, PartialValue>| pairs_of(items, m) implies !tags_ok(schema, d, m, exts) by { lemma_link(items, hm, m); assert(m.contains_key(*k)); }
}
pub proof fn lemma_err_tag_euid<S: Schema, D: EntityTypeDescription>(schema: &S, d: D, items: Seq<(&SmolStr, &PartialValue)>, hm: Map<&SmolStr, &PartialValue>, k: &SmolStr, exts: &Extensions<'_>)
    requires collected(items, hm), hm.contains_key(k), !euids_valid(schema, *hm[k])
    ensures forall|m: Map<SmolStr, PartialValue>| pairs_of(items, m) ==> !tags_ok(schema, d, m, exts)
{
    assert forall|m: Map<SmolStr, PartialValue>| pairs_of(items, m) implies !tags_ok(schema, d, m, exts) by { lemma_link(items, hm, m); assert(m.contains_key(*k)); }
}
pub proof fn lemma_tags_done<S: Schema, D: EntityTypeDescription>(schema: &S, d: D, items: Seq<(&SmolStr, &PartialValue)>, hm: Map<&SmolStr, &PartialValue>, ko: Seq<&SmolStr>, exts: &Extensions<'_>)
    requires collected(items, hm),
        ko.no_duplicates(), forall|k: &SmolStr| #![trigger hm.dom().contains(k)] #![trigger ko.contains(k)] hm.dom().contains(k) <==> ko.contains(k),
        d.sp_tag_type() is None ==> ko.len() == 0,
        d.sp_tag_type() is Some ==> forall|i: int| 0 <= i < ko.len() ==> has_type(*hm[#[trigger] ko[i]], d.sp_tag_type()->Some_0, exts),
        forall|i: int| 0 <= i < ko.len() ==> euids_valid(schema, *hm[#[trigger] ko[i]]),
    ensures forall|m: Map<SmolStr, PartialValue>| pairs_of(items, m) ==> tags_ok(schema, d, m, exts)
{
    assert forall|m: Map<SmolStr, PartialValue>| pairs_of(items, m) implies tags_ok(schema, d, m, exts) by {
        lemma_link(items, hm, m);
        assert forall|k: SmolStr| #[trigger] m.contains_key(k) implies (d.sp_tag_type() is Some && has_type(m[k], d.sp_tag_type()->Some_0, exts)) && euids_valid(schema, m[k]) by {
            assert(hm.contains_key(&k)); assert(hm.dom().contains(&k)); assert(ko.contains(&k));
            let j = choose|j: int| 0 <= j < ko.len() && ko[j] == &k;
            assert(*hm[ko[j]] == m[k]);
        }
    }
}
