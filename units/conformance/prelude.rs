// ---- conformance prelude: the schema traits with spec views (trusted declarations of the traits' meaning) ----
#[verifier::external_body] pub struct SmolStr { _p: u8 }
impl Clone for SmolStr { #[verifier::external_body] fn clone(&self) -> (r: Self) ensures r == *self { unimplemented!() } }
#[verifier::external_body] pub struct EntityUID { _p: u8 }
impl Clone for EntityUID { #[verifier::external_body] fn clone(&self) -> (r: Self) ensures r == *self { unimplemented!() } }
#[verifier::external_body] pub struct EntityType { _p: u8 }
impl Clone for EntityType { #[verifier::external_body] fn clone(&self) -> (r: Self) ensures r == *self { unimplemented!() } }
#[verifier::external_body] pub struct Eid { _p: u8 }
#[verifier::external_body] pub struct Entity { _p: u8 }
#[verifier::external_body] pub struct Value { _p: u8 }
/// ast::PartialValue (same two variants; Value and Expr are opaque here)
pub enum PartialValue { Value(Value), Residual(Expr) }
#[verifier::external_body] pub struct SchemaType { _p: u8 }
#[verifier::external_body] pub struct Extensions<'a> { _p: &'a u8 }
#[verifier::external_body] pub struct TypeMismatchError { _p: u8 }
#[verifier::external_body] pub struct ExtensionFunctionLookupError { _p: u8 }
#[verifier::external_body] pub struct EntitySchemaConformanceError { _p: u8 }
#[verifier::external_body] pub struct UndeclaredAction { _p: u8 }
#[verifier::external_body] #[verifier::reject_recursive_types(T)] pub struct NonEmpty<T> { _p: std::marker::PhantomData<T> }
impl<T> NonEmpty<T> {
    pub uninterp spec fn view(&self) -> Seq<T>;
    #[verifier::external_body] pub fn iter(&self) -> (r: VxIter<&T>)
        ensures r.items().len() == self@.len(), forall|i: int| #![trigger r.items()[i]] #![trigger self@[i]] 0 <= i < self@.len() ==> *r.items()[i] == self@[i] { unimplemented!() }
}
impl<T> Clone for NonEmpty<T> { #[verifier::external_body] fn clone(&self) -> (r: Self) ensures r == *self { unimplemented!() } }
pub enum TypecheckError { TypeMismatch(TypeMismatchError), ExtensionFunctionLookup(ExtensionFunctionLookupError) }
pub mod err { pub enum AttrOrTag { Attr, Tag } }
pub struct InvalidEnumEntityError { pub uid: EntityUID, pub choices: NonEmpty<Eid> }

impl EntityType {
    pub uninterp spec fn spec_is_action(&self) -> bool;
    #[verifier::external_body] pub fn is_action(&self) -> (r: bool) ensures r == self.spec_is_action() { unimplemented!() }
}
impl EntityUID {
    pub uninterp spec fn spec_type(&self) -> EntityType;
    pub uninterp spec fn spec_eid(&self) -> Eid;
    #[verifier::external_body] pub fn entity_type(&self) -> (r: &EntityType) ensures *r == self.spec_type() { unimplemented!() }
    #[verifier::external_body] pub fn eid(&self) -> (r: &Eid) ensures *r == self.spec_eid() { unimplemented!() }
}
#[verifier::external_body] pub fn vx_eid_eq(a: &Eid, b: &Eid) -> (r: bool) ensures r == (*a == *b) { unimplemented!() }
#[verifier::external_body] pub fn vx_eid_ne(a: &Eid, b: &Eid) -> (r: bool) ensures r == (*a != *b) { unimplemented!() }
impl Entity {
    pub uninterp spec fn spec_uid(&self) -> EntityUID;
    pub uninterp spec fn spec_attrs(&self) -> Map<SmolStr, PartialValue>;
    pub uninterp spec fn spec_tags(&self) -> Map<SmolStr, PartialValue>;
    pub uninterp spec fn spec_ancestors(&self) -> SSet<EntityUID>;
    /// Entity::deep_eq: same uid, attributes, tags and ancestors (not verified here)
    pub uninterp spec fn spec_deep_eq(&self, o: Entity) -> bool;
    #[verifier::external_body] pub fn uid(&self) -> (r: &EntityUID) ensures *r == self.spec_uid() { unimplemented!() }
    #[verifier::external_body] pub fn deep_eq(&self, o: &Entity) -> (r: bool) ensures r == self.spec_deep_eq(*o) { unimplemented!() }
    /// the attribute map as (key, value) pairs, each key once
    #[verifier::external_body] pub fn attrs(&self) -> (r: VxIter<(&SmolStr, &PartialValue)>) ensures pairs_of(r.items(), self.spec_attrs()) { unimplemented!() }
    #[verifier::external_body] pub fn tags(&self) -> (r: VxIter<(&SmolStr, &PartialValue)>) ensures pairs_of(r.items(), self.spec_tags()) { unimplemented!() }
    /// the direct parents: some of the ancestors (Entity::parents: unit entity_hier)
    pub uninterp spec fn spec_parents(&self) -> SSet<EntityUID>;
    #[verifier::external_body] pub fn parents(&self) -> (r: VxIter<&EntityUID>)
        ensures self.spec_parents().subset_of(self.spec_ancestors()),
            forall|i: int| 0 <= i < r.items().len() ==> self.spec_parents().contains(*(#[trigger] r.items()[i])),
            forall|u: EntityUID| self.spec_parents().contains(u) ==> exists|i: int| 0 <= i < r.items().len() && *(#[trigger] r.items()[i]) == u { unimplemented!() }
    #[verifier::external_body] pub fn ancestors(&self) -> (r: VxIter<&EntityUID>)
        ensures forall|i: int| 0 <= i < r.items().len() ==> self.spec_ancestors().contains(*(#[trigger] r.items()[i])),
            forall|u: EntityUID| self.spec_ancestors().contains(u) ==> exists|i: int| 0 <= i < r.items().len() && *(#[trigger] r.items()[i]) == u { unimplemented!() }
}
/// s enumerates exactly the entries of m, each key once
pub open spec fn pairs_of(s: Seq<(&SmolStr, &PartialValue)>, m: Map<SmolStr, PartialValue>) -> bool {
    (forall|i: int| 0 <= i < s.len() ==> m.contains_key(*(#[trigger] s[i]).0) && m[*s[i].0] == *s[i].1)
    && (forall|k: SmolStr| m.contains_key(k) ==> exists|i: int| 0 <= i < s.len() && *(#[trigger] s[i]).0 == k)
    && (forall|i: int, j: int| 0 <= i < j < s.len() ==> *(#[trigger] s[i]).0 != *(#[trigger] s[j]).0)
}
/// the schema's description of one entity type
pub trait EntityTypeDescription: Sized {
    spec fn sp_required(&self) -> SSet<SmolStr>;
    spec fn sp_attr_type(&self, a: SmolStr) -> Option<SchemaType>;
    spec fn sp_tag_type(&self) -> Option<SchemaType>;
    spec fn sp_open(&self) -> bool;
    /// permitted ancestor types (transitively closed member-of relation)
    spec fn sp_parents(&self) -> SSet<EntityType>;
    spec fn sp_enum(&self) -> Option<NonEmpty<Eid>>;
    fn attr_type(&self, attr: &SmolStr) -> (r: Option<SchemaType>) ensures r == self.sp_attr_type(*attr);
    fn tag_type(&self) -> (r: Option<SchemaType>) ensures r == self.sp_tag_type();
    fn required_attrs(&self) -> (r: VxIter<SmolStr>)
        ensures forall|i: int| 0 <= i < r.items().len() ==> self.sp_required().contains(#[trigger] r.items()[i]),
            forall|a: SmolStr| self.sp_required().contains(a) ==> exists|i: int| 0 <= i < r.items().len() && #[trigger] r.items()[i] == a;
    fn allowed_parent_types(&self) -> (r: Arc<HashSet<EntityType>>) ensures r@ == self.sp_parents();
    fn open_attributes(&self) -> (r: bool) ensures r == self.sp_open();
    fn enum_entity_eids(&self) -> (r: Option<&NonEmpty<Eid>>) ensures r == (match self.sp_enum() { Some(c) => Some(&c), None => None });
}
pub trait Schema: Sized {
    type EntityTypeDescription: EntityTypeDescription;
    spec fn sp_entity_type(&self, t: EntityType) -> Option<Self::EntityTypeDescription>;
    spec fn sp_action(&self, u: EntityUID) -> Option<Arc<Entity>>;
    fn entity_type(&self, entity_type: &EntityType) -> (r: Option<Self::EntityTypeDescription>) ensures r == self.sp_entity_type(*entity_type);
    fn action(&self, action: &EntityUID) -> (r: Option<Arc<Entity>>) ensures r == self.sp_action(*action);
}
/// value typing against a schema type (recursive over restricted expressions; assumed, not verified)
pub uninterp spec fn has_type(v: PartialValue, t: SchemaType, exts: &Extensions<'_>) -> bool;
#[verifier::external_body] pub fn typecheck_value_against_schematype(value: &PartialValue, expected_ty: &SchemaType, extensions: &Extensions<'_>) -> (r: std::result::Result<(), TypecheckError>)
    ensures r is Ok <==> has_type(*value, *expected_ty, extensions) { unimplemented!() }
/// every entity uid occurring inside the value is valid for the schema (assumed: applies validate_euid to every literal uid)
/// an expression node as far as this file looks at it: an entity-uid literal or anything else (the other variants of ast::ExprKind / ast::Literal are collapsed)
pub enum Literal { EntityUID(Arc<EntityUID>), Other }
pub enum ExprKind { Lit(Literal), Other }
#[verifier::external_body] pub struct Expr { _p: u8 }
impl Expr {
    pub uninterp spec fn spec_kind(&self) -> ExprKind;
    #[verifier::external_body] pub fn expr_kind(&self) -> (r: &ExprKind) ensures *r == self.spec_kind() { unimplemented!() }
}
/// all sub-expressions of the value written as a restricted expression (RestrictedExpr::from(v).subexpressions() / residual.subexpressions(); trusted)
pub uninterp spec fn sp_subexprs(v: PartialValue) -> Seq<Expr>;
/// `RestrictedExpr::from(val.clone()).subexpressions()`: every sub-expression of the value written as a restricted expression (trusted enumeration)
#[verifier::external_body] pub fn vx_value_subexprs(v: &Value) -> (r: VxIter<&Expr>)
    ensures r.items().len() == sp_subexprs(PartialValue::Value(*v)).len(), forall|i: int| #![trigger r.items()[i]] #![trigger sp_subexprs(PartialValue::Value(*v))[i]] 0 <= i < r.items().len() ==> *r.items()[i] == sp_subexprs(PartialValue::Value(*v))[i] { unimplemented!() }
/// `e.subexpressions()` (trusted enumeration)
#[verifier::external_body] pub fn vx_expr_subexprs(e: &Expr) -> (r: VxIter<&Expr>)
    ensures r.items().len() == sp_subexprs(PartialValue::Residual(*e)).len(), forall|i: int| #![trigger r.items()[i]] #![trigger sp_subexprs(PartialValue::Residual(*e))[i]] 0 <= i < r.items().len() ==> *r.items()[i] == sp_subexprs(PartialValue::Residual(*e))[i] { unimplemented!() }
/// every entity uid literal anywhere in the value is valid for the schema
pub open spec fn euids_valid<S: Schema>(schema: &S, v: PartialValue) -> bool {
    forall|i: int| 0 <= i < sp_subexprs(v).len() ==> match (#[trigger] sp_subexprs(v)[i]).spec_kind() { ExprKind::Lit(Literal::EntityUID(u)) => euid_ok(schema, *u), _ => true }
}
impl<T> VxIter<T> {
    /// `try_for_each`: Ok iff the closure accepts every item; otherwise the error of the first item it rejects
    #[verifier::external_body]
    pub fn try_for_each<E, F: Fn(T) -> std::result::Result<(), E>>(self, f: F) -> (r: std::result::Result<(), E>)
        requires forall|i: int| 0 <= i < self.items().len() ==> f.requires((#[trigger] self.items()[i],))
        ensures r is Ok ==> forall|i: int| 0 <= i < self.items().len() ==> f.ensures((#[trigger] self.items()[i],), Ok::<(), E>(())),
            r is Err ==> exists|i: int| 0 <= i < self.items().len() && f.ensures((#[trigger] self.items()[i],), r)
    { unimplemented!() }
}
pub enum ValidateEuidError { InvalidEnumEntity(InvalidEnumEntityError), UndeclaredAction(UndeclaredAction) }
impl vstd::std_specs::convert::FromSpecImpl<ValidateEuidError> for EntitySchemaConformanceError {
    open spec fn obeys_from_spec() -> bool { false }
    open spec fn from_spec(v: ValidateEuidError) -> EntitySchemaConformanceError { arbitrary() }
}
impl From<ValidateEuidError> for EntitySchemaConformanceError { #[verifier::external_body] fn from(e: ValidateEuidError) -> (r: Self) { unimplemented!() } }
impl vstd::std_specs::convert::FromSpecImpl<InvalidEnumEntityError> for ValidateEuidError {
    open spec fn obeys_from_spec() -> bool { true }
    open spec fn from_spec(v: InvalidEnumEntityError) -> ValidateEuidError { ValidateEuidError::InvalidEnumEntity(v) }
}
impl From<InvalidEnumEntityError> for ValidateEuidError { #[verifier::external_body] fn from(e: InvalidEnumEntityError) -> (r: Self) { unimplemented!() } }
impl UndeclaredAction { }
pub fn vx_undeclared_action(uid: EntityUID) -> (r: UndeclaredAction) { vx_undeclared_action_ext(uid) }
#[verifier::external_body] pub fn vx_undeclared_action_ext(uid: EntityUID) -> (r: UndeclaredAction) { unimplemented!() }
impl EntitySchemaConformanceError {
    #[verifier::external_body] pub fn unexpected_entity_attr(uid: EntityUID, attr: SmolStr) -> (r: Self) { unimplemented!() }
    #[verifier::external_body] pub fn unexpected_entity_tag(uid: EntityUID, tag: String) -> (r: Self) { unimplemented!() }
    #[verifier::external_body] pub fn missing_entity_attr(uid: EntityUID, attr: SmolStr) -> (r: Self) { unimplemented!() }
    #[verifier::external_body] pub fn type_mismatch(uid: EntityUID, attr: SmolStr, kind: err::AttrOrTag, e: TypeMismatchError) -> (r: Self) { unimplemented!() }
    #[verifier::external_body] pub fn type_mismatch_s(uid: EntityUID, attr: String, kind: err::AttrOrTag, e: TypeMismatchError) -> (r: Self) { unimplemented!() }
    #[verifier::external_body] pub fn invalid_ancestor_type(uid: EntityUID, t: EntityType) -> (r: Self) { unimplemented!() }
    #[verifier::external_body] pub fn undeclared_action(uid: EntityUID) -> (r: Self) { unimplemented!() }
    #[verifier::external_body] pub fn action_declaration_mismatch(uid: EntityUID) -> (r: Self) { unimplemented!() }
    #[verifier::external_body] pub fn extension_function_lookup(uid: EntityUID, attr: SmolStr, kind: err::AttrOrTag, e: ExtensionFunctionLookupError) -> (r: Self) { unimplemented!() }
    #[verifier::external_body] pub fn extension_function_lookup_s(uid: EntityUID, attr: String, kind: err::AttrOrTag, e: ExtensionFunctionLookupError) -> (r: Self) { unimplemented!() }
    #[verifier::external_body] pub fn unexpected_entity_type<S: Schema>(schema: &S, uid: EntityUID) -> (r: Self) { unimplemented!() }
}
impl SmolStr { #[verifier::external_body] pub fn to_string(&self) -> (r: String) { unimplemented!() } }
