"""Unit conformance: EntitySchemaConformanceChecker accepts exactly the conformant entities (C11, entity part)."""
from vx.assemble import Fn, Type, Raw, Loop, ClosureRw, FnRw, cmp_rw

PROPERTIES = ['C11']
HEADER = '#![feature(allocator_api)]'
STDMODEL = ['iter.rs', 'hash.rs', 'std.rs']
CONF = 'cedar-policy-core/src/entities/conformance.rs'
ASSUMPTIONS = [
    'The Schema / EntityTypeDescription traits mean what their spec views say (implementations such as CoreSchema are not verified against them).',
    'typecheck_value_against_schematype decides has_type (recursive value typing: assumed); validate_euids_in_partial_value is under contract (the enumeration of the sub-expressions of a value, RestrictedExpr::from(v).subexpressions() / Expr::subexpressions(), is an uninterpreted sequence); Entity::deep_eq, Entity accessors (attrs/tags/ancestors enumerate the stored maps) are assumed.',
    'Only the entity conformance checker is covered: request/context validation (validate_request, validate_scope_variables) and the entry points that call the checker (Entities::from_entities/add/upsert, JSON parsers) are not.',
]
W = "impl<S: Schema> EntitySchemaConformanceChecker<'_, S>"
ATTR_IT = (r"impl Iterator<Item = \(&'a SmolStr, &'a PartialValue\)>", "VxIter<(&'a SmolStr, &'a PartialValue)>", 1)
ETD = (r'&impl EntityTypeDescription', '&S::EntityTypeDescription', 1)
ITEMS = [
    Raw(file='prelude.rs', tag='prelude'),
    Type(CONF, 'struct EntitySchemaConformanceChecker'),
    Raw(file='spec.rs', tag='spec'),
    Fn(CONF, 'fn is_valid_enumerated_entity',
       rewrites=[cmp_rw(r'uid\.eid\(\)', r'id\b', 'vx_eid'),
                 ClosureRw(r'id', 'id: &Eid', ret='bool', ensures='r == (uid.spec_eid() == *id)'),
                 (r'\.ok_or_else\(\|\| InvalidEnumEntityError \{', '.ok_or_else(|| -> (e: InvalidEnumEntityError) ensures true { InvalidEnumEntityError {', 1),
                 (r'choices: choices\.clone\(\),\s*\}\)', 'choices: choices.clone(), } })', 1)],
       ensures=[('member', 'r is Ok <==> exists|i: int| 0 <= i < choices@.len() && #[trigger] choices@[i] == uid.spec_eid()')]),
    Fn(CONF, 'fn validate_euid', sig_rewrites=[(r'schema: &impl Schema', 'schema: &S', 1), (r'fn validate_euid\(', 'fn validate_euid<S: Schema>(', 1)],
       rewrites=[(r'UndeclaredAction \{\s*uid: euid\.clone\(\),\s*\}', 'vx_undeclared_action(euid.clone())', 1)],
       ensures=[('ok_iff', 'r is Ok <==> euid_ok(schema, *euid)')]),
    Fn(CONF, 'fn validate_euids_in_subexpressions',
       sig_rewrites=[(r"exprs: impl IntoIterator<Item = &'a crate::ast::Expr>", "exprs: VxIter<&'a Expr>", 1), (r'schema: &impl Schema', 'schema: &S', 1), (r"fn validate_euids_in_subexpressions<'a>\(", "fn validate_euids_in_subexpressions<'a, S: Schema>(", 1)],
       rewrites=[ClosureRw(r'e', 'e: &Expr', 'std::result::Result<(), ValidateEuidError>',
                           ensures='x is Ok <==> (match e.spec_kind() { ExprKind::Lit(Literal::EntityUID(u)) => euid_ok(schema, *u), _ => true })', rname='x', count=1)],
       ensures=[('all_uids', 'r is Ok <==> forall|i: int| 0 <= i < exprs.items().len() ==> match (#[trigger] exprs.items()[i]).spec_kind() { ExprKind::Lit(Literal::EntityUID(u)) => euid_ok(schema, *u), _ => true }')]),
    Fn(CONF, 'fn validate_euids_in_partial_value',
       sig_rewrites=[(r'schema: &impl Schema', 'schema: &S', 1), (r'fn validate_euids_in_partial_value\(', 'fn validate_euids_in_partial_value<S: Schema>(', 1)],
       rewrites=[(r'RestrictedExpr::from\(val\.clone\(\)\)\.subexpressions\(\)', 'vx_value_subexprs(val)', None), (r'\be\.subexpressions\(\)', 'vx_expr_subexprs(e)', None)],
       ensures=[('all_uids', 'r is Ok <==> euids_valid(schema, *val)')]),
    Fn(CONF, "impl<S: Schema> EntitySchemaConformanceChecker<'_, S> > fn validate_action", wrap=W,
       rewrites=[(r'\.ok_or_else\(\|\| EntitySchemaConformanceError::undeclared_action\(uid\.clone\(\)\)\)', '.ok_or_else(|| -> (e: EntitySchemaConformanceError) ensures true { EntitySchemaConformanceError::undeclared_action(uid.clone()) })', 1)],
       ensures=[('ok_iff', 'r is Ok <==> (self.schema.sp_action(action.spec_uid()) is Some && action.spec_deep_eq(*self.schema.sp_action(action.spec_uid())->Some_0))')]),
    Fn(CONF, "impl<S: Schema> EntitySchemaConformanceChecker<'_, S> > fn validate_entity_ancestors", wrap=W,
       sig_rewrites=[(r"impl Iterator<Item = &'a EntityUID>", "VxIter<&'a EntityUID>", 1), ETD],
       ensures=[('ok_iff', 'r is Ok <==> forall|i: int| 0 <= i < ancestors.items().len() ==> euid_ok(self.schema, *(#[trigger] ancestors.items()[i])) && schema_etype.sp_parents().contains(ancestors.items()[i].spec_type())')],
       proof_start='let ghost ancs = ancestors.items();',
       loops={1: Loop(iter_suffix='.vx_for()', invariant=[
           ('snapshot', 'it_1.snapshot@.remaining() == ancs'),
           ('done', 'forall|i: int| 0 <= i < it_1.index@ ==> euid_ok(self.schema, *(#[trigger] ancs[i])) && schema_etype.sp_parents().contains(ancs[i].spec_type())')],
           proof_start='proof { assert(*ancestor_euid == *ancs[it_1.index@]); }')}),
    Fn(CONF, "impl<S: Schema> EntitySchemaConformanceChecker<'_, S> > fn validate_entity_attributes", wrap=W, attrs=['verifier::loop_isolation(false)'],
       sig_rewrites=[ATTR_IT, ETD],
       requires=[('entries', 'exists|m: Map<SmolStr, PartialValue>| pairs_of(attrs.items(), m)')],
       ensures=[('ok_iff', 'forall|m: Map<SmolStr, PartialValue>| pairs_of(attrs.items(), m) ==> (r is Ok <==> attrs_ok(self.schema, *schema_etype, m, self.extensions))')],
       rewrites=[
           (r'attrs\.contains_key\(&required_attr\)', 'attrs.contains_key(&&required_attr)', 1),
           (r'for \(attr, val\) in attrs \{', 'for _vxp in attrs.into_iter() { let (attr, val) = _vxp;', 1),
       ],
       proof_start='let ghost items0 = attrs.items(); broadcast use axiom_hashmap_order_ok;',
       hints=[(r'let attrs: HashMap<&SmolStr, &PartialValue> = attrs\.collect\(\);', '''let ghost hm = attrs@;
        proof { lemma_vx_map_of_dom(items0); lemma_collected(items0, hm); }''')],
       loops={
           1: Loop(iter_suffix='.vx_for()', invariant=[
               ('frame', 'attrs@ == hm, collected(items0, hm)'),
               ('members', 'forall|i: int| 0 <= i < it_1.snapshot@.remaining().len() ==> schema_etype.sp_required().contains(#[trigger] it_1.snapshot@.remaining()[i])'),
               ('all', 'forall|a: SmolStr| schema_etype.sp_required().contains(a) ==> exists|i: int| 0 <= i < it_1.snapshot@.remaining().len() && #[trigger] it_1.snapshot@.remaining()[i] == a'),
               ('done', 'forall|i: int| 0 <= i < it_1.index@ ==> hm.contains_key(&#[trigger] it_1.snapshot@.remaining()[i])')],
               proof_start='proof { if !hm.contains_key(&required_attr) { lemma_err_missing(self.schema, *schema_etype, items0, hm, required_attr, self.extensions); } }'),
           2: Loop(iter_suffix='.vx_for()', name='it_2', invariant=[
               ('snapshot', 'collected(items0, hm), ko.no_duplicates(), (forall|k: &SmolStr| #![trigger hm.dom().contains(k)] #![trigger ko.contains(k)] hm.dom().contains(k) <==> ko.contains(k)), it_2.snapshot@.remaining().len() == ko.len(), forall|i: int| 0 <= i < ko.len() ==> #[trigger] it_2.snapshot@.remaining()[i] == (ko[i], hm[ko[i]])'),
               ('done', 'forall|i: int| 0 <= i < it_2.index@ ==> entry_ok(self.schema, *schema_etype, *(#[trigger] ko[i]), *hm[ko[i]], self.extensions)')],
               proof_before='let ghost ko = attrs.key_order(); proof { assert(attrs.order_ok()); }',
               proof_start='proof { let k = ko[it_2.index@]; assert(hm.dom().contains(k)); if !entry_ok(self.schema, *schema_etype, *k, *hm[k], self.extensions) { lemma_err_entry(self.schema, *schema_etype, items0, hm, k, self.extensions); } }')},
       proof_tail='proof { lemma_attrs_done(self.schema, *schema_etype, items0, hm, ko, self.extensions); }'),
    Fn(CONF, "impl<S: Schema> EntitySchemaConformanceChecker<'_, S> > fn validate_tags", wrap=W, attrs=['verifier::loop_isolation(false)'],
       sig_rewrites=[ATTR_IT, ETD],
       requires=[('entries', 'exists|m: Map<SmolStr, PartialValue>| pairs_of(tags.items(), m)')],
       ensures=[('ok_iff', 'forall|m: Map<SmolStr, PartialValue>| pairs_of(tags.items(), m) ==> (r is Ok <==> tags_ok(self.schema, *schema_etype, m, self.extensions))')],
       rewrites=[
           (r'for \(tag, val\) in &tags \{', 'for _vxp in tags.iter() { let (tag, val) = _vxp;', 1),
           (r'type_mismatch\(\s*uid\.clone\(\),\s*tag\.to_string\(\),', 'type_mismatch_s(uid.clone(), tag.to_string(),', 1),
           (r'extension_function_lookup\(\s*uid\.clone\(\),\s*tag\.to_string\(\),', 'extension_function_lookup_s(uid.clone(), tag.to_string(),', 1),
       ],
       proof_start='let ghost items0 = tags.items(); broadcast use axiom_hashmap_order_ok;',
       hints=[(r'let tags: HashMap<&SmolStr, &PartialValue> = tags\.collect\(\);', '''let ghost hm = tags@; let ghost ko = tags.key_order();
        proof { lemma_vx_map_of_dom(items0); lemma_collected(items0, hm); assert(tags.order_ok());
            if schema_etype.sp_tag_type() is None && ko.len() > 0 { lemma_err_tag_present(self.schema, *schema_etype, items0, hm, ko[0], self.extensions); } }''')],
       loops={
           1: Loop(iter_suffix='.vx_for()', invariant=[
               ('snapshot', 'it_1.snapshot@.remaining().len() == ko.len(), forall|i: int| 0 <= i < ko.len() ==> *(#[trigger] it_1.snapshot@.remaining()[i]).0 == ko[i] && *it_1.snapshot@.remaining()[i].1 == hm[ko[i]]'),
               ('done', 'forall|i: int| 0 <= i < it_1.index@ ==> has_type(*hm[#[trigger] ko[i]], expected_ty, self.extensions)')],
               proof_start='proof { let k = ko[it_1.index@]; assert(hm.dom().contains(k)); if !has_type(*hm[k], expected_ty, self.extensions) { lemma_err_tag_type(self.schema, *schema_etype, items0, hm, k, self.extensions); } }'),
           2: Loop(iter_suffix='.vx_for()', name='it_2', invariant=[
               ('snapshot', 'it_2.snapshot@.remaining().len() == ko.len(), forall|i: int| 0 <= i < ko.len() ==> *(#[trigger] it_2.snapshot@.remaining()[i]) == hm[ko[i]]'),
               ('done', 'forall|i: int| 0 <= i < it_2.index@ ==> euids_valid(self.schema, *hm[#[trigger] ko[i]])')],
               proof_start='proof { let k = ko[it_2.index@]; assert(hm.dom().contains(k)); if !euids_valid(self.schema, *hm[k]) { lemma_err_tag_euid(self.schema, *schema_etype, items0, hm, k, self.extensions); } }')},
       proof_tail='proof { lemma_tags_done(self.schema, *schema_etype, items0, hm, ko, self.extensions); }'),
    Fn(CONF, "impl<S: Schema> EntitySchemaConformanceChecker<'_, S> > fn validate_entity", wrap=W,
       rewrites=[(r'\.ok_or_else\(\|\| \{(\s*)EntitySchemaConformanceError::unexpected_entity_type', r'.ok_or_else(|| -> (e: EntitySchemaConformanceError) ensures true {\1EntitySchemaConformanceError::unexpected_entity_type', 1)],
       ensures=[('accepts_iff_conforms', 'r is Ok <==> conforms(self.schema, *entity, self.extensions)')]),
]
CANARIES = ['validate_entity', 'validate_entity_attributes']
# assumed contract (has_type): reviewed, not verified here (Type::typecheck_restricted_expr is proved in unit valtype)
WATCH = [('cedar-policy-core/src/entities/conformance.rs', 'fn typecheck_value_against_schematype'),
         ('cedar-policy-core/src/entities/conformance.rs', 'fn typecheck_restricted_expr_against_schematype')]
