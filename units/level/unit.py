"""Unit level: the RFC-76 level checker (C16: checker == level discipline; acceptance is monotone in the maximum level)."""
from vx.assemble import Fn, Type, Raw, Loop, ClosureRw, FnRw, cmp_rw

PROPERTIES = ['C16']
HEADER = '#![feature(allocator_api)]'
STDMODEL = ['iter.rs', 'hash.rs', 'btree.rs', 'std.rs']
LV = 'cedar-policy-core/src/validator/level_validate.rs'
EXPR = 'cedar-policy-core/src/ast/expr.rs'
LIT = 'cedar-policy-core/src/ast/literal.rs'
OPS = 'cedar-policy-core/src/ast/ops.rs'
VT = 'cedar-policy-core/src/validator/types.rs'
ASSUMPTIONS = [
    'The typed AST comes from the typechecker (Expr<Option<Type>> annotations are taken as given).',
    'The u32 level counter does not overflow (axiom_levels_fit: fewer than 2^32 nested dereferences).',
    'ValidationError constructors are opaque; only whether any error was recorded is specified, not which.',
    'The theorem "a policy accepted at level n needs only the level-n entity slice" is upstream\'s Lean result and is NOT re-proved: only the checker == level discipline and the monotonicity of acceptance in n are decided here.',
]
DERIVE = ['derive(Clone, Copy, PartialEq, Eq)']
NODEC = ['verifier::exec_allows_no_decreases_clause']
W = "impl LevelChecker<'_>"
ERRS = 'level_checking_errors@'
FRAME = 'final(self).max_level == old(self).max_level && final(self).policy_id == old(self).policy_id'
def clean(ok):
    return f'has_err(final(self).{ERRS}) == (has_err(old(self).{ERRS}) || !{ok})'

ITEMS = [
    Raw(file='prelude.rs', tag='prelude'),
    Type(LIT, 'enum Literal'),
    Type(OPS, 'enum UnaryOp', attrs=DERIVE),
    Type(OPS, 'enum BinaryOp', attrs=DERIVE),
    Type(EXPR, 'enum Var', attrs=DERIVE),
    Type(EXPR, 'struct Expr'),
    Type(EXPR, 'enum ExprKind'),
    Type(VT, 'enum BoolType'),
    Type(VT, 'enum Type'),
    Type(VT, 'enum EntityKind'),
    Type(LV, 'struct EntityDerefLevel', attrs=DERIVE),
    Type(LV, 'struct LevelChecker'),
    Raw(file='spec.rs', tag='spec'),
    Fn(LV, 'impl EntityDerefLevel > fn increment', wrap='impl EntityDerefLevel',
       requires=[('fits', 'self.level < 0xFFFF_FFFF')], ensures=[('plus_one', 'r.level == self.level + 1')]),
    Fn(LV, 'impl EntityDerefLevel > fn zero', wrap='impl EntityDerefLevel', ensures=[('zero', 'r.level == 0')]),
    Fn(LV, "impl LevelChecker<'_> > fn check_entity_deref_target_level", wrap=W, attrs=NODEC,
       ensures=[('level', 'r.level == tgt_lvl(*e, access_path@)'),
                ('errors', clean('tgt_ok(*e, access_path@, env, old(self).max_level.level as nat)')),
                ('frame', FRAME)],
       proof_start='broadcast use axiom_btreemap_order_ok; proof { axiom_levels_fit(e, access_path@); }',
       rewrites=[
           (r'Some\(euid\.as_ref\(\)\) != env\.action_entity_uid\(\)', 'vx_opt_uid_ne(Some(euid.as_ref()), env.action_entity_uid())', 1),
           ClosureRw(r'a', 'a: SmolStr', ret="Option<(&SmolStr, &Expr<Option<Type>>)>", ensures='r == (if attrs@.contains_key(a) { Some((&a, &attrs@[a])) } else { None })'),
           (r'attrs\.get_key_value\(a\.as_str\(\)\)', 'attrs.vx_get_key_value(&a)', 1),
           FnRw('`for (_, e) in attrs.iter().filter(|(a, _)| *a != attr) {` -> loop over all fields with the filter as a guard (`if *a != attr`), tuple pattern bound inside',
                lambda t: __import__('re').subn(r'for \(_, e\) in attrs\.iter\(\)\.filter\(\|\(a, _\)\| \*a != attr\) \{(.*?)\n(\s*)\}',
                                                  r'for _vxp in attrs.iter() { let (a, e) = _vxp; if vx_smolstr_ref_ne(a, attr) {\1\n\2} }', t, count=1, flags=__import__('re').S), 1),
       ],
       loops={1: Loop(iter_suffix='.vx_for()', invariant=[
           ('snapshot', 'attrs.order_ok(), it_1.snapshot@.remaining().len() == attrs.key_order().len(), forall|i: int| 0 <= i < attrs.key_order().len() ==> *(#[trigger] it_1.snapshot@.remaining()[i]).0 == attrs.key_order()[i] && *it_1.snapshot@.remaining()[i].1 == attrs@[attrs.key_order()[i]]'),
           ('frame', 'self.max_level == old(self).max_level && self.policy_id == old(self).policy_id'),
           ('errors', f'has_err(self.{ERRS}) == (has_err(old(self).{ERRS}) || !(forall|i: int| 0 <= i < it_1.index@ && attrs.key_order()[i] != *attr ==> lvl_ok(#[trigger] attrs@[attrs.key_order()[i]], env, old(self).max_level.level as nat)))'),
       ])}),
    Fn(LV, "impl LevelChecker<'_> > fn check_expr_level", wrap=W, attrs=NODEC,
       sig_rewrites=[(r'crate::validator::types::Type', 'Type', 1)],
       ensures=[('errors', clean('lvl_ok(*e, env, old(self).max_level.level as nat)')), ('frame', FRAME)],
       proof_start='broadcast use axiom_btreemap_order_ok;',
       hints=[(r'let deref_target_lvl = self\.check_entity_deref_target_level\(arg1, Vec::new\(\), env\);', 'proof { axiom_levels_fit(&**arg1, Seq::empty()); }'),
              (r'let deref_target_lvl =\s*self\.check_entity_deref_target_level\(expr, Vec::new\(\), env\);', 'proof { axiom_levels_fit(&**expr, Seq::empty()); }')],
       rewrites=[
           cmp_rw(r'deref_target_lvl', r'self\.max_level', 'vx_level'),
           (r'for \(_, e\) in attrs\.iter\(\) \{', 'for _vxp in attrs.iter() { let (_, e) = _vxp;', 1),
       ],
       loops={
           1: Loop(invariant=[('frame', 'self.max_level == old(self).max_level && self.policy_id == old(self).policy_id'),
                              ('errors', f'has_err(self.{ERRS}) == (has_err(old(self).{ERRS}) || !(forall|i: int| 0 <= i < it_1.index@ ==> lvl_ok(#[trigger] args@[i], env, old(self).max_level.level as nat)))')]),
           2: Loop(name='it_2', invariant=[('frame', 'self.max_level == old(self).max_level && self.policy_id == old(self).policy_id'),
                              ('errors', f'has_err(self.{ERRS}) == (has_err(old(self).{ERRS}) || !(forall|i: int| 0 <= i < it_2.index@ ==> lvl_ok(#[trigger] exprs@[i], env, old(self).max_level.level as nat)))')]),
           3: Loop(name='it_3', iter_suffix='.vx_for()', invariant=[
               ('snapshot', 'attrs.order_ok(), it_3.snapshot@.remaining().len() == attrs.key_order().len(), forall|i: int| 0 <= i < attrs.key_order().len() ==> *(#[trigger] it_3.snapshot@.remaining()[i]).1 == attrs@[attrs.key_order()[i]]'),
               ('frame', 'self.max_level == old(self).max_level && self.policy_id == old(self).policy_id'),
               ('errors', f'has_err(self.{ERRS}) == (has_err(old(self).{ERRS}) || !(forall|i: int| 0 <= i < it_3.index@ ==> lvl_ok(#[trigger] attrs@[attrs.key_order()[i]], env, old(self).max_level.level as nat)))')]),
       }),
    Type('cedar-policy-core/src/validator/typecheck.rs', 'enum PolicyCheck'),
    Raw(file='prelude2.rs', tag='prelude'),
    Fn(LV, 'impl<I: Into<u32>> From<I> for EntityDerefLevel > fn from', name='EntityDerefLevel::from<u32>', wrap='impl EntityDerefLevel',
       sig_rewrites=[(r'fn from\(value: I\)', 'fn from_u32(value: u32)', 1)], rewrites=[(r'value\.into\(\)', 'value', 1)],
       ensures=[('level', 'r.level == value')]),
    Fn(LV, 'impl Validator > fn validate_policy_with_level', name='Validator::validate_policy_with_level', wrap='impl Validator',
       sig_rewrites=[(r"impl Iterator<Item = ValidationError> \+ 'a", 'VxIter<ValidationError>', 1), (r"impl Iterator<Item = ValidationWarning> \+ 'a", 'VxIter<ValidationWarning>', 1)],
       rewrites=[(r'max_level: (.*?)\.into\(\),', r'max_level: EntityDerefLevel::from_u32(\1),', 1),
                 (r'for \(req_env, policy_check\) in type_annotated_asts \{', 'for _vxp in type_annotated_asts { let (req_env, policy_check) = _vxp;', 1)],
       proof_tail='''proof {
            let s = level_checker.level_checking_errors;
            axiom_hashset_order_ok(s);
            if s.elem_order().len() > 0 { assert(s@.contains(s.elem_order()[0])); }
            if has_err(s@) { let x = choose|x: ValidationError| s@.contains(x); assert(s.elem_order().contains(x)); }
        }''',
       ensures=[('accepts', 'r.0.items().len() == 0 <==> self.spec_validate_errors(p, mode).len() == 0 && envs_ok(spec_typecheck(&self.schema, mode, p), spec_typecheck(&self.schema, mode, p).len() as int, max_deref_level as nat)')],
       loops={1: Loop(invariant=[
           ('snapshot', 'it_1.snapshot@.remaining() == spec_typecheck(&self.schema, mode, p)'),
           ('frame', 'level_checker.max_level.level == max_deref_level'),
           ('errors', f'has_err(level_checker.{ERRS}) == !envs_ok(spec_typecheck(&self.schema, mode, p), it_1.index@ as int, max_deref_level as nat)'),
       ], proof_end='''proof {
                let envs = spec_typecheck(&self.schema, mode, p); let n = it_1.index@ as int;
                assert(envs_ok(envs, n + 1, max_deref_level as nat) <==> envs_ok(envs, n, max_deref_level as nat) && (match envs[n].1 {
                    PolicyCheck::Success(e) => lvl_ok(e, &envs[n].0, max_deref_level as nat), PolicyCheck::Irrelevant(_, e) => lvl_ok(e, &envs[n].0, max_deref_level as nat), PolicyCheck::Fail(_) => true })) by {
                    if envs_ok(envs, n, max_deref_level as nat) && (match envs[n].1 { PolicyCheck::Success(e) => lvl_ok(e, &envs[n].0, max_deref_level as nat), PolicyCheck::Irrelevant(_, e) => lvl_ok(e, &envs[n].0, max_deref_level as nat), PolicyCheck::Fail(_) => true }) {
                        assert forall|i: int| 0 <= i < n + 1 implies match (#[trigger] envs[i]).1 { PolicyCheck::Success(e) => lvl_ok(e, &envs[i].0, max_deref_level as nat), PolicyCheck::Irrelevant(_, e) => lvl_ok(e, &envs[i].0, max_deref_level as nat), PolicyCheck::Fail(_) => true } by { if i < n {} }
                    }
                    if envs_ok(envs, n + 1, max_deref_level as nat) { assert(envs[n].1 == envs[n].1); }
                }
            }''')}),
]
CANARIES = ['check_expr_level', 'check_entity_deref_target_level']
