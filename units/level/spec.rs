// ---- the level discipline of RFC 76 in bottom-up form, and what "the checker reports nothing" means (C16) ----
pub open spec fn is_entity_ty(t: Option<Type>) -> bool { t matches Some(Type::Entity(EntityKind::Entity(_))) }
pub open spec fn is_record_ty(t: Option<Type>) -> bool { t matches Some(Type::Record { .. }) }
pub open spec fn ent_e(e: &Expr<Option<Type>>) -> bool { is_entity_ty(e.data) }
pub open spec fn rec_e(e: &Expr<Option<Type>>) -> bool { is_record_ty(e.data) }
/// some error has been recorded
pub open spec fn has_err(s: SSet<ValidationError>) -> bool { exists|x: ValidationError| s.contains(x) }
pub open spec fn max_nat(a: nat, b: nat) -> nat { if a >= b { a } else { b } }
/// number of entity dereferences needed to reach the entity denoted by e (path: record fields still to be projected)
pub open spec fn tgt_lvl(e: Expr<Option<Type>>, path: Seq<SmolStr>) -> nat
    decreases e
{
    match e.expr_kind {
        ExprKind::If { test_expr, then_expr, else_expr } => max_nat(tgt_lvl(*then_expr, path), tgt_lvl(*else_expr, path)),
        ExprKind::GetAttr { expr, attr } => if is_entity_ty(expr.data) { tgt_lvl(*expr, path) + 1 } else if is_record_ty(expr.data) { tgt_lvl(*expr, path.push(attr)) } else { 0 },
        ExprKind::BinaryApp { op, arg1, arg2 } => if op == BinaryOp::GetTag { tgt_lvl(*arg1, path) + 1 } else { 0 },
        ExprKind::Record(attrs) => if path.len() > 0 && attrs@.contains_key(path.last()) { tgt_lvl(attrs@[path.last()], path.drop_last()) } else { 0 },
        _ => 0,
    }
}
/// check_entity_deref_target_level reports no error on e
pub open spec fn tgt_ok(e: Expr<Option<Type>>, path: Seq<SmolStr>, env: &RequestEnv<'_>, max: nat) -> bool
    decreases e, 0nat
{
    match e.expr_kind {
        ExprKind::Var(_) => true,
        ExprKind::Slot(_) => false,
        ExprKind::Lit(Literal::EntityUID(u)) => env.spec_action() == Some(*u),
        ExprKind::If { test_expr, then_expr, else_expr } => lvl_ok(*test_expr, env, max) && tgt_ok(*then_expr, path, env, max) && tgt_ok(*else_expr, path, env, max),
        ExprKind::GetAttr { expr, attr } => if is_entity_ty(expr.data) { tgt_ok(*expr, path, env, max) } else if is_record_ty(expr.data) { tgt_ok(*expr, path.push(attr), env, max) } else { false },
        ExprKind::BinaryApp { op, arg1, arg2 } => op == BinaryOp::GetTag && tgt_ok(*arg1, path, env, max) && lvl_ok(*arg2, env, max),
        ExprKind::Record(attrs) => path.len() > 0 && attrs@.contains_key(path.last())
            && (forall|k: SmolStr| attrs@.contains_key(k) && k != path.last() ==> lvl_ok(#[trigger] attrs@[k], env, max))
            && tgt_ok(attrs@[path.last()], path.drop_last(), env, max),
        _ => false,
    }
}
/// check_expr_level reports no error on e: every entity dereference has a target of level < max
pub open spec fn lvl_ok(e: Expr<Option<Type>>, env: &RequestEnv<'_>, max: nat) -> bool
    decreases e, 1nat
{
    match e.expr_kind {
        ExprKind::Lit(_) | ExprKind::Var(_) | ExprKind::Slot(_) | ExprKind::Unknown(_) => true,
        ExprKind::If { test_expr, then_expr, else_expr } => lvl_ok(*test_expr, env, max) && lvl_ok(*then_expr, env, max) && lvl_ok(*else_expr, env, max),
        ExprKind::Or { left, right } => lvl_ok(*left, env, max) && lvl_ok(*right, env, max),
        ExprKind::And { left, right } => lvl_ok(*left, env, max) && lvl_ok(*right, env, max),
        ExprKind::UnaryApp { arg, .. } => lvl_ok(*arg, env, max),
        ExprKind::BinaryApp { op, arg1, arg2 } => if op == BinaryOp::HasTag || op == BinaryOp::GetTag || op == BinaryOp::In {
                tgt_ok(*arg1, Seq::empty(), env, max) && tgt_lvl(*arg1, Seq::empty()) < max && lvl_ok(*arg2, env, max)
            } else { lvl_ok(*arg1, env, max) && lvl_ok(*arg2, env, max) },
        ExprKind::ExtensionFunctionApp { args, .. } => forall|i: int| 0 <= i < args@.len() ==> lvl_ok(#[trigger] args@[i], env, max),
        ExprKind::HasAttr { expr, .. } => if is_entity_ty(expr.data) { tgt_ok(*expr, Seq::empty(), env, max) && tgt_lvl(*expr, Seq::empty()) < max } else if is_record_ty(expr.data) { lvl_ok(*expr, env, max) } else { false },
        ExprKind::GetAttr { expr, .. } => if is_entity_ty(expr.data) { tgt_ok(*expr, Seq::empty(), env, max) && tgt_lvl(*expr, Seq::empty()) < max } else if is_record_ty(expr.data) { lvl_ok(*expr, env, max) } else { false },
        ExprKind::Like { expr, .. } => lvl_ok(*expr, env, max),
        ExprKind::Is { expr, .. } => lvl_ok(*expr, env, max),
        ExprKind::Set(items) => forall|i: int| 0 <= i < items@.len() ==> lvl_ok(#[trigger] items@[i], env, max),
        ExprKind::Record(attrs) => forall|k: SmolStr| attrs@.contains_key(k) ==> lvl_ok(#[trigger] attrs@[k], env, max),
        ExprKind::Error { .. } => false,
    }
}
/// machine arithmetic: the u32 level counter is assumed not to overflow (an expression with 2^32 nested dereferences
/// does not fit in memory); stated as an axiom, listed as an assumption
pub axiom fn axiom_levels_fit(e: &Expr<Option<Type>>, path: Seq<SmolStr>)
    ensures tgt_lvl(*e, path) < 0xFFFF_FFFF;
/// C16, second sentence: raising the maximum level never turns acceptance into rejection
pub proof fn lemma_lvl_ok_mono(e: &Expr<Option<Type>>, env: &RequestEnv<'_>, n: nat)
    requires lvl_ok(*e, env, n)
    ensures lvl_ok(*e, env, n + 1)
    decreases *e, 1nat
{
    match &e.expr_kind {
        ExprKind::If { test_expr, then_expr, else_expr } => { lemma_lvl_ok_mono(&**test_expr, env, n); lemma_lvl_ok_mono(&**then_expr, env, n); lemma_lvl_ok_mono(&**else_expr, env, n); },
        ExprKind::Or { left, right } => { lemma_lvl_ok_mono(&**left, env, n); lemma_lvl_ok_mono(&**right, env, n); },
        ExprKind::And { left, right } => { lemma_lvl_ok_mono(&**left, env, n); lemma_lvl_ok_mono(&**right, env, n); },
        ExprKind::UnaryApp { arg, .. } => { lemma_lvl_ok_mono(&**arg, env, n); },
        ExprKind::BinaryApp { op, arg1, arg2 } => {
            if *op == BinaryOp::HasTag || *op == BinaryOp::GetTag || *op == BinaryOp::In { lemma_tgt_ok_mono(&**arg1, Seq::empty(), env, n); } else { lemma_lvl_ok_mono(&**arg1, env, n); }
            lemma_lvl_ok_mono(&**arg2, env, n);
        },
        ExprKind::ExtensionFunctionApp { args, .. } => { assert forall|i: int| 0 <= i < args@.len() implies lvl_ok(#[trigger] args@[i], env, n + 1) by { lemma_lvl_ok_mono(&args@[i], env, n); } },
        ExprKind::HasAttr { expr, .. } => { if ent_e(&**expr) { lemma_tgt_ok_mono(&**expr, Seq::empty(), env, n); } else if rec_e(&**expr) { lemma_lvl_ok_mono(&**expr, env, n); } },
        ExprKind::GetAttr { expr, .. } => { if ent_e(&**expr) { lemma_tgt_ok_mono(&**expr, Seq::empty(), env, n); } else if rec_e(&**expr) { lemma_lvl_ok_mono(&**expr, env, n); } },
        ExprKind::Like { expr, .. } => { lemma_lvl_ok_mono(&**expr, env, n); },
        ExprKind::Is { expr, .. } => { lemma_lvl_ok_mono(&**expr, env, n); },
        ExprKind::Set(items) => { assert forall|i: int| 0 <= i < items@.len() implies lvl_ok(#[trigger] items@[i], env, n + 1) by { lemma_lvl_ok_mono(&items@[i], env, n); } },
        ExprKind::Record(attrs) => { assert forall|k: SmolStr| attrs@.contains_key(k) implies lvl_ok(#[trigger] attrs@[k], env, n + 1) by { lemma_lvl_ok_mono(&attrs@[k], env, n); } },
        _ => {},
    }
}
pub proof fn lemma_tgt_ok_mono(e: &Expr<Option<Type>>, path: Seq<SmolStr>, env: &RequestEnv<'_>, n: nat)
    requires tgt_ok(*e, path, env, n)
    ensures tgt_ok(*e, path, env, n + 1)
    decreases *e, 0nat
{
    match &e.expr_kind {
        ExprKind::If { test_expr, then_expr, else_expr } => { lemma_lvl_ok_mono(&**test_expr, env, n); lemma_tgt_ok_mono(&**then_expr, path, env, n); lemma_tgt_ok_mono(&**else_expr, path, env, n); },
        ExprKind::GetAttr { expr, attr } => { if ent_e(&**expr) { lemma_tgt_ok_mono(&**expr, path, env, n); } else if rec_e(&**expr) { lemma_tgt_ok_mono(&**expr, path.push(*attr), env, n); } },
        ExprKind::BinaryApp { op, arg1, arg2 } => { lemma_tgt_ok_mono(&**arg1, path, env, n); lemma_lvl_ok_mono(&**arg2, env, n); },
        ExprKind::Record(attrs) => {
            assert forall|k: SmolStr| attrs@.contains_key(k) && k != path.last() implies lvl_ok(#[trigger] attrs@[k], env, n + 1) by { lemma_lvl_ok_mono(&attrs@[k], env, n); }
            lemma_tgt_ok_mono(&attrs@[path.last()], path.drop_last(), env, n);
        },
        _ => {},
    }
}
