// ---- the entry point's surroundings (trusted declarations) ----
#[verifier::external_body] pub struct ValidationWarning { _p: u8 }
#[verifier::external_body] pub struct Template { _p: u8 }
#[verifier::external_body] pub struct ValidatorSchema { _p: u8 }
#[derive(Clone, Copy, PartialEq, Eq)] pub enum ValidationMode { Strict, Permissive, Partial }
impl Template {
    pub uninterp spec fn spec_id(&self) -> PolicyID;
    #[verifier::external_body] pub fn id(&self) -> (r: &PolicyID) ensures *r == self.spec_id() { unimplemented!() }
}
/// the typechecker's verdict per request environment, as a spec view (typechecking itself: C03, not covered)
pub uninterp spec fn spec_typecheck<'a>(schema: &'a ValidatorSchema, mode: ValidationMode, p: &Template) -> Seq<(RequestEnv<'a>, PolicyCheck)>;
#[verifier::external_body] pub struct Typechecker<'a> { _p: &'a u8 }
impl<'a> Typechecker<'a> {
    pub uninterp spec fn spec_schema(&self) -> &'a ValidatorSchema;
    pub uninterp spec fn spec_mode(&self) -> ValidationMode;
    #[verifier::external_body] pub fn new(schema: &'a ValidatorSchema, mode: ValidationMode) -> (r: Self) ensures r.spec_schema() == schema, r.spec_mode() == mode { unimplemented!() }
    #[verifier::external_body] pub fn typecheck_by_request_env(&self, p: &Template) -> (r: Vec<(RequestEnv<'a>, PolicyCheck)>)
        ensures r@ == spec_typecheck(self.spec_schema(), self.spec_mode(), p) { unimplemented!() }
}
pub struct Validator { pub schema: ValidatorSchema }
impl Validator {
    /// the non-level validation passes (entity types, action ids, typechecking errors ...): not covered here
    pub uninterp spec fn spec_validate_errors(&self, p: &Template, mode: ValidationMode) -> Seq<ValidationError>;
    #[verifier::external_body] pub fn validate_policy(&self, p: &Template, mode: ValidationMode) -> (r: (VxIter<ValidationError>, VxIter<ValidationWarning>))
        ensures r.0.items() == self.spec_validate_errors(p, mode) { unimplemented!() }
}
impl<T> VxIntoIter<T> for HashSet<T> { open spec fn vx_items(&self) -> Seq<T> { self.elem_order() } }
/// every environment whose typechecked AST exists (Success or Irrelevant) passes the level discipline
pub open spec fn envs_ok(envs: Seq<(RequestEnv<'_>, PolicyCheck)>, n: int, max: nat) -> bool {
    forall|i: int| 0 <= i < n ==> match (#[trigger] envs[i]).1 {
        PolicyCheck::Success(e) => lvl_ok(e, &envs[i].0, max),
        PolicyCheck::Irrelevant(_, e) => lvl_ok(e, &envs[i].0, max),
        PolicyCheck::Fail(_) => true,
    }
}
