// ---- level unit prelude (trusted declarations) ----
#[verifier::external_body] pub struct SmolStr { _p: u8 }
/// `&str` views of SmolStr keys are modelled as the key itself (Borrow<str> lookup agrees with key equality)
impl SmolStr { #[verifier::external_body] pub fn as_str(&self) -> (r: &SmolStr) ensures r == self { unimplemented!() } }
impl Clone for SmolStr { #[verifier::external_body] fn clone(&self) -> (r: Self) ensures r == *self { unimplemented!() } }
#[verifier::external_body] pub struct Loc { _p: u8 }
impl Clone for Loc { #[verifier::external_body] fn clone(&self) -> (r: Self) ensures r == *self { unimplemented!() } }
#[verifier::external_body] pub struct PolicyID { _p: u8 }
impl Clone for PolicyID { #[verifier::external_body] fn clone(&self) -> (r: Self) ensures r == *self { unimplemented!() } }
#[verifier::external_body] pub struct EntityUID { _p: u8 }
#[verifier::external_body] pub struct Name { _p: u8 }
#[verifier::external_body] pub struct Pattern { _p: u8 }
#[verifier::external_body] pub struct EntityType { _p: u8 }
#[verifier::external_body] pub struct SlotId { _p: u8 }
#[verifier::external_body] pub struct Unknown { _p: u8 }
#[verifier::external_body] pub struct AstExprErrorKind { _p: u8 }
#[verifier::external_body] pub struct ValidationError { _p: u8 }
#[verifier::external_body] pub struct RequestEnv<'a> { _p: &'a u8 }
#[verifier::external_body] pub struct EntityLUB { _p: u8 }
#[verifier::external_body] pub struct Attributes { _p: u8 }
#[verifier::external_body] pub struct OpenTag { _p: u8 }
pub type Integer = i64;
impl<T> Expr<T> {
    #[verifier::external_body] pub fn expr_kind(&self) -> (r: &ExprKind<T>) ensures *r == self.expr_kind { unimplemented!() }
    #[verifier::external_body] pub fn source_loc(&self) -> (r: Option<&Loc>) { unimplemented!() }
    #[verifier::external_body] pub fn data(&self) -> (r: &T) ensures *r == self.data { unimplemented!() }
}
impl<'a> RequestEnv<'a> {
    pub uninterp spec fn spec_action(&self) -> Option<EntityUID>;
    #[verifier::external_body] pub fn action_entity_uid(&self) -> (r: Option<&'a EntityUID>)
        ensures r == (match self.spec_action() { Some(u) => Some(&u), None => None }) { unimplemented!() }
}
/// `Some(euid.as_ref()) != env.action_entity_uid()` (derived PartialEq on EntityUID; trusted)
#[verifier::external_body] pub fn vx_opt_uid_ne(a: Option<&EntityUID>, b: Option<&EntityUID>) -> (r: bool)
    ensures r == !((a is Some && b is Some && *a->Some_0 == *b->Some_0) || (a is None && b is None)) { unimplemented!() }
#[verifier::external_body] pub fn vx_smolstr_ref_ne(a: &SmolStr, b: &SmolStr) -> (r: bool) ensures r == (*a != *b) { unimplemented!() }
#[verifier::external_body] pub fn vx_smolstr_ref_eq(a: &SmolStr, b: &SmolStr) -> (r: bool) ensures r == (*a == *b) { unimplemented!() }
impl ValidationError {
    #[verifier::external_body] pub fn literal_dereference_target(l: Option<Loc>, p: PolicyID) -> (r: Self) { unimplemented!() }
    #[verifier::external_body] pub fn internal_invariant_violation(l: Option<Loc>, p: PolicyID) -> (r: Self) { unimplemented!() }
    #[verifier::external_body] pub fn maximum_level_exceeded(l: Option<Loc>, p: PolicyID, m: EntityDerefLevel, a: EntityDerefLevel) -> (r: Self) { unimplemented!() }
}
impl vstd::std_specs::convert::FromSpecImpl<u32> for EntityDerefLevel {
    open spec fn obeys_from_spec() -> bool { true }
    open spec fn from_spec(v: u32) -> EntityDerefLevel { EntityDerefLevel { level: v } }
}
/// `impl<I: Into<u32>> From<I> for EntityDerefLevel` at I = u32 (wraps the number)
impl From<u32> for EntityDerefLevel { #[verifier::external_body] fn from(value: u32) -> (r: Self) { unimplemented!() } }
impl EntityDerefLevel {
    /// derived Ord on the single field
    #[verifier::external_body] pub fn max(self, o: Self) -> (r: Self) ensures r.level == (if self.level >= o.level { self.level } else { o.level }) { unimplemented!() }
}
// derived Ord / PartialEq on the single field
#[verifier::external_body] pub fn vx_level_ge(a: EntityDerefLevel, b: EntityDerefLevel) -> (r: bool) ensures r == (a.level >= b.level) { unimplemented!() }
#[verifier::external_body] pub fn vx_level_gt(a: EntityDerefLevel, b: EntityDerefLevel) -> (r: bool) ensures r == (a.level > b.level) { unimplemented!() }
#[verifier::external_body] pub fn vx_level_le(a: EntityDerefLevel, b: EntityDerefLevel) -> (r: bool) ensures r == (a.level <= b.level) { unimplemented!() }
#[verifier::external_body] pub fn vx_level_lt(a: EntityDerefLevel, b: EntityDerefLevel) -> (r: bool) ensures r == (a.level < b.level) { unimplemented!() }
#[verifier::external_body] pub fn vx_level_eq(a: EntityDerefLevel, b: EntityDerefLevel) -> (r: bool) ensures r == (a.level == b.level) { unimplemented!() }
#[verifier::external_body] pub fn vx_level_ne(a: EntityDerefLevel, b: EntityDerefLevel) -> (r: bool) ensures r == (a.level != b.level) { unimplemented!() }
impl<K, V> BTreeMap<K, V> {
    /// `get_key_value(a.as_str())` on a map keyed by SmolStr
    #[verifier::external_body] pub fn vx_get_key_value(&self, k: &K) -> (r: Option<(&K, &V)>)
        ensures r == (if self.view().contains_key(*k) { Some((k, &self.view()[*k])) } else { None }) { unimplemented!() }
}
