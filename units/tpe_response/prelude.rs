// ---- tpe_response unit prelude: trusted declarations ----
#[verifier::external_body] pub struct PolicyID { _p: u8 }
impl Clone for PolicyID { #[verifier::external_body] fn clone(&self) -> (r: Self) ensures r == *self { unimplemented!() } }
#[verifier::external_body] pub struct Loc { _p: u8 }
#[verifier::external_body] pub struct SmolStr { _p: u8 }
#[verifier::external_body] pub struct EntityUID { _p: u8 }
#[verifier::external_body] pub struct Set { _p: u8 }
#[verifier::external_body] pub struct RepresentableExtensionValue { _p: u8 }
#[verifier::external_body] #[verifier::accept_recursive_types(K)] #[verifier::accept_recursive_types(V)]
pub struct BTreeMap<K, V> { _k: std::marker::PhantomData<K>, _v: std::marker::PhantomData<V> }
#[verifier::external_body] pub struct Type { _p: u8 }
#[verifier::external_body] pub struct ResidualKind { _p: u8 }
#[verifier::external_body] pub struct PartialRequest { _p: u8 }
#[verifier::external_body] pub struct PartialEntities { _p: u8 }
#[verifier::external_body] pub struct ValidatorSchema { _p: u8 }
#[verifier::external_body] pub struct Annotations { _p: u8 }
#[verifier::external_body] pub struct Expr { _p: u8 }
#[verifier::external_body] pub struct Policy { _p: u8 }
#[verifier::external_body] pub struct PolicySet { _p: u8 }
#[verifier::external_body] pub struct PolicySetError { _p: u8 }
impl std::fmt::Debug for PolicySetError { #[verifier::external_body] fn fmt(&self, f: &mut std::fmt::Formatter<'_>) -> std::fmt::Result { unimplemented!() } }
pub type Integer = i64;
impl Clone for Residual { #[verifier::external_body] fn clone(&self) -> (r: Self) ensures r == *self { unimplemented!() } }
impl Clone for ResidualPolicy { #[verifier::external_body] fn clone(&self) -> (r: Self) ensures r == *self { unimplemented!() } }
impl Clone for Policy { #[verifier::external_body] fn clone(&self) -> (r: Self) ensures r == *self { unimplemented!() } }
impl Clone for Annotations { #[verifier::external_body] fn clone(&self) -> (r: Self) ensures r == *self { unimplemented!() } }

impl Policy {
    pub uninterp spec fn spec_id(&self) -> PolicyID;
    pub uninterp spec fn spec_effect(&self) -> Effect;
    pub uninterp spec fn spec_annotations(&self) -> Arc<Annotations>;
    /// the (single `when`) condition of a policy built by from_when_clause_annos
    pub uninterp spec fn spec_when(&self) -> Arc<Expr>;
    #[verifier::external_body] pub fn id(&self) -> (r: &PolicyID) ensures *r == self.spec_id() { unimplemented!() }
    #[verifier::external_body] pub fn effect(&self) -> (r: Effect) ensures r == self.spec_effect() { unimplemented!() }
    #[verifier::external_body] pub fn annotations_arc(&self) -> (r: &Arc<Annotations>) ensures *r == self.spec_annotations() { unimplemented!() }
    /// assumed: the constructed policy carries the given effect, id, annotations and condition
    #[verifier::external_body] pub fn from_when_clause_annos(effect: Effect, when: Arc<Expr>, id: PolicyID, loc: Option<Loc>, annotations: Arc<Annotations>) -> (r: Policy)
        ensures r.spec_effect() == effect, r.spec_id() == id, r.spec_annotations() == annotations, r.spec_when() == when
    { unimplemented!() }
}
/// spec of `impl From<Residual> for Expr` (the residual as an expression; opaque here)
pub uninterp spec fn residual_expr(r: Residual) -> Expr;
impl vstd::std_specs::convert::FromSpecImpl<Residual> for Expr {
    open spec fn obeys_from_spec() -> bool { true }
    open spec fn from_spec(v: Residual) -> Expr { residual_expr(v) }
}
impl From<Residual> for Expr { #[verifier::external_body] fn from(v: Residual) -> (r: Self) { unimplemented!() } }
impl PolicySet {
    /// the static/linked policies of the set by id
    pub uninterp spec fn links(&self) -> Map<PolicyID, Policy>;
    #[verifier::external_body] pub fn new() -> (r: Self) ensures r.links() == Map::<PolicyID, Policy>::empty() { unimplemented!() }
    /// assumed contract (PolicySet::add is under contract in unit policyset)
    #[verifier::external_body] pub fn add(&mut self, p: Policy) -> (r: std::result::Result<(), PolicySetError>)
        ensures r is Ok <==> !old(self).links().contains_key(p.spec_id()),
            r is Ok ==> final(self).links() == old(self).links().insert(p.spec_id(), p),
            r is Err ==> final(self).links() == old(self).links(),
    { unimplemented!() }
}
// ---- for Response::reauthorize: the checks it runs (contracts proved in units reqval, conformance, tpe_consist) and the authorizer (units authz) ----
#[verifier::external_body] pub struct Request { _p: u8 }
#[verifier::external_body] pub struct Entities { _p: u8 }
#[verifier::external_body] pub struct Entity { _p: u8 }
#[verifier::external_body] pub struct Extensions<'a> { _p: &'a u8 }
#[verifier::external_body] pub struct AuthzResponse { _p: u8 }
#[verifier::external_body] pub struct ReauthorizationError { _p: u8 }
#[verifier::external_body] pub struct RequestValidationError { _p: u8 }
#[verifier::external_body] pub struct ConfErr { _p: u8 }
#[verifier::external_body] pub struct EntitiesConsistencyError { _p: u8 }
#[verifier::external_body] pub struct RequestConsistencyError { _p: u8 }
impl Clone for Request { #[verifier::external_body] fn clone(&self) -> (r: Self) ensures r == *self { unimplemented!() } }
impl<'a> Extensions<'a> { #[verifier::external_body] pub fn all_available() -> (r: &'static Extensions<'static>) { unimplemented!() } }
pub uninterp spec fn sp_request_valid(s: &ValidatorSchema, r: Request) -> bool;
pub uninterp spec fn sp_entity_conforms(s: &ValidatorSchema, e: Entity) -> bool;
pub uninterp spec fn sp_entities_consistent(p: &PartialEntities, c: &Entities) -> bool;
pub uninterp spec fn sp_request_consistent(p: &PartialRequest, c: Request) -> bool;
pub uninterp spec fn sp_is_authorized(q: Request, ps: PolicySet, es: &Entities) -> AuthzResponse;
impl ValidatorSchema {
    #[verifier::external_body] pub fn validate_request(&self, request: &Request, e: &Extensions<'_>) -> (r: std::result::Result<(), RequestValidationError>) ensures r is Ok <==> sp_request_valid(self, *request) { unimplemented!() }
}
#[verifier::external_body] pub struct CoreSchema<'a> { _p: &'a u8 }
impl<'a> CoreSchema<'a> {
    pub uninterp spec fn spec_schema(&self) -> &'a ValidatorSchema;
    #[verifier::external_body] pub fn new(s: &'a ValidatorSchema) -> (r: Self) ensures r.spec_schema() == s { unimplemented!() }
}
#[verifier::external_body] pub struct EntitySchemaConformanceChecker<'a> { _p: &'a u8 }
impl<'a> EntitySchemaConformanceChecker<'a> {
    pub uninterp spec fn spec_schema(&self) -> &'a ValidatorSchema;
    #[verifier::external_body] pub fn new(s: &'a CoreSchema<'a>, e: &Extensions<'_>) -> (r: Self) ensures r.spec_schema() == s.spec_schema() { unimplemented!() }
    #[verifier::external_body] pub fn validate_entity(&self, e: &Entity) -> (r: std::result::Result<(), ConfErr>) ensures r is Ok <==> sp_entity_conforms(self.spec_schema(), *e) { unimplemented!() }
}
impl Entities {
    pub uninterp spec fn spec_all(&self) -> Seq<Entity>;
    #[verifier::external_body] pub fn iter(&self) -> (r: VxIter<&Entity>) ensures r.items().len() == self.spec_all().len(), forall|i: int| 0 <= i < r.items().len() ==> *(#[trigger] r.items()[i]) == self.spec_all()[i] { unimplemented!() }
}
impl PartialEntities { #[verifier::external_body] pub fn check_consistency(&self, c: &Entities) -> (r: std::result::Result<(), EntitiesConsistencyError>) ensures r is Ok <==> sp_entities_consistent(self, c) { unimplemented!() } }
impl PartialRequest { #[verifier::external_body] pub fn check_consistency(&self, c: &Request) -> (r: std::result::Result<(), RequestConsistencyError>) ensures r is Ok <==> sp_request_consistent(self, *c) { unimplemented!() } }
#[verifier::external_body] pub struct Authorizer { _p: u8 }
impl Authorizer {
    #[verifier::external_body] pub fn new() -> (r: Self) { unimplemented!() }
    #[verifier::external_body] pub fn is_authorized(&self, q: Request, ps: &PolicySet, es: &Entities) -> (r: AuthzResponse) ensures r == sp_is_authorized(q, *ps, es) { unimplemented!() }
}
impl vstd::std_specs::convert::FromSpecImpl<RequestValidationError> for ReauthorizationError { open spec fn obeys_from_spec() -> bool { false } uninterp spec fn from_spec(v: RequestValidationError) -> ReauthorizationError; }
impl From<RequestValidationError> for ReauthorizationError { #[verifier::external_body] fn from(v: RequestValidationError) -> (r: ReauthorizationError) { unimplemented!() } }
impl vstd::std_specs::convert::FromSpecImpl<ConfErr> for ReauthorizationError { open spec fn obeys_from_spec() -> bool { false } uninterp spec fn from_spec(v: ConfErr) -> ReauthorizationError; }
impl From<ConfErr> for ReauthorizationError { #[verifier::external_body] fn from(v: ConfErr) -> (r: ReauthorizationError) { unimplemented!() } }
impl vstd::std_specs::convert::FromSpecImpl<EntitiesConsistencyError> for ReauthorizationError { open spec fn obeys_from_spec() -> bool { false } uninterp spec fn from_spec(v: EntitiesConsistencyError) -> ReauthorizationError; }
impl From<EntitiesConsistencyError> for ReauthorizationError { #[verifier::external_body] fn from(v: EntitiesConsistencyError) -> (r: ReauthorizationError) { unimplemented!() } }
impl vstd::std_specs::convert::FromSpecImpl<RequestConsistencyError> for ReauthorizationError { open spec fn obeys_from_spec() -> bool { false } uninterp spec fn from_spec(v: RequestConsistencyError) -> ReauthorizationError; }
impl From<RequestConsistencyError> for ReauthorizationError { #[verifier::external_body] fn from(v: RequestConsistencyError) -> (r: ReauthorizationError) { unimplemented!() } }
