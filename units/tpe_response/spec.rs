// ---- C14 spec at the response level, written from the property statement ----
/// class of a residual: 0 true, 1 false, 2 error, 3 still partial / non-boolean
pub open spec fn class(r: Residual) -> int {
    match r {
        Residual::Concrete { value: Value { value: ValueKind::Lit(Literal::Bool(true)), .. }, .. } => 0,
        Residual::Concrete { value: Value { value: ValueKind::Lit(Literal::Bool(false)), .. }, .. } => 1,
        Residual::Error(_) => 2,
        _ => 3,
    }
}
pub open spec fn rp_id(rp: ResidualPolicy) -> PolicyID { rp.policy.spec_id() }
pub open spec fn rp_eff(rp: ResidualPolicy) -> Effect { rp.policy.spec_effect() }
/// the policy every view must present for a residual policy: effect, id and annotations of the original, condition = the residual
pub open spec fn is_residual_policy(p: Policy, rp: ResidualPolicy) -> bool {
    p.spec_effect() == rp.policy.spec_effect() && p.spec_id() == rp.policy.spec_id()
    && p.spec_annotations() == rp.policy.spec_annotations() && *p.spec_when() == residual_expr(*rp.residual)
}
pub open spec fn picks(rs: Seq<ResidualPolicy>, n: int, id: PolicyID, eff: Effect, c: int) -> bool {
    exists|i: int| 0 <= i < n && rp_id(#[trigger] rs[i]) == id && rp_eff(rs[i]) == eff && class(*rs[i].residual) == c
}
pub open spec fn bucket_ok(s: SSet<PolicyID>, rs: Seq<ResidualPolicy>, n: int, eff: Effect, c: int) -> bool {
    forall|id: PolicyID| s.contains(id) <==> picks(rs, n, id, eff, c)
}
pub open spec fn map_ok(m: Map<PolicyID, ResidualPolicy>, rs: Seq<ResidualPolicy>, n: int) -> bool {
    (forall|i: int| 0 <= i < n ==> m.contains_key(rp_id(#[trigger] rs[i])) && m[rp_id(rs[i])] == rs[i])
    && (forall|id: PolicyID| m.contains_key(id) ==> exists|i: int| 0 <= i < n && rp_id(#[trigger] rs[i]) == id)
}
pub open spec fn distinct_ids(rs: Seq<ResidualPolicy>) -> bool {
    forall|i: int, j: int| 0 <= i < j < rs.len() ==> rp_id(#[trigger] rs[i]) != rp_id(#[trigger] rs[j])
}
pub open spec fn all_ok(r: Response, rs: Seq<ResidualPolicy>, n: int) -> bool {
    map_ok(r.residuals@, rs, n)
    && bucket_ok(r.true_permits@, rs, n, Effect::Permit, 0) && bucket_ok(r.false_permits@, rs, n, Effect::Permit, 1)
    && bucket_ok(r.error_permits@, rs, n, Effect::Permit, 2) && bucket_ok(r.residual_permits@, rs, n, Effect::Permit, 3)
    && bucket_ok(r.true_forbids@, rs, n, Effect::Forbid, 0) && bucket_ok(r.false_forbids@, rs, n, Effect::Forbid, 1)
    && bucket_ok(r.error_forbids@, rs, n, Effect::Forbid, 2) && bucket_ok(r.residual_forbids@, rs, n, Effect::Forbid, 3)
}
/// representation invariant of Response: every classified id has its residual policy, stored under its own id
pub open spec fn wf(r: Response) -> bool {
    (forall|id: PolicyID| (r.true_permits@.contains(id) || r.false_permits@.contains(id) || r.error_permits@.contains(id) || r.residual_permits@.contains(id)
        || r.true_forbids@.contains(id) || r.false_forbids@.contains(id) || r.error_forbids@.contains(id) || r.residual_forbids@.contains(id))
        ==> r.residuals@.contains_key(id))
    && (forall|k: PolicyID| r.residuals@.contains_key(k) ==> rp_id(#[trigger] r.residuals@[k]) == k)
}
/// a completion: which of the still-partial residual policies turn out satisfied (the rest unsatisfied or erroring)
pub open spec fn c_sat(r: Response, c: spec_fn(PolicyID) -> bool, permit: bool, id: PolicyID) -> bool {
    if permit { r.true_permits@.contains(id) || (r.residual_permits@.contains(id) && c(id)) }
    else { r.true_forbids@.contains(id) || (r.residual_forbids@.contains(id) && c(id)) }
}
pub open spec fn completed_decision(r: Response, c: spec_fn(PolicyID) -> bool) -> Decision {
    if (exists|id: PolicyID| c_sat(r, c, true, id)) && !(exists|id: PolicyID| c_sat(r, c, false, id)) { Decision::Allow } else { Decision::Deny }
}
/// every definite decision is the decision of every completion
pub open spec fn decision_sound(r: Response) -> bool {
    forall|c: spec_fn(PolicyID) -> bool| r.decision is Some ==> #[trigger] completed_decision(r, c) == r.decision->Some_0
}
/// a decision is reached whenever no residual policy is still partial
pub open spec fn decision_definite(r: Response) -> bool {
    (forall|id: PolicyID| !r.residual_permits@.contains(id) && !r.residual_forbids@.contains(id)) ==> r.decision is Some
}
pub open spec fn nonempty<A>(s: SSet<A>) -> bool { exists|a: A| s.contains(a) }
pub proof fn lemma_nonempty_empty<A>(s: SSet<A>)
    ensures nonempty(s) <==> !(s =~= SSet::<A>::empty())
{
    if !(s =~= SSet::<A>::empty()) {
        let a = choose|a: A| s.contains(a) != SSet::<A>::empty().contains(a);
        assert(s.contains(a));
    }
}
pub proof fn lemma_table_sound(r: Response)
    requires r.decision == (if nonempty(r.true_forbids@) { Some(Decision::Deny) } else if !nonempty(r.true_permits@) && !nonempty(r.residual_permits@) { Some(Decision::Deny) }
        else if nonempty(r.residual_forbids@) { None } else if !nonempty(r.true_permits@) { None } else { Some(Decision::Allow) })
    ensures decision_sound(r), decision_definite(r)
{
    assert forall|c: spec_fn(PolicyID) -> bool| r.decision is Some implies #[trigger] completed_decision(r, c) == r.decision->Some_0 by {
        if nonempty(r.true_forbids@) { let a = choose|a: PolicyID| r.true_forbids@.contains(a); assert(c_sat(r, c, false, a)); }
        if nonempty(r.true_permits@) { let a = choose|a: PolicyID| r.true_permits@.contains(a); assert(c_sat(r, c, true, a)); }
        if !nonempty(r.true_forbids@) && !nonempty(r.residual_forbids@) {
            assert forall|id: PolicyID| !c_sat(r, c, false, id) by {}
        }
        if !nonempty(r.true_permits@) && !nonempty(r.residual_permits@) {
            assert forall|id: PolicyID| !c_sat(r, c, true, id) by {}
        }
    }
}

/// no claim is made through the generic `From` spec; the impl's own contract is used at statically resolved call sites
impl vstd::std_specs::convert::FromSpecImpl<ResidualPolicy> for Policy {
    open spec fn obeys_from_spec() -> bool { false }
    open spec fn from_spec(v: ResidualPolicy) -> Policy { arbitrary() }
}

/// the determining-policy ids of a definite decision: the satisfied permits for Allow, the satisfied forbids for Deny
pub open spec fn reason_set(r: Response) -> SSet<PolicyID> { if r.decision == Some(Decision::Allow) { r.true_permits@ } else { r.true_forbids@ } }
/// ps is the policy-set view of the response: exactly its residual policies
pub open spec fn is_policy_set_of(ps: PolicySet, residuals: Map<PolicyID, ResidualPolicy>) -> bool {
    (forall|k: PolicyID| residuals.contains_key(k) ==> ps.links().contains_key(k) && is_residual_policy(#[trigger] ps.links()[k], residuals[k]))
    && (forall|k: PolicyID| ps.links().contains_key(k) ==> residuals.contains_key(k))
}
