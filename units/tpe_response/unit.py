"""Unit tpe_response: tpe::Response (decision table, views) and the Residual predicates (C14, C15 kernel)."""
from vx.assemble import Fn, Type, Raw, Loop, ClosureRw

PROPERTIES = ['C14']
HEADER = '#![feature(allocator_api)]'
STDMODEL = ['iter.rs', 'hash.rs', 'std.rs']
RESP = 'cedar-policy-core/src/tpe/response.rs'
RES = 'cedar-policy-core/src/tpe/residual.rs'
POLICY = 'cedar-policy-core/src/ast/policy.rs'
AUTHZ = 'cedar-policy-core/src/authorizer.rs'
VALUE = 'cedar-policy-core/src/ast/value.rs'
LIT = 'cedar-policy-core/src/ast/literal.rs'

ASSUMPTIONS = [
    'Policy::from_when_clause_annos builds a policy with exactly the given effect, id, annotations and when-condition; Policy::{id,effect,annotations_arc} are accessors.',
    'impl From<Residual> for Expr is an opaque spec function residual_expr (the conversion itself is not verified).',
    'PolicySet::{new,add} as contracted in unit policyset (links view).',
    'ResidualKind, Type, Set and extension values are opaque in this unit.',
]
DERIVE = ['derive(Clone, Copy, PartialEq, Eq)']
W = "impl<'a> Response<'a>"
ITER_RP = (r'impl Iterator<Item = &ResidualPolicy>', 'VxIter<&ResidualPolicy>')


def accessor(name):
    return Fn(RESP, f"impl<'a> Response<'a> > fn {name}", wrap=W,
              requires=[('wf', 'wf(*self)')],
              sig_rewrites=[ITER_RP],
              rewrites=[ClosureRw(r'id', 'id: &PolicyID', ret='&ResidualPolicy', requires='self.residuals@.contains_key(*id)',
                                  ensures='*r == self.residuals@[*id]')],
              ensures=[('members', f'forall|i: int| 0 <= i < r.items().len() ==> self.{name}@.contains(rp_id(*#[trigger] r.items()[i])) && self.residuals@[rp_id(*r.items()[i])] == *r.items()[i]'),
                       ('all', f'forall|id: PolicyID| self.{name}@.contains(id) ==> exists|i: int| 0 <= i < r.items().len() && *(#[trigger] r.items()[i]) == self.residuals@[id]')])


BUCKETS = ['true_permits', 'false_permits', 'error_permits', 'residual_permits', 'true_forbids', 'false_forbids', 'error_forbids', 'residual_forbids']
CLS = {'true': 0, 'false': 1, 'error': 2, 'residual': 3}
INV = [('snapshot', 'it_1.snapshot@.remaining() == rs, distinct_ids(rs)'), ('map', 'map_ok(residual_map@, rs, it_1.index@)')]
for b in BUCKETS:
    k, e = b.split('_')
    INV.append((b, f'bucket_ok({b}@, rs, it_1.index@, Effect::{"Permit" if e == "permits" else "Forbid"}, {CLS[k]})'))

ITEMS = [
    Raw(file='prelude.rs', tag='prelude'),
    Type(POLICY, 'enum Effect', attrs=DERIVE),
    Type(AUTHZ, 'enum Decision', attrs=DERIVE),
    Type(LIT, 'enum Literal'),
    Type(VALUE, 'enum ValueKind'),
    Type(VALUE, 'struct Value'),
    Type(RES, 'enum Residual'),
    Type(RESP, 'struct ResidualPolicy'),
    Type(RESP, 'struct Response'),
    Raw(file='spec.rs', tag='spec'),

    Fn(RES, 'impl Residual > fn is_true', wrap='impl Residual', ensures=[('class', 'r == (class(*self) == 0)')]),
    Fn(RES, 'impl Residual > fn is_false', wrap='impl Residual', ensures=[('class', 'r == (class(*self) == 1)')]),
    Fn(RES, 'impl Residual > fn is_error', wrap='impl Residual', ensures=[('class', 'r == (class(*self) == 2)')]),
    Fn(RES, 'impl Residual > fn is_concrete', wrap='impl Residual', ensures=[('variant', 'r == (*self is Concrete)')], props=['C14', 'C15']),
    Fn(RES, 'impl Residual > fn is_partial', wrap='impl Residual', ensures=[('variant', 'r == (*self is Partial)')], props=['C14', 'C15']),

    Fn(RESP, 'impl ResidualPolicy > fn new', name='ResidualPolicy::new', wrap='impl ResidualPolicy',
       ensures=[('fields', 'r.residual == residual && r.policy == policy')]),
    Fn(RESP, 'impl ResidualPolicy > fn get_effect', wrap='impl ResidualPolicy', ensures=[('eff', 'r == rp_eff(*self)')]),
    Fn(RESP, 'impl ResidualPolicy > fn get_residual', wrap='impl ResidualPolicy', ensures=[('res', 'r == self.residual')]),
    Fn(RESP, 'impl ResidualPolicy > fn get_policy_id', wrap='impl ResidualPolicy', ensures=[('id', '*r == rp_id(*self)')]),
    Fn(RESP, 'impl From<ResidualPolicy> for Policy > fn from', name='Policy::from', wrap='impl From<ResidualPolicy> for Policy', vis='',
       rewrites=[(r'Expr::from\(value\.residual\.as_ref\(\)\.clone\(\)\)', r'<Expr as From<Residual>>::from(value.residual.as_ref().clone())', 1)],
       ensures=[('residual_policy', 'is_residual_policy(r, value)')]),

    Fn(RESP, "impl<'a> Response<'a> > fn new", name='Response::new', wrap=W,
       sig_rewrites=[(r'impl Iterator<Item = ResidualPolicy>', 'VxIter<ResidualPolicy>', 1)],
       requires=[('distinct', 'distinct_ids(residuals.items())')],
       ensures=[('partition', 'all_ok(r, residuals.items(), residuals.items().len() as int)'),
                ('wf', 'wf(r)'),
                ('sound', 'decision_sound(r)'),
                ('definite', 'decision_definite(r)')],
       proof_start='let ghost rs = residuals.items();',
       loops={1: Loop(iter_suffix='.vx_for()', invariant=INV)},
       proof_tail='''proof {
            lemma_nonempty_empty(__vx_r.true_forbids@); lemma_nonempty_empty(__vx_r.true_permits@);
            lemma_nonempty_empty(__vx_r.residual_permits@); lemma_nonempty_empty(__vx_r.residual_forbids@);
            lemma_table_sound(__vx_r);
        }'''),
] + [accessor(b) for b in BUCKETS] + [
    Fn(RESP, "impl<'a> Response<'a> > fn get_residual_policy", wrap=W,
       ensures=[('lookup', 'r == (if self.residuals@.contains_key(*id) { Some(&self.residuals@[*id]) } else { None })')]),
    Fn(RESP, "impl<'a> Response<'a> > fn decision", wrap=W, ensures=[('field', 'r == self.decision')]),
    Fn(RESP, "impl<'a> Response<'a> > fn reason", wrap=W,
       sig_rewrites=[(r'Option<impl Iterator<Item = &PolicyID>>', 'Option<VxIter<&PolicyID>>', 1)],
       ensures=[('some', 'r is Some <==> self.decision is Some'),
                ('members', 'r is Some ==> forall|i: int| 0 <= i < r->Some_0.items().len() ==> reason_set(*self).contains(*(#[trigger] r->Some_0.items()[i]))'),
                ('all', 'r is Some ==> forall|id: PolicyID| reason_set(*self).contains(id) ==> exists|i: int| 0 <= i < r->Some_0.items().len() && *(#[trigger] r->Some_0.items()[i]) == id')],
       proof_tail='''proof {
            let it = __vx_r->Some_0;
            if self.decision == Some(Decision::Allow) {
                assert(reason_set(*self) == self.true_permits@);
                assert forall|id: PolicyID| self.true_permits@.contains(id) implies exists|i: int| 0 <= i < it.items().len() && *(#[trigger] it.items()[i]) == id by {}
            } else {
                assert(reason_set(*self) == self.true_forbids@);
                assert forall|id: PolicyID| self.true_forbids@.contains(id) implies exists|i: int| 0 <= i < it.items().len() && *(#[trigger] it.items()[i]) == id by {}
            }
        }'''),
    Fn(RESP, "impl<'a> Response<'a> > fn policies", wrap=W, sig_rewrites=[ITER_RP],
       ensures=[('values', 'self.residuals.order_ok() && r.items().len() == self.residuals.key_order().len() && forall|i: int| 0 <= i < r.items().len() ==> *(#[trigger] r.items()[i]) == self.residuals@[self.residuals.key_order()[i]]')]),
    Fn(RESP, "impl<'a> Response<'a> > fn policy_set", wrap=W,
       requires=[('wf', 'wf(*self)')],
       ensures=[('residuals', 'forall|k: PolicyID| self.residuals@.contains_key(k) ==> r.links().contains_key(k) && is_residual_policy(#[trigger] r.links()[k], self.residuals@[k])'),
                ('only', 'forall|k: PolicyID| r.links().contains_key(k) ==> self.residuals@.contains_key(k)'),
                ('view', 'is_policy_set_of(r, self.residuals@)')],
       loops={1: Loop(iter_suffix='.vx_for()', invariant=[
           ('snapshot', 'wf(*self), self.residuals.order_ok(), it_1.snapshot@.remaining().len() == self.residuals.key_order().len()'),
           ('items', 'forall|i: int| 0 <= i < self.residuals.key_order().len() ==> *(#[trigger] it_1.snapshot@.remaining()[i]) == self.residuals@[self.residuals.key_order()[i]]'),
           ('added', 'forall|i: int| 0 <= i < it_1.index@ ==> ps.links().contains_key(#[trigger] self.residuals.key_order()[i]) && is_residual_policy(ps.links()[self.residuals.key_order()[i]], self.residuals@[self.residuals.key_order()[i]])'),
           ('only', 'forall|k: PolicyID| ps.links().contains_key(k) ==> exists|i: int| 0 <= i < it_1.index@ && #[trigger] self.residuals.key_order()[i] == k'),
       ], proof_start='''proof {
                let k = it_1.index@; let ks = self.residuals.key_order();
                assert(self.residuals@.dom().contains(ks[k]));
                assert(*p == self.residuals@[ks[k]]);
                assert(rp_id(*p) == ks[k]);
                if ps.links().contains_key(ks[k]) {
                    let i = choose|i: int| 0 <= i < k && #[trigger] ks[i] == ks[k];
                    assert(false);
                }
            }''')},
       proof_tail='''proof {
            assert forall|k: PolicyID| self.residuals@.contains_key(k) implies __vx_r.links().contains_key(k) && is_residual_policy(#[trigger] __vx_r.links()[k], self.residuals@[k]) by {
                assert(self.residuals.key_order().contains(k));
                let i = choose|i: int| 0 <= i < self.residuals.key_order().len() && self.residuals.key_order()[i] == k;
            }
        }'''),
    Fn(RESP, "impl<'a> Response<'a> > fn reauthorize", wrap=W,
       sig_rewrites=[(r'crate::authorizer::Response', 'AuthzResponse', 1)],
       requires=[('wf', 'wf(*self)')],
       ensures=[('guards', 'r is Ok <==> sp_request_valid(self.schema, *request) && (forall|i: int| 0 <= i < entities.spec_all().len() ==> sp_entity_conforms(self.schema, #[trigger] entities.spec_all()[i])) && sp_entities_consistent(self.entities, entities) && sp_request_consistent(self.request, *request)'),
                ('answer', 'r is Ok ==> exists|ps: PolicySet| #[trigger] is_policy_set_of(ps, self.residuals@) && r->Ok_0 == sp_is_authorized(*request, ps, entities)')],
       loops={1: Loop(iter_suffix='.vx_for()', invariant=[
           ('snapshot', 'entities_checker.spec_schema() == self.schema && it_1.snapshot@.remaining().len() == entities.spec_all().len() && forall|i: int| 0 <= i < entities.spec_all().len() ==> *(#[trigger] it_1.snapshot@.remaining()[i]) == entities.spec_all()[i]'),
           ('done', 'forall|i: int| 0 <= i < it_1.index@ ==> sp_entity_conforms(self.schema, #[trigger] entities.spec_all()[i])'),
       ])}),
]
CANARIES = ['Response::new', 'policy_set']
