// ---- the TCNode trait with a spec view (the trait's meaning; implementations are checked against it in unit entity_hier) ----
/// The real trait returns `Box<dyn Iterator<Item = &K>>` from out_edges; here it returns the model iterator (rewrite listed).
pub trait TCNode<K>: Sized {
    /// the set of keys this node has an edge to
    spec fn edges(&self) -> SSet<K>;
    /// the node's own key
    spec fn key(&self) -> K;
    /// representation invariant of the node
    spec fn node_wf(&self) -> bool;
    fn get_key(&self) -> (r: K) ensures r == self.key();
    fn add_edge_to(&mut self, k: K)
        requires old(self).node_wf()
        ensures final(self).node_wf(), final(self).edges() == old(self).edges().insert(k), final(self).key() == old(self).key();
    fn out_edges(&self) -> (r: VxIter<&K>)
        ensures forall|i: int| 0 <= i < r.items().len() ==> self.edges().contains(*(#[trigger] r.items()[i])),
            forall|k: K| self.edges().contains(k) ==> exists|i: int| 0 <= i < r.items().len() && *(#[trigger] r.items()[i]) == k;
    fn has_edge_to(&self, k: &K) -> (r: bool) ensures r == self.edges().contains(*k);
    fn reset_edges(&mut self)
        requires old(self).node_wf()
        ensures final(self).node_wf(), final(self).key() == old(self).key();
    /// the direct (base) edges of this node: a subset of its edges
    spec fn direct(&self) -> SSet<K>;
    fn direct_edges(&self) -> (r: VxIter<&K>)
        ensures self.direct().subset_of(self.edges()),
            forall|i: int| 0 <= i < r.items().len() ==> self.direct().contains(*(#[trigger] r.items()[i])),
            forall|k: K| self.direct().contains(k) ==> exists|i: int| 0 <= i < r.items().len() && *(#[trigger] r.items()[i]) == k;
}
