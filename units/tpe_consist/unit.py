"""Unit tpe_consist: the consistency checks between the partial inputs of type-aware partial evaluation and a concrete
request / entity store accept exactly the completions (C14)."""
from vx.assemble import Fn, Type, Raw, Loop, ClosureRw, FnRw, cmp_rw

PROPERTIES = ['C14', 'C15']
HEADER = '#![feature(allocator_api)]'
STDMODEL = ['iter.rs', 'hash.rs', 'hash_entry.rs', 'btree.rs', 'std.rs']
REQ = 'cedar-policy-core/src/tpe/request.rs'
ENT = 'cedar-policy-core/src/tpe/entities.rs'
AREQ = 'cedar-policy-core/src/ast/request.rs'
ASSUMPTIONS = [
    'Equality of EntityType / Eid / EntityUID / Value and of maps and sets of them is spec equality (derived PartialEq).',
    'The nested helper as_values (attribute / tag values of a concrete entity, failing on an unknown) and the collection of the ancestor set are replaced by accessor functions of the opaque Entity with that meaning.',
    'Entities::entity: contract proved in unit store. Which consistency error is reported is not decided, only acceptance.',
]
ITEMS = [
    Raw(file='prelude.rs', tag='prelude'),
    Type(REQ, 'struct PartialEntityUID'),
    Type(REQ, 'enum PartialEUIDConsistencyError'),
    Type(REQ, 'struct PartialRequest'),
    Type(AREQ, 'enum EntityUIDEntry'),
    Type(AREQ, 'enum Context'),
    Type(AREQ, 'struct Request'),
    Type(ENT, 'struct PartialEntity'),
    Type(ENT, 'struct PartialEntities'),
    Raw(file='prelude2.rs', tag='prelude'),
    Fn(REQ, 'impl PartialEntityUID > fn check_consistency', name='PartialEntityUID::check_consistency', wrap='impl PartialEntityUID',
       rewrites=[(r'euid\.entity_type\(\) != &self\.ty', 'vx_etype_ne(euid.entity_type(), &self.ty)', 1),
                 (r'eid != euid\.eid\(\)', 'vx_eid_ne(eid, euid.eid())', 1)],
       ensures=[('exact', 'r is Ok <==> uid_consistent(*self, *entry)')]),
    Fn(REQ, 'impl PartialRequest > fn check_consistency', name='PartialRequest::check_consistency', wrap='impl PartialRequest',
       rewrites=[ClosureRw(r'e', 'e: PartialEUIDConsistencyError', 'RequestConsistencyError', count=2),
                 (r'euid\.as_ref\(\) != &self\.action', 'vx_uid_ne(euid.as_ref(), &self.action)', 1),
                 (r'(?s)InconsistentActionError \{[^{}]*\}\s*\.into\(\)', 'vx_rce()', None),
                 (r'c != m', 'vx_arcmap_ne(c, m)', 1),
                 (r'RequestConsistencyError::\w+', 'vx_rce()', None)],
       ensures=[('exact', 'r is Ok <==> request_consistent(*self, *request)')]),
    Fn(ENT, 'impl PartialEntity > fn check_consistency', name='PartialEntity::check_consistency', wrap='impl PartialEntity',
       rewrites=[(r'(?s)fn as_values<.*?\.collect\(\)\s*\}', '', 1),
                 (r'(?s)as_values\(entity\.attrs\(\)\)\.map_err\(\|attr\| UnknownAttributeError \{.*?\}\)\?', 'entity.vx_attr_values().map_err(|attr: SmolStr| -> (x: EntityConsistencyError) { vx_ece() })?', 1),
                 (r'(?s)as_values\(entity\.tags\(\)\)\.map_err\(\|tag\| UnknownTagError \{.*?\}\)\?', 'entity.vx_tag_values().map_err(|tag: SmolStr| -> (x: EntityConsistencyError) { vx_ece() })?', 1),
                 (r'let other_ancestors: HashSet<EntityUID> = entity\.ancestors\(\)\.cloned\(\)\.collect\(\);', 'let other_ancestors: HashSet<EntityUID> = entity.vx_ancestor_set();', 1),
                 (r'attrs != &other_attrs', 'vx_valmap_ne(attrs, &other_attrs)', 1),
                 (r'tags != &other_tags', 'vx_valmap_ne(tags, &other_tags)', 1),
                 (r'ancestors != &other_ancestors', 'vx_uidset_ne(ancestors, &other_ancestors)', 1),
                 (r'(?s)Mismatched\w+Error \{[^{}]*\}\s*\.into\(\)', 'vx_ece()', None)],
       ensures=[('exact', 'r is Ok <==> entity_consistent(*self, *entity)')]),
    Fn(ENT, 'impl PartialEntities > fn check_consistency', name='PartialEntities::check_consistency', wrap='impl PartialEntities',
       rewrites=[(r'for \(uid, e\) in &self\.entities \{', 'for _vxp in self.entities.iter() { let (uid, e) = _vxp;', 1),
                 (r'(?s)(Missing|Unknown)EntityError \{ uid: uid\.clone\(\) \}\.into\(\)', 'vx_esce()', None)],
       ensures=[('exact', 'r is Ok <==> entities_consistent(*self, concrete)')],
       proof_start='broadcast use axiom_hashmap_order_ok;',
       loops={1: Loop(iter_suffix='.vx_for()', invariant=[
           ('snapshot', 'self.entities.order_ok() && it_1.snapshot@.remaining().len() == self.entities.key_order().len() && forall|i: int| 0 <= i < self.entities.key_order().len() ==> *(#[trigger] it_1.snapshot@.remaining()[i]).0 == self.entities.key_order()[i] && *it_1.snapshot@.remaining()[i].1 == self.entities@[self.entities.key_order()[i]]'),
           ('done', 'forall|i: int| 0 <= i < it_1.index@ ==> concrete.spec_get(#[trigger] self.entities.key_order()[i]) is Some && entity_consistent(self.entities@[self.entities.key_order()[i]], concrete.spec_get(self.entities.key_order()[i])->Some_0)'),
       ])}),
    Fn(ENT, 'impl PartialEntities > fn add_entity_trusted', name='PartialEntities::add_entity_trusted', wrap='impl PartialEntities', props=['C15'],
       rewrites=[(r'Entry::', 'hash_map::Entry::', None), (r'(?s)Duplicate \{\s*euid: e\.key\(\)\.clone\(\),\s*\}\s*\.into\(\)', 'vx_dup(e.key().clone())', 1)],
       ensures=[('ok_iff', 'r is Ok <==> !old(self).entities@.contains_key(uid)'),
                ('added', 'r is Ok ==> final(self).entities@ == old(self).entities@.insert(uid, entity)'),
                ('unchanged_on_error', 'r is Err ==> final(self).entities@ == old(self).entities@')]),
    Fn(ENT, 'impl PartialEntities > fn contains_entity', name='PartialEntities::contains_entity', wrap='impl PartialEntities', props=['C15'],
       ensures=[('known', 'r == self.entities@.contains_key(*euid)')]),
]
CANARIES = ['PartialRequest::check_consistency', 'PartialEntities::check_consistency']
