impl PartialEUIDConsistencyError {
    #[verifier::external_body] pub fn into_resource_error(self) -> (r: RequestConsistencyError) { unimplemented!() }
    #[verifier::external_body] pub fn into_principal_error(self) -> (r: RequestConsistencyError) { unimplemented!() }
}
/// the concrete entity (ast::Entity): attribute / tag maps with possibly-unknown values, and its ancestor set
#[verifier::external_body] pub struct Entity { _p: u8 }
pub enum PartialValue { Value(Value), Residual(Expr) }
impl Entity {
    pub uninterp spec fn spec_attrs(&self) -> Map<SmolStr, PartialValue>;
    pub uninterp spec fn spec_tags(&self) -> Map<SmolStr, PartialValue>;
    pub uninterp spec fn spec_ancestors(&self) -> SSet<EntityUID>;
    /// the values of a map that has no unknown entry
    #[verifier::external_body] pub fn vx_attr_values(&self) -> (r: std::result::Result<BTreeMap<SmolStr, Value>, SmolStr>)
        ensures r is Ok <==> all_values(self.spec_attrs()), r is Ok ==> r->Ok_0@ =~= values_of(self.spec_attrs()) { unimplemented!() }
    #[verifier::external_body] pub fn vx_tag_values(&self) -> (r: std::result::Result<BTreeMap<SmolStr, Value>, SmolStr>)
        ensures r is Ok <==> all_values(self.spec_tags()), r is Ok ==> r->Ok_0@ =~= values_of(self.spec_tags()) { unimplemented!() }
    #[verifier::external_body] pub fn vx_ancestor_set(&self) -> (r: HashSet<EntityUID>) ensures r@ =~= self.spec_ancestors() { unimplemented!() }
}
pub open spec fn all_values(m: Map<SmolStr, PartialValue>) -> bool { forall|k: SmolStr| #[trigger] m.contains_key(k) ==> m[k] is Value }
pub open spec fn values_of(m: Map<SmolStr, PartialValue>) -> Map<SmolStr, Value> { m.map_values(|v: PartialValue| v->Value_0) }
/// the concrete store's lookup (Entities::entity: proved in unit store)
#[verifier::external_body] pub struct Entities { _p: u8 }
pub enum Dereference<'a, T> { NoSuchEntity, Residual(Expr), Data(&'a T) }
impl Entities {
    pub uninterp spec fn spec_get(&self, uid: EntityUID) -> Option<Entity>;
    pub uninterp spec fn spec_partial(&self) -> bool;
    #[verifier::external_body] pub fn entity(&self, uid: &EntityUID) -> (r: Dereference<'_, Entity>)
        ensures match r { Dereference::Data(e) => self.spec_get(*uid) == Some(*e), Dereference::NoSuchEntity => self.spec_get(*uid) is None && !self.spec_partial(), Dereference::Residual(_) => self.spec_get(*uid) is None && self.spec_partial() }
    { unimplemented!() }
}
// ---- C14: when a concrete request / store is a completion of the partial one ----
pub open spec fn uid_consistent(p: PartialEntityUID, e: EntityUIDEntry) -> bool {
    e is Known && e->Known_euid.spec_type() == p.ty && (p.eid is Some ==> p.eid->Some_0 == e->Known_euid.spec_eid())
}
pub open spec fn request_consistent(p: PartialRequest, r: Request) -> bool {
    uid_consistent(p.principal, r.principal) && uid_consistent(p.resource, r.resource)
    && r.action is Known && *r.action->Known_euid == p.action
    && r.context is Some && r.context->Some_0 is Value && (p.context is Some ==> r.context->Some_0->Value_0@ =~= p.context->Some_0@)
}
pub open spec fn entity_consistent(p: PartialEntity, e: Entity) -> bool {
    (p.attrs is Some ==> all_values(e.spec_attrs()) && p.attrs->Some_0@ =~= values_of(e.spec_attrs()))
    && (p.ancestors is Some ==> p.ancestors->Some_0@ =~= e.spec_ancestors())
    && (p.tags is Some ==> all_values(e.spec_tags()) && p.tags->Some_0@ =~= values_of(e.spec_tags()))
}
pub open spec fn entities_consistent(p: PartialEntities, c: &Entities) -> bool {
    forall|u: EntityUID| #[trigger] p.entities@.contains_key(u) ==> c.spec_get(u) is Some && entity_consistent(p.entities@[u], c.spec_get(u)->Some_0)
}
