// ---- tpe_consist prelude (trusted declarations) ----
#[verifier::external_body] pub struct EntityType { _p: u8 }
#[verifier::external_body] pub struct Eid { _p: u8 }
#[verifier::external_body] pub struct Loc { _p: u8 }
#[verifier::external_body] pub struct SmolStr { _p: u8 }
#[verifier::external_body] pub struct Value { _p: u8 }
#[verifier::external_body] pub struct Expr { _p: u8 }
#[verifier::external_body] pub struct EntityUID { _p: u8 }
impl Clone for EntityType { #[verifier::external_body] fn clone(&self) -> (r: Self) ensures r == *self { unimplemented!() } }
impl Clone for Eid { #[verifier::external_body] fn clone(&self) -> (r: Self) ensures r == *self { unimplemented!() } }
impl Clone for EntityUID { #[verifier::external_body] fn clone(&self) -> (r: Self) ensures r == *self { unimplemented!() } }
impl Clone for SmolStr { #[verifier::external_body] fn clone(&self) -> (r: Self) ensures r == *self { unimplemented!() } }
impl Clone for Value { #[verifier::external_body] fn clone(&self) -> (r: Self) ensures r == *self { unimplemented!() } }
impl EntityUID {
    pub uninterp spec fn spec_type(&self) -> EntityType;
    pub uninterp spec fn spec_eid(&self) -> Eid;
    #[verifier::external_body] pub fn entity_type(&self) -> (r: &EntityType) ensures *r == self.spec_type() { unimplemented!() }
    #[verifier::external_body] pub fn eid(&self) -> (r: &Eid) ensures *r == self.spec_eid() { unimplemented!() }
}
/// derived / structural equalities on opaque types are spec equality (trusted)
#[verifier::external_body] pub fn vx_etype_ne(a: &EntityType, b: &EntityType) -> (r: bool) ensures r == (*a != *b) { unimplemented!() }
#[verifier::external_body] pub fn vx_eid_ne(a: &Eid, b: &Eid) -> (r: bool) ensures r == (*a != *b) { unimplemented!() }
#[verifier::external_body] pub fn vx_uid_ne(a: &EntityUID, b: &EntityUID) -> (r: bool) ensures r == (*a != *b) { unimplemented!() }
/// `BTreeMap<SmolStr, Value> != BTreeMap<SmolStr, Value>`: same keys with equal values (Value equality as spec equality)
#[verifier::external_body] pub fn vx_valmap_ne(a: &BTreeMap<SmolStr, Value>, b: &BTreeMap<SmolStr, Value>) -> (r: bool) ensures r == !(a@ =~= b@) { unimplemented!() }
#[verifier::external_body] pub fn vx_arcmap_ne(a: &Arc<BTreeMap<SmolStr, Value>>, b: &Arc<BTreeMap<SmolStr, Value>>) -> (r: bool) ensures r == !(a@ =~= b@) { unimplemented!() }
#[verifier::external_body] pub fn vx_uidset_ne(a: &HashSet<EntityUID>, b: &HashSet<EntityUID>) -> (r: bool) ensures r == !(a@ =~= b@) { unimplemented!() }
// error types: only whether an error is returned is specified
#[verifier::external_body] pub struct RequestConsistencyError { _p: u8 }
#[verifier::external_body] pub struct EntityConsistencyError { _p: u8 }
#[verifier::external_body] pub struct EntitiesConsistencyError { _p: u8 }
#[verifier::external_body] pub fn vx_rce() -> (r: RequestConsistencyError) { unimplemented!() }
#[verifier::external_body] pub fn vx_ece() -> (r: EntityConsistencyError) { unimplemented!() }
#[verifier::external_body] pub fn vx_esce() -> (r: EntitiesConsistencyError) { unimplemented!() }
impl vstd::std_specs::convert::FromSpecImpl<EntityConsistencyError> for EntitiesConsistencyError { open spec fn obeys_from_spec() -> bool { false } uninterp spec fn from_spec(v: EntityConsistencyError) -> EntitiesConsistencyError; }
impl From<EntityConsistencyError> for EntitiesConsistencyError { #[verifier::external_body] fn from(v: EntityConsistencyError) -> (r: EntitiesConsistencyError) { unimplemented!() } }
#[verifier::external_body] pub struct EntitiesError { _p: u8 }
#[verifier::external_body] pub fn vx_dup(u: EntityUID) -> (r: EntitiesError) { unimplemented!() }
